(* C10 / C11: the logger tree.  Mirrors slog/entry.go newentry,
   newChildLogger, the With*/Set* pairs, WithSkip/SetSkip, Parent/Root/
   Sublogger/Each, slog/new.go New and slog/level.go SetLevel/GetLevel.
   Loggers are identified by their creation index.  No proofs here. *)
Require Import Verif.Model.Base Verif.Model.Mode Verif.Model.Writers.

(* logger names are only ever compared for equality *)
Inductive lname :=
| NEmpty                      (* "" : a detached logger without name *)
| NStr (k : Z)                (* a name chosen by the user; k identifies the string *)
| NAnon (k : nat)             (* the k-th random name drawn (assumed fresh) *)
| NSkip (p : lname) (n : Z).  (* fmt.Sprintf("c/%s[%d]", parent name, n) *)

Fixpoint lname_eqb (a b : lname) : bool :=
  match a, b with
  | NEmpty, NEmpty => true
  | NStr x, NStr y => x =? y
  | NAnon x, NAnon y => Nat.eqb x y
  | NSkip p n, NSkip q m => lname_eqb p q && (n =? m)
  | _, _ => false
  end.

Record entry := {
  e_name : lname;
  e_owner : option nat;
  e_mode : mflags;
  e_layout : Z;              (* 0 = no layout set; otherwise identifies the layout string *)
  e_utc : Z;                 (* 0 unset, 1 local, 2 utc *)
  e_level : Z;
  e_attrs : list Z;          (* opaque attribute ids, in order *)
  e_writer : option dualwriter;
  e_skip : Z;
  e_ctxkeys : list Z
}.

Record world := {
  entries : list entry;
  next_anon : nat;
  dbg : bool;                (* process-wide debug mode (states.Env()) *)
  trc : bool;                (* process-wide trace mode *)
  deflevel : Z               (* lvlCurrent *)
}.

Definition lvl_debug : Z := 5.
Definition lvl_trace : Z := 6.
Definition lvl_warn : Z := 3.

Inductive setop :=
| SLevel (l : Z)
| SJSON (b : list bool)
| SColor (b : list bool)
| SUTC (b : list bool)
| STimeFmt (ls : list Z)      (* layout ids; 0 stands for the empty string *)
| SAttrs (a : list Z)         (* SetAttrs / SetAttrs1 / Set: append *)
| SCtxKeys (k : list Z)
| SWriter (o : wop).

Section WithPool.
Variable is_logwriter : wid -> bool.

Definition with_mode (e : entry) (m : mflags) : entry :=
  {| e_name := e_name e; e_owner := e_owner e; e_mode := m; e_layout := e_layout e;
     e_utc := e_utc e; e_level := e_level e; e_attrs := e_attrs e; e_writer := e_writer e;
     e_skip := e_skip e; e_ctxkeys := e_ctxkeys e |}.
Definition with_skip (e : entry) (n : Z) : entry :=
  {| e_name := e_name e; e_owner := e_owner e; e_mode := e_mode e; e_layout := e_layout e;
     e_utc := e_utc e; e_level := e_level e; e_attrs := e_attrs e; e_writer := e_writer e;
     e_skip := n; e_ctxkeys := e_ctxkeys e |}.
Definition with_ctxkeys (e : entry) (k : list Z) : entry :=
  {| e_name := e_name e; e_owner := e_owner e; e_mode := e_mode e; e_layout := e_layout e;
     e_utc := e_utc e; e_level := e_level e; e_attrs := e_attrs e; e_writer := e_writer e;
     e_skip := e_skip e; e_ctxkeys := k |}.

(* SetUTCMode: mode := 2; for bb { if bb {mode = 2} else {mode = 1} } *)
Definition utc_of (b : list bool) : Z :=
  fold_left (fun _ bb => if bb : bool then 2 else 1) b 2.
(* SetTimeFormat: lay := RFC3339Nano (id 1); for ll { if ll != "" { lay = ll } } *)
Definition layout_rfc3339nano : Z := 1.
Definition layout_of (ls : list Z) : Z :=
  fold_left (fun lay ll => if ll =? 0 then lay else ll) ls layout_rfc3339nano.

(* the Set* call on one entry; returns the entry and the new (dbg, trc) *)
Definition apply_set (e : entry) (g : bool * bool) (s : setop) : entry * (bool * bool) :=
  match s with
  | SLevel l =>
      ({| e_name := e_name e; e_owner := e_owner e; e_mode := e_mode e; e_layout := e_layout e;
          e_utc := e_utc e; e_level := l; e_attrs := e_attrs e; e_writer := e_writer e;
          e_skip := e_skip e; e_ctxkeys := e_ctxkeys e |},
       (if l =? lvl_debug then true else fst g, if l =? lvl_trace then true else snd g))
  | SJSON b => (with_mode e (set_json_mode b (e_mode e)), g)
  | SColor b => (with_mode e (set_color_mode b (e_mode e)), g)
  | SUTC b =>
      ({| e_name := e_name e; e_owner := e_owner e; e_mode := e_mode e; e_layout := e_layout e;
          e_utc := utc_of b; e_level := e_level e; e_attrs := e_attrs e; e_writer := e_writer e;
          e_skip := e_skip e; e_ctxkeys := e_ctxkeys e |}, g)
  | STimeFmt ls =>
      ({| e_name := e_name e; e_owner := e_owner e; e_mode := e_mode e; e_layout := layout_of ls;
          e_utc := e_utc e; e_level := e_level e; e_attrs := e_attrs e; e_writer := e_writer e;
          e_skip := e_skip e; e_ctxkeys := e_ctxkeys e |}, g)
  | SAttrs a =>
      ({| e_name := e_name e; e_owner := e_owner e; e_mode := e_mode e; e_layout := e_layout e;
          e_utc := e_utc e; e_level := e_level e; e_attrs := e_attrs e ++ a; e_writer := e_writer e;
          e_skip := e_skip e; e_ctxkeys := e_ctxkeys e |}, g)
  | SCtxKeys k => (with_ctxkeys e (e_ctxkeys e ++ k), g)
  | SWriter o =>
      ({| e_name := e_name e; e_owner := e_owner e; e_mode := e_mode e; e_layout := e_layout e;
          e_utc := e_utc e; e_level := e_level e; e_attrs := e_attrs e;
          e_writer := wstep is_logwriter (e_writer e) o;
          e_skip := e_skip e; e_ctxkeys := e_ctxkeys e |}, g)
  end.

Definition apply_sets (e : entry) (g : bool * bool) (ss : list setop) : entry * (bool * bool) :=
  fold_left (fun eg s => apply_set (fst eg) (snd eg) s) ss (e, g).

(* newentry(parent, ...) before options *)
Definition fresh_entry (w : world) (parent : option nat) (name : lname) : entry :=
  let '(m, lv) :=
    match parent with
    | Some p => match nth_error (entries w) p with
                | Some pe => (e_mode pe, e_level pe)
                | None => ({| useJSON := false; useColor := true |}, deflevel w)
                end
    | None => ({| useJSON := false; useColor := true |}, deflevel w)
    end in
  {| e_name := name; e_owner := parent; e_mode := m; e_layout := 0; e_utc := 0; e_level := lv;
     e_attrs := []; e_writer := None; e_skip := 0; e_ctxkeys := [] |}.

(* s.items[name] *)
Fixpoint find_child_from (es : list entry) (i : nat) (p : nat) (n : lname) : option nat :=
  match es with
  | [] => None
  | e :: t =>
      if (match e_owner e with Some q => Nat.eqb q p | None => false end) && lname_eqb (e_name e) n
      then Some i else find_child_from t (S i) p n
  end.
Definition find_child (w : world) (p : nat) (n : lname) : option nat :=
  find_child_from (entries w) 0 p n.

Definition set_entry (w : world) (i : nat) (e : entry) (g : bool * bool) : world :=
  {| entries := replace_nth i (entries w) e; next_anon := next_anon w;
     dbg := fst g; trc := snd g; deflevel := deflevel w |}.

Definition push_entry (w : world) (e : entry) (g : bool * bool) (anon_used : bool) : world :=
  {| entries := entries w ++ [e];
     next_anon := if anon_used then S (next_anon w) else next_anon w;
     dbg := fst g; trc := snd g; deflevel := deflevel w |}.

Inductive op :=
| ONewPkg (name : option Z) (opts : list setop)        (* slog.New(name?, opts...) *)
| ONew (p : nat) (name : option Z) (opts : list setop)  (* p.New(name?, opts...) *)
| OWith (p : nat) (s : setop)                           (* p.WithXxx(...) *)
| OWithSkip (p : nat) (n : Z)
| OSet (i : nat) (s : setop)                            (* i.SetXxx(...) *)
| OSetSkip (i : nat) (n : Z)
| OResetCtxKeys (i : nat)
| OPkgSetLevel (l : Z).                                 (* slog.SetLevel(l); entry 0 is the default logger *)

(* result of an op: the logger returned (if any) *)
Definition step (w : world) (o : op) : world * option nat :=
  let g := (dbg w, trc w) in
  match o with
  | ONewPkg name opts =>
      let e0 := fresh_entry w None (match name with Some k => NStr k | None => NEmpty end) in
      let '(e, g') := apply_sets e0 g opts in
      (push_entry w e g' false, Some (length (entries w)))
  | ONew p name opts =>
      match nth_error (entries w) p with
      | None => (w, None)
      | Some _ =>
        match name with
        | Some k =>
            match find_child w p (NStr k) with
            | Some j => (w, Some j)
            | None =>
                let '(e, g') := apply_sets (fresh_entry w (Some p) (NStr k)) g opts in
                (push_entry w e g' false, Some (length (entries w)))
            end
        | None =>
            let '(e, g') := apply_sets (fresh_entry w (Some p) (NAnon (next_anon w))) g opts in
            (push_entry w e g' true, Some (length (entries w)))
        end
      end
  | OWith p s =>
      match nth_error (entries w) p with
      | None => (w, None)
      | Some _ =>
          let '(e, g') := apply_set (fresh_entry w (Some p) (NAnon (next_anon w))) g s in
          (push_entry w e g' true, Some (length (entries w)))
      end
  | OWithSkip p n =>
      match nth_error (entries w) p with
      | None => (w, None)
      | Some pe =>
          let nm := NSkip (e_name pe) n in
          match find_child w p nm with
          | Some j =>
              match nth_error (entries w) j with
              | Some ej => (set_entry w j (with_skip ej n) g, Some j)
              | None => (w, None)
              end
          | None =>
              (push_entry w (with_skip (fresh_entry w (Some p) nm) n) g false,
               Some (length (entries w)))
          end
      end
  | OSet i s =>
      match nth_error (entries w) i with
      | None => (w, None)
      | Some e => let '(e', g') := apply_set e g s in (set_entry w i e' g', Some i)
      end
  | OSetSkip i n =>
      match nth_error (entries w) i with
      | None => (w, None)
      | Some e => (set_entry w i (with_skip e n) g, Some i)
      end
  | OResetCtxKeys i =>
      match nth_error (entries w) i with
      | None => (w, None)
      | Some e => (set_entry w i (with_ctxkeys e []) g, Some i)
      end
  | OPkgSetLevel l =>
      match nth_error (entries w) 0 with
      | None => (w, None)
      | Some e =>
          let '(e', g') := apply_set e g (SLevel l) in
          ({| entries := replace_nth 0 (entries w) e'; next_anon := next_anon w;
              dbg := fst g'; trc := snd g'; deflevel := l |}, Some 0%nat)
      end
  end.

Definition run (w : world) (ops : list op) : world := fold_left (fun w o => fst (step w o)) ops w.

(* initial world of a process: the default logger is entry 0, detached, coloured *)
Definition init_world (lvl0 : Z) (dbg0 trc0 : bool) : world :=
  {| entries := [ {| e_name := NEmpty; e_owner := None;
                     e_mode := {| useJSON := false; useColor := true |};
                     e_layout := 0; e_utc := 0; e_level := lvl0; e_attrs := [];
                     e_writer := None; e_skip := 0; e_ctxkeys := [] |} ];
     next_anon := 0; dbg := dbg0; trc := trc0; deflevel := lvl0 |}.

(* ---- lookups ---- *)
Definition parent_of (w : world) (i : nat) : option nat :=
  match nth_error (entries w) i with Some e => e_owner e | None => None end.

(* Root: follow owner links; fuel = number of entries suffices when owner < self *)
Fixpoint root_from (w : world) (fuel : nat) (i : nat) : nat :=
  match fuel with
  | O => i
  | S f => match parent_of w i with Some p => root_from w f p | None => i end
  end.
Definition root_of (w : world) (i : nat) : nat := root_from w (length (entries w)) i.

Fixpoint depth_from (w : world) (fuel : nat) (top i : nat) : option nat :=
  if Nat.eqb i top then Some O else
  match fuel with
  | O => None
  | S f => match parent_of w i with
           | Some p => option_map S (depth_from w f top p)
           | None => None
           end
  end.
(* depth of i below top, None when i is not in top's subtree *)
Definition depth_under (w : world) (top i : nat) : option nat :=
  depth_from w (length (entries w)) top i.

(* Each: all loggers of the subtree with their depth, here in creation order *)
Definition each (w : world) (top : nat) : list (nat * nat) :=
  flat_map (fun i => match depth_under w top i with Some d => [(i, d)] | None => [] end)
           (seq 0 (length (entries w))).

(* Sublogger(name): the candidates it may return (any node of the subtree so named) *)
Definition sub_candidates (w : world) (top : nat) (n : lname) : list nat :=
  filter (fun i => match nth_error (entries w) i with
                   | Some e => lname_eqb (e_name e) n
                   | None => false end)
         (map fst (each w top)).

End WithPool.
