(* Decimal text of integers (strconv.AppendInt / AppendUint, base 10) and ASCII helpers. *)
Require Import Verif.Model.Base.

Definition digit_byte (d : N) : byte := zb (48 + Z.of_N d).

(* fuel = bit size + 1 is enough: n / 10 has fewer bits than n *)
Fixpoint dec_fuel (fuel : nat) (n : N) (acc : bytes) : bytes :=
  match fuel with
  | O => acc
  | S f => let acc' := digit_byte (n mod 10) :: acc in
           if (n / 10 =? 0)%N then acc' else dec_fuel f (n / 10)%N acc'
  end.
Definition dec_of_N (n : N) : bytes := dec_fuel (S (N.size_nat n)) n [].
Definition dec_of_Z (z : Z) : bytes :=
  if z <? 0 then x2d :: dec_of_N (Z.to_N (- z)) else dec_of_N (Z.to_N z).

(* strings.ToLower restricted to ASCII letters *)
Definition lower_byte (b : byte) : byte :=
  let n := bz b in if (65 <=? n) && (n <=? 90) then zb (n + 32) else b.
Definition to_lower (s : bytes) : bytes := map lower_byte s.

Definition repeat_byte (b : byte) (n : nat) : bytes := repeat b n.

(* fmt.Sprintf with a format that is NOT a constant (a constant one is expanded by the translator): the verbs %d on an
   int, %s on a string and %% ; None = anything else (another verb, a missing, superfluous or ill-typed argument -
   Go prints %!verb(..) there, which is not modelled) *)
Inductive sarg := SInt (z : Z) | SStr (s : bytes).
Fixpoint go_sprintf (f : bytes) (args : list sarg) : option bytes :=
  match f with
  | [] => match args with [] => Some [] | _ => None end
  | c :: f' =>
    if bz c =? 37
    then match f' with
         | [] => None
         | v :: f'' =>
           if bz v =? 37 then option_map (cons c) (go_sprintf f'' args)
           else if bz v =? 100
           then match args with SInt z :: r => option_map (app (dec_of_Z z)) (go_sprintf f'' r) | _ => None end
           else if bz v =? 115
           then match args with SStr s :: r => option_map (app s) (go_sprintf f'' r) | _ => None end
           else None
         end
    else option_map (cons c) (go_sprintf f' args)
  end.
