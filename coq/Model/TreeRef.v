(* What Gen/Loggers.v (translated from Entry.newChildLogger and the head of newentry, slog/entry.go)
   mentions, and reference versions (same signatures) - the fallbacks.  No proofs here. *)
Require Import Verif.Model.Base Verif.Model.Decision Verif.Model.Dec Verif.Model.GoSem.

Definition eref : Type := Z.             (* a *Entry: which logger *)
Definition eref_nil : eref := -1.
(* an argument of New / newChildLogger / newentry (an `any`) *)
Inductive garg := GStr (s : bytes) | GOpt (k : Z) | GHandler (k : Z) | GOther (k : Z).
Definition garg_string (a : garg) : option bytes := match a with GStr s => Some s | _ => None end.

(* the name a child is looked up and registered under: the first argument if it is a non-empty string,
   otherwise the random name *)
Definition child_name (as_string : garg -> option bytes) (rnd : bytes) (args : list garg) : bytes :=
  match args with
  | [] => rnd
  | a :: _ => match as_string a with Some (c :: n) => c :: n | _ => rnd end
  end.

Definition new_child_ref (as_string_of_any : garg -> option bytes) (rnd_name : bytes) (f_newentry : eref -> list garg -> eref)
  (s : eref) (s_items : gomapB eref) (args : list garg) : option (eref * gomapB eref) :=
  let items := match s_items with Some l => l | None => [] end in
  let name := child_name as_string_of_any rnd_name args in
  match lookupB items name with
  | Some l => Some (l, Some items)
  | None => Some (f_newentry s args, Some (items ++ [(name, f_newentry s args)]))
  end.

Definition child_defaults_ref (p_present p_useJSON p_useColor : bool) (p_level g_deflevel : Z) : bool * bool * Z :=
  if p_present then (p_useJSON, p_useColor, p_level) else (false, true, g_deflevel).

(* ---- the skip count ---- *)
Definition set_skip_ref (s : eref) (s_extraFrames : Z) (extraFrames : Z) : Z := extraFrames.
Definition with_skip_ref (s : eref) (s_extraFrames : Z) (extraFrames : Z) : eref * Z := (s, extraFrames).
(* the name of the child WithSkip(n) asks for: c/<name>[<n>] *)
Definition skip_child_name (name : bytes) (n : Z) : bytes := [x63; x2f] ++ name ++ [x5b] ++ dec_of_Z n ++ [x5d].
Definition with_skip_child_ref (f_newChild : bytes -> eref) (f_withSkip : eref -> Z -> eref)
  (set_useJSON set_useColor : eref -> bool -> eref) (set_level set_extraFrames : eref -> Z -> eref)
  (s_name : bytes) (s_extraFrames s_level : Z) (s_useJSON s_useColor : bool)
  (s_items : gomapB eref) (extraFrames : Z) : eref :=
  f_withSkip (f_newChild (skip_child_name s_name extraFrames)) extraFrames.
