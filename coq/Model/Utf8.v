(* Go's unicode/utf8 DecodeRune / AppendRune as executable definitions over
   list byte; runes are Z.  Definitions only (lemmas: Proofs/Utf8P.v). *)
Require Import Verif.Model.Base.

Definition RuneError : Z := 65533.

Definition cont (b : byte) : bool := (128 <=? bz b) && (bz b <=? 191).
Definition in_range (lo hi : Z) (b : byte) : bool := (lo <=? bz b) && (bz b <=? hi).

(* utf8.DecodeRune: (rune, width); (RuneError,1) on an invalid or short
   encoding (shortest form only, surrogates and > U+10FFFF rejected),
   (RuneError,0) on empty input *)
Definition decode_rune (s : bytes) : Z * nat :=
  match s with
  | [] => (RuneError, 0%nat)
  | b0 :: t =>
    let n0 := bz b0 in
    if n0 <? 128 then (n0, 1%nat)
    else if (194 <=? n0) && (n0 <=? 223) then
      match t with
      | b1 :: _ => if cont b1 then ((n0 - 192) * 64 + (bz b1 - 128), 2%nat) else (RuneError, 1%nat)
      | _ => (RuneError, 1%nat)
      end
    else if (224 <=? n0) && (n0 <=? 239) then
      let lo := if n0 =? 224 then 160 else 128 in
      let hi := if n0 =? 237 then 159 else 191 in
      match t with
      | b1 :: b2 :: _ =>
        if in_range lo hi b1 && cont b2
        then ((n0 - 224) * 4096 + (bz b1 - 128) * 64 + (bz b2 - 128), 3%nat)
        else (RuneError, 1%nat)
      | _ => (RuneError, 1%nat)
      end
    else if (240 <=? n0) && (n0 <=? 244) then
      let lo := if n0 =? 240 then 144 else 128 in
      let hi := if n0 =? 244 then 143 else 191 in
      match t with
      | b1 :: b2 :: b3 :: _ =>
        if in_range lo hi b1 && cont b2 && cont b3
        then ((n0 - 240) * 262144 + (bz b1 - 128) * 4096 + (bz b2 - 128) * 64 + (bz b3 - 128), 4%nat)
        else (RuneError, 1%nat)
      | _ => (RuneError, 1%nat)
      end
    else (RuneError, 1%nat)
  end.

Definition valid_rune (r : Z) : bool :=
  ((0 <=? r) && (r <? 55296)) || ((57343 <? r) && (r <=? 1114111)).

(* utf8.AppendRune(nil, r) for an int32 rune r: negative runes, surrogates and
   runes above U+10FFFF are written as U+FFFD *)
Definition encode_rune (r : Z) : bytes :=
  if (0 <=? r) && (r <? 128) then [zb r]
  else if (0 <=? r) && (r <? 2048) then [zb (192 + r / 64); zb (128 + r mod 64)]
  else if negb (valid_rune r) then [xef; xbf; xbd]
  else if r <? 65536 then [zb (224 + r / 4096); zb (128 + (r / 64) mod 64); zb (128 + r mod 64)]
  else [zb (240 + r / 262144); zb (128 + (r / 4096) mod 64); zb (128 + (r / 64) mod 64); zb (128 + r mod 64)].
