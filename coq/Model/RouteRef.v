(* What Gen/Routes.v (Entry.Println and the first statement of Entry.printImpl, translated from slog/entry.go)
   mentions, and the reference versions - the fallbacks.  No proofs here. *)
Require Import Verif.Model.Base Verif.Model.Decision Verif.Model.GoSem Verif.Model.Level Verif.Model.TreeRef.

(* the internal routine a bare entry point ends in, with what it hands over *)
Inductive route :=
| RNone                                                     (* it returns without calling any of them *)
| RPanic                                                    (* a run-time panic on the way *)
| RLog1 (lvl : Z) (msg : bytes) (args : list garg)          (* s.log1(lvl, msg, args...): the gate, getpc, logContext *)
| RLogContext (lvl : Z) (msg : bytes) (args : list garg)    (* s.logContext(ctx, lvl, pc, msg, args...): no gate *)
| RPrintOut (lvl : Z) (data : list Z).                      (* s.printOut(lvl, data): delivery only *)

(* what printImpl delivers before the formatting starts *)
Inductive deliv :=
| DPanic
| DPrintOut (lvl : Z) (data : list Z)                       (* through s.printOut: writer selection, told level, error handling *)
| DRawWrite (w : option Z) (data : list Z).                 (* a Write on a writer directly *)

(* Println(args...): the message is the first argument (formatted when it is not a string), "" without arguments *)
Definition println_msg (as_string : garg -> option bytes) (f_sprint : garg -> bytes) (args : list garg) : bytes :=
  match args with
  | [] => []
  | a :: _ => match as_string a with Some s => s | None => f_sprint a end
  end.
Definition println_route_ref (as_string_of_any : garg -> option bytes) (f_sprint : garg -> bytes) (args : list garg) : route :=
  RLog1 lv_always (println_msg as_string_of_any f_sprint args) (tl args).

Definition blank_cutset : bytes := [x0a;x0d;x20;x09].      (* "\n\r \t" *)
Definition blank_line_ref (f_trim : bytes -> bytes -> bytes) (f_findWriter : Z -> option Z) (pc_lvl : Z) (pc_msg : bytes)
    (tr_ : list deliv) : list deliv :=
  if (pc_lvl =? lv_always) && bytes_eqb (f_trim pc_msg blank_cutset) [] then tr_ ++ [DPrintOut pc_lvl [10]] else tr_.
