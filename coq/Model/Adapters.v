(* C15: the log/slog handler and the std-log bridge (slog/adapters.go,
   slog/level.go logsloglevel2Level, slog/funcs.go NewLogLogger/handlerWriter,
   slog/entry.go Log / WriteThru / WriteInternal).  No proofs here.

   Go                                   here
   ----------------------------------   ------------------------------------
   log/slog.Level, logg Level           Z
   log/slog.Value (by Kind)             [sval]; a LogValuer is [SValuer v] with
                                        v the value its LogValue returns
   logg Attr (kvp / gkvp)               [lval] under a key; the nil place
                                        holders Group() leaves in front of the
                                        items are not attributes and are not
                                        represented (the harness skips them)
   time.Time, float64, Any payloads     opaque identifiers (Z): the adapter
                                        only passes them on
   a logger as far as the adapter       [lcfg]: destination (identity of its
   is concerned                         writer set, 0 = the package default
                                        writers), format flags, level, own
                                        attributes (NOT consulted by WriteThru)
   *handler4LogSlog                     [handler]: the logger it writes to and
                                        (repaired variant only) what
                                        WithAttrs/WithGroup added
   what reaches Entry.print             [lrecord]; printImpl's blank-line short
                                        cut is [blank_shortcut]

   Three switches say which variant of the code the correspondence check runs
   against the implementation (false = the code as it was found, true = after
   the proposed repair); the theorems of Props/C15.v are proved about BOTH
   variants, whatever the switches say. *)
Require Import Verif.Model.Base Verif.Model.Decision Verif.Model.Level Verif.Model.Mode Verif.Model.DecisionRef.

(* D1: logsloglevel2Level's default (Fatal -> the standard level below) *)
Definition fix_log_default : bool := true.
(* D2: handlerWriter.Write's admission test (s.lvl >= s.l.Level() -> s.l.Enabled(s.lvl)) *)
Definition fix_bridge : bool := true.
(* D3: handler4LogSlog.WithAttrs/WithGroup (a detached New() logger -> the same logger plus what was given) *)
Definition fix_derived : bool := true.

(* ---------------------------------------------------------------- levels *)
Definition slog_debug : Z := -4.  Definition slog_info : Z := 0.
Definition slog_warn : Z := 4.    Definition slog_error : Z := 8.

Definition terminating (l : Z) : bool := (l =? lv_panic) || (l =? lv_fatal).

(* the constants logsloglevel2Level lists *)
Definition log_listed : list (Z * Z) :=
  [(-4, lv_debug); (0, lv_info); (4, lv_warn); (8, lv_error); (-16, lv_trace); (-8, lv_trace);
   (2, lv_info); (3, lv_info); (16, lv_fatal); (17, lv_panic)].

(* Entry.Log's conversion.  fx = false: any other value is Fatal.  fx = true:
   any other value counts as the standard level below it. *)
Definition log_level_conv (fx : bool) (z : Z) : Z :=
  if fx then
    match lookupZ log_listed z with
    | Some l => l
    | None => if z <? -4 then lv_trace else if z <? 0 then lv_debug
              else if z <? 4 then lv_info else if z <? 8 then lv_warn else lv_error
    end
  else logsloglevel2level_ref z.

(* handlerWriter.Write's admission test *)
Definition bridge_admit_model (fx : bool) (f_enabled : Z -> bool) (s_lvl s_l_level : Z) : bool :=
  if fx then f_enabled s_lvl else bridge_admit_ref f_enabled s_lvl s_l_level.

(* ------------------------------------------------------------ attributes *)
Inductive sval :=
| SBool (b : bool) | STime (t : Z) | SDuration (d : Z) | SFloat (f : Z) | SInt (i : Z)
| SString (s : bytes) | SUint (u : Z)
| SGroup (items : list (bytes * sval))
| SValuer (v : sval)
| SAny (a : Z).
Definition sattr := (bytes * sval)%type.

Inductive lval :=
| LBool (b : bool) | LTime (t : Z) | LDuration (d : Z) | LFloat (f : Z) | LInt (i : Z)
| LString (s : bytes) | LUint (u : Z)
| LGroup (items : list (bytes * lval))
| LAny (a : Z).
Definition lattr := (bytes * lval)%type.

(* convertAttrToField / convertGroupToFields *)
Fixpoint conv_val (v : sval) : lval :=
  match v with
  | SBool b => LBool b
  | STime t => LTime t
  | SDuration d => LDuration d
  | SFloat f => LFloat f
  | SInt i => LInt i
  | SString s => LString s
  | SUint u => LUint u
  | SGroup items => LGroup (map (fun kv => let '(k, x) := kv in (k, conv_val x)) items)
  | SValuer x => conv_val x          (* Value.Resolve(), then the switch again with the same key *)
  | SAny a => LAny a
  end.
Definition conv_attr (a : sattr) : lattr := (fst a, conv_val (snd a)).
Definition conv_attrs (l : list sattr) : list lattr := map conv_attr l.

(* ---------------------------------------------------- loggers and handlers *)
Record lcfg := {
  lc_dest : Z;            (* identity of the writer set; 0 = none of its own: the package default writers *)
  lc_json : bool;
  lc_color : bool;
  lc_level : Z;
  lc_attrs : list lattr   (* Entry.attrs; WriteThru does not consult them *)
}.

(* what WithAttrs / WithGroup added (repaired variant) *)
Inductive hop := HAttrs (fields : list lattr) | HGroup (name : bytes).

Record handler := { h_log : lcfg; h_ops : list hop }.

Record hopts := { o_nocolor : bool; o_nosource : bool; o_json : bool; o_level : Z }.

(* NewSlogHandler: sets the package flag Lcaller, the logger's level (unless
   the option is the zero value) with SetLevel's debug-mode side effect, and
   the format by SetColorMode(!NoColor).SetJSONMode(JSON).
   Result: the handler, the Lcaller flag, the debug mode. *)
Definition new_handler (c : lcfg) (dbg : bool) (o : hopts) : handler * bool * bool :=
  let lvl := if o_level o =? lv_panic then lc_level c else o_level o in
  let dbg' := if o_level o =? lv_debug then true else dbg in
  let m := set_json_mode [o_json o]
             (set_color_mode [negb (o_nocolor o)] {| useJSON := lc_json c; useColor := lc_color c |}) in
  ({| h_log := {| lc_dest := lc_dest c; lc_json := useJSON m; lc_color := useColor m;
                  lc_level := lvl; lc_attrs := lc_attrs c |};
      h_ops := [] |},
   negb (o_nosource o), dbg').

(* New(): a detached logger at the package default level, coloured, no writer of its own *)
Definition detached (deflevel : Z) (attrs : list lattr) : lcfg :=
  {| lc_dest := 0; lc_json := false; lc_color := true; lc_level := deflevel; lc_attrs := attrs |}.

(* handler4LogSlog.WithAttrs.  fx = false: &handler4LogSlog{New().SetAttrs(fields...)}.
   fx = true: the same logger, the fields remembered (no attributes: the receiver). *)
Definition with_attrs (fx : bool) (deflevel : Z) (h : handler) (a : list sattr) : handler :=
  if fx then
    match a with
    | [] => h
    | _ => {| h_log := h_log h; h_ops := h_ops h ++ [HAttrs (conv_attrs a)] |}
    end
  else {| h_log := detached deflevel (conv_attrs a); h_ops := [] |}.

(* handler4LogSlog.WithGroup.  fx = false: New().SetAttrs(Group(name)).
   fx = true: the same logger, the group opened (empty name: the receiver). *)
Definition with_group (fx : bool) (deflevel : Z) (h : handler) (name : bytes) : handler :=
  if fx then
    match name with
    | [] => h
    | _ => {| h_log := h_log h; h_ops := h_ops h ++ [HGroup name] |}
    end
  else {| h_log := detached deflevel [(name, LGroup [])]; h_ops := [] |}.

Inductive deriv := DAttrs (a : list sattr) | DGroup (name : bytes).
Definition derive1 (fx : bool) (deflevel : Z) (h : handler) (d : deriv) : handler :=
  match d with
  | DAttrs a => with_attrs fx deflevel h a
  | DGroup g => with_group fx deflevel h g
  end.
Definition derive (fx : bool) (deflevel : Z) (h : handler) (ds : list deriv) : handler :=
  fold_left (derive1 fx deflevel) ds h.

(* the attributes a record is written with: what was added by the derivations,
   innermost last; a group without content is left out *)
Definition nest_op (o : hop) (inner : list lattr) : list lattr :=
  match o with
  | HAttrs fs => fs ++ inner
  | HGroup g => match inner with [] => [] | _ => [(g, LGroup inner)] end
  end.
Definition nest (ops : list hop) (fields : list lattr) : list lattr := fold_right nest_op fields ops.

(* ------------------------------------------------------------------ records *)
Record srecord := { sr_level : Z; sr_time : Z; sr_msg : bytes; sr_attrs : list sattr }.
Record lrecord := { lr_level : Z; lr_time : Z; lr_msg : bytes; lr_attrs : list lattr }.

(* Handle: unconditionally one WriteThru on the handler's logger *)
Definition handle (m : list (Z * Z)) (h : handler) (r : srecord) : list (lcfg * lrecord) :=
  [(h_log h,
    {| lr_level := convert_logslog_level_ref m (sr_level r);
       lr_time := sr_time r;
       lr_msg := sr_msg r;
       lr_attrs := nest (h_ops h) (conv_attrs (sr_attrs r)) |})].

(* Enabled *)
Definition handler_on (m enabled_as : list (Z * Z)) (dbg : bool) (h : handler) (z : Z) : bool :=
  handler_enabled_ref m (enabled_code enabled_as dbg (lc_level (h_log h))) z.

(* log/slog.Logger.Log: Enabled, then Handle *)
Definition slog_log (m enabled_as : list (Z * Z)) (dbg : bool) (h : handler) (r : srecord) : list (lcfg * lrecord) :=
  if handler_on m enabled_as dbg h (sr_level r) then handle m h r else [].

(* printImpl: an Always record whose message is blank is written as a bare
   line feed (strings.Trim(msg, LF CR SP TAB) is empty) *)
Definition is_blank (b : byte) : bool :=
  byte_eqb b x0a || byte_eqb b x0d || byte_eqb b x20 || byte_eqb b x09.
Definition blank_shortcut (lvl : Z) (msg : bytes) : bool := (lvl =? lv_always) && forallb is_blank msg.

(* Entry.Log(ctx, level, msg, args...) *)
Definition entry_log (fx : bool) (enabled_as : list (Z * Z)) (dbg : bool) (L : Z) (z now : Z) (msg : bytes)
  (args : list lattr) : option lrecord :=
  let lvl := log_level_conv fx z in
  if enabled_code enabled_as dbg L lvl
  then Some {| lr_level := lvl; lr_time := now; lr_msg := msg; lr_attrs := args |}
  else None.

(* ------------------------------------------------------------ std-log bridge *)
(* writeInternal: one final line feed is removed *)
Fixpoint strip_lf (buf : bytes) : bytes :=
  match buf with
  | [] => []
  | b :: t => match t with
              | [] => if byte_eqb b x0a then [] else [b]
              | _ => b :: strip_lf t
              end
  end.

(* handlerWriter.Write: (what is printed, n); err is always nil *)
Definition bridge_write (fx : bool) (enabled_as : list (Z * Z)) (dbg : bool) (L sev now : Z) (buf : bytes)
  : option lrecord * Z :=
  if bridge_admit_model fx (enabled_code enabled_as dbg L) sev L
  then (Some {| lr_level := sev; lr_time := now; lr_msg := strip_lf buf; lr_attrs := [] |}, Z.of_nat (length buf))
  else (None, 0).

(* ------------------------------------------- the specification side (C15) *)
(* "all its attributes": same keys, same nesting, same leaf values, a LogValuer
   standing for the value it resolves to *)
Inductive same_val : sval -> lval -> Prop :=
| SameBool b : same_val (SBool b) (LBool b)
| SameTime t : same_val (STime t) (LTime t)
| SameDur d : same_val (SDuration d) (LDuration d)
| SameFloat f : same_val (SFloat f) (LFloat f)
| SameInt i : same_val (SInt i) (LInt i)
| SameStr s : same_val (SString s) (LString s)
| SameUint u : same_val (SUint u) (LUint u)
| SameAny a : same_val (SAny a) (LAny a)
| SameValuer v l : same_val v l -> same_val (SValuer v) l
| SameGroup si li : same_items si li -> same_val (SGroup si) (LGroup li)
with same_items : list (bytes * sval) -> list (bytes * lval) -> Prop :=
| SameNil : same_items [] []
| SameCons k v l si li : same_val v l -> same_items si li -> same_items ((k, v) :: si) ((k, l) :: li).

(* leaves with their key paths, left to right: for a source tree (LogValuers looked through) ... *)
Inductive leaf := FBool (b : bool) | FTime (t : Z) | FDuration (d : Z) | FFloat (f : Z) | FInt (i : Z)
                | FString (s : bytes) | FUint (u : Z) | FAny (a : Z).
Fixpoint sleaves (path : list bytes) (v : sval) : list (list bytes * leaf) :=
  match v with
  | SBool b => [(path, FBool b)] | STime t => [(path, FTime t)] | SDuration d => [(path, FDuration d)]
  | SFloat f => [(path, FFloat f)] | SInt i => [(path, FInt i)] | SString s => [(path, FString s)]
  | SUint u => [(path, FUint u)] | SAny a => [(path, FAny a)]
  | SValuer x => sleaves path x
  | SGroup items => flat_map (fun kv => let '(k, x) := kv in sleaves (path ++ [k]) x) items
  end.
(* ... and for a converted tree *)
Fixpoint lleaves (path : list bytes) (v : lval) : list (list bytes * leaf) :=
  match v with
  | LBool b => [(path, FBool b)] | LTime t => [(path, FTime t)] | LDuration d => [(path, FDuration d)]
  | LFloat f => [(path, FFloat f)] | LInt i => [(path, FInt i)] | LString s => [(path, FString s)]
  | LUint u => [(path, FUint u)] | LAny a => [(path, FAny a)]
  | LGroup items => flat_map (fun kv => let '(k, x) := kv in lleaves (path ++ [k]) x) items
  end.
Definition sattr_leaves (a : sattr) := sleaves [fst a] (snd a).
Definition lattr_leaves (a : lattr) := lleaves [fst a] (snd a).

(* group nesting depth *)
Fixpoint sdepth (v : sval) : nat :=
  match v with
  | SGroup items => S (fold_right (fun kv acc => let '(_, x) := kv in Nat.max (sdepth x) acc) O items)
  | SValuer x => sdepth x
  | _ => O
  end.
Fixpoint ldepth (v : lval) : nat :=
  match v with
  | LGroup items => S (fold_right (fun kv acc => let '(_, x) := kv in Nat.max (ldepth x) acc) O items)
  | _ => O
  end.

(* what a chain of derivations is to add, by the meaning log/slog gives to
   WithAttrs / WithGroup: attributes in front of what follows, a group around
   what follows; WithGroup of the empty name and groups without content add nothing *)
Fixpoint expected (ds : list deriv) (rec : list lattr) : list lattr :=
  match ds with
  | [] => rec
  | DAttrs a :: ds' => conv_attrs a ++ expected ds' rec
  | DGroup g :: ds' =>
      match g with
      | [] => expected ds' rec
      | _ => let inner := expected ds' rec in match inner with [] => [] | _ => [(g, LGroup inner)] end
      end
  end.

(* ---------------------------------------- boolean equalities (Corr/C15.v) *)
Fixpoint lval_eqb (a b : lval) : bool :=
  match a, b with
  | LBool x, LBool y => Bool.eqb x y
  | LTime x, LTime y | LDuration x, LDuration y | LFloat x, LFloat y | LInt x, LInt y
  | LUint x, LUint y | LAny x, LAny y => x =? y
  | LString x, LString y => bytes_eqb x y
  | LGroup x, LGroup y =>
      (fix items_eqb (p q : list (bytes * lval)) : bool :=
         match p, q with
         | [], [] => true
         | (k1, v1) :: p', (k2, v2) :: q' => bytes_eqb k1 k2 && lval_eqb v1 v2 && items_eqb p' q'
         | _, _ => false
         end) x y
  | _, _ => false
  end.
Definition lattr_eqb (a b : lattr) : bool := bytes_eqb (fst a) (fst b) && lval_eqb (snd a) (snd b).
