(* C06, SPECIFICATION side (not a model of the encoder): what a terminal does with the
   colour sequences of a record, and the layout a coloured record must have once the
   colour sequences are removed (DESIGN.md appendix A.3).  Executable, no proofs here.

   Only elementary text functions are shared with Model/Encode.v (split at LF, trim of
   trailing CR/LF, the dotted key, the decimal text, the bracketed list, the level tag of
   Model/Level.v, the sort + de-duplication of Model/Attrs.v); nothing that writes a colour. *)
Require Import Verif.Model.Base Verif.Model.Dec Verif.Model.Level Verif.Model.Mode.
Require Import Verif.Model.Quote Verif.Model.Attrs Verif.Model.Encode.

(* ---------- SGR sequences: ESC '[' digit+ 'm' ---------- *)
Definition is_esc (b : byte) : bool := bz b =? 27.
Definition is_dig (b : byte) : bool := (48 <=? bz b) && (bz b <=? 57).

Fixpoint digits_len (s : bytes) : nat :=
  match s with
  | b :: t => if is_dig b then S (digits_len t) else O
  | [] => O
  end.

(* t = the bytes after an ESC.  Some (k, z): t starts with '[' digit+ 'm', which is k bytes
   long; z = the parameter is exactly "0" (reset: all attributes off) *)
Definition sgr_seq (t : bytes) : option (nat * bool) :=
  match t with
  | b :: t1 =>
      if bz b =? 91 then
        let n := digits_len t1 in
        match n, skipn n t1 with
        | S _, e :: _ => if bz e =? 109 then Some (S (S n), bytes_eqb (firstn n t1) [x30]) else None
        | _, _ => None
        end
      else None
  | [] => None
  end.

(* the text with every SGR sequence removed; an ESC that does not start one stays *)
Fixpoint strip_go (skip : nat) (s : bytes) : bytes :=
  match s with
  | [] => []
  | b :: t =>
    match skip with
    | S k => strip_go k t
    | O => if is_esc b
           then match sgr_seq t with Some (k, _) => strip_go k t | None => b :: strip_go 0 t end
           else b :: strip_go 0 t
    end
  end.
Definition strip_sgr (s : bytes) : bytes := strip_go 0 s.

(* the colour state of the terminal: on = some attribute is switched on.
   None: a colour is on at a line feed, or an ESC that is not an SGR sequence;
   Some o: the state after the last byte *)
Fixpoint scan_go (skip : nat) (on : bool) (s : bytes) : option bool :=
  match s with
  | [] => Some on
  | b :: t =>
    match skip with
    | S k => scan_go k on t
    | O => if is_esc b
           then match sgr_seq t with Some (k, z) => scan_go k (negb z) t | None => None end
           else if is_lf b && on then None else scan_go 0 on t
    end
  end.
Definition sgr_scan (on : bool) (s : bytes) : option bool := scan_go 0 on s.

(* every colour switched on is off again at each line feed and at the end, and there is no
   escape byte other than the colour sequences *)
Definition hygienic_b (s : bytes) : bool :=
  match sgr_scan false s with Some false => true | _ => false end.
Definition hygienic (s : bytes) : Prop := sgr_scan false s = Some false.

(* ---------- hypotheses on text the encoder copies verbatim ---------- *)
(* no ESC and no LF *)
Definition text_ok (s : bytes) : bool := forallb (fun b => negb (is_esc b) && negb (is_lf b)) s.
Definition esc_free (s : bytes) : bool := forallb (fun b => negb (is_esc b)) s.

(* the values colour mode prints verbatim are exactly: the float, complex and time text of the
   standard library (the %v fallback text of struct, map, ... is quoted since /repo 0c009c6);
   and every key *)
Fixpoint value_ok (v : value) : bool :=
  match v with
  | VFloat t | VComplex t | VTime t => text_ok t
  | VFloats l | VTimes l => forallb text_ok l
  | VGroup items =>
      (fix go (l : list attr) : bool :=
         match l with
         | [] => true
         | ANil :: t => go t
         | A k x :: t => text_ok k && value_ok x && go t
         end) items
  | _ => true
  end.
Fixpoint attrs_ok (l : list attr) : bool :=
  match l with
  | [] => true
  | ANil :: t => attrs_ok t
  | A k x :: t => text_ok k && value_ok x && attrs_ok t
  end.

(* the colour numbers of the registry are colour numbers: the foreground is >= 0, a
   background is >= 0 or -1 (none) *)
Definition colors_ok (g : registry) : bool :=
  forallb (fun kv : Z * list Z =>
             match snd kv with
             | c :: rest => (0 <=? c) && forallb (fun b => -1 <=? b) rest
             | [] => true
             end) (r_colors g).

(* file and function name of the caller are copied verbatim *)
Definition caller_texts_ok (c : option (bytes * Z * bytes)) : bool :=
  match c with None => true | Some (file, _, fn) => text_ok file && text_ok fn end.

(* every custom short tag registered for width n is n bytes long *)
Definition tags_ok (g : registry) : bool :=
  forallb (fun row : Z * list (Z * bytes) =>
             forallb (fun lt : Z * bytes => Nat.eqb (length (snd lt)) (Z.to_nat (fst row))) (snd row)) (r_tags g).

(* the domain of the layout claim: no '<', '>', '&', no control character other than LF *)
Definition layout_byte (b : byte) : bool :=
  let n := bz b in
  negb ((n =? 60) || (n =? 62) || (n =? 38)) && ((32 <=? n) || (n =? 10)) && negb (n =? 127).
Definition layout_domain (msg : bytes) : bool := forallb layout_byte msg.

(* ---------- the layout of the statement ---------- *)
Definition pad_to (s : bytes) (w : Z) : bytes := s ++ repeat x20 (Z.to_nat w - length s).

(* the message without the line ends it finishes with, and whether it finished with LF *)
Definition msg_body (msg : bytes) : bytes * bool :=
  let eol := match rev msg with b :: _ => is_lf b | [] => false end in
  (if eol then trim_right_crlf msg else msg, eol).

Definition indent4 (l : bytes) : bytes := x20 :: x20 :: x20 :: x20 :: l.

(* the remaining message lines: each after a line feed and four blanks; one more line feed
   when the message ended with one *)
Definition lay_rest (lines : list bytes) (eol : bool) : bytes :=
  match lines with
  | [] => []
  | _ => concat (map (fun l => x0a :: indent4 l) lines) ++ (if eol then [x0a] else [])
  end.

Definition lay_caller (c : option (bytes * Z * bytes)) : bytes :=
  match c with
  | None => []
  | Some (file, line, fn) => x20 :: file ++ x3a :: dec_of_Z line ++ x20 :: after_last_slash fn
  end.

Section Layout.
Variable isprint : Z -> bool.
Variable g : registry.

Definition q (s : bytes) : bytes := quote_go isprint s.
Definition nil_text : bytes := [x3c;x6e;x69;x6c;x3e].
Definition lay_key (grp : bool) (dk : bytes) : bytes := if grp then [] else dk ++ [x3d].

(* the text of a value: strings, errors, durations, byte slices and the %v fallback text quoted;
   numbers, booleans, <nil> and times bare; slices bracketed.  A group stands for its members
   (each " key=value" under the dotted key); the blank of the group itself is kept, so a
   group shows as one extra blank in front of its members *)
Fixpoint lay_value (pfx : bytes) (v : value) {struct v} : bytes :=
  match v with
  | VNil => nil_text
  | VStr s => q s
  | VErr e => q e
  | VBool b => bool_text b
  | VInt z => dec_of_Z z
  | VUint n => dec_of_Z n
  | VFloat t => t
  | VComplex t => t
  | VDur t => q t
  | VTime t => t
  | VBytes s => q s
  | VFallback t => q t
  | VStrs l => bracket (map q l)
  | VBools l => bracket (map bool_text l)
  | VInts l => bracket (map dec_of_Z l)
  | VUints l => bracket (map dec_of_Z l)
  | VFloats l => bracket l
  | VDurs l => bracket (map q l)
  | VTimes l => bracket l
  | VGroup items =>
      (fix go (l : list attr) : bytes :=
         match l with
         | [] => []
         | ANil :: t => go t
         | A k x :: t => x20 :: lay_key (is_group x) (dot_prefix k pfx) ++ lay_value (dot_prefix k pfx) x ++ go t
         end) items
  end.

Fixpoint lay_members (pfx : bytes) (l : list attr) : bytes :=
  match l with
  | [] => []
  | ANil :: t => lay_members pfx t
  | A k x :: t => x20 :: lay_key (is_group x) (dot_prefix k pfx) ++ lay_value (dot_prefix k pfx) x ++ lay_members pfx t
  end.

(* appendix A.3:  ts "|" " " [name " "] "[" tag "]" " " pad(first line) {" " key "=" value}*
   [" " file ":" line " " func] {LF "    " line}* [LF] LF,  attributes sorted and de-duplicated *)
Definition layout_of (c : ecfg) (msg : bytes) (attrs : list attr) : bytes :=
  let '(body, eol) := msg_body msg in
  let lines := split_lf body in
  e_ts c ++ [x7c; x20]
  ++ (match e_name c with [] => [] | nm => nm ++ [x20] end)
  ++ x5b :: tag_of g (e_tagw c) (e_lvl c) ++ [x5d; x20]
  ++ pad_to (hd [] lines) (e_minw c)
  ++ lay_members [] (norm_attrs attrs)
  ++ lay_caller (e_caller c)
  ++ lay_rest (tl lines) eol
  ++ [x0a].

End Layout.

(* ---------- C06_values_clean: which texts a value contributes verbatim ---------- *)
(* the texts of a value that reach the terminal as they are (not quoted, not computed by the
   encoder): keys and the standard-library number / time texts *)
Fixpoint raw_texts (v : value) : list bytes :=
  match v with
  | VFloat t | VComplex t | VTime t => [t]
  | VFloats l | VTimes l => l
  | VGroup items =>
      (fix go (l : list attr) : list bytes :=
         match l with
         | [] => []
         | ANil :: t => go t
         | A k x :: t => k :: raw_texts x ++ go t
         end) items
  | _ => []
  end.
