(* Attribute values as the encoders see them (slog/pc.go appendValue), and the
   sort + de-duplication of slog/attr.go serializeAttrs.  No proofs here.

   Text the Go standard library produces (float, complex, duration and time
   text, the %v fallback) is carried as pre-rendered bytes: logg decides where
   and how it is quoted, not what it is. *)
Require Import Verif.Model.Base.

Inductive value :=
| VNil
| VStr (s : bytes)          (* string, Stringer, ToString, Level *)
| VErr (msg : bytes)        (* error (without stack info) *)
| VBool (b : bool)
| VInt (z : Z)              (* int, int8 .. int64 *)
| VUint (n : Z)             (* uint, uint8 .. uint64 *)
| VFloat (t : bytes)        (* strconv.AppendFloat(f, 'f', -1, 64) *)
| VComplex (t : bytes)
| VDur (t : bytes)          (* Duration.String() *)
| VTime (t : bytes)         (* Time.AppendFormat(RFC3339Nano) *)
| VBytes (s : bytes)        (* []byte *)
| VFallback (t : bytes)     (* fmt.Sprintf("{{%v}}", v) *)
| VStrs (l : list bytes)
| VBools (l : list bool)
| VInts (l : list Z)
| VUints (l : list Z)
| VFloats (l : list bytes)
| VDurs (l : list bytes)
| VTimes (l : list bytes)
| VGroup (items : list attr)
with attr :=
| A (key : bytes) (v : value)
| ANil.                     (* a nil Attr inside an attribute list *)

(* byte-wise lexicographic order of Go strings: a < b *)
Fixpoint bytes_ltb (a b : bytes) : bool :=
  match a, b with
  | [], [] => false
  | [], _ :: _ => true
  | _ :: _, [] => false
  | x :: a', y :: b' => if bz x <? bz y then true else if bz y <? bz x then false else bytes_ltb a' b'
  end.

(* the comparison of serializeAttrs: nil sorts first *)
Definition attr_ltb (a b : attr) : bool :=
  match a, b with
  | ANil, ANil => false
  | ANil, A _ _ => true
  | A _ _, ANil => false
  | A k1 _, A k2 _ => bytes_ltb k1 k2
  end.

(* stable insertion sort (slices.SortStableFunc): x, which came before every element
   of l, goes in front of the first element that is not smaller than it *)
Fixpoint insert_stable (x : attr) (l : list attr) : list attr :=
  match l with
  | [] => [x]
  | h :: t => if attr_ltb h x then h :: insert_stable x t else x :: l
  end.
(* folding from the right keeps equal elements in their original order *)
Definition sort_stable (l : list attr) : list attr := fold_right insert_stable [] l.

Definition attr_same_key (a b : attr) : bool :=
  match a, b with
  | ANil, ANil => true
  | A k1 _, A k2 _ => bytes_eqb k1 k2
  | _, _ => false
  end.

(* dedupeSlice: of each run of equal keys the LAST element is kept *)
Fixpoint dedupe (l : list attr) : list attr :=
  match l with
  | [] => []
  | x :: t => match t with
              | y :: _ => if attr_same_key x y then dedupe t else x :: dedupe t
              | [] => [x]
              end
  end.

Definition sort_dedupe (l : list attr) : list attr := dedupe (sort_stable l).

(* the whole tree with every level sorted and de-duplicated (serializeAttrs does it
   level by level on the way down; the key order does not depend on the values) *)
Fixpoint norm_value (v : value) : value :=
  match v with
  | VGroup items =>
      VGroup (sort_dedupe ((fix go (l : list attr) : list attr :=
                              match l with
                              | [] => []
                              | A k x :: t => A k (norm_value x) :: go t
                              | ANil :: t => ANil :: go t
                              end) items))
  | other => other
  end.
Definition norm_attr (a : attr) : attr := match a with A k v => A k (norm_value v) | ANil => ANil end.
Definition norm_attrs (l : list attr) : list attr := sort_dedupe (map norm_attr l).
