(* What Gen/Buffers.v (translated from the buffer methods of PrintCtx, slog/pc.go) mentions besides
   Model/Buffer.v: the state tuple, the panic values, how a result of a generated method is read as a
   step of the model (views), and reference versions (same signatures) - the fallbacks.  No proofs here. *)
Require Import Verif.Model.Base Verif.Model.Decision Verif.Model.GoSem Verif.Model.Utf8 Verif.Model.Buffer.

Definition bstate : Type := (gslice * Z * Z)%type.     (* s.buf, s.off, s.lastRead *)
Definition p_toolarge : bytes := [x74;x6f;x6f;x6c;x61;x72;x67;x65].   (* stands for ErrTooLarge *)
Definition p_negread : bytes := [x6e;x65;x67;x72;x65;x61;x64].        (* stands for errNegativeRead *)

(* the model's record for a state; [nil] = s.buf == nil, which the read side never looks at *)
Definition abs_pc (nil : bool) (st : bstate) : pc :=
  let '(b, o, l) := st in mkpc (fst b) o (sl_cap b) nil l.

Definition panic_of (msg : bytes) : panic :=
  if bytes_eqb msg p_toolarge then PTooLarge
  else if bytes_eqb msg p_negread then PNegRead
  else match skipn 19 msg with
       (* logg/slog.PrintCtx: truncation.. | logg/slog.PrintCtx.Grow: .. | logg/slog.PrintCtx.WriteTo: .. *)
       | c :: _ => if bz c =? 32 then PTruncate else if bz c =? 71 then PGrowNeg else if bz c =? 87 then PWriteToCount else PRange
       | [] => PRange
       end.
Definition err_is_enil (e : err) : bool := match e with ENil => true | _ => false end.

(* a generated result as (state afterwards, result) of the model; [res] says how the returned values
   of this method appear in a [Res] *)
Definition bview {R} (nil : bool) (res : R -> result) (r : bres R bstate) : pc * result :=
  match r with
  | BOk v st => (abs_pc nil st, res v)
  | BRange st => (abs_pc nil st, Panicked PRange)
  | BPanic m st => (abs_pc nil st, Panicked (panic_of m))
  end.
Definition res_unit (_ : unit) : result := Res [] [] ENil.
Definition res_err (e : err) : result := Res [] [] e.
Definition res_byte (v : Z * err) : result := Res [fst v] [] (snd v).
Definition res_rune (v : Z * Z * err) : result := Res [fst (fst v); snd (fst v)] [] (snd v).
Definition res_slice (d : gslice) : result := Res [] (fst d) ENil.

Definition res_read (v : Z * err) (p : gslice) : result := Res [fst v] (firstn (Z.to_nat (fst v)) (fst p)) (snd v).
Definition bview_read (nil : bool) (r : bres (Z * err) (bstate * gslice)) : pc * result :=
  match r with
  | BOk v (st, p) => (abs_pc nil st, res_read v p)
  | BRange (st, _) => (abs_pc nil st, Panicked PRange)
  | BPanic m (st, _) => (abs_pc nil st, Panicked (panic_of m))
  end.

Definition bview_wt (nil : bool) (r : bres (Z * err) (bstate * list bytes)) : pc * result :=
  match r with
  | BOk v (st, tr) => (abs_pc nil st, Res [fst v] (concat tr) (snd v))
  | BRange (st, _) => (abs_pc nil st, Panicked PRange)
  | BPanic m (st, _) => (abs_pc nil st, Panicked (panic_of m))
  end.

(* growSlice(b, n) as the model has it: the capacity asked for, the rounding [rup] and the limit [maxalloc] *)
Definition grow_slice_oracle (rup : Z -> Z) (maxalloc : Z) (b : gslice) (n : Z) : bres gslice unit :=
  let c2 := grow_slice_cap (sl_len b) (sl_cap b) n in
  if c2 >? maxalloc then BPanic p_toolarge tt
  else BOk (fst b, repeat x00 (Z.to_nat (rup c2 - sl_len b))) tt.
(* the generated code does not track whether s.buf is nil: states are compared up to that flag *)
Definition forget_nil (x : pc * result) : pc * result :=
  (mkpc (data (fst x)) (off (fst x)) (cap (fst x)) false (last_read (fst x)), snd x).

(* the state is well formed: 0 <= off <= len (len <= cap holds by construction) *)
Definition st_ok (st : bstate) : bool := let '(b, o, _) := st in (0 <=? o) && (o <=? sl_len b).

(* ---- fallbacks: the translations as they were when the proofs of Proofs/GenBufP.v were written (kept by hand
   from then on): a site that leaves the fragment is defined as its reference here ---- *)
(* PrintCtx.empty   *)
Definition buf_empty_ref (s_buf : gslice) (s_off s_lastRead : Z) : bool :=
  ((sl_len s_buf) <=? s_off).

(* PrintCtx.Len   *)
Definition buf_len_ref (s_buf : gslice) (s_off s_lastRead : Z) : Z :=
  ((sl_len s_buf) - s_off).

(* PrintCtx.Reset  (BOk results state | BRange state | BPanic v state) *)
Definition buf_reset_ref (s_buf : gslice) (s_off s_lastRead : Z) : bres unit bstate :=
  match sl_to s_buf 0 with
    | None => BRange (s_buf, s_off, s_lastRead)
    | Some r1_ => let s_buf := r1_ in
      let s_off := 0 in
      let s_lastRead := 0 in
      BOk tt (s_buf, s_off, s_lastRead)
    end.

(* PrintCtx.Truncate  (BOk results state | BRange state | BPanic v state) *)
Definition buf_truncate_ref (s_buf : gslice) (s_off s_lastRead : Z) (n : Z) : bres unit bstate :=
  if (n =? 0)
  then match buf_reset_ref s_buf s_off s_lastRead with
    | BOk _ st_ => let '(s_buf, s_off, s_lastRead) := st_ in
      BOk tt (s_buf, s_off, s_lastRead)
    | BRange st_ => let '(s_buf, s_off, s_lastRead) := st_ in BRange (s_buf, s_off, s_lastRead)
    | BPanic p_ st_ => let '(s_buf, s_off, s_lastRead) := st_ in BPanic p_ (s_buf, s_off, s_lastRead)
    end
  else let s_lastRead := 0 in
  if ((n <? 0) || ((buf_len_ref s_buf s_off s_lastRead) <? n))
  then BPanic [x6c;x6f;x67;x67;x2f;x73;x6c;x6f;x67;x2e;x50;x72;x69;x6e;x74;x43;x74;x78;x3a;x20;x74;x72;x75;x6e;x63;x61;x74;x69;x6f;x6e;x20;x6f;x75;x74;x20;x6f;x66;x20;x72;x61;x6e;x67;x65] (s_buf, s_off, s_lastRead)
  else match sl_to s_buf (s_off + n) with
    | None => BRange (s_buf, s_off, s_lastRead)
    | Some r1_ => let s_buf := r1_ in
      BOk tt (s_buf, s_off, s_lastRead)
    end.

(* PrintCtx.Read  (BOk results state | BRange state | BPanic v state) *)
Definition buf_read_ref (s_buf : gslice) (s_off s_lastRead : Z) (p : gslice) : bres (Z * err) (bstate * gslice) :=
  let n := 0 in
  let err := ENil in
  let s_lastRead := 0 in
  if (buf_empty_ref s_buf s_off s_lastRead)
  then match buf_reset_ref s_buf s_off s_lastRead with
    | BOk _ st_ => let '(s_buf, s_off, s_lastRead) := st_ in
      if ((sl_len p) =? 0)
      then BOk ((0, ENil)) (s_buf, s_off, s_lastRead, p)
      else BOk ((0, EEOF)) (s_buf, s_off, s_lastRead, p)
    | BRange st_ => let '(s_buf, s_off, s_lastRead) := st_ in BRange (s_buf, s_off, s_lastRead, p)
    | BPanic p_ st_ => let '(s_buf, s_off, s_lastRead) := st_ in BPanic p_ (s_buf, s_off, s_lastRead, p)
    end
  else match sl_from s_buf s_off with
    | None => BRange (s_buf, s_off, s_lastRead, p)
    | Some r1_ => match sl_copy_at p 0 (sl_bytes r1_) with
      | None => BRange (s_buf, s_off, s_lastRead, p)
      | Some r2_ => let '(r3_, p) := r2_ in
        let n := r3_ in
        let s_off := (s_off + n) in
        let s_lastRead := if (0 <? n)
        then let s_lastRead := (-1) in
        s_lastRead
        else s_lastRead in
        BOk ((n, ENil)) (s_buf, s_off, s_lastRead, p)
      end
    end.

(* PrintCtx.Next  (BOk results state | BRange state | BPanic v state) *)
Definition buf_next_ref (s_buf : gslice) (s_off s_lastRead : Z) (n : Z) : bres gslice bstate :=
  let s_lastRead := 0 in
  let m := (buf_len_ref s_buf s_off s_lastRead) in
  let n := if (m <? n)
  then let n := m in
  n
  else n in
  match sl_range s_buf s_off (s_off + n) with
    | None => BRange (s_buf, s_off, s_lastRead)
    | Some r1_ => let data := r1_ in
      let s_off := (s_off + n) in
      let s_lastRead := if (0 <? n)
      then let s_lastRead := (-1) in
      s_lastRead
      else s_lastRead in
      BOk (data) (s_buf, s_off, s_lastRead)
    end.

(* PrintCtx.ReadByte  (BOk results state | BRange state | BPanic v state) *)
Definition buf_read_byte_ref (s_buf : gslice) (s_off s_lastRead : Z) : bres (Z * err) bstate :=
  if (buf_empty_ref s_buf s_off s_lastRead)
  then match buf_reset_ref s_buf s_off s_lastRead with
    | BOk _ st_ => let '(s_buf, s_off, s_lastRead) := st_ in
      BOk ((0, EEOF)) (s_buf, s_off, s_lastRead)
    | BRange st_ => let '(s_buf, s_off, s_lastRead) := st_ in BRange (s_buf, s_off, s_lastRead)
    | BPanic p_ st_ => let '(s_buf, s_off, s_lastRead) := st_ in BPanic p_ (s_buf, s_off, s_lastRead)
    end
  else match sl_at s_buf s_off with
    | None => BRange (s_buf, s_off, s_lastRead)
    | Some r1_ => let c := r1_ in
      let s_off := (s_off + 1) in
      let s_lastRead := (-1) in
      BOk ((c, ENil)) (s_buf, s_off, s_lastRead)
    end.

(* PrintCtx.ReadRune  (BOk results state | BRange state | BPanic v state) *)
Definition buf_read_rune_ref (s_buf : gslice) (s_off s_lastRead : Z) : bres (Z * Z * err) bstate :=
  let r := 0 in
  let size := 0 in
  let err := ENil in
  if (buf_empty_ref s_buf s_off s_lastRead)
  then match buf_reset_ref s_buf s_off s_lastRead with
    | BOk _ st_ => let '(s_buf, s_off, s_lastRead) := st_ in
      BOk ((0, 0, EEOF)) (s_buf, s_off, s_lastRead)
    | BRange st_ => let '(s_buf, s_off, s_lastRead) := st_ in BRange (s_buf, s_off, s_lastRead)
    | BPanic p_ st_ => let '(s_buf, s_off, s_lastRead) := st_ in BPanic p_ (s_buf, s_off, s_lastRead)
    end
  else match sl_at s_buf s_off with
    | None => BRange (s_buf, s_off, s_lastRead)
    | Some r1_ => let c := r1_ in
      if (c <? 128)
      then let s_off := (s_off + 1) in
      let s_lastRead := 1 in
      BOk ((c, 1, ENil)) (s_buf, s_off, s_lastRead)
      else match sl_from s_buf s_off with
      | None => BRange (s_buf, s_off, s_lastRead)
      | Some r2_ => let '(r, n) := decode_rune_z (sl_bytes r2_) in
        let s_off := (s_off + n) in
        let s_lastRead := ((n + 128) mod 256 - 128) in
        BOk ((r, n, ENil)) (s_buf, s_off, s_lastRead)
      end
    end.

(* PrintCtx.UnreadRune  (BOk results state | BRange state | BPanic v state) *)
Definition buf_unread_rune_ref (s_buf : gslice) (s_off s_lastRead : Z) : bres err bstate :=
  if (s_lastRead <=? 0)
  then BOk ((EUnreadRune)) (s_buf, s_off, s_lastRead)
  else let s_off := if (s_lastRead <=? s_off)
  then let s_off := (s_off - s_lastRead) in
  s_off
  else s_off in
  let s_lastRead := 0 in
  BOk (ENil) (s_buf, s_off, s_lastRead).

(* PrintCtx.UnreadByte  (BOk results state | BRange state | BPanic v state) *)
Definition buf_unread_byte_ref (s_buf : gslice) (s_off s_lastRead : Z) : bres err bstate :=
  if (s_lastRead =? 0)
  then BOk (EUnreadByte) (s_buf, s_off, s_lastRead)
  else let s_lastRead := 0 in
  let s_off := if (0 <? s_off)
  then let s_off := (s_off - 1) in
  s_off
  else s_off in
  BOk (ENil) (s_buf, s_off, s_lastRead).

(* PrintCtx.WriteTo  (BOk results state | BRange state | BPanic v state) *)
Definition buf_write_to_ref (s_buf : gslice) (s_off s_lastRead : Z) (w : unit) (w_m : Z) (w_e : err) (tr_ : list bytes) : bres (Z * err) (bstate * list bytes) :=
  let n := 0 in
  let err := ENil in
  let s_lastRead := 0 in
  let nBytes := (buf_len_ref s_buf s_off s_lastRead) in
  if (0 <? nBytes)
  then match sl_from s_buf s_off with
    | None => BRange (s_buf, s_off, s_lastRead, tr_)
    | Some r1_ => let '(m, e) := (w_m, w_e) in
      let tr_ := tr_ ++ [sl_bytes r1_] in
      if (nBytes <? m)
      then BPanic [x6c;x6f;x67;x67;x2f;x73;x6c;x6f;x67;x2e;x50;x72;x69;x6e;x74;x43;x74;x78;x2e;x57;x72;x69;x74;x65;x54;x6f;x3a;x20;x69;x6e;x76;x61;x6c;x69;x64;x20;x57;x72;x69;x74;x65;x20;x63;x6f;x75;x6e;x74] (s_buf, s_off, s_lastRead, tr_)
      else let s_off := (s_off + m) in
      let n := m in
      if (negb (err_is_enil e))
      then BOk ((n, e)) (s_buf, s_off, s_lastRead, tr_)
      else if (negb (m =? nBytes))
      then BOk ((n, EShortWrite)) (s_buf, s_off, s_lastRead, tr_)
      else match buf_reset_ref s_buf s_off s_lastRead with
      | BOk _ st_ => let '(s_buf, s_off, s_lastRead) := st_ in
        BOk ((n, ENil)) (s_buf, s_off, s_lastRead, tr_)
      | BRange st_ => let '(s_buf, s_off, s_lastRead) := st_ in BRange (s_buf, s_off, s_lastRead, tr_)
      | BPanic p_ st_ => let '(s_buf, s_off, s_lastRead) := st_ in BPanic p_ (s_buf, s_off, s_lastRead, tr_)
      end
    end
  else match buf_reset_ref s_buf s_off s_lastRead with
    | BOk _ st_ => let '(s_buf, s_off, s_lastRead) := st_ in
      BOk ((n, ENil)) (s_buf, s_off, s_lastRead, tr_)
    | BRange st_ => let '(s_buf, s_off, s_lastRead) := st_ in BRange (s_buf, s_off, s_lastRead, tr_)
    | BPanic p_ st_ => let '(s_buf, s_off, s_lastRead) := st_ in BPanic p_ (s_buf, s_off, s_lastRead, tr_)
    end.

(* ---- the write side.  The generated code does not track whether s.buf is nil (s.buf == nil is the oracle
   f_isnil), so a state is compared with the model's up to that flag: [forget] ---- *)
Definition forget (s : pc) : pc := mkpc (data s) (off s) (cap s) false (last_read s).

(* grow(n) returns the write index m with len(s.buf) = m + n; the model's [grow] is grow(n) followed by
   s.buf = s.buf[:m] (the bytes m .. m+n-1 are overwritten by every caller): the generated result is read as
   (state with the buffer cut back to m, m, len(s.buf)) *)
Definition grow_gen_view (r : bres Z bstate) : gres * (Z * Z) :=
  match r with
  | BOk m (b, o, l) => (GOk (mkpc (ztake m (fst b)) o (sl_cap b) false l), (m, sl_len b))
  | BRange _ => (GPanic PRange, (0, 0))
  | BPanic p _ => (GPanic (panic_of p), (0, 0))
  end.
Definition grow_model_view (n : Z) (g : gres) : gres * (Z * Z) :=
  match g with
  | GOk s => (GOk (forget s), (blen s, blen s + n))
  | GPanic q => (GPanic q, (0, 0))
  end.

(* a step of the model, up to the nil flag; after a panic only the panic is compared (the model keeps the
   state from before the call there, the code may already have reset an empty buffer) *)
Definition wview (x : pc * result) : option pc * result :=
  if halts (snd x) then (None, snd x) else (Some (forget (fst x)), snd x).

(* the state is well formed for the write side: 0 <= off <= len, and a nil buffer has no array *)
Definition st_wf (nil : bool) (st : bstate) : bool :=
  let '(b, o, _) := st in (0 <=? o) && (o <=? sl_len b) && (if nil then sl_cap b =? 0 else true).

(* PrintCtx.tryGrowByReslice  (BOk results state | BRange state | BPanic v state) *)
Definition buf_try_grow_ref (s_buf : gslice) (s_off s_lastRead : Z) (n : Z) : bres (Z * bool) bstate :=
  let l := (sl_len s_buf) in
  if (n <=? ((sl_cap s_buf) - l))
  then match sl_to s_buf (l + n) with
    | None => BRange (s_buf, s_off, s_lastRead)
    | Some r1_ => let s_buf := r1_ in
      BOk ((l, true)) (s_buf, s_off, s_lastRead)
    end
  else BOk ((0, false)) (s_buf, s_off, s_lastRead).

(* PrintCtx.grow  (BOk results state | BRange state | BPanic v state) *)
Definition buf_grow_int_ref (s_buf : gslice) (s_off s_lastRead : Z) (f_isnil : gslice -> bool) (f_growSlice : gslice -> Z -> bres gslice unit) (n : Z) : bres Z bstate :=
  let m := (buf_len_ref s_buf s_off s_lastRead) in
  if ((m =? 0) && (negb (s_off =? 0)))
  then match buf_reset_ref s_buf s_off s_lastRead with
    | BOk _ st_ => let '(s_buf, s_off, s_lastRead) := st_ in
      match buf_try_grow_ref s_buf s_off s_lastRead n with
      | BOk r_ st_ => let '(s_buf, s_off, s_lastRead) := st_ in let '(i, ok) := r_ in
        if ok
        then BOk (i) (s_buf, s_off, s_lastRead)
        else if ((f_isnil s_buf) && (n <=? 64))
        then match sl_make n 64 with
        | None => BRange (s_buf, s_off, s_lastRead)
        | Some r1_ => let s_buf := r1_ in
          BOk (0) (s_buf, s_off, s_lastRead)
        end
        else let c := (sl_cap s_buf) in
        if (n <=? ((Z.quot c 2) - m))
        then match sl_from s_buf s_off with
        | None => BRange (s_buf, s_off, s_lastRead)
        | Some r2_ => match sl_copy_at s_buf 0 (sl_bytes r2_) with
          | None => BRange (s_buf, s_off, s_lastRead)
          | Some r3_ => let '(r4_, s_buf) := r3_ in
            let s_off := 0 in
            match sl_to s_buf (m + n) with
            | None => BRange (s_buf, s_off, s_lastRead)
            | Some r5_ => let s_buf := r5_ in
              BOk (m) (s_buf, s_off, s_lastRead)
            end
          end
        end
        else if (((9223372036854775807 - c) - n) <? c)
        then BPanic p_toolarge (s_buf, s_off, s_lastRead)
        else match sl_from s_buf s_off with
        | None => BRange (s_buf, s_off, s_lastRead)
        | Some r6_ => match f_growSlice r6_ (s_off + n) with
          | BOk r_ st_ => let s_buf := r_ in
            let s_off := 0 in
            match sl_to s_buf (m + n) with
            | None => BRange (s_buf, s_off, s_lastRead)
            | Some r7_ => let s_buf := r7_ in
              BOk (m) (s_buf, s_off, s_lastRead)
            end
          | BRange st_ => BRange (s_buf, s_off, s_lastRead)
          | BPanic p_ st_ => BPanic p_ (s_buf, s_off, s_lastRead)
          end
        end
      | BRange st_ => let '(s_buf, s_off, s_lastRead) := st_ in BRange (s_buf, s_off, s_lastRead)
      | BPanic p_ st_ => let '(s_buf, s_off, s_lastRead) := st_ in BPanic p_ (s_buf, s_off, s_lastRead)
      end
    | BRange st_ => let '(s_buf, s_off, s_lastRead) := st_ in BRange (s_buf, s_off, s_lastRead)
    | BPanic p_ st_ => let '(s_buf, s_off, s_lastRead) := st_ in BPanic p_ (s_buf, s_off, s_lastRead)
    end
  else match buf_try_grow_ref s_buf s_off s_lastRead n with
    | BOk r_ st_ => let '(s_buf, s_off, s_lastRead) := st_ in let '(i, ok) := r_ in
      if ok
      then BOk (i) (s_buf, s_off, s_lastRead)
      else if ((f_isnil s_buf) && (n <=? 64))
      then match sl_make n 64 with
      | None => BRange (s_buf, s_off, s_lastRead)
      | Some r8_ => let s_buf := r8_ in
        BOk (0) (s_buf, s_off, s_lastRead)
      end
      else let c := (sl_cap s_buf) in
      if (n <=? ((Z.quot c 2) - m))
      then match sl_from s_buf s_off with
      | None => BRange (s_buf, s_off, s_lastRead)
      | Some r9_ => match sl_copy_at s_buf 0 (sl_bytes r9_) with
        | None => BRange (s_buf, s_off, s_lastRead)
        | Some r10_ => let '(r11_, s_buf) := r10_ in
          let s_off := 0 in
          match sl_to s_buf (m + n) with
          | None => BRange (s_buf, s_off, s_lastRead)
          | Some r12_ => let s_buf := r12_ in
            BOk (m) (s_buf, s_off, s_lastRead)
          end
        end
      end
      else if (((9223372036854775807 - c) - n) <? c)
      then BPanic p_toolarge (s_buf, s_off, s_lastRead)
      else match sl_from s_buf s_off with
      | None => BRange (s_buf, s_off, s_lastRead)
      | Some r13_ => match f_growSlice r13_ (s_off + n) with
        | BOk r_ st_ => let s_buf := r_ in
          let s_off := 0 in
          match sl_to s_buf (m + n) with
          | None => BRange (s_buf, s_off, s_lastRead)
          | Some r14_ => let s_buf := r14_ in
            BOk (m) (s_buf, s_off, s_lastRead)
          end
        | BRange st_ => BRange (s_buf, s_off, s_lastRead)
        | BPanic p_ st_ => BPanic p_ (s_buf, s_off, s_lastRead)
        end
      end
    | BRange st_ => let '(s_buf, s_off, s_lastRead) := st_ in BRange (s_buf, s_off, s_lastRead)
    | BPanic p_ st_ => let '(s_buf, s_off, s_lastRead) := st_ in BPanic p_ (s_buf, s_off, s_lastRead)
    end.

(* PrintCtx.Grow  (BOk results state | BRange state | BPanic v state) *)
Definition buf_grow_ref (s_buf : gslice) (s_off s_lastRead : Z) (f_isnil : gslice -> bool) (f_growSlice : gslice -> Z -> bres gslice unit) (n : Z) : bres unit bstate :=
  if (n <? 0)
  then BPanic [x6c;x6f;x67;x67;x2f;x73;x6c;x6f;x67;x2e;x50;x72;x69;x6e;x74;x43;x74;x78;x2e;x47;x72;x6f;x77;x3a;x20;x6e;x65;x67;x61;x74;x69;x76;x65;x20;x63;x6f;x75;x6e;x74] (s_buf, s_off, s_lastRead)
  else match buf_grow_int_ref s_buf s_off s_lastRead f_isnil f_growSlice n with
    | BOk r_ st_ => let '(s_buf, s_off, s_lastRead) := st_ in let m := r_ in
      match sl_to s_buf m with
      | None => BRange (s_buf, s_off, s_lastRead)
      | Some r1_ => let s_buf := r1_ in
        BOk tt (s_buf, s_off, s_lastRead)
      end
    | BRange st_ => let '(s_buf, s_off, s_lastRead) := st_ in BRange (s_buf, s_off, s_lastRead)
    | BPanic p_ st_ => let '(s_buf, s_off, s_lastRead) := st_ in BPanic p_ (s_buf, s_off, s_lastRead)
    end.

(* PrintCtx.Write  (BOk results state | BRange state | BPanic v state) *)
Definition buf_write_ref (s_buf : gslice) (s_off s_lastRead : Z) (f_isnil : gslice -> bool) (f_growSlice : gslice -> Z -> bres gslice unit) (p : gslice) : bres (Z * err) bstate :=
  let n := 0 in
  let err := ENil in
  let s_lastRead := 0 in
  match buf_try_grow_ref s_buf s_off s_lastRead (sl_len p) with
    | BOk r_ st_ => let '(s_buf, s_off, s_lastRead) := st_ in let '(m, ok) := r_ in
      if (negb ok)
      then match buf_grow_int_ref s_buf s_off s_lastRead f_isnil f_growSlice (sl_len p) with
      | BOk r_ st_ => let '(s_buf, s_off, s_lastRead) := st_ in let m := r_ in
        match sl_copy_at s_buf m (sl_bytes p) with
        | None => BRange (s_buf, s_off, s_lastRead)
        | Some r1_ => let '(r2_, s_buf) := r1_ in
          BOk ((r2_, ENil)) (s_buf, s_off, s_lastRead)
        end
      | BRange st_ => let '(s_buf, s_off, s_lastRead) := st_ in BRange (s_buf, s_off, s_lastRead)
      | BPanic p_ st_ => let '(s_buf, s_off, s_lastRead) := st_ in BPanic p_ (s_buf, s_off, s_lastRead)
      end
      else match sl_copy_at s_buf m (sl_bytes p) with
      | None => BRange (s_buf, s_off, s_lastRead)
      | Some r3_ => let '(r4_, s_buf) := r3_ in
        BOk ((r4_, ENil)) (s_buf, s_off, s_lastRead)
      end
    | BRange st_ => let '(s_buf, s_off, s_lastRead) := st_ in BRange (s_buf, s_off, s_lastRead)
    | BPanic p_ st_ => let '(s_buf, s_off, s_lastRead) := st_ in BPanic p_ (s_buf, s_off, s_lastRead)
    end.

(* PrintCtx.WriteString  (BOk results state | BRange state | BPanic v state) *)
Definition buf_write_string_ref (s_buf : gslice) (s_off s_lastRead : Z) (f_isnil : gslice -> bool) (f_growSlice : gslice -> Z -> bres gslice unit) (str : bytes) : bres (Z * err) bstate :=
  let n := 0 in
  let err := ENil in
  let s_lastRead := 0 in
  match buf_try_grow_ref s_buf s_off s_lastRead (Z.of_nat (List.length str)) with
    | BOk r_ st_ => let '(s_buf, s_off, s_lastRead) := st_ in let '(m, ok) := r_ in
      if (negb ok)
      then match buf_grow_int_ref s_buf s_off s_lastRead f_isnil f_growSlice (Z.of_nat (List.length str)) with
      | BOk r_ st_ => let '(s_buf, s_off, s_lastRead) := st_ in let m := r_ in
        match sl_copy_at s_buf m str with
        | None => BRange (s_buf, s_off, s_lastRead)
        | Some r1_ => let '(r2_, s_buf) := r1_ in
          BOk ((r2_, ENil)) (s_buf, s_off, s_lastRead)
        end
      | BRange st_ => let '(s_buf, s_off, s_lastRead) := st_ in BRange (s_buf, s_off, s_lastRead)
      | BPanic p_ st_ => let '(s_buf, s_off, s_lastRead) := st_ in BPanic p_ (s_buf, s_off, s_lastRead)
      end
      else match sl_copy_at s_buf m str with
      | None => BRange (s_buf, s_off, s_lastRead)
      | Some r3_ => let '(r4_, s_buf) := r3_ in
        BOk ((r4_, ENil)) (s_buf, s_off, s_lastRead)
      end
    | BRange st_ => let '(s_buf, s_off, s_lastRead) := st_ in BRange (s_buf, s_off, s_lastRead)
    | BPanic p_ st_ => let '(s_buf, s_off, s_lastRead) := st_ in BPanic p_ (s_buf, s_off, s_lastRead)
    end.

(* PrintCtx.WriteByte  (BOk results state | BRange state | BPanic v state) *)
Definition buf_write_byte_ref (s_buf : gslice) (s_off s_lastRead : Z) (f_isnil : gslice -> bool) (f_growSlice : gslice -> Z -> bres gslice unit) (c : Z) : bres err bstate :=
  let s_lastRead := 0 in
  match buf_try_grow_ref s_buf s_off s_lastRead 1 with
    | BOk r_ st_ => let '(s_buf, s_off, s_lastRead) := st_ in let '(m, ok) := r_ in
      if (negb ok)
      then match buf_grow_int_ref s_buf s_off s_lastRead f_isnil f_growSlice 1 with
      | BOk r_ st_ => let '(s_buf, s_off, s_lastRead) := st_ in let m := r_ in
        match sl_set s_buf m c with
        | None => BRange (s_buf, s_off, s_lastRead)
        | Some r1_ => let s_buf := r1_ in
          BOk (ENil) (s_buf, s_off, s_lastRead)
        end
      | BRange st_ => let '(s_buf, s_off, s_lastRead) := st_ in BRange (s_buf, s_off, s_lastRead)
      | BPanic p_ st_ => let '(s_buf, s_off, s_lastRead) := st_ in BPanic p_ (s_buf, s_off, s_lastRead)
      end
      else match sl_set s_buf m c with
      | None => BRange (s_buf, s_off, s_lastRead)
      | Some r2_ => let s_buf := r2_ in
        BOk (ENil) (s_buf, s_off, s_lastRead)
      end
    | BRange st_ => let '(s_buf, s_off, s_lastRead) := st_ in BRange (s_buf, s_off, s_lastRead)
    | BPanic p_ st_ => let '(s_buf, s_off, s_lastRead) := st_ in BPanic p_ (s_buf, s_off, s_lastRead)
    end.

(* PrintCtx.WriteRune  (BOk results state | BRange state | BPanic v state) *)
Definition buf_write_rune_ref (s_buf : gslice) (s_off s_lastRead : Z) (f_isnil : gslice -> bool) (f_growSlice : gslice -> Z -> bres gslice unit) (r : Z) : bres (Z * err) bstate :=
  let n := 0 in
  let err := ENil in
  if ((r mod 4294967296) <? 128)
  then match buf_write_byte_ref s_buf s_off s_lastRead f_isnil f_growSlice (r mod 256) with
    | BOk r_ st_ => let '(s_buf, s_off, s_lastRead) := st_ in let _ := r_ in
      BOk ((1, ENil)) (s_buf, s_off, s_lastRead)
    | BRange st_ => let '(s_buf, s_off, s_lastRead) := st_ in BRange (s_buf, s_off, s_lastRead)
    | BPanic p_ st_ => let '(s_buf, s_off, s_lastRead) := st_ in BPanic p_ (s_buf, s_off, s_lastRead)
    end
  else let s_lastRead := 0 in
  match buf_try_grow_ref s_buf s_off s_lastRead 4 with
    | BOk r_ st_ => let '(s_buf, s_off, s_lastRead) := st_ in let '(m, ok) := r_ in
      if (negb ok)
      then match buf_grow_int_ref s_buf s_off s_lastRead f_isnil f_growSlice 4 with
      | BOk r_ st_ => let '(s_buf, s_off, s_lastRead) := st_ in let m := r_ in
        match sl_to s_buf m with
        | None => BRange (s_buf, s_off, s_lastRead)
        | Some r1_ => match sl_append_in r1_ (encode_rune r) with
          | None => BRange (s_buf, s_off, s_lastRead)
          | Some r2_ => let s_buf := r2_ in
            BOk ((((sl_len s_buf) - m), ENil)) (s_buf, s_off, s_lastRead)
          end
        end
      | BRange st_ => let '(s_buf, s_off, s_lastRead) := st_ in BRange (s_buf, s_off, s_lastRead)
      | BPanic p_ st_ => let '(s_buf, s_off, s_lastRead) := st_ in BPanic p_ (s_buf, s_off, s_lastRead)
      end
      else match sl_to s_buf m with
      | None => BRange (s_buf, s_off, s_lastRead)
      | Some r3_ => match sl_append_in r3_ (encode_rune r) with
        | None => BRange (s_buf, s_off, s_lastRead)
        | Some r4_ => let s_buf := r4_ in
          BOk ((((sl_len s_buf) - m), ENil)) (s_buf, s_off, s_lastRead)
        end
      end
    | BRange st_ => let '(s_buf, s_off, s_lastRead) := st_ in BRange (s_buf, s_off, s_lastRead)
    | BPanic p_ st_ => let '(s_buf, s_off, s_lastRead) := st_ in BPanic p_ (s_buf, s_off, s_lastRead)
    end.

(* ---- ReadFrom: the reader is a script of answers (Model/Buffer.v).  r.Read(p) with p = s.buf[i:cap(s.buf)]:
   the window starts at cap(s.buf) - len(p) of the array of s.buf; the answer's bytes (at most len(p)) are
   stored there, i.e. in the array of s.buf, whose length is unchanged ---- *)
Definition err_eqb (a b : err) : bool :=
  match a, b with
  | ENil, ENil | EEOF, EEOF | EUnreadByte, EUnreadByte | EUnreadRune, EUnreadRune | EShortWrite, EShortWrite | EUser, EUser => true
  | _, _ => false
  end.
Definition rerr_err (e : rerr) : err := match e with RNil => ENil | REOF => EEOF | RErr => EUser end.
Definition rd_read (s_buf : gslice) (script : list rresp) (p : gslice) : bres (Z * err) (gslice * list rresp) :=
  match script with
  | [] => BOk (0, EEOF) (s_buf, [])
  | RNeg :: t => BOk (-1, ENil) (s_buf, t)
  | RData bs e :: t =>
      let got := firstn (List.length (fst p)) bs in
      let start := Z.to_nat (sl_cap s_buf - sl_len p) in
      let all := sl_all s_buf in
      let all' := firstn start all ++ got ++ skipn (start + List.length got) all in
      BOk (Z.of_nat (List.length got), rerr_err e)
          ((firstn (List.length (fst s_buf)) all', skipn (List.length (fst s_buf)) all'), t)
  end.
Definition bview_rf (nil : bool) (r : bres (Z * err) (bstate * list rresp)) : pc * result :=
  match r with
  | BOk v (st, _) => (abs_pc nil st, Res [fst v] [] (snd v))
  | BRange (st, _) => (abs_pc nil st, Panicked PRange)
  | BPanic m (st, _) => (abs_pc nil st, Panicked (panic_of m))
  end.

(* PrintCtx.ReadFrom  (BOk results state | BRange state | BPanic v state) *)
Definition buf_read_from_ref (s_buf : gslice) (s_off s_lastRead : Z) (f_isnil : gslice -> bool) (f_growSlice : gslice -> Z -> bres gslice unit) (f_errors_is : err -> err -> bool) (r : unit) (script_ : list rresp) : bres (Z * err) (bstate * list rresp) :=
  let n := 0 in
  let err := ENil in
  let s_lastRead := 0 in
  match go_loop_b (S (List.length script_)) (fun st_ => let '(s_buf, n, err, s_off, s_lastRead, script_) := st_ in
        match buf_grow_int_ref s_buf s_off s_lastRead f_isnil f_growSlice 512 with
        | BOk r_ st_ => let '(s_buf, s_off, s_lastRead) := st_ in let i := r_ in
          match sl_to s_buf i with
          | None => LbEnd (BRange (s_buf, s_off, s_lastRead, script_))
          | Some r1_ => let s_buf := r1_ in
            match sl_range s_buf i (sl_cap s_buf) with
            | None => LbEnd (BRange (s_buf, s_off, s_lastRead, script_))
            | Some r2_ => match rd_read s_buf script_ r2_ with
              | BOk r_ st_ => let '(s_buf, script_) := st_ in let '(m, e) := r_ in
                if (m <? 0)
                then LbEnd (BPanic p_negread (s_buf, s_off, s_lastRead, script_))
                else match sl_to s_buf (i + m) with
                | None => LbEnd (BRange (s_buf, s_off, s_lastRead, script_))
                | Some r3_ => let s_buf := r3_ in
                  let n := (n + m) in
                  if (err_eqb e EEOF)
                  then LbEnd (BOk ((n, ENil)) (s_buf, s_off, s_lastRead, script_))
                  else if (negb (err_is_enil e))
                  then LbEnd (BOk ((n, e)) (s_buf, s_off, s_lastRead, script_))
                  else LbNext (s_buf, n, err, s_off, s_lastRead, script_)
                end
              | BRange st_ => let '(s_buf, script_) := st_ in LbEnd (BRange (s_buf, s_off, s_lastRead, script_))
              | BPanic p_ st_ => let '(s_buf, script_) := st_ in LbEnd (BPanic p_ (s_buf, s_off, s_lastRead, script_))
              end
            end
          end
        | BRange st_ => let '(s_buf, s_off, s_lastRead) := st_ in LbEnd (BRange (s_buf, s_off, s_lastRead, script_))
        | BPanic p_ st_ => let '(s_buf, s_off, s_lastRead) := st_ in LbEnd (BPanic p_ (s_buf, s_off, s_lastRead, script_))
        end) (s_buf, n, err, s_off, s_lastRead, script_) with
    | None => BRange (s_buf, s_off, s_lastRead, script_)
    | Some (LrEnd r_) => r_
    | Some (LrBreak (s_buf, n, err, s_off, s_lastRead, script_)) => BOk (n, err) (s_buf, s_off, s_lastRead, script_)
    end.
