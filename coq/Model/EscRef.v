(* Reference versions (same signatures) of the functions of Gen/Escapes.v, translated from
   appendEscapedRune, appendQuotedWith and PrintCtx.appendEscapedJSONString of slog/pc.go: the
   fallbacks of those sites.  They are Model/Quote.v and Model/JsonEsc.v for the arguments the code
   passes (double quote, not ASCII-only, not graphic-only) and are not specified otherwise (None).
   No proofs here. *)
Require Import Verif.Model.Base Verif.Model.Decision Verif.Model.GoSem Verif.Model.Utf8 Verif.Model.Quote
  Verif.Model.JsonEsc.

Definition escape_rune_ref (isprint f_isInGraphicList : Z -> bool) (g_hex : bytes) (buf : bytes) (r : Z) (quote : Z)
  (ASCIIonly graphicOnly : bool) : option bytes :=
  if (quote =? 34) && negb ASCIIonly && negb graphicOnly then Some (buf ++ Quote.escape_rune isprint r) else None.

Definition quote_with_ref (isprint f_isInGraphicList : Z -> bool) (g_hex : bytes) (buf : bytes) (s : bytes) (quote : Z)
  (ASCIIonly graphicOnly : bool) : option bytes :=
  if (quote =? 34) && negb ASCIIonly && negb graphicOnly then Some (buf ++ quote_go isprint s) else None.

Definition json_escape_ref (g_hex : bytes) (m_safeSet : list (Z * bool)) (val : bytes) (buf : bytes) : option bytes :=
  Some (buf ++ json_escape val).

(* the two callers *)
Definition quoted_string_ref (isprint f_isInGraphicList : Z -> bool) (g_hex : bytes) (m_safeSet : list (Z * bool))
  (s_jsonMode : bool) (s_buf : bytes) (str : bytes) : option bytes :=
  Some (s_buf ++ if s_jsonMode then json_quote str else quote_go isprint str).
Definition string_key_ref (g_hex : bytes) (m_safeSet : list (Z * bool)) (s_jsonMode : bool) (s_buf : bytes) (str : bytes)
  : option bytes :=
  Some (s_buf ++ if s_jsonMode then json_quote str else str).
