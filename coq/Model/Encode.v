(* The three record encoders (slog/entry.go printImpl and helpers, slog/attr.go
   serializeAttrs, slog/pc.go appendValue, slog/colorize_tool.go) as one
   executable function from configuration and record to bytes.  No proofs here. *)
Require Import Verif.Model.Base Verif.Model.Dec Verif.Model.Decision Verif.Model.Level Verif.Model.Mode.
Require Import Verif.Model.Utf8 Verif.Model.Quote Verif.Model.JsonEsc Verif.Model.Attrs.

Record ecfg := {
  e_mode : shape;
  e_name : bytes;                         (* logger name, [] = none *)
  e_lvl : Z;                              (* severity of the record *)
  e_caller : option (bytes * Z * bytes);  (* file (after path hardening), line, function; None = Lcaller off *)
  e_tagw : Z;                             (* level tag width (levelOutputWidth) *)
  e_minw : Z;                             (* minimal message width *)
  e_ts : bytes                            (* the timestamp text (zone and layout: property C16) *)
}.

Fixpoint join_with (sep : bytes) (l : list bytes) : bytes :=
  match l with
  | [] => []
  | [x] => x
  | x :: t => x ++ sep ++ join_with sep t
  end.

(* ---- ANSI helpers ---- *)
Definition sgr (c : Z) : bytes := x1b :: x5b :: dec_of_Z c ++ [x6d].
Definition sgr_reset : bytes := [x1b; x5b; x30; x6d].
Definition clr_none : Z := -1.
Definition echo_color (c : Z) : bytes := if c =? clr_none then [] else sgr c.             (* ct.echoColor *)
Definition echo_color_bg (c b : Z) : bytes := echo_color c ++ echo_color b.               (* ct.echoColorAndBg *)
Definition lib_wrap_color_bg (c b : Z) (t : bytes) : bytes := echo_color_bg c b ++ t ++ sgr_reset.  (* color.WrapColorAndBgTo *)
Definition lib_wrap_color (c : Z) (t : bytes) : bytes := sgr c ++ t ++ sgr_reset.         (* color.WrapColorTo *)
Definition wrap_color_and_bg (t : bytes) (c b : Z) : bytes :=                             (* ct.wrapColorAndBg *)
  (if b =? clr_none then [] else sgr b) ++ lib_wrap_color c t.

Definition clr_timestamp : Z := 32.
Definition clr_dark_gray : Z := 90.
Definition clr_logger_name : Z := 37.
Definition clr_error : Z := 31.
Definition clr_basic : Z := 95.

(* strings.DotPrefix(leaf, prefix) *)
Definition dot_prefix (leaf pfx : bytes) : bytes :=
  match pfx with [] => leaf | _ => pfx ++ x2e :: leaf end.

Definition is_lf (b : byte) : bool := bz b =? 10.

(* strings.Split(s, "\n") *)
Fixpoint split_lf_aux (cur : bytes) (s : bytes) : list bytes :=
  match s with
  | [] => [rev cur]
  | b :: t => if is_lf b then rev cur :: split_lf_aux [] t else split_lf_aux (b :: cur) t
  end.
Definition split_lf (s : bytes) : list bytes := split_lf_aux [] s.

(* strings.TrimRight(s, "\n\r") *)
Definition is_crlf (b : byte) : bool := (bz b =? 10) || (bz b =? 13).
Fixpoint drop_while {A} (f : A -> bool) (l : list A) : list A :=
  match l with [] => [] | x :: t => if f x then drop_while f t else l end.
Definition trim_right_crlf (s : bytes) : bytes := rev (drop_while is_crlf (rev s)).

(* strings.Trim(s, "\n\r \t") == "" *)
Definition is_blank (b : byte) : bool := (bz b =? 10) || (bz b =? 13) || (bz b =? 32) || (bz b =? 9).
Definition all_blank (s : bytes) : bool := forallb is_blank s.

(* ct.splitFirstAndRestLines *)
Definition split_first_rest (msg : bytes) : bytes * bytes * bool :=
  match msg with
  | [] => ([], [], false)
  | _ =>
    let eol := match rev msg with b :: _ => is_lf b | [] => false end in
    let s := if eol then trim_right_crlf msg else msg in
    match split_lf s with
    | first :: (_ :: _) as rest => (first, join_with [x0a] rest, eol)
    | [first] => (first, [], eol)
    | [] => ([], [], eol)
    end
  end.

Definition right_pad (s : bytes) (minw : Z) : bytes :=
  s ++ repeat x20 (Z.to_nat (minw - Z.of_nat (length s))).

(* ct.translate: identity unless the text contains markup characters ('<' or '&');
   with markup the text goes through an HTML parser that is not modelled *)
Definition has_markup (s : bytes) : bool := existsb (fun b => (bz b =? 60) || (bz b =? 38)) s.

(* checkedfuncname without Lcallerpackagename: strip up to the last '/' *)
Fixpoint after_last_slash_aux (acc s : bytes) : bytes :=
  match s with
  | [] => rev acc
  | b :: t => if bz b =? 47 then after_last_slash_aux [] t else after_last_slash_aux (b :: acc) t
  end.
Definition after_last_slash (s : bytes) : bytes := after_last_slash_aux [] s.

Section Enc.
Variable isprint : Z -> bool.     (* strconv.IsPrint *)
Variable g : registry.            (* level names, tags and colours *)

Definition quoted (m : shape) (s : bytes) : bytes :=
  match m with ShJSON => json_quote s | _ => quote_go isprint s end.
Definition colon (m : shape) : bytes := match m with ShJSON => [x3a] | _ => [x3d] end.
Definition comma (m : shape) : bytes := match m with ShJSON => [x2c] | _ => [x20] end.
Definition key_token (m : shape) (k : bytes) : bytes := match m with ShJSON => json_quote k | _ => k end.
Definition bracket (l : list bytes) : bytes := x5b :: join_with [x2c] l ++ [x5d].
Definition json_wrap (m : shape) (t : bytes) : bytes := match m with ShJSON => x22 :: t ++ [x22] | _ => t end.
Definition bool_text (b : bool) : bytes := if b then [x74;x72;x75;x65] else [x66;x61;x6c;x73;x65].
Definition time_text (m : shape) (t : bytes) : bytes := match m with ShColor => t | _ => x22 :: t ++ [x22] end.

Definition is_group (v : value) : bool := match v with VGroup _ => true | _ => false end.

(* the colours of the record: mLevelColors[lvl], else the defaults set by PrintCtx.set *)
Definition level_colors (lvl : Z) : Z * Z :=
  match lookupZ (r_colors g) lvl with
  | Some (c :: b :: _) => (c, b)
  | Some [c] => (c, clr_none)
  | _ => (clr_basic, clr_none)
  end.

Section Rec.
Variable m : shape.
Variable clr bg : Z.

(* how a list of rendered members is put together *)
Definition render_members (top : bool) (ms : list bytes) : bytes :=
  match m with
  | ShJSON => if top then concat (map (fun x => x2c :: x) ms) else x7b :: join_with [x2c] ms ++ [x7d]
  | ShLogfmt => concat (map (fun x => x20 :: x) ms)
  | ShColor => concat (map (fun x => x20 :: echo_color_bg clr bg ++ x) ms) ++ sgr_reset
  end.

Definition key_part (grp : bool) (dk : bytes) : bytes :=
  match m with
  | ShJSON => json_quote dk ++ [x3a]
  | ShLogfmt => if grp then [] else dk ++ [x3d]
  | ShColor => if grp then [] else echo_color_bg clr_dark_gray clr_none ++ dk ++ echo_color_bg clr bg ++ [x3d]
  end.

Definition dkey (pfx k : bytes) : bytes := match m with ShJSON => k | _ => dot_prefix k pfx end.

Fixpoint ser_value (pfx : bytes) (v : value) {struct v} : bytes :=
  match v with
  | VNil => match m with ShJSON => [x6e;x75;x6c;x6c] | _ => [x3c;x6e;x69;x6c;x3e] end
  | VStr s => quoted m s
  | VErr e =>
      match m with
      | ShJSON => x7b :: json_quote [x6d;x65;x73;x73;x61;x67;x65] ++ x3a :: json_quote e ++ [x7d]
      | ShLogfmt => quoted m e
      | ShColor => echo_color clr_error ++ quoted m e ++ sgr_reset
      end
  | VBool b => bool_text b
  | VInt z => dec_of_Z z
  | VUint n => json_wrap m (dec_of_Z n)
  | VFloat t => json_wrap m t
  | VComplex t => json_wrap m t
  | VDur t => quoted m t
  | VTime t => time_text m t
  | VBytes s => quoted m s
  | VFallback t => quoted m t
  | VStrs l => bracket (map (quoted m) l)
  | VBools l => bracket (map bool_text l)
  | VInts l => bracket (map dec_of_Z l)
  | VUints l => bracket (map dec_of_Z l)
  | VFloats l => bracket (map (json_wrap m) l)
  | VDurs l => bracket (map (quoted m) l)
  | VTimes l => bracket (map (time_text m) l)
  | VGroup items =>
      render_members false
        ((fix go (l : list attr) : list bytes :=
            match l with
            | [] => []
            | ANil :: t => go t
            | A k x :: t => (key_part (is_group x) (dkey pfx k) ++ ser_value (dkey pfx k) x) :: go t
            end) items)
  end.

Fixpoint members_of (pfx : bytes) (l : list attr) : list bytes :=
  match l with
  | [] => []
  | ANil :: t => members_of pfx t
  | A k x :: t => (key_part (is_group x) (dkey pfx k) ++ ser_value (dkey pfx k) x) :: members_of pfx t
  end.

(* serializeAttrs at top level (prefix "") on the sorted, de-duplicated attributes *)
Definition ser_top (attrs : list attr) : bytes := render_members true (members_of [] (norm_attrs attrs)).

End Rec.

Definition field (m : shape) (name value : bytes) : bytes := key_token m name ++ colon m ++ quoted m value.

Definition n_time : bytes := [x74;x69;x6d;x65].
Definition n_logger : bytes := [x6c;x6f;x67;x67;x65;x72].
Definition n_level : bytes := [x6c;x65;x76;x65;x6c].
Definition n_msg : bytes := [x6d;x73;x67].
Definition n_caller : bytes := [x63;x61;x6c;x6c;x65;x72].
Definition n_file : bytes := [x66;x69;x6c;x65].
Definition n_line : bytes := [x6c;x69;x6e;x65].
Definition n_function : bytes := [x66;x75;x6e;x63;x74;x69;x6f;x6e].

Definition caller_part (m : shape) (c : option (bytes * Z * bytes)) : bytes :=
  match c with
  | None => []
  | Some (file, line, fn) =>
    match m with
    | ShJSON => x2c :: json_quote n_caller ++ x3a :: x7b ::
                  field m n_file file ++ x2c :: json_quote n_line ++ x3a :: dec_of_Z line ++ x2c :: field m n_function fn ++ [x7d]
    | ShLogfmt => x20 :: n_caller ++ x2e :: n_file ++ x3d :: quoted m file ++ x20 ::
                    n_caller ++ x2e :: n_line ++ x3d :: dec_of_Z line ++ x20 ::
                    n_caller ++ x2e :: n_function ++ x3d :: quoted m fn
    | ShColor => x20 :: file ++ x3a :: dec_of_Z line ++ x20 :: lib_wrap_color clr_dark_gray (after_last_slash fn) ++ sgr_reset
    end
  end.

(* ct.padFunc(rest, " ", 4, wrapColorAndBg) *)
Definition pad_rest (rest : bytes) (clr bg : Z) : bytes :=
  let lead := [x20;x20;x20;x20] in
  if existsb is_lf rest
  then join_with [x0a] (map (fun l => wrap_color_and_bg (lead ++ l) clr bg) (split_lf rest))
  else lead ++ rest.

Definition tag_of (w lvl : Z) : bytes := match short_tag g w lvl with Some t => t | None => [] end.

(* Entry.printImpl.  None: the message contains markup and goes through the HTML translator (not modelled) *)
Definition encode (c : ecfg) (msg : bytes) (attrs : list attr) : option bytes :=
  if (e_lvl c =? lv_always) && all_blank msg then Some [x0a]
  else
  match e_mode c with
  | ShJSON | ShLogfmt =>
      let m := e_mode c in
      Some ((match m with ShJSON => [x7b] | _ => [] end)
            ++ key_token m n_time ++ colon m ++ x22 :: e_ts c ++ x22 :: comma m
            ++ (match e_name c with [] => [] | nm => field m n_logger nm ++ comma m end)
            ++ field m n_level (level_string g (e_lvl c)) ++ comma m
            ++ field m n_msg msg
            ++ ser_top m 0 0 attrs
            ++ caller_part m (e_caller c)
            ++ (match m with ShJSON => [x7d] | _ => [] end) ++ [x0a])
  | ShColor =>
      let '(clr, bg) := level_colors (e_lvl c) in
      let '(first, rest, eol) := split_first_rest msg in
      let padded := right_pad first (e_minw c) in
      if has_markup padded then None
      else
      Some (echo_color clr_timestamp ++ e_ts c ++ [x7c; x20]
            ++ (match e_name c with [] => [] | nm => lib_wrap_color_bg clr_logger_name clr_none nm ++ [x20] end)
            ++ lib_wrap_color_bg clr bg (x5b :: tag_of (e_tagw c) (e_lvl c) ++ [x5d]) ++ [x20]
            ++ wrap_color_and_bg padded clr bg
            ++ ser_top ShColor clr bg attrs
            ++ caller_part ShColor (e_caller c)
            ++ (match rest with
                | [] => []
                | _ => x0a :: pad_rest rest clr bg ++ (if eol then [x0a] else [])
                end)
            ++ [x0a])
  end.

End Enc.
