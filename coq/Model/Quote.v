(* Go's strconv quoting as copied into slog/pc.go (appendQuotedWith /
   appendEscapedRune, double quote, not ASCII-only) and the strconv.Unquote
   subset that reads it back.  [isprint] stands for strconv.IsPrint.  No proofs here. *)
Require Import Verif.Model.Base Verif.Model.Utf8.

(* ---------- hex ---------- *)
Definition hexd (n : Z) : byte := if n <? 10 then zb (48 + n) else zb (87 + n).
Definition unhex (b : byte) : option Z :=
  let n := bz b in
  if (48 <=? n) && (n <=? 57) then Some (n - 48)
  else if (97 <=? n) && (n <=? 102) then Some (n - 87)
  else if (65 <=? n) && (n <=? 70) then Some (n - 55)
  else None.
(* k hex digits of r, most significant first *)
Fixpoint hexn (k : nat) (r : Z) : bytes :=
  match k with O => [] | S k' => hexd ((r / 16 ^ Z.of_nat k') mod 16) :: hexn k' r end.
(* parse exactly k hex digits *)
Fixpoint unhexn (k : nat) (acc : Z) (s : bytes) : option (Z * bytes) :=
  match k with
  | O => Some (acc, s)
  | S k' => match s with
            | [] => None
            | b :: t => match unhex b with Some d => unhexn k' (acc * 16 + d) t | None => None end
            end
  end.
Section Quote.
Variable isprint : Z -> bool.

Definition bs := x5c. Definition dq := x22.

(* appendEscapedRune with double quote, not ASCII-only *)
Definition escape_rune (r : Z) : bytes :=
  if (r =? 34) || (r =? 92) then [bs; zb r]
  else if isprint r then encode_rune r
  else if r =? 7 then [bs; x61] else if r =? 8 then [bs; x62] else if r =? 12 then [bs; x66]
  else if r =? 10 then [bs; x6e] else if r =? 13 then [bs; x72] else if r =? 9 then [bs; x74]
  else if r =? 11 then [bs; x76]
  else if (r <? 32) || (r =? 127) then bs :: x78 :: hexn 2 r
  else if negb (valid_rune r) then bs :: x75 :: hexn 4 65533
  else if r <? 65536 then bs :: x75 :: hexn 4 r
  else bs :: x55 :: hexn 8 r.

(* body of appendQuotedWith; skip = bytes of the current rune still to be dropped *)
Fixpoint qbody (skip : nat) (s : bytes) : bytes :=
  match s with
  | [] => []
  | b0 :: t =>
    match skip with
    | S k => qbody k t
    | O => let '(r, w) := decode_rune s in
           (if (Nat.eqb w 1) && (r =? RuneError) then bs :: x78 :: hexn 2 (bz b0) else escape_rune r)
             ++ qbody (w - 1) t
    end
  end.
Definition quote_go (s : bytes) : bytes := dq :: qbody 0 s ++ [dq].

(* strconv.Unquote on a double-quoted literal, after the opening quote *)
Fixpoint unq (skip : nat) (s : bytes) : option bytes :=
  match s with
  | [] => None
  | c :: t =>
    match skip with
    | S k => unq k t
    | O =>
      if bz c =? 34 then match t with [] => Some [] | _ => None end
      else if bz c =? 10 then None
      else if bz c =? 92 then
        match t with
        | [] => None
        | e :: t' =>
          let simple (v : Z) := option_map (cons (zb v)) (unq 1 t) in
          if bz e =? 97 then simple 7 else if bz e =? 98 then simple 8 else if bz e =? 102 then simple 12
          else if bz e =? 110 then simple 10 else if bz e =? 114 then simple 13 else if bz e =? 116 then simple 9
          else if bz e =? 118 then simple 11 else if bz e =? 92 then simple 92 else if bz e =? 34 then simple 34
          else if bz e =? 120 then
            match unhexn 2 0 t' with Some (v, _) => option_map (cons (zb v)) (unq 3 t) | None => None end
          else if bz e =? 117 then
            match unhexn 4 0 t' with
            | Some (v, _) => if valid_rune v then option_map (app (encode_rune v)) (unq 5 t) else None
            | None => None end
          else if bz e =? 85 then
            match unhexn 8 0 t' with
            | Some (v, _) => if valid_rune v then option_map (app (encode_rune v)) (unq 9 t) else None
            | None => None end
          else None
        end
      else if bz c <? 128 then option_map (cons c) (unq 0 t)
      else let '(r, w) := decode_rune s in option_map (app (encode_rune r)) (unq (w - 1) t)
    end
  end.
Definition unquote_go (s : bytes) : option bytes :=
  match s with c :: t => if bz c =? 34 then unq 0 t else None | [] => None end.

End Quote.
