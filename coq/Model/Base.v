(* Base definitions shared by all models: bytes, small list helpers, boolean
   equality tests used by the correspondence evaluators.  No proofs here. *)
From Coq Require Export List ZArith NArith Bool Lia.
From Coq Require Export Strings.Byte.
Export ListNotations.
Open Scope Z_scope.

Definition bytes := list byte.
Definition bz (b : byte) : Z := Z.of_N (Byte.to_N b).
Definition zb (z : Z) : byte :=
  match Byte.of_N (Z.to_N z) with Some b => b | None => x00 end.

Definition byte_eqb (a b : byte) : bool := Byte.eqb a b.

Fixpoint list_eqb {A} (eqb : A -> A -> bool) (a b : list A) : bool :=
  match a, b with
  | [], [] => true
  | x :: a', y :: b' => eqb x y && list_eqb eqb a' b'
  | _, _ => false
  end.

Definition bytes_eqb : bytes -> bytes -> bool := list_eqb byte_eqb.

Definition option_eqb {A} (eqb : A -> A -> bool) (a b : option A) : bool :=
  match a, b with
  | None, None => true
  | Some x, Some y => eqb x y
  | _, _ => false
  end.

Definition pair_eqb {A B} (ea : A -> A -> bool) (eb : B -> B -> bool)
  (a b : A * B) : bool := ea (fst a) (fst b) && eb (snd a) (snd b).

(* index list of the cases on which [ok] is false; counters are N (a unary
   nat of case-count size is fine, but N keeps vm_compute cheap) *)
Fixpoint mismatches_from {A} (ok : A -> bool) (i : N) (cs : list A) : list N :=
  match cs with
  | [] => []
  | c :: t => if ok c then mismatches_from ok (i + 1)%N t
              else i :: mismatches_from ok (i + 1)%N t
  end.
Definition mismatches {A} (ok : A -> bool) (cs : list A) : list N :=
  mismatches_from ok 0%N cs.

(* association lists keyed by Z *)
Fixpoint lookupZ {V} (m : list (Z * V)) (k : Z) : option V :=
  match m with
  | [] => None
  | (k', v) :: t => if k' =? k then Some v else lookupZ t k
  end.
Definition memZ (l : list Z) (k : Z) : bool := existsb (Z.eqb k) l.

(* Go's "last argument wins" loop over a variadic parameter *)
Definition last_of {A} (d : A) (l : list A) : A := fold_left (fun _ x => x) l d.

Fixpoint replace_nth {A} (n : nat) (l : list A) (x : A) : list A :=
  match l, n with
  | [], _ => []
  | _ :: t, O => x :: t
  | h :: t, S n' => h :: replace_nth n' t x
  end.
