(* C19: the buffer API of slog.PrintCtx (slog/pc.go, "type PrintCtx": fields buf,
   off, lastRead; methods copied from Go's bytes.Buffer) as an executable model,
   and the abstract specification of bytes.Buffer's contract.  No proofs here.

   Representation choices (all documented where they are made):
   * s.buf is [data] (the whole slice, positions 0..len-1), cap(s.buf) is [cap],
     "s.buf == nil" is [isnil]; s.buf[s.off:] is [contents].
   * bytes between len(s.buf) and cap(s.buf) are never read by the code: every
     path that extends the slice (s.buf[:l+n]) either overwrites the new part
     at once (copy, s.buf[m] = c, utf8.AppendRune, the io.Reader filling m bytes)
     or cuts it off again (Grow, ReadFrom's s.buf[:i]).  The model therefore
     keeps [data] at its meaningful length and represents "extend by n, then
     overwrite" as an append; the range condition of the extension
     (len + n <= cap) is checked explicitly and yields [Panicked PRange].
   * append's capacity rounding (runtime size classes) and the largest
     allocation are parameters [rup] and [maxalloc] of the model; the theorems
     hold for every [rup] with c <= rup c, the correspondence check instantiates
     them with Go 1.23's table ([go_rup]) and 2^48.
   * a panic ends the history (the run stops at the first [Panicked]/[Stuck]
     result); the state returned with a panic is the one the code leaves behind.
   * integers are unbounded Z; maxInt is 2^63-1 (the only place where the code
     looks at it is the ErrTooLarge guard of grow). *)
Require Import Verif.Model.Base Verif.Model.Utf8.

Definition zlen {A} (l : list A) : Z := Z.of_nat (length l).
Definition ztake {A} (n : Z) (l : list A) : list A := firstn (Z.to_nat n) l.
Definition zskip {A} (n : Z) (l : list A) : list A := skipn (Z.to_nat n) l.

Definition smallBufferSize : Z := 64.
Definition MinRead : Z := 512.
Definition UTFMax : Z := 4.
Definition maxInt : Z := 9223372036854775807.

(* readOp: opRead = -1, opInvalid = 0, opReadRune1..4 = 1..4 *)
Definition opRead : Z := -1.
Definition opInvalid : Z := 0.

(* ---------------------------------------------------------------- results *)
Inductive err := ENil | EEOF | EUnreadByte | EUnreadRune | EShortWrite | EUser.
Inductive panic :=
| PTooLarge       (* panic(ErrTooLarge) *)
| PNegRead        (* panic(errNegativeRead) *)
| PTruncate       (* "truncation out of range" *)
| PGrowNeg        (* "Grow: negative count" *)
| PWriteToCount   (* "WriteTo: invalid Write count" *)
| PRange.         (* Go runtime: index / slice bounds out of range *)
Inductive result :=
| Res (ns : list Z) (bs : bytes) (e : err)   (* the returned integers, bytes and error *)
| Panicked (p : panic)
| Stuck.  (* the writer script broke io.Writer's contract (negative count): not modelled *)

Definition halts (r : result) : bool := match r with Res _ _ _ => false | _ => true end.

(* ---------------------------------------------------------------- operations *)
Inductive rerr := RNil | REOF | RErr.
(* one answer of the io.Reader handed to ReadFrom: "copy these bytes into p
   (as many as fit) and return that count with this error", or a negative count.
   An exhausted script answers (0, io.EOF). *)
Inductive rresp := RData (bs : bytes) (e : rerr) | RNeg.

Inductive op :=
| OWrite (p : bytes) | OWriteString (p : bytes) | OWriteByte (c : byte) | OWriteRune (r : Z)
| ORead (n : Z)                 (* len(p) of the destination *)
| OReadByte | OReadRune | OUnreadByte | OUnreadRune
| ONext (n : Z)
| OReadBytes (delim : byte) | OReadString (delim : byte)
| OReadFrom (script : list rresp)
| OWriteTo (m : Z) (e : bool)   (* the io.Writer answers (m, e ? error : nil) *)
| OTruncate (n : Z) | OGrow (n : Z) | OReset
| OLen | OBytes | OString.

(* the only promise the code makes to the reader is room for MinRead bytes *)
Definition resp_wfb (x : rresp) : bool :=
  match x with RData bs _ => zlen bs <=? MinRead | RNeg => true end.
Definition op_wfb (o : op) : bool :=
  match o with OReadFrom script => forallb resp_wfb script | _ => true end.

Fixpoint index_byte (d : byte) (l : bytes) : Z :=   (* bytes.IndexByte *)
  match l with
  | [] => -1
  | x :: t => if byte_eqb x d then 0
              else let i := index_byte d t in if i <? 0 then -1 else i + 1
  end.

(* ================================================================ concrete *)
Record pc := mkpc { data : bytes; off : Z; cap : Z; isnil : bool; last_read : Z }.

Definition blen (s : pc) : Z := zlen (data s).                 (* len(s.buf) *)
Definition clen (s : pc) : Z := blen s - off s.                (* s.Len() *)
Definition contents (s : pc) : bytes := zskip (off s) (data s). (* s.buf[s.off:] *)
Definition cempty (s : pc) : bool := blen s <=? off s.          (* s.empty() *)
Definition set_last (s : pc) (v : Z) : pc := mkpc (data s) (off s) (cap s) (isnil s) v.
Definition advance (s : pc) (k : Z) (v : Z) : pc := mkpc (data s) (off s + k) (cap s) (isnil s) v.
Definition cappend (s : pc) (p : bytes) : pc := mkpc (data s ++ p) (off s) (cap s) (isnil s) (last_read s).
Definition creset (s : pc) : pc := mkpc [] 0 (cap s) (isnil s) opInvalid.   (* Reset *)

(* NewPrintCtx(buf) with len(buf) = length b, cap(buf) = c *)
Definition new_pc (b : bytes) (c : Z) (nil : bool) : pc := mkpc b 0 c nil opInvalid.

(* what NewPrintCtx can be handed: len(buf) <= cap(buf), and a nil slice is empty *)
Definition init_ok (b : bytes) (c : Z) (nil : bool) : Prop :=
  zlen b <= c /\ (nil = true -> b = [] /\ c = 0).

Inductive gres := GOk (s : pc) | GPanic (p : panic).

(* growSlice(b, n): the capacity it asks append for *)
Definition grow_slice_cap (lenb capb n : Z) : Z :=
  let c := lenb + n in if c <? 2 * capb then 2 * capb else c.

Section Env.
Variable rup : Z -> Z.        (* capacity append really gives for a request *)
Variable maxalloc : Z.        (* make([]byte, c) panics above this *)

(* grow(n) without the final extension: afterwards cap - len >= n and the write
   index is len *)
Definition grow (s0 : pc) (n : Z) : gres :=
  let m := clen s0 in
  let s := if (m =? 0) && negb (off s0 =? 0) then creset s0 else s0 in
  if n <=? cap s - blen s then GOk s                                   (* tryGrowByReslice *)
  else if isnil s && (n <=? smallBufferSize)
  then GOk (mkpc [] 0 smallBufferSize false (last_read s))             (* make([]byte, n, 64) *)
  else
    let c := cap s in
    let moved :=
      if n <=? c / 2 - m
      then GOk (mkpc (contents s) 0 c (isnil s) (last_read s))         (* copy(s.buf, s.buf[s.off:]) *)
      else if c >? maxInt - c - n then GPanic PTooLarge
      else let c2 := grow_slice_cap m (c - off s) (off s + n) in       (* growSlice(s.buf[s.off:], s.off+n) *)
           if c2 >? maxalloc then GPanic PTooLarge
           else GOk (mkpc (contents s) 0 (rup c2) false (last_read s)) in
    match moved with
    | GOk s' => if m + n <=? cap s' then GOk s' else GPanic PRange     (* s.buf = s.buf[:m+n] *)
    | p => p
    end.

(* m, ok := s.tryGrowByReslice(n); if !ok { m = s.grow(n) } *)
Definition ensure (s : pc) (n : Z) : gres :=
  if n <=? cap s - blen s then GOk s else grow s n.

(* Write / WriteString / WriteByte / WriteRune: lastRead = opInvalid, room for
   [need] bytes, then the bytes [p] (length <= need) are stored at the end *)
Definition c_put (s : pc) (need : Z) (p : bytes) (r : result) : pc * result :=
  let s1 := set_last s opInvalid in
  match ensure s1 need with
  | GOk s2 => (cappend s2 p, r)
  | GPanic q => (s1, Panicked q)
  end.

Fixpoint c_readfrom (s : pc) (script : list rresp) (n : Z) : pc * result :=
  match grow s MinRead with
  | GPanic q => (s, Panicked q)
  | GOk s1 =>
    match script with
    | [] => (s1, Res [n] [] ENil)                       (* (0, io.EOF) *)
    | RNeg :: _ => (s1, Panicked PNegRead)
    | RData bs e :: t =>
      let got := ztake (cap s1 - blen s1) bs in         (* copy(p, bs), len(p) = cap - len *)
      let s2 := cappend s1 got in
      let n' := n + zlen got in
      match e with
      | REOF => (s2, Res [n'] [] ENil)
      | RErr => (s2, Res [n'] [] EUser)
      | RNil => c_readfrom s2 t n'
      end
    end
  end.

Definition c_read_slice (s : pc) (d : byte) : pc * result :=
  let i := index_byte d (contents s) in
  let fin := if i <? 0 then blen s else off s + i + 1 in
  (mkpc (data s) fin (cap s) (isnil s) opRead,
   Res [] (ztake (fin - off s) (contents s)) (if i <? 0 then EEOF else ENil)).

Definition cstep (s : pc) (o : op) : pc * result :=
  match o with
  | OWrite p | OWriteString p => c_put s (zlen p) p (Res [zlen p] [] ENil)
  | OWriteByte c => c_put s 1 [c] (Res [] [] ENil)
  | OWriteRune r =>
      if (0 <=? r) && (r <? 128)                         (* uint32(r) < utf8.RuneSelf *)
      then c_put s 1 [zb r] (Res [1] [] ENil)
      else let e := encode_rune r in c_put s UTFMax e (Res [zlen e] [] ENil)
  | ORead n0 =>
      let n := Z.max 0 n0 in                             (* a length *)
      let s1 := set_last s opInvalid in
      if cempty s1 then (creset s1, Res [0] [] (if n =? 0 then ENil else EEOF))
      else let k := Z.min n (clen s1) in
           (advance s1 k (if 0 <? k then opRead else opInvalid), Res [k] (ztake k (contents s1)) ENil)
  | ONext n0 =>
      let s1 := set_last s opInvalid in
      let k := Z.min n0 (clen s1) in
      if k <? 0 then (s1, Panicked PRange)               (* s.buf[s.off : s.off+n] with n < 0 *)
      else (advance s1 k (if 0 <? k then opRead else opInvalid), Res [] (ztake k (contents s1)) ENil)
  | OReadByte =>
      if cempty s then (creset s, Res [0] [] EEOF)
      else match contents s with
           | [] => (s, Panicked PRange)                  (* s.buf[s.off] *)
           | c :: _ => (advance s 1 opRead, Res [bz c] [] ENil)
           end
  | OReadRune =>
      if cempty s then (creset s, Res [0; 0] [] EEOF)
      else match contents s with
           | [] => (s, Panicked PRange)
           | c :: _ =>
             if bz c <? 128 then (advance s 1 1, Res [bz c; 1] [] ENil)
             else let '(r, w) := decode_rune (contents s) in
                  (advance s (Z.of_nat w) (Z.of_nat w), Res [r; Z.of_nat w] [] ENil)
           end
  | OUnreadRune =>
      if last_read s <=? opInvalid then (s, Res [] [] EUnreadRune)
      else let o' := if off s >=? last_read s then off s - last_read s else off s in
           (mkpc (data s) o' (cap s) (isnil s) opInvalid, Res [] [] ENil)
  | OUnreadByte =>
      if last_read s =? opInvalid then (s, Res [] [] EUnreadByte)
      else let o' := if off s >? 0 then off s - 1 else off s in
           (mkpc (data s) o' (cap s) (isnil s) opInvalid, Res [] [] ENil)
  | OReadBytes d | OReadString d => c_read_slice s d
  | OReadFrom script => c_readfrom (set_last s opInvalid) script 0
  | OWriteTo m e =>
      let s1 := set_last s opInvalid in
      let nb := clen s1 in
      if 0 <? nb then
        if m >? nb then (s1, Panicked PWriteToCount)
        else if m <? 0 then (s1, Stuck)
        else let s2 := advance s1 m opInvalid in
             if e then (s2, Res [m] (contents s1) EUser)
             else if negb (m =? nb) then (s2, Res [m] (contents s1) EShortWrite)
             else (creset s2, Res [m] (contents s1) ENil)
      else (creset s1, Res [0] [] ENil)
  | OTruncate n =>
      if n =? 0 then (creset s, Res [] [] ENil)
      else let s1 := set_last s opInvalid in
           if (n <? 0) || (n >? clen s1) then (s1, Panicked PTruncate)
           else if off s1 + n <=? cap s1                  (* s.buf[:s.off+n] *)
                then (mkpc (ztake (off s1 + n) (data s1)) (off s1) (cap s1) (isnil s1) opInvalid, Res [] [] ENil)
                else (s1, Panicked PRange)
  | OGrow n =>
      if n <? 0 then (s, Panicked PGrowNeg)
      else match grow s n with
           | GOk s' => (s', Res [] [] ENil)               (* m := grow(n); s.buf = s.buf[:m] *)
           | GPanic q => (s, Panicked q)
           end
  | OReset => (creset s, Res [] [] ENil)
  | OLen => (s, Res [clen s] [] ENil)
  | OBytes | OString => (s, Res [] (contents s) ENil)
  end.

(* whether Grow moves the unread bytes to the front of the (old or a new) array;
   this is what the capacity decides and the specification cannot know *)
Definition relocates (s : pc) (o : op) : bool :=
  match o with OGrow n => negb (n <=? cap s - blen s) | _ => false end.

(* what one step shows: the result, and String() afterwards (Len() is its length) *)
Definition obs := (result * bytes)%type.

Fixpoint ctrace (s : pc) (ops : list op) : list obs :=
  match ops with
  | [] => []
  | o :: t => let '(s', r) := cstep s o in
              (r, contents s') :: (if halts r then [] else ctrace s' t)
  end.

Fixpoint cbits (s : pc) (ops : list op) : list bool :=
  match ops with
  | [] => []
  | o :: t => let '(s', r) := cstep s o in
              relocates s o :: (if halts r then [] else cbits s' t)
  end.

(* a bit list the specification may be run with: on every executed Grow it says
   what the concrete run did (for all other operations the bit is ignored) *)
Definition compat (s : pc) (o : op) (b : bool) : Prop :=
  match o with OGrow _ => b = relocates s o | _ => True end.
Fixpoint bits_ok (s : pc) (ops : list op) (bits : list bool) : Prop :=
  match ops with
  | [] => True
  | o :: t =>
    match bits with
    | [] => False
    | b :: bt => compat s o b /\
                 (let '(s', r) := cstep s o in halts r = true \/ bits_ok s' t bt)
    end
  end.

(* the state after the run (stops at the first panic) *)
Fixpoint crun (s : pc) (ops : list op) : pc :=
  match ops with
  | [] => s
  | o :: t => let '(s', r) := cstep s o in if halts r then s' else crun s' t
  end.
End Env.

(* the invariant: every slice expression of the code is in range *)
Definition inv (s : pc) : Prop :=
  0 <= off s <= blen s /\ blen s <= cap s /\ (isnil s = true -> data s = [] /\ cap s = 0).
Definition invb (s : pc) : bool :=
  (0 <=? off s) && (off s <=? blen s) && (blen s <=? cap s)
  && (negb (isnil s) || ((blen s =? 0) && (cap s =? 0))).

(* Go 1.23 runtime.roundupsize for a pointer-free allocation (sizeclasses.go) *)
Definition go_classes : list Z :=
  [8; 16; 24; 32; 48; 64; 80; 96; 112; 128; 144; 160; 176; 192; 208; 224; 240; 256; 288; 320;
   352; 384; 416; 448; 480; 512; 576; 640; 704; 768; 896; 1024; 1152; 1280; 1408; 1536; 1792;
   2048; 2304; 2688; 3072; 3200; 3456; 4096; 4864; 5376; 6144; 6528; 6784; 6912; 8192; 9472;
   9728; 10240; 10880; 12288; 13568; 14336; 16384; 18432; 19072; 20480; 21760; 24576; 27264;
   28672; 32768].
Fixpoint first_ge (c : Z) (l : list Z) : option Z :=
  match l with [] => None | x :: t => if c <=? x then Some x else first_ge c t end.
Definition go_rup (c : Z) : Z :=
  if c <=? 0 then 0 else
  match first_ge c go_classes with
  | Some x => x
  | None => (c + 8191) / 8192 * 8192
  end.
Definition go_maxalloc : Z := 2 ^ 48.

(* ================================================================ specification
   bytes.Buffer's contract in terms of the unread bytes alone.
   [prev] is the most recently consumed byte as long as the buffer still has it
   (UnreadByte gives it back); [last] is what the last operation was.
   One thing the contract leaves open: whether bytes consumed before a Grow can
   still be unread after it (they can iff Grow did not have to move the data).
   The step therefore takes that bit ([moved]) as an input; nothing else depends
   on capacities. *)
Inductive lastop :=
| LNone                          (* not a read: nothing to unread *)
| LRead                          (* a read (Read, Next, ReadByte, ReadBytes, ReadString) *)
| LRune (k : Z) (enc : bytes).   (* ReadRune returned size k; enc = its bytes ([] once moved) *)
Record spec := mkspec { unread : bytes; prev : option byte; last : lastop }.

Definition new_spec (b : bytes) : spec := mkspec b None LNone.
Definition s_reset : spec := mkspec [] None LNone.

(* the first k unread bytes are consumed *)
Definition s_take (a : spec) (k : Z) (l : lastop) : spec :=
  mkspec (zskip k (unread a))
         (if k <=? 0 then prev a else nth_error (unread a) (Z.to_nat (k - 1))) l.

Fixpoint s_readfrom (u : bytes) (script : list rresp) (n : Z) : bytes * result :=
  match script with
  | [] => (u, Res [n] [] ENil)
  | RNeg :: _ => (u, Panicked PNegRead)
  | RData bs e :: t =>
    let u' := u ++ bs in
    let n' := n + zlen bs in
    match e with
    | REOF => (u', Res [n'] [] ENil)
    | RErr => (u', Res [n'] [] EUser)
    | RNil => s_readfrom u' t n'
    end
  end.

Definition sstep (moved : bool) (a : spec) (o : op) : spec * result :=
  let u := unread a in
  let quiet := mkspec u (prev a) LNone in
  match o with
  | OWrite p | OWriteString p => (mkspec (u ++ p) (prev a) LNone, Res [zlen p] [] ENil)
  | OWriteByte c => (mkspec (u ++ [c]) (prev a) LNone, Res [] [] ENil)
  | OWriteRune r => let e := encode_rune r in (mkspec (u ++ e) (prev a) LNone, Res [zlen e] [] ENil)
  | ORead n0 =>
      let n := Z.max 0 n0 in
      match u with
      | [] => (s_reset, Res [0] [] (if n =? 0 then ENil else EEOF))
      | _ => let k := Z.min n (zlen u) in
             (s_take a k (if 0 <? k then LRead else LNone), Res [k] (ztake k u) ENil)
      end
  | ONext n0 =>
      let k := Z.min n0 (zlen u) in
      if k <? 0 then (quiet, Panicked PRange)
      else (s_take a k (if 0 <? k then LRead else LNone), Res [] (ztake k u) ENil)
  | OReadByte =>
      match u with
      | [] => (s_reset, Res [0] [] EEOF)
      | c :: _ => (s_take a 1 LRead, Res [bz c] [] ENil)
      end
  | OReadRune =>
      match u with
      | [] => (s_reset, Res [0; 0] [] EEOF)
      | _ => let '(r, w) := decode_rune u in
             let k := Z.of_nat w in
             (s_take a k (LRune k (ztake k u)), Res [r; k] [] ENil)
      end
  | OUnreadRune =>
      match last a with
      | LRune _ enc => (mkspec (enc ++ u) (prev a) LNone, Res [] [] ENil)
      | _ => (a, Res [] [] EUnreadRune)
      end
  | OUnreadByte =>
      match last a with
      | LNone => (a, Res [] [] EUnreadByte)
      | _ => (mkspec (match prev a with Some b => b :: u | None => u end) (prev a) LNone, Res [] [] ENil)
      end
  | OReadBytes d | OReadString d =>
      let i := index_byte d u in
      let k := if i <? 0 then zlen u else i + 1 in
      (s_take a k LRead, Res [] (ztake k u) (if i <? 0 then EEOF else ENil))
  | OReadFrom script =>
      let '(u', r) := s_readfrom u script 0 in (mkspec u' None LNone, r)
  | OWriteTo m e =>
      match u with
      | [] => (s_reset, Res [0] [] ENil)
      | _ => if m >? zlen u then (quiet, Panicked PWriteToCount)
             else if m <? 0 then (quiet, Stuck)
             else let a1 := s_take a m LNone in
                  if e then (a1, Res [m] u EUser)
                  else if negb (m =? zlen u) then (a1, Res [m] u EShortWrite)
                  else (s_reset, Res [m] u ENil)
      end
  | OTruncate n =>
      if n =? 0 then (s_reset, Res [] [] ENil)
      else if (n <? 0) || (n >? zlen u) then (quiet, Panicked PTruncate)
      else (mkspec (ztake n u) (prev a) LNone, Res [] [] ENil)
  | OGrow n =>
      if n <? 0 then (a, Panicked PGrowNeg)
      else match u, prev a with
           | [], Some _ => (s_reset, Res [] [] ENil)      (* an empty buffer is reset *)
           | _, _ => ((if moved
                       then mkspec u None (match last a with LRune k _ => LRune k [] | l => l end)
                       else a), Res [] [] ENil)
           end
  | OReset => (s_reset, Res [] [] ENil)
  | OLen => (a, Res [zlen u] [] ENil)
  | OBytes | OString => (a, Res [] u ENil)
  end.

Fixpoint strace (bits : list bool) (a : spec) (ops : list op) {struct ops} : list obs :=
  match ops, bits with
  | o :: t, b :: bt => let '(a', r) := sstep b a o in
                       (r, unread a') :: (if halts r then [] else strace bt a' t)
  | _, _ => []
  end.

Definition is_grow (o : op) : bool := match o with OGrow _ => true | _ => false end.

(* "the same results, errors or panics and contents at every step"; the one
   thing the specification does not have is ErrTooLarge (running out of memory
   is not part of the contract): a concrete run may end in it, after agreeing
   with the specification on every step before. *)
Definition trace_refines (tc ts : list obs) : Prop :=
  tc = ts \/
  exists pre c x rest, tc = pre ++ [(Panicked PTooLarge, c)] /\ ts = pre ++ x :: rest.

(* ---------------------------------------------------------------- equality tests *)
Definition err_eqb (a b : err) : bool :=
  match a, b with
  | ENil, ENil | EEOF, EEOF | EUnreadByte, EUnreadByte | EUnreadRune, EUnreadRune
  | EShortWrite, EShortWrite | EUser, EUser => true
  | _, _ => false
  end.
Definition panic_eqb (a b : panic) : bool :=
  match a, b with
  | PTooLarge, PTooLarge | PNegRead, PNegRead | PTruncate, PTruncate | PGrowNeg, PGrowNeg
  | PWriteToCount, PWriteToCount | PRange, PRange => true
  | _, _ => false
  end.
Definition result_eqb (a b : result) : bool :=
  match a, b with
  | Res n1 b1 e1, Res n2 b2 e2 => list_eqb Z.eqb n1 n2 && bytes_eqb b1 b2 && err_eqb e1 e2
  | Panicked p, Panicked q => panic_eqb p q
  | Stuck, Stuck => true
  | _, _ => false
  end.
