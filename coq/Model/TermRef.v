(* What Gen/Termination.v (the end of Entry.logContext, from the print of the record on, translated from
   slog/entry.go) mentions besides Model/Terminate.v, and the reference versions - the fallbacks.  No proofs here. *)
Require Import Verif.Model.Base Verif.Model.Decision Verif.Model.DecisionRef Verif.Model.GoSem Verif.Model.Terminate.

(* os.Exit(code) as the last thing the call does: the parent observes code mod 256 *)
Definition exit_end (code : Z) (tr : list Z) : option (term * list Z) := Some (DoExit (exit_status code), tr).

(* from s.print(..) to the end of logContext: the record is printed (event: its level), then the call ends as the
   decision of C12 says - a function of the process mode, the flags and the level ALONE *)
Definition after_print_ref (g_inTesting g_inBenching g_isDebugging g_isDebug : bool) (g_flags lvl : Z) (msg : bytes)
    (kvps : gslice) (tr_ : list Z) : option (term * list Z) :=
  Some (term_of (termination_ref g_inTesting g_flags lvl) msg, tr_ ++ [lvl]).

(* var inTesting = is.InTesting() *)
Definition in_testing_init_ref (f_InTesting f_InBenchmark f_InDebugging f_DebugMode f_DebugBuild : bool) : bool := f_InTesting.
