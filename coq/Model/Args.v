(* C02: one native log call from its ARGUMENT LIST to the Writes its destinations see.

     verb(msg, args...) / verbContext / LogAttrs / Logit / package functions
        = if s.EnabledContext(lvl) then logContext(lvl, msg, args...)          [Deliver.log_call]
     Println(args...)  = the message is args[0].(string): a single-value type assertion,
                         i.e. a run-time panic for a non-string first argument   [println_call]
     logContext        = collectArgs: the logger's attributes, then argsToAttrs(args)
                         (slog/funcs.go:229)                                    [args_to_attrs]
                         print -> printImpl: ONE buffer, either the bare line feed of the
                         blank-line shortcut or the encoded record               [payload]
                         printOut -> LWs.WriteLeveled: one Write per member      [Deliver.write_all]

   Nothing is duplicated: admission, destinations, the Write loop and the termination tail are
   Model/Deliver.v (C13) run under the schedule in which no Write fails; the bytes are
   Model/Encode.v (C04-C06).  No proofs here.

   The two defects found under this property are switches:
     fix_println   false = the code as found: Println(42) panics on args[0].(string)
     fix_emptykey  false = the code as found: argsToAttrs uses key == "" for "no key is
                   pending", so an empty string in key position is swallowed and every
                   following item changes its role (a later key/value pair can be lost). *)
Require Import Verif.Model.Base Verif.Model.Decision Verif.Model.DecisionRef Verif.Model.Level Verif.Model.Mode.
Require Import Verif.Model.Attrs Verif.Model.Encode Verif.Model.Writers Verif.Model.Deliver.

Definition fix_println : bool := true.
Definition fix_emptykey : bool := true.

(* ---- the argument list ---- *)
(* One item of `args ...any`, as the type switch of argsToAttrs (key position) and NewAttr
   (value position) see it. *)
Inductive arg :=
| AStr (s : bytes)               (* a string: a key in key position, a string value in value position *)
| AAttr (a : attr)               (* an Attr (kvp or group) *)
| AAttrs (l : list attr)         (* a slog.Attrs, possibly with nil members, possibly nil *)
| AAttrSlice (l : list attr)     (* a []slog.Attr *)
| AOther (v : value)             (* any other Go value (nil included), as the encoders render it *)
| AOpaque.                       (* any other Go value whose rendering Model/Attrs.value has no
                                    constructor for (e.g. a type with MarshalJSON only) *)

(* the value NewAttr(key, it) holds.  An attribute container in VALUE position is stored as it
   is and rendered by its own SerializeValueTo (`k=x=1`, `k= k.x=1`): the key structure is that
   of a group, the bytes are not; [plain_value] says whether the rendering is modelled. *)
Definition arg_value (x : arg) : value :=
  match x with
  | AStr s => VStr s
  | AOther v => v
  | AAttr a => VGroup [a]
  | AAttrs l | AAttrSlice l => VGroup l
  | AOpaque => VNil
  end.
Definition plain_value (x : arg) : bool :=
  match x with
  | AStr _ => true
  | AOther v => negb (is_group v)
  | _ => false
  end.

(* `key = k` for a string in key position.  The code has no separate flag: key == "" MEANS that
   no key is pending, so an empty string leaves the loop in key position. *)
Definition start_key (fx : bool) (s : bytes) : option bytes :=
  match s with
  | [] => if fx then Some [] else None
  | _ => Some s
  end.

(* argsToAttrs: the loop with its pending key.  A key still pending at the end is dropped. *)
Fixpoint args_go (fx : bool) (key : option bytes) (args : list arg) : list attr :=
  match args with
  | [] => []
  | x :: t =>
      match key with
      | Some k => A k (arg_value x) :: args_go fx None t          (* NewAttr(key, it) *)
      | None =>
          match x with
          | AStr s => args_go fx (start_key fx s) t
          | AAttr a => a :: args_go fx None t
          | AAttrs l | AAttrSlice l => l ++ args_go fx None t
          | AOther _ | AOpaque => args_go fx None t               (* hintInternal(errUnmatchedPair): a no-op *)
          end
      end
  end.
Definition args_to_attrs_with (fx : bool) (args : list arg) : list attr := args_go fx None args.
Definition args_to_attrs : list arg -> list attr := args_to_attrs_with fix_emptykey.

(* is every value of the list rendered by the encoder model? *)
Fixpoint exact_go (fx : bool) (key : option bytes) (args : list arg) : bool :=
  match args with
  | [] => true
  | x :: t =>
      match key with
      | Some _ => plain_value x && exact_go fx None t
      | None =>
          match x with
          | AStr s => exact_go fx (start_key fx s) t
          | _ => exact_go fx None t
          end
      end
  end.
Definition args_exact_with (fx : bool) (args : list arg) : bool := exact_go fx None args.

(* ---- what the loop does, item by item (the specification args_to_attrs is proved against) ---- *)
Inductive seg :=
| SPair (k : bytes) (v : arg)        (* a key and the item after it: ONE attribute *)
| SAttr (a : attr)                   (* an Attr in key position: itself *)
| SAttrs (l : list attr)             (* an Attrs in key position: its members, in order *)
| SAttrSlice (l : list attr)         (* a []Attr in key position: its members, in order *)
| SDropEmpty                         (* an empty string in key position: skipped, no key is pending *)
| SDropOther (x : arg)               (* any other value in key position: dropped *)
| SDangling (k : bytes).             (* a key with nothing after it: dropped *)

Fixpoint segs (fx : bool) (args : list arg) : list seg :=
  match args with
  | [] => []
  | AStr s :: t =>
      match start_key fx s with
      | None => SDropEmpty :: segs fx t
      | Some k => match t with
                  | [] => [SDangling k]
                  | v :: t' => SPair k v :: segs fx t'
                  end
      end
  | AAttr a :: t => SAttr a :: segs fx t
  | AAttrs l :: t => SAttrs l :: segs fx t
  | AAttrSlice l :: t => SAttrSlice l :: segs fx t
  | x :: t => SDropOther x :: segs fx t
  end.

(* the items a segment stands for, and the attributes it contributes *)
Definition seg_items (s : seg) : list arg :=
  match s with
  | SPair k v => [AStr k; v]
  | SAttr a => [AAttr a]
  | SAttrs l => [AAttrs l]
  | SAttrSlice l => [AAttrSlice l]
  | SDropEmpty => [AStr []]
  | SDropOther x => [x]
  | SDangling k => [AStr k]
  end.
Definition seg_attrs (s : seg) : list attr :=
  match s with
  | SPair k v => [A k (arg_value v)]
  | SAttr a => [a]
  | SAttrs l | SAttrSlice l => l
  | SDropEmpty | SDropOther _ | SDangling _ => []
  end.
Definition seg_dropped (s : seg) : bool :=
  match s with SDropEmpty | SDropOther _ | SDangling _ => true | _ => false end.
Definition dropped (fx : bool) (args : list arg) : list seg := filter seg_dropped (segs fx args).

(* ---- the call ---- *)
Inductive entry :=
| EVerb (lvl : Z) (msg : bytes)          (* Info(msg, args...), InfoContext(ctx, msg, args...), LogAttrs/Logit(ctx, lvl,
                                            msg, args...), Log(ctx, sloglevel, ...) and the package-level functions *)
| EPrintln (pkg : bool) (sprint0 : bytes). (* Println(args...) of an Entry / of the package; sprint0 = fmt.Sprint(args[0]),
                                            text of the standard library, used by the repaired variant only *)

Definition site_entry_println : bytes := [x45;x6e;x74;x72;x79;x2e;x50;x72;x69;x6e;x74;x6c;x6e].   (* Entry.Println *)
Definition site_println : bytes := [x50;x72;x69;x6e;x74;x6c;x6e].                                   (* Println *)

Inductive reason :=
| RTypeAssertion (site : bytes)   (* interface conversion: interface {} is T, not string *)
| RTermination (a : action)       (* the documented end of a Panic/Fatal call (property C12): outside this domain *)
| RFuel.                          (* the delivery cycle ran out of fuel (excluded for ever by C13) *)

(* Println: len(args) == 0 -> log1(AlwaysLevel, ""); else log1(AlwaysLevel, args[0].(string), args[1:]...) *)
Definition println_call_with (fp : bool) (pkg : bool) (sprint0 : bytes) (args : list arg)
  : (Z * bytes * list arg) + reason :=
  match args with
  | [] => inl (lv_always, [], [])
  | AStr s :: rest => inl (lv_always, s, rest)
  | _ :: rest => if fp then inl (lv_always, sprint0, rest)
                 else inr (RTypeAssertion (if pkg then site_println else site_entry_println))
  end.

(* severity, message and attribute arguments the call hands to log1/logContext *)
Definition resolve_with (fp : bool) (ep : entry) (args : list arg) : (Z * bytes * list arg) + reason :=
  match ep with
  | EVerb lvl msg => inl (lvl, msg, args)
  | EPrintln pkg sp => println_call_with fp pkg sp args
  end.

Record xcfg := {
  x_l : lcfg;                          (* writers, registry parts, debug mode, logger level, flags: Model/Deliver.v *)
  x_mode : shape;
  x_name : bytes;
  x_callinfo : bytes * Z * bytes;      (* file, line, function of the call statement (property C14) *)
  x_tagw : Z;
  x_minw : Z;
  x_ts : bytes;                        (* the timestamp text of this record (time.Now(): property C16) *)
  x_own : list arg                     (* the arguments the logger's own attributes were Set(...) from *)
}.

Definition f_caller : Z := 128.        (* Lcaller *)

Inductive event := Write (w : wid) (payload : option bytes).   (* None: bytes outside the encoder model *)
Inductive full_outcome := Returned (evs : list event) | Panicked (r : reason).

Section Call.
Variable isprint : Z -> bool.
Variable g : registry.
Variable fp fx : bool.

Definition ecfg_of (c : xcfg) (lvl : Z) : ecfg :=
  {| e_mode := x_mode c; e_name := x_name c; e_lvl := lvl;
     e_caller := if has_any (l_flags (x_l c)) f_caller then Some (x_callinfo c) else None;
     e_tagw := x_tagw c; e_minw := x_minw c; e_ts := x_ts c |}.

(* the test of the blank-line shortcut in printImpl *)
Definition blank_record (lvl : Z) (msg : bytes) : bool := (lvl =? lv_always) && all_blank msg.

(* collectArgs: the logger's attributes first, then the call's *)
Definition record_attrs (c : xcfg) (args : list arg) : list attr :=
  args_to_attrs_with fx (x_own c) ++ args_to_attrs_with fx args.

(* the ONE buffer printImpl hands to printOut *)
Definition payload (c : xcfg) (lvl : Z) (msg : bytes) (args : list arg) : option bytes :=
  if blank_record lvl msg then Some [x0a]
  else if args_exact_with fx (x_own c) && args_exact_with fx args
       then encode isprint g (ecfg_of c lvl) msg (record_attrs c args)
       else None.

Definition log_call_full_with (c : xcfg) (ep : entry) (args : list arg) : full_outcome :=
  match resolve_with fp ep args with
  | inr r => Panicked r
  | inl (lvl, msg, rest) =>
      match log_call_code 2 (x_l c) all_succeed lvl 0 with
      | Normal atts _ => Returned (map (fun a => Write (a_w a) (payload c lvl msg rest)) atts)
      | Terminated act _ _ => Panicked (RTermination act)
      | OutOfFuel => Panicked RFuel
      end
  end.
End Call.

(* the code as it is now *)
Definition resolve : entry -> list arg -> (Z * bytes * list arg) + reason := resolve_with fix_println.
Definition log_call_full (isprint : Z -> bool) (g : registry) : xcfg -> entry -> list arg -> full_outcome :=
  log_call_full_with isprint g fix_println fix_emptykey.

(* ---- vocabulary of the statements ---- *)
Definition ends_lf (b : bytes) : Prop := exists pre, b = pre ++ [x0a].
Definition writes_to (ws : list wid) (p : option bytes) : list event := map (fun w => Write w p) ws.
Definition terminating (lvl : Z) : bool := (lvl =? lv_panic) || (lvl =? lv_fatal).
