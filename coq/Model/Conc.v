(* C08 - concurrent logging: the ownership discipline of one log call.

   Part 1: what serializeAttrs (slog/attr.go) leaves in a slice it sorts and
   de-duplicates IN PLACE (slices.SortStableFunc + dedupeSlice on the backing
   array), and what one log call therefore leaves in the attribute values that
   are reachable from its arguments and from the logger (group items, Attrs
   values).  The top-level slice is the per-call pooled one (poolAttrs); the
   nested ones are the caller's / the logger's.

   Part 2: a small-step interleaving semantics of logContext/print:
     GetAttrs; Collect; GetPC; Set; Format; WriteOut; PutPC; PutAttrs
   over two pools (sync.Pool of attribute slices and of PrintCtx), with the
   footprint (locations read / written) of every step.  A schedule is any list
   of (call id, pool choice); nothing is assumed about fairness or about which
   free object sync.Pool hands out.

   Not modelled (PARTIAL): the Go memory model, sync.Pool's implementation, real
   scheduling, the atomicity of a destination's own Write.  Steps are atomic;
   that is justified for the variant in which no two concurrent steps conflict
   (C08_no_conflict).  No proofs here. *)
Require Import Verif.Model.Base Verif.Model.Attrs.

(* ------------------------------------------------------------------ *)
(* Part 1: the in-place sort of nested attribute slices                *)
(* ------------------------------------------------------------------ *)

(* false: the code as it is (nested slices are sorted in place);
   true: nested slices are copied before sorting (proposed_fix_C08.diff).
   Says which variant the correspondence check compares with the implementation. *)
Definition fix_copy_nested : bool := true.

(* the backing array after SortStableFunc + dedupeSlice: the de-duplicated
   prefix (last of equal keys kept) followed by the STALE tail of the sorted
   array - dedupeSlice only writes x[j] := x[i] with j <= i *)
Definition inplace_layout (l : list attr) : list attr :=
  let s := sort_stable l in
  let d := dedupe s in
  d ++ skipn (length d) s.

(* the members that are printed are the last ones of their key; only their
   values are serialised, so only their nested slices are sorted in turn *)
Fixpoint survivors_map (f : attr -> attr) (l : list attr) : list attr :=
  match l with
  | [] => []
  | x :: t => (if existsb (attr_same_key x) t then x else f x) :: survivors_map f t
  end.

Fixpoint ip_value (v : value) : value :=
  match v with
  | VGroup items =>
      VGroup (inplace_layout
                ((fix go (l : list attr) : list attr :=
                    match l with
                    | [] => []
                    | x :: t =>
                        (if existsb (attr_same_key x) t then x
                         else match x with A k v' => A k (ip_value v') | ANil => ANil end) :: go t
                    end) items))
  | other => other
  end.
Definition ip_attr (a : attr) : attr := match a with A k v => A k (ip_value v) | ANil => ANil end.

(* what a single call leaves in the attribute values reachable from its
   collected top-level list (logger attributes ++ arguments, in that order).
   The top-level list itself is copied into the pooled slice: its order and
   length are the caller's and stay. *)
Definition after_call (fx : bool) (collected : list attr) : list attr :=
  if fx then collected else survivors_map ip_attr collected.

(* structural equality of attribute trees (correspondence evaluator) *)
Fixpoint value_eqb (a b : value) {struct a} : bool :=
  match a, b with
  | VNil, VNil => true
  | VStr x, VStr y => bytes_eqb x y
  | VErr x, VErr y => bytes_eqb x y
  | VBool x, VBool y => Bool.eqb x y
  | VInt x, VInt y => x =? y
  | VUint x, VUint y => x =? y
  | VFloat x, VFloat y => bytes_eqb x y
  | VComplex x, VComplex y => bytes_eqb x y
  | VDur x, VDur y => bytes_eqb x y
  | VTime x, VTime y => bytes_eqb x y
  | VBytes x, VBytes y => bytes_eqb x y
  | VFallback x, VFallback y => bytes_eqb x y
  | VStrs x, VStrs y => list_eqb bytes_eqb x y
  | VBools x, VBools y => list_eqb Bool.eqb x y
  | VInts x, VInts y => list_eqb Z.eqb x y
  | VUints x, VUints y => list_eqb Z.eqb x y
  | VFloats x, VFloats y => list_eqb bytes_eqb x y
  | VDurs x, VDurs y => list_eqb bytes_eqb x y
  | VTimes x, VTimes y => list_eqb bytes_eqb x y
  | VGroup x, VGroup y =>
      (fix go (l m : list attr) : bool :=
         match l, m with
         | [], [] => true
         | A k v :: l', A k' v' :: m' => bytes_eqb k k' && value_eqb v v' && go l' m'
         | ANil :: l', ANil :: m' => go l' m'
         | _, _ => false
         end) x y
  | _, _ => false
  end.
Definition attr_eqb (a b : attr) : bool :=
  match a, b with
  | ANil, ANil => true
  | A k v, A k' v' => bytes_eqb k k' && value_eqb v v'
  | _, _ => false
  end.

(* ------------------------------------------------------------------ *)
(* Part 2: interleaving semantics                                      *)
(* ------------------------------------------------------------------ *)

Definition upd {A} (f : nat -> A) (k : nat) (v : A) : nat -> A :=
  fun x => if Nat.eqb x k then v else f x.

(* the k-th element of a list and the rest *)
Fixpoint take {A} (k : nat) (l : list A) : option (A * list A) :=
  match l, k with
  | [], _ => None
  | x :: t, O => Some (x, t)
  | x :: t, S k' => match take k' t with Some (y, r) => Some (y, x :: r) | None => None end
  end.

(* a sync.Pool: the free objects, the next never-used object (Pool.New) and
   the object each call holds between Get and Put *)
Record pool := mkpool { free : list nat; fresh : nat; held : nat -> option nat }.

(* Get: any free object (choice k) or, when k is out of range, a new one -
   sync.Pool promises nothing more *)
Definition pool_get (p : pool) (c k : nat) : pool :=
  match take k (free p) with
  | Some (o, rest) => mkpool rest (fresh p) (upd (held p) c (Some o))
  | None => mkpool (free p) (S (fresh p)) (upd (held p) c (Some (fresh p)))
  end.
Definition pool_put (p : pool) (c : nat) : pool :=
  match held p c with
  | Some o => mkpool (o :: free p) (fresh p) (upd (held p) c None)
  | None => p
  end.

Inductive instr := IGetAttrs | ICollect | IGetPC | ISet | IFormat | IWriteOut | IPutPC | IPutAttrs.

(* logContext: poolAttrs.Get, collectArgs, print{poolPrintCtx.Get, pc.set,
   printImpl = format + printOut, poolPrintCtx.Put}, kvps[:0] + poolAttrs.Put *)
Definition the_program : list instr :=
  [IGetAttrs; ICollect; IGetPC; ISet; IFormat; IWriteOut; IPutPC; IPutAttrs].

Inductive loc :=
| LAttrs (o : nat)      (* a pooled attribute slice *)
| LPc (o : nat)         (* a pooled PrintCtx *)
| LLogger (l : nat)     (* the attribute slice of logger l (shared input) *)
| LArgs (c : nat)       (* the argument slice of call c (shared with the caller) *)
| LGroup (g : nat).     (* the items of a group / Attrs value (shared input) *)
Definition shared_loc (l : loc) : bool :=
  match l with LAttrs _ | LPc _ => false | _ => true end.
Definition loc_eqb (a b : loc) : bool :=
  match a, b with
  | LAttrs x, LAttrs y | LPc x, LPc y | LLogger x, LLogger y | LArgs x, LArgs y | LGroup x, LGroup y => Nat.eqb x y
  | _, _ => false
  end.

Section Conc.
  Variables (item msg payload : Type).
  (* what the in-place sort + de-duplication leaves in a slice *)
  Variable inplace : list item -> list item.
  (* the shared group slices a record with these top-level attributes serialises *)
  Variable refs : list item -> list nat.
  (* the sequential encoder: logger (format, name), message, collected
     attributes, contents of the shared group slices *)
  Variable enc : nat -> msg -> list item -> (nat -> list item) -> payload.
  Variable fx : bool.

  Record call := mkcall {
    c_admitted : bool;        (* C01: a call that is not admitted returns before logContext *)
    c_logger : nat;
    c_msg : msg;
    c_args : list item;
    c_dests : list Z          (* C03: the destinations selected for its severity *)
  }.
  Variable lattrs : nat -> list item.     (* logger attributes (with the inherited ones) *)
  Variable groups0 : nat -> list item.    (* initial contents of the shared group slices *)
  Variable calls : nat -> call.

  Definition program (cl : call) : list instr := if c_admitted cl then the_program else [].

  (* PrintCtx: the fields pc.set stores (logger, message, the attribute slice) and the buffer *)
  Record pcont := mkpc { p_set : option (nat * msg * nat); p_buf : option payload }.

  Record state := mkst {
    st_pc : nat -> nat;                (* per call: index of its next instruction *)
    st_A : pool;                       (* poolAttrs *)
    st_P : pool;                       (* poolPrintCtx *)
    st_contA : nat -> list item;
    st_contP : nat -> pcont;
    st_groups : nat -> list item;
    st_log : list (Z * payload);       (* every Write a destination observed, in order *)
    st_wo : list nat                   (* ghost: the calls in the order of their WriteOut step *)
  }.

  Definition init : state :=
    mkst (fun _ => O) (mkpool [] O (fun _ => None)) (mkpool [] O (fun _ => None))
         (fun _ => []) (fun _ => mkpc None None) groups0 [] [].

  Definition next_instr (s : state) (c : nat) : option instr :=
    nth_error (program (calls c)) (st_pc s c).

  Definition collected (c : nat) : list item :=
    lattrs (c_logger (calls c)) ++ c_args (calls c).

  Definition sort_groups (gs : list nat) (st : nat -> list item) : nat -> list item :=
    fold_left (fun st g => upd st g (inplace (st g))) gs st.

  (* one step of call c; k is the pool's choice (used by the Get steps only).
     A step whose precondition fails (nothing held) is a no-op. *)
  Definition step (s : state) (c k : nat) : state :=
    let cl := calls c in
    let adv := upd (st_pc s) c (S (st_pc s c)) in
    match next_instr s c with
    | None => s
    | Some IGetAttrs =>
        mkst adv (pool_get (st_A s) c k) (st_P s) (st_contA s) (st_contP s) (st_groups s) (st_log s) (st_wo s)
    | Some ICollect =>
        match held (st_A s) c with
        | Some a =>
            mkst adv (st_A s) (st_P s) (upd (st_contA s) a (st_contA s a ++ collected c))
                 (st_contP s) (st_groups s) (st_log s) (st_wo s)
        | None => s
        end
    | Some IGetPC =>
        mkst adv (st_A s) (pool_get (st_P s) c k) (st_contA s) (st_contP s) (st_groups s) (st_log s) (st_wo s)
    | Some ISet =>
        match held (st_A s) c, held (st_P s) c with
        | Some a, Some p =>
            mkst adv (st_A s) (st_P s) (st_contA s)
                 (upd (st_contP s) p (mkpc (Some (c_logger cl, c_msg cl, a)) None))
                 (st_groups s) (st_log s) (st_wo s)
        | _, _ => s
        end
    | Some IFormat =>
        match held (st_P s) c with
        | Some p =>
            match p_set (st_contP s p) with
            | Some (l, m, a) =>
                let kv := st_contA s a in
                mkst adv (st_A s) (st_P s) (upd (st_contA s) a (inplace kv))
                     (upd (st_contP s) p (mkpc (p_set (st_contP s p)) (Some (enc l m kv (st_groups s)))))
                     (if fx then st_groups s else sort_groups (refs kv) (st_groups s))
                     (st_log s) (st_wo s)
            | None => s
            end
        | None => s
        end
    | Some IWriteOut =>
        match held (st_P s) c with
        | Some p =>
            match p_buf (st_contP s p) with
            | Some b =>
                mkst adv (st_A s) (st_P s) (st_contA s) (st_contP s) (st_groups s)
                     (st_log s ++ map (fun w => (w, b)) (c_dests cl)) (st_wo s ++ [c])
            | None => s
            end
        | None => s
        end
    | Some IPutPC =>
        mkst adv (st_A s) (pool_put (st_P s) c) (st_contA s) (st_contP s) (st_groups s) (st_log s) (st_wo s)
    | Some IPutAttrs =>
        match held (st_A s) c with
        | Some a =>
            mkst adv (pool_put (st_A s) c) (st_P s) (upd (st_contA s) a [])
                 (st_contP s) (st_groups s) (st_log s) (st_wo s)
        | None => s
        end
    end.

  Definition run_from (s : state) (sched : list (nat * nat)) : state :=
    fold_left (fun s ck => step s (fst ck) (snd ck)) sched s.
  Definition run (sched : list (nat * nat)) : state := run_from init sched.

  (* footprint of the next step of call c: (locations read, locations written).
     Pool operations are sync.Pool's own synchronised operations: no data location. *)
  Definition footprint (s : state) (c : nat) : list loc * list loc :=
    match next_instr s c with
    | Some ICollect =>
        match held (st_A s) c with
        | Some a => ([LLogger (c_logger (calls c)); LArgs c; LAttrs a], [LAttrs a])
        | None => ([], [])
        end
    | Some ISet =>
        match held (st_A s) c, held (st_P s) c with
        | Some a, Some p => ([], [LPc p])
        | _, _ => ([], [])
        end
    | Some IFormat =>
        match held (st_P s) c with
        | Some p =>
            match p_set (st_contP s p) with
            | Some (_, _, a) =>
                let gs := map LGroup (refs (st_contA s a)) in
                ([LPc p; LAttrs a] ++ gs, [LPc p; LAttrs a] ++ (if fx then [] else gs))
            | None => ([], [])
            end
        | None => ([], [])
        end
    | Some IWriteOut =>
        match held (st_P s) c with Some p => ([LPc p], []) | None => ([], []) end
    | Some IPutAttrs =>
        match held (st_A s) c with Some a => ([], [LAttrs a]) | None => ([], []) end
    | _ => ([], [])
    end.
  Definition reads (s : state) (c : nat) : list loc := fst (footprint s c).
  Definition writes (s : state) (c : nat) : list loc := snd (footprint s c).

  (* no object is free twice, held by two calls, or both held and free *)
  Definition pool_ok (p : pool) : Prop :=
    NoDup (free p) /\
    (forall o, In o (free p) -> o < fresh p)%nat /\
    (forall c o, held p c = Some o -> (o < fresh p)%nat /\ ~ In o (free p)) /\
    (forall c1 c2 o, held p c1 = Some o -> held p c2 = Some o -> c1 = c2).

  (* a pool object in a footprint is one the stepping call holds *)
  Definition owned (s : state) (c : nat) (l : loc) : Prop :=
    match l with
    | LAttrs o => held (st_A s) c = Some o
    | LPc o => held (st_P s) c = Some o
    | _ => True
    end.

  Definition completed (s : state) (c : nat) : Prop := st_pc s c = length (program (calls c)).
  (* what the call formats on its own *)
  Definition payload_of (c : nat) : payload :=
    enc (c_logger (calls c)) (c_msg (calls c)) (collected c) groups0.
  Definition writes_of (c : nat) : list (Z * payload) :=
    map (fun w => (w, payload_of c)) (c_dests (calls c)).
  (* the variant copies nested slices, or no record serialises a shared group *)
  Definition safe : Prop := fx = true \/ forall c, refs (collected c) = [].
End Conc.

Arguments mkcall {item msg}. Arguments c_admitted {item msg}. Arguments c_logger {item msg}.
Arguments c_msg {item msg}. Arguments c_args {item msg}. Arguments c_dests {item msg}.
Arguments program {item msg}. Arguments collected {item msg}. Arguments safe {item msg}.
Arguments mkpc {msg payload}. Arguments p_set {msg payload}. Arguments p_buf {msg payload}.
Arguments mkst {item msg payload}. Arguments st_pc {item msg payload}. Arguments st_A {item msg payload}.
Arguments st_P {item msg payload}. Arguments st_contA {item msg payload}. Arguments st_contP {item msg payload}.
Arguments st_groups {item msg payload}. Arguments st_log {item msg payload}. Arguments st_wo {item msg payload}.
Arguments init {item msg payload}. Arguments next_instr {item msg payload}. Arguments sort_groups {item}.
Arguments step {item msg payload}. Arguments run_from {item msg payload}. Arguments run {item msg payload}.
Arguments footprint {item msg payload}. Arguments reads {item msg payload}. Arguments writes {item msg payload}.
Arguments completed {item msg payload}. Arguments owned {item msg payload}. Arguments payload_of {item msg payload}. Arguments writes_of {item msg payload}.

(* ------------------------------------------------------------------ *)
(* a concrete instance (examples, witnesses): attributes are leaves or  *)
(* references to shared group slices                                    *)
(* ------------------------------------------------------------------ *)
Definition ritem_group (a : attr) : list nat :=
  match a with A _ (VUint g) => [Z.to_nat g] | _ => [] end.
(* an item [A k (VUint g)] stands for a group attribute whose items are slice g *)
Definition rrefs (l : list attr) : list nat := flat_map ritem_group (sort_dedupe l).
(* the example encoder: logger, message, and the sorted, de-duplicated attributes with
   the group references resolved (sorted, de-duplicated) *)
Definition renc (l : nat) (m : bytes) (kv : list attr) (st : nat -> list attr) : nat * bytes * list attr :=
  (l, m, map (fun a => match a with
                       | A k (VUint g) => A k (VGroup (sort_dedupe (st (Z.to_nat g))))
                       | x => x
                       end) (sort_dedupe kv)).
Definition rrun (fx : bool) := run inplace_layout rrefs renc fx.
