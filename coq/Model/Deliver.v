(* C13: delivery of one record to its destinations when Writes can fail.

   Follows the real call cycle (slog/entry_nolock.go, slog/writers.go, slog/entry.go):

     log1(lvl)         = if s.EnabledContext(lvl) then logContext(lvl)            [log_call]
     logContext(lvl)   = print(lvl) -> printImpl -> printOut(lvl, bytes); then the
                         termination tail (panic / os.Exit for Panic / Fatal)      [tail]
     printOut(lvl, p)  = w := findWriter(lvl); err := LWs.WriteLeveled(lvl, p)
                         (EVERY member is written to, errors are joined);
                         if <guard err lvl> then s.Warn("slog print log failed")   [print_out]
     s.Warn            = log1(WarnLevel)  -> ... -> printOut(WarnLevel, diagnostic)

   The recursion printOut -> Warn -> log1 -> logContext -> print -> printOut is not
   structural: it carries explicit fuel and a distinguished [OutOfFuel] result.  The
   guard is a parameter ([sw]); the code's guard is DecisionRef.should_warn_ref, tied
   to the translation regenerated from the source (Gen.Decisions.should_warn) in
   Props/C13.v.  The behaviour of the destinations is an oracle [faults : nat -> bool]:
   the n-th Write attempt of the whole history fails iff [faults n] (the counter is
   threaded through calls).  Loggers with a log/slog handler attached (handlerOpt) are
   outside this model (C15).  No proofs here. *)
Require Import Verif.Model.Base Verif.Model.Decision Verif.Model.Level Verif.Model.Mode
  Verif.Model.DecisionRef Verif.Model.Writers.

(* the immutable configuration a logging call reads *)
Record lcfg := {
  l_writers : option dualwriter;   (* s.writer; None = never given writers (package defaults) *)
  l_errdev : list Z;               (* key set of mLevelUseErrorDevice *)
  l_as : list (Z * Z);             (* mLevelIsEnabledAs *)
  l_dbg : bool;                    (* debug mode *)
  l_level : Z;                     (* the logger's level *)
  l_intesting : bool;              (* inTesting *)
  l_flags : Z                      (* package flags (LnoInterrupt, Linterruptalways) *)
}.

Inductive rec_kind := Orig | Diag.      (* which record: the caller's, or the nested diagnostic *)
Record attempt := { a_w : wid; a_kind : rec_kind; a_failed : bool }.

Inductive outcome :=
| Normal (atts : list attempt) (next : nat)                 (* the call returned *)
| Terminated (a : action) (atts : list attempt) (next : nat) (* panic(msg) / os.Exit(-3) in logContext's tail *)
| OutOfFuel.

Definition admitted (c : lcfg) (lvl : Z) : bool := enabled_code (l_as c) (l_dbg c) (l_level c) lvl.
Definition dests (c : lcfg) (lvl : Z) : list member := find_writer (l_errdev c) (l_writers c) lvl.
Definition dest_ids (c : lcfg) (lvl : Z) : list wid := dest (l_errdev c) (l_writers c) lvl.

Definition err_of (failed : bool) : option unit := if failed then Some tt else None.

(* LWs.WriteLeveled: no early exit; result = attempts, next attempt number, err != nil *)
Fixpoint write_all (faults : nat -> bool) (k : rec_kind) (ms : list member) (n : nat)
  : list attempt * nat * bool :=
  match ms with
  | [] => ([], n, false)
  | m :: t =>
      let '(atts, n', e) := write_all faults k t (S n) in
      ({| a_w := member_id m; a_kind := k; a_failed := faults n |} :: atts, n', faults n || e)
  end.

(* the rest of the enclosing call after a nested call came back *)
Definition seq_after (atts : list attempt) (r : outcome) : outcome :=
  match r with
  | Normal a2 n2 => Normal (atts ++ a2) n2
  | Terminated act a2 n2 => Terminated act (atts ++ a2) n2    (* a panic propagates *)
  | OutOfFuel => OutOfFuel
  end.

(* the tail of logContext after print returned *)
Definition tail (c : lcfg) (lvl : Z) (r : outcome) : outcome :=
  match r with
  | Normal a n =>
      match termination_ref (l_intesting c) (l_flags c) lvl with
      | ActContinue => Normal a n
      | act => Terminated act a n
      end
  | _ => r
  end.

Section Guard.
Variable sw : option unit -> Z -> bool.   (* condition of the nested diagnostic in printOut *)

Fixpoint print_out (fuel : nat) (c : lcfg) (faults : nat -> bool) (lvl : Z) (k : rec_kind) (n : nat) : outcome :=
  match fuel with
  | O => OutOfFuel
  | S fuel' =>
      let '(atts, n1, failed) := write_all faults k (dests c lvl) n in
      if sw (err_of failed) lvl then
        (* s.Warn(...) = log1(WarnLevel): gate, logContext *)
        if admitted c lv_warn
        then seq_after atts (tail c lv_warn (print_out fuel' c faults lv_warn Diag n1))
        else Normal atts n1
      else Normal atts n1
  end.

(* one public logging call at severity lvl, starting at attempt number n *)
Definition log_call (fuel : nat) (c : lcfg) (faults : nat -> bool) (lvl : Z) (n : nat) : outcome :=
  if admitted c lvl then tail c lvl (print_out fuel c faults lvl Orig n) else Normal [] n.

(* histories: the world is the logger's configuration and the attempt clock *)
Record world := { w_cfg : lcfg; w_next : nat }.

Definition next_of (r : outcome) (dflt : nat) : nat :=
  match r with Normal _ n | Terminated _ _ n => n | OutOfFuel => dflt end.

Definition step (fuel : nat) (faults : nat -> bool) (w : world) (lvl : Z) : outcome * world :=
  let r := log_call fuel (w_cfg w) faults lvl (w_next w) in
  (r, {| w_cfg := w_cfg w; w_next := next_of r (w_next w) |}).

Fixpoint run (fuel : nat) (faults : nat -> bool) (w : world) (calls : list Z) : list outcome * world :=
  match calls with
  | [] => ([], w)
  | lvl :: t =>
      let '(r, w1) := step fuel faults w lvl in
      let '(rs, w2) := run fuel faults w1 t in
      (r :: rs, w2)
  end.
End Guard.

(* the guard of the code, and the variant without the `lvl != WarnLevel` conjunct *)
Definition print_out_code := print_out should_warn_ref.
Definition log_call_code := log_call should_warn_ref.
Definition step_code := step should_warn_ref.
Definition run_code := run should_warn_ref.
Definition sw_noguard (err : option unit) (lvl : Z) : bool := negb (is_nil err).
Definition print_out_noguard := print_out sw_noguard.

(* ---- vocabulary of the statements ---- *)
Definition attempts_of (r : outcome) : list attempt :=
  match r with Normal a _ | Terminated _ a _ => a | OutOfFuel => [] end.
Definition is_orig (a : attempt) : bool := match a_kind a with Orig => true | Diag => false end.
Definition is_diag (a : attempt) : bool := negb (is_orig a).
Definition origs (r : outcome) : list attempt := filter is_orig (attempts_of r).
Definition diags (r : outcome) : list attempt := filter is_diag (attempts_of r).

(* one attempt per listed writer, in order, numbered from n *)
Fixpoint stamp (faults : nat -> bool) (k : rec_kind) (ws : list wid) (n : nat) : list attempt :=
  match ws with
  | [] => []
  | w :: t => {| a_w := w; a_kind := k; a_failed := faults n |} :: stamp faults k t (S n)
  end.

Definition all_fail : nat -> bool := fun _ => true.
Definition all_succeed : nat -> bool := fun _ => false.
Definition sched_of (l : list bool) (tl : bool) : nat -> bool := fun n => nth n l tl.

Definition outcome_is_normal (r : outcome) : bool := match r with Normal _ _ => true | _ => false end.
