(* What Gen/Assembly.v (translated from Entry.walkParentAttrs and Entry.collectArgs) mentions:
   the reading of a *Entry as its chain of own attribute lists, and reference versions (same
   signatures) of the two functions - the fallbacks of those sites.  No proofs here. *)
Require Import Verif.Model.Base Verif.Model.Attrs Verif.Model.Collect.
Require Verif.Gen.Tables.

(* a *Entry is the chain [e.attrs; e.owner.attrs; ...] up to the root; nil is the empty chain *)
Definition chain_is_nil (e : list (list attr)) : bool := match e with [] => true | _ :: _ => false end.
Definition chain_attrs (e : list (list attr)) : list attr := match e with own :: _ => own | [] => [] end.
Definition chain_owner (e : list (list attr)) : list (list attr) := match e with _ :: up => up | [] => [] end.

Definition inherit_on (flags : Z) : bool := negb (Z.land flags Tables.c_LattrsR =? 0).

(* walkParentAttrs with the recursive call as a parameter *)
Definition walk_parent_attrs_ref (rec_ : list (list attr) -> list attr -> list attr) (g_flags : Z) (ctx : unit) (lvl : Z)
  (e : list (list attr)) (kvps : list attr) : list attr :=
  match e with
  | [] => kvps
  | own :: up =>
      if Nat.eqb (length own) 0 && negb (inherit_on g_flags) then kvps
      else (if inherit_on g_flags then match up with [] => kvps | _ :: _ => rec_ up kvps end else kvps) ++ own
  end.

Definition collect_args_ref (f_fromCtx : unit -> list attr -> list attr) (f_walk : list (list attr) -> list attr -> list attr)
  (f_argsToAttrs : list attr -> list attr -> list attr) (g_flags : Z) (s_ctxKeysWanted : bool)
  (s : list (list attr)) (s_attrs : list attr) (ctx : unit) (kvps : list attr) (roughSize : Z) (lvl : Z) (args : list attr)
  : list attr :=
  let k1 := if s_ctxKeysWanted then f_fromCtx ctx kvps else kvps in
  let k2 := if negb (Nat.eqb (length s_attrs) 0) || inherit_on g_flags then f_walk s k1 else k1 in
  match args with [] => k2 | _ :: _ => f_argsToAttrs k2 args end.
