(* What Gen/Registry.v (translated from RegisterLevel, slog/level.go) mentions besides Model/Level.v, how its
   result is read as a step of the model, and the reference version (same signature) - the fallback.
   No proofs here. *)
Require Import Verif.Model.Base Verif.Model.Decision Verif.Model.Dec Verif.Model.GoSem Verif.Model.Level.

(* pack.shortTags[i] after the options ran: the i-th given tag, "" if none *)
Definition tag_at (ts : list bytes) (i : Z) : bytes :=
  if i <? 0 then [] else match nth_error ts (Z.to_nat i) with Some s => s | None => [] end.

Definition tables : Type :=
  (list Z * list (Z * bytes) * list (bytes * Z) * list (Z * list (Z * bytes)) * list (Z * list Z) * list (Z * Z) * list (Z * bool))%type.

(* the two refusals, by the text of the error *)
Definition dup_value_msg : bytes := [x74;x68;x65;x20;x67;x69;x76;x65;x6e;x20;x6c;x65;x76;x65;x6c;x20;x25;x71;x20;x69;x73;x20;x64;x75;x70;x6c;x69;x63;x61;x74;x65;x64;x20;x77;x69;x74;x68;x20;x25;x71].
Definition dup_title_msg : bytes := [x74;x68;x65;x20;x74;x69;x74;x6c;x65;x20;x25;x71;x20;x68;x61;x73;x20;x62;x65;x65;x6e;x20;x75;x73;x65;x64;x20;x66;x6f;x72;x20;x25;x71].
Definition code_of (e : option bytes) : option reg_result :=
  match e with
  | None => Some RegOk
  | Some m => if bytes_eqb m dup_value_msg then Some RegDupValue
              else if bytes_eqb m dup_title_msg then Some RegDupTitle else None
  end.

(* the generated result as (outcome, registry afterwards); mLevelUseErrorDevice is read by its key set *)
Definition view_reg (r : option (option bytes * list Z * list (Z * bytes) * list (bytes * Z) * list (Z * list (Z * bytes))
                                 * list (Z * list Z) * list (Z * Z) * list (Z * bool))) : option (reg_result * registry) :=
  match r with
  | Some (e, all, l2s, s2l, tags, colors, as_, errm) =>
      match code_of e with
      | Some c => Some (c, {| r_all := all; r_l2s := l2s; r_s2l := s2l; r_tags := tags; r_as := as_;
                              r_errdev := map fst errm; r_colors := colors |})
      | None => None
      end
  | None => None
  end.

(* well-formedness the gen theorem needs (the model appends where a Go map write would overwrite an existing
   key, and a Go write into a missing row of shortTagMap would panic): no table has a key outside allLevels,
   and shortTagMap has exactly the rows 0..5.  Boolean, so it can be evaluated on a concrete registry. *)
Definition keys_sub {V} (m : list (Z * V)) (all : list Z) : bool := forallb (fun kv : Z * V => memZ all (fst kv)) m.
Definition reg_wf_b (g : registry) : bool :=
  keys_sub (r_l2s g) (r_all g) && keys_sub (r_as g) (r_all g) && keys_sub (r_colors g) (r_all g)
  && forallb (memZ (r_all g)) (r_errdev g)
  && forallb (fun row : Z * list (Z * bytes) => keys_sub (snd row) (r_all g)) (r_tags g)
  && list_eqb Z.eqb (map fst (r_tags g)) [0; 1; 2; 3; 4; 5].

Definition register_ref (g_allLevels : list Z) (m_levelToString : list (Z * bytes)) (m_stringToLevel : list (bytes * Z))
  (m_shortTagMap : list (Z * list (Z * bytes))) (m_mLevelColors : list (Z * list Z)) (m_mLevelIsEnabledAs : list (Z * Z))
  (m_mLevelUseErrorDevice : list (Z * bool)) (levelValue : Z) (title : bytes) (o_tags : list bytes) (o_clr o_bg o_treat : Z) (o_err : bool)
  : option (option bytes * list Z * list (Z * bytes) * list (bytes * Z) * list (Z * list (Z * bytes)) * list (Z * list Z) * list (Z * Z) * list (Z * bool)) :=
  let g := {| r_all := g_allLevels; r_l2s := m_levelToString; r_s2l := m_stringToLevel; r_tags := m_shortTagMap;
              r_as := m_mLevelIsEnabledAs; r_errdev := map fst m_mLevelUseErrorDevice; r_colors := m_mLevelColors |} in
  let o := {| o_tags := o_tags; o_clr := o_clr; o_bg := o_bg; o_treat := o_treat; o_err := o_err |} in
  let '(g', c) := Level.register g levelValue title o in
  Some (match c with RegOk => None | RegDupValue => Some dup_value_msg | RegDupTitle => Some dup_title_msg end,
        r_all g', r_l2s g', r_s2l g', r_tags g', r_colors g', r_as g',
        if o_err && match c with RegOk => true | _ => false end then m_mLevelUseErrorDevice ++ [(levelValue, true)] else m_mLevelUseErrorDevice).
