(* What Gen/Context.v (PrintCtx.setentry and PrintCtx.set translated in full, slog/pc.go) is compared with: the
   fields of the model's context as the tuple the generated functions take and return, and reference versions
   (same signatures) - the fallbacks.  The buffer is (visible part, spare capacity).  No proofs here. *)
Require Import Verif.Model.Base Verif.Model.Decision Verif.Model.GoSem Verif.Model.Mode Verif.Model.Attrs Verif.Model.PrintCtx.

Definition pctuple : Type := (gslice * Z * Z * bool * bool * bool * bytes * Z * bool * Z * bytes * bytes * bytes * bool * (list attr) * Z * Z * Z * Z * (bytes * Z * bytes) * bytes * bool * bool * Z)%type.
(* the fields of a context, the buffer with the spare capacity [sp] *)
Definition tuple_of (pc : printctx) (sp : bytes) : pctuple :=
  ((pf_buf pc, sp), pf_off pc, pf_lastRead pc, pf_noQuoted pc, pf_jsonMode pc, pf_noColor pc, pf_layout pc, pf_utcTime pc, pf_dedupeAttrs pc, pf_lvl pc, pf_msg pc, pf_firstLine pc, pf_restLines pc, pf_eol pc, pf_kvps pc, pf_clr pc, pf_bg pc, pf_now pc, pf_stackFrame pc, pf_cachedSource pc, pf_prefix pc, pf_inGroupedMode pc, pf_skipFirstSep pc, pf_valueStringer pc).
(* a function of all the fields, applied to a context *)
Definition with_fields {T} (f : gslice -> Z -> Z -> bool -> bool -> bool -> bytes -> Z -> bool -> Z -> bytes -> bytes -> bytes -> bool -> (list attr) -> Z -> Z -> Z -> Z -> (bytes * Z * bytes) -> bytes -> bool -> bool -> Z -> T) (pc : printctx) (sp : bytes) : T :=
  f (pf_buf pc, sp) (pf_off pc) (pf_lastRead pc) (pf_noQuoted pc) (pf_jsonMode pc) (pf_noColor pc) (pf_layout pc) (pf_utcTime pc) (pf_dedupeAttrs pc) (pf_lvl pc) (pf_msg pc) (pf_firstLine pc) (pf_restLines pc) (pf_eol pc) (pf_kvps pc) (pf_clr pc) (pf_bg pc) (pf_now pc) (pf_stackFrame pc) (pf_cachedSource pc) (pf_prefix pc) (pf_inGroupedMode pc) (pf_skipFirstSep pc) (pf_valueStringer pc).
Definition econf_args {T} (f : bool -> bool -> bytes -> Z -> Z -> Z -> list attr -> T) (e : econf) : T :=
  f (useJSON (ec_flags e)) (useColor (ec_flags e)) (ec_layout e) (ec_utc e) (ec_valueStringer e) (ec_level e) (ec_attrs e).

Definition pc_setentry_full_ref (s_buf : gslice) (s_off : Z) (s_lastRead : Z) (s_noQuoted : bool) (s_jsonMode : bool) (s_noColor : bool) (s_layout : bytes) (s_utcTime : Z) (s_dedupeAttrs : bool) (s_lvl : Z) (s_msg : bytes) (s_firstLine : bytes) (s_restLines : bytes) (s_eol : bool) (s_kvps : list attr) (s_clr : Z) (s_bg : Z) (s_now : Z) (s_stackFrame : Z) (s_cachedSource : bytes * Z * bytes) (s_prefix : bytes) (s_inGroupedMode : bool) (s_skipFirstSep : bool) (s_valueStringer : Z)
  (e_useJSON e_useColor : bool) (e_timeLayout : bytes) (e_modeUTC : Z) (e_valueStringer : Z) (e_level : Z) (e_attrs : list attr) (g_flags : Z) : option pctuple :=
  Some (tuple_of (pc_setentry (mkpc (fst s_buf) s_off s_lastRead s_noQuoted s_jsonMode s_noColor s_layout s_utcTime s_dedupeAttrs s_lvl s_msg s_firstLine s_restLines s_eol s_kvps s_clr s_bg s_now s_stackFrame s_cachedSource s_prefix s_inGroupedMode s_skipFirstSep s_valueStringer) {| ec_name := []; ec_flags := {| useJSON := e_useJSON; useColor := e_useColor |}; ec_layout := e_timeLayout; ec_utc := e_modeUTC; ec_valueStringer := e_valueStringer; ec_level := e_level; ec_attrs := e_attrs |}) (fst s_buf ++ snd s_buf)).

Definition pc_set_full_ref (s_buf : gslice) (s_off : Z) (s_lastRead : Z) (s_noQuoted : bool) (s_jsonMode : bool) (s_noColor : bool) (s_layout : bytes) (s_utcTime : Z) (s_dedupeAttrs : bool) (s_lvl : Z) (s_msg : bytes) (s_firstLine : bytes) (s_restLines : bytes) (s_eol : bool) (s_kvps : list attr) (s_clr : Z) (s_bg : Z) (s_now : Z) (s_stackFrame : Z) (s_cachedSource : bytes * Z * bytes) (s_prefix : bytes) (s_inGroupedMode : bool) (s_skipFirstSep : bool) (s_valueStringer : Z)
  (e_useJSON e_useColor : bool) (e_timeLayout : bytes) (e_modeUTC : Z) (e_valueStringer : Z) (e_level : Z) (e_attrs : list attr) (g_flags : Z) (e : Z) (lvl timestamp stackFrame : Z) (msg : bytes) (kvps : list attr) : option pctuple :=
  Some (tuple_of (pc_set (mkpc (fst s_buf) s_off s_lastRead s_noQuoted s_jsonMode s_noColor s_layout s_utcTime s_dedupeAttrs s_lvl s_msg s_firstLine s_restLines s_eol s_kvps s_clr s_bg s_now s_stackFrame s_cachedSource s_prefix s_inGroupedMode s_skipFirstSep s_valueStringer) {| ec_name := []; ec_flags := {| useJSON := e_useJSON; useColor := e_useColor |}; ec_layout := e_timeLayout; ec_utc := e_modeUTC; ec_valueStringer := e_valueStringer; ec_level := e_level; ec_attrs := e_attrs |}
                    {| cl_lvl := lvl; cl_now := timestamp; cl_frame := stackFrame; cl_msg := msg; cl_kvps := kvps |})
                 (fst s_buf ++ snd s_buf)).
