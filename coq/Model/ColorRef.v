(* References for the translated colour helpers of slog/colorize_tool.go (C06): what the hand-written
   encoder model (Model/Encode.v) says the helpers append / return, in the shape of the translator's
   results.  The translations in Gen/Colors.v fall back on these when a site leaves the fragment. *)
Require Import Verif.Model.Base Verif.Model.Decision Verif.Model.Dec Verif.Model.GoSem Verif.Model.Attrs Verif.Model.Encode.

(* strings.TrimRight(s, cutset) for a cutset of ASCII bytes: drop the trailing bytes that are in the set *)
Definition in_set (cut : bytes) (b : byte) : bool := existsb (fun c => bz c =? bz b) cut.
Definition str_trim_right (s cut : bytes) : bytes := rev (drop_while (in_set cut) (rev s)).

(* ct.echoColor(out, clr): out is the io.Writer the helper writes to, as the bytes it holds *)
Definition echo_color_ref (out : bytes) (clr : Z) : option bytes := Some (out ++ echo_color clr).
Definition echo_color_bg_ref (out : bytes) (clr bg : Z) : option bytes := Some (out ++ echo_color_bg clr bg).
Definition echo_reset_ref (out : bytes) : option bytes := Some (out ++ sgr_reset).
(* ct.rightPad(str, " ", minw) *)
Definition right_pad_ref (str padChar : bytes) (minw : Z) : option bytes :=
  if 0 <? minw - Z.of_nat (List.length str) then
    Some (str ++ concat (repeat padChar (Z.to_nat (minw - Z.of_nat (List.length str)))))
  else Some str.
(* ct.splitFirstAndRestLines(str) *)
Definition split_first_rest_ref (str : bytes) : option (bytes * bytes * bool) := Some (split_first_rest str).
