(* C01 / C17: levels, the registry and the admission rule (slog/level.go). *)
Require Import Verif.Model.Base Verif.Model.Decision.

Definition lv_panic : Z := 0.   Definition lv_fatal : Z := 1.   Definition lv_error : Z := 2.
Definition lv_warn : Z := 3.    Definition lv_info : Z := 4.    Definition lv_debug : Z := 5.
Definition lv_trace : Z := 6.   Definition lv_off : Z := 7.     Definition lv_always : Z := 8.
Definition lv_ok : Z := 9.      Definition lv_success : Z := 10. Definition lv_fail : Z := 11.
Definition lv_max : Z := 12.

(* Level.Enabled as written in the code (reference for the generated translation) *)
Definition enabled_code (enabled_as : list (Z * Z)) (dbg : bool) (level testing : Z) : bool :=
  if (level =? lv_off) || (testing =? lv_off) then false
  else if (level =? lv_always) || (testing =? lv_always) then true
  else if dbg && (testing =? lv_debug) then true
  else match lookupZ enabled_as testing with
       | Some l => l <=? level
       | None => testing <=? level
       end.

(* the level a severity counts as *)
Definition treated_as (enabled_as : list (Z * Z)) (r : Z) : Z :=
  match lookupZ enabled_as r with Some l => l | None => r end.

(* the rule of the statement, as a proposition *)
Definition admits (enabled_as : list (Z * Z)) (dbg : bool) (L r : Z) : Prop :=
  L <> lv_off /\ r <> lv_off /\
  (L = lv_always \/ r = lv_always \/ (dbg = true /\ r = lv_debug) \/ treated_as enabled_as r <= L).

(* ---- the level registry (the seven package-level tables) ---- *)
Record registry := {
  r_all : list Z;                          (* allLevels *)
  r_l2s : list (Z * bytes);                (* levelToString *)
  r_s2l : list (bytes * Z);                (* stringToLevel *)
  r_tags : list (Z * list (Z * bytes));    (* shortTagMap: length -> level -> tag *)
  r_as : list (Z * Z);                     (* mLevelIsEnabledAs *)
  r_errdev : list Z;                       (* keys of mLevelUseErrorDevice *)
  r_colors : list (Z * list Z)             (* mLevelColors *)
}.

Record regopts := {
  o_tags : list bytes;   (* RegWithShortTags: index 0..5, [] = not given *)
  o_clr : Z;             (* -1 = color.NoColor *)
  o_bg : Z;
  o_treat : Z;           (* default MaxLevel *)
  o_err : bool
}.
Definition no_opts : regopts := {| o_tags := []; o_clr := -1; o_bg := -1; o_treat := lv_max; o_err := false |}.

Inductive reg_result := RegOk | RegDupValue | RegDupTitle.

Definition tags_add (tags : list (Z * list (Z * bytes))) (v : Z) (ts : list bytes) : list (Z * list (Z * bytes)) :=
  map (fun row : Z * list (Z * bytes) =>
         let '(n, m) := row in
         match nth_error ts (Z.to_nat n) with
         | Some (c :: s) => if (0 <=? n) && (n <? 6) then (n, m ++ [(v, c :: s)]) else (n, m)
         | _ => (n, m)
         end) tags.

(* RegisterLevel *)
Definition register (g : registry) (v : Z) (title : bytes) (o : regopts) : registry * reg_result :=
  if memZ (r_all g) v then (g, RegDupValue)
  else match lookupB (r_s2l g) title with
  | Some _ => (g, RegDupTitle)
  | None =>
    ({| r_all := r_all g ++ [v];
        r_l2s := r_l2s g ++ [(v, title)];
        r_s2l := r_s2l g ++ [(title, v)];
        r_tags := tags_add (r_tags g) v (o_tags o);
        r_as := if o_treat o <? lv_max then r_as g ++ [(v, o_treat o)] else r_as g;
        r_errdev := if o_err o then r_errdev g ++ [v] else r_errdev g;
        r_colors := if o_clr o =? -1 then r_colors g
                    else r_colors g ++ [(v, if o_bg o =? -1 then [o_clr o] else [o_clr o; o_bg o])] |},
     RegOk)
  end.
