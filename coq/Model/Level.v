(* C01 / C17: levels, the registry and the admission rule (slog/level.go). *)
Require Import Verif.Model.Base Verif.Model.Decision Verif.Model.Dec.

Definition lv_panic : Z := 0.   Definition lv_fatal : Z := 1.   Definition lv_error : Z := 2.
Definition lv_warn : Z := 3.    Definition lv_info : Z := 4.    Definition lv_debug : Z := 5.
Definition lv_trace : Z := 6.   Definition lv_off : Z := 7.     Definition lv_always : Z := 8.
Definition lv_ok : Z := 9.      Definition lv_success : Z := 10. Definition lv_fail : Z := 11.
Definition lv_max : Z := 12.

(* Level.Enabled as written in the code (reference for the generated translation) *)
Definition enabled_code (enabled_as : list (Z * Z)) (dbg : bool) (level testing : Z) : bool :=
  if (level =? lv_off) || (testing =? lv_off) then false
  else if (level =? lv_always) || (testing =? lv_always) then true
  else if dbg && (testing =? lv_debug) then true
  else match lookupZ enabled_as testing with
       | Some l => l <=? level
       | None => testing <=? level
       end.

(* the level a severity counts as *)
Definition treated_as (enabled_as : list (Z * Z)) (r : Z) : Z :=
  match lookupZ enabled_as r with Some l => l | None => r end.

(* the rule of the statement, as a proposition *)
Definition admits (enabled_as : list (Z * Z)) (dbg : bool) (L r : Z) : Prop :=
  L <> lv_off /\ r <> lv_off /\
  (L = lv_always \/ r = lv_always \/ (dbg = true /\ r = lv_debug) \/ treated_as enabled_as r <= L).

(* ---- the level registry (the seven package-level tables) ---- *)
Record registry := {
  r_all : list Z;                          (* allLevels *)
  r_l2s : list (Z * bytes);                (* levelToString *)
  r_s2l : list (bytes * Z);                (* stringToLevel *)
  r_tags : list (Z * list (Z * bytes));    (* shortTagMap: length -> level -> tag *)
  r_as : list (Z * Z);                     (* mLevelIsEnabledAs *)
  r_errdev : list Z;                       (* keys of mLevelUseErrorDevice *)
  r_colors : list (Z * list Z)             (* mLevelColors *)
}.

Record regopts := {
  o_tags : list bytes;   (* RegWithShortTags: index 0..5, [] = not given *)
  o_clr : Z;             (* -1 = color.NoColor *)
  o_bg : Z;
  o_treat : Z;           (* default MaxLevel *)
  o_err : bool
}.
Definition no_opts : regopts := {| o_tags := []; o_clr := -1; o_bg := -1; o_treat := lv_max; o_err := false |}.

Inductive reg_result := RegOk | RegDupValue | RegDupTitle.

Definition tag_row (v : Z) (ts : list bytes) (row : Z * list (Z * bytes)) : Z * list (Z * bytes) :=
  match nth_error ts (Z.to_nat (fst row)) with
  | Some (c :: s) => if (0 <=? fst row) && (fst row <? 6) then (fst row, snd row ++ [(v, c :: s)]) else row
  | _ => row
  end.
Definition tags_add (tags : list (Z * list (Z * bytes))) (v : Z) (ts : list bytes) : list (Z * list (Z * bytes)) :=
  map (tag_row v ts) tags.

(* RegisterLevel *)
Definition register (g : registry) (v : Z) (title : bytes) (o : regopts) : registry * reg_result :=
  if memZ (r_all g) v then (g, RegDupValue)
  else match lookupB (r_s2l g) (to_lower title) with   (* titles are kept and looked up in lower case *)
  | Some _ => (g, RegDupTitle)
  | None =>
    ({| r_all := r_all g ++ [v];
        r_l2s := r_l2s g ++ [(v, title)];
        r_s2l := r_s2l g ++ [(to_lower title, v)];
        r_tags := tags_add (r_tags g) v (o_tags o);
        r_as := if o_treat o <? lv_max then r_as g ++ [(v, o_treat o)] else r_as g;
        r_errdev := if o_err o then r_errdev g ++ [v] else r_errdev g;
        r_colors := if o_clr o =? -1 then r_colors g
                    else r_colors g ++ [(v, if o_bg o =? -1 then [o_clr o] else [o_clr o; o_bg o])] |},
     RegOk)
  end.

(* ---- names ---- *)
(* Level.String *)
Definition level_string (g : registry) (l : Z) : bytes :=
  match lookupZ (r_l2s g) l with
  | Some t => t
  | None => x4c :: x23 :: dec_of_Z l     (* fmt.Sprintf("L#%d", int(level)) *)
  end.

(* ParseLevel *)
Definition parse_level (g : registry) (s : bytes) : option Z := lookupB (r_s2l g) (to_lower s).

(* MarshalText / UnmarshalText *)
Definition marshal_text (g : registry) (l : Z) : option bytes := lookupZ (r_l2s g) l.
Definition unmarshal_text (g : registry) (s : bytes) : option Z := parse_level g s.

(* ShortTag(length); None = the call panics (length outside 1..5) *)
Definition short_tag (g : registry) (n : Z) (l : Z) : option bytes :=
  if (n <=? 0) || (6 <=? n) then None
  else
    match match lookupZ (r_tags g) n with Some m => lookupZ m l | None => None end with
    | Some t => Some t
    | None =>
        let t := level_string g l in
        let k := Z.to_nat n in
        match t with
        | [] => Some (repeat x3f k)
        | _ => if Nat.eqb (length t) k then Some t
               else if Nat.ltb (length t) k then Some (firstn k (t ++ repeat x20 k))
               else Some (firstn k t)
        end
    end.
