(* C03: writer configuration of an Entry (slog/writers.go dualWriter and the
   Entry-level wrappers in slog/entry.go:542-722) and severity routing
   (dualWriter.Get, Entry.findWriter).  Writers are identified by Z; the
   package defaults are stdout = -1 and stderr = -2.  No proofs here. *)
Require Import Verif.Model.Base.

Definition wid := Z.
Definition w_stdout : wid := -1.
Definition w_stderr : wid := -2.
Definition w_discard : wid := -3.

(* the code keeps a plain io.Writer inside a fresh *logwr cell and a LogWriter
   as it is; the distinction matters for comparisons and for unwrapping *)
Inductive member := Wrapped (w : wid) | Direct (w : wid).
Definition member_id (m : member) : wid := match m with Wrapped w | Direct w => w end.

Record dualwriter := {
  dw_normal : list member;
  dw_error : list member;
  dw_leveled : list (Z * list member)   (* Go map[Level]LWs, as an association list *)
}.

(* pool description supplied by the harness: which writer ids are LogWriters *)
Section WithPool.
Variable is_logwriter : wid -> bool.

Definition mk_member (w : wid) : member := if is_logwriter w then Direct w else Wrapped w.

Definition new_dual : dualwriter :=
  {| dw_normal := [Direct w_stdout]; dw_error := [Direct w_stderr]; dw_leveled := [] |}.

(* remove the first member that is the given writer (the *logwr cell is looked through) *)
Fixpoint remove_first (w : wid) (l : list member) : list member :=
  match l with
  | [] => []
  | m :: t => if member_id m =? w then t else m :: remove_first w t
  end.

Fixpoint lv_get (m : list (Z * list member)) (l : Z) : option (list member) :=
  match m with
  | [] => None
  | (k, v) :: t => if k =? l then Some v else lv_get t l
  end.
Fixpoint lv_set (m : list (Z * list member)) (l : Z) (v : list member) : list (Z * list member) :=
  match m with
  | [] => [(l, v)]
  | (k, v') :: t => if k =? l then (k, v) :: t else (k, v') :: lv_set t l v
  end.
Definition lv_del (m : list (Z * list member)) (l : Z) : list (Z * list member) :=
  filter (fun kv : Z * list member => negb (fst kv =? l)) m.

Inductive wop :=
| SetW (w : wid) | AddW (w : wid) | RemW (w : wid)
| SetE (w : wid) | AddE (w : wid) | RemE (w : wid)
| AddL (l : Z) (w : wid) | RemL (l : Z) (w : wid)
| ResetL (l : Z) | ResetLs | ResetWs.

Definition ensure (d : option dualwriter) : dualwriter :=
  match d with Some x => x | None => new_dual end.

(* one Entry-level call; [None] = s.writer == nil *)
Definition wstep (d : option dualwriter) (o : wop) : option dualwriter :=
  match o with
  | SetW w => let x := ensure d in
      Some {| dw_normal := [mk_member w]; dw_error := dw_error x; dw_leveled := dw_leveled x |}
  | AddW w => let x := ensure d in
      Some {| dw_normal := dw_normal x ++ [mk_member w]; dw_error := dw_error x; dw_leveled := dw_leveled x |}
  | RemW w => match d with
      | None => None
      | Some x => Some {| dw_normal := remove_first w (dw_normal x); dw_error := dw_error x; dw_leveled := dw_leveled x |}
      end
  | SetE w => let x := ensure d in
      Some {| dw_normal := dw_normal x; dw_error := [mk_member w]; dw_leveled := dw_leveled x |}
  | AddE w => let x := ensure d in
      Some {| dw_normal := dw_normal x; dw_error := dw_error x ++ [mk_member w]; dw_leveled := dw_leveled x |}
  | RemE w => match d with
      | None => None
      | Some x => Some {| dw_normal := dw_normal x; dw_error := remove_first w (dw_error x); dw_leveled := dw_leveled x |}
      end
  | AddL l w => let x := ensure d in
      let cur := match lv_get (dw_leveled x) l with Some v => v | None => [] end in
      Some {| dw_normal := dw_normal x; dw_error := dw_error x;
              dw_leveled := lv_set (dw_leveled x) l (cur ++ [mk_member w]) |}
  | RemL l w => let x := ensure d in
      match lv_get (dw_leveled x) l with
      | Some v => Some {| dw_normal := dw_normal x; dw_error := dw_error x;
                          dw_leveled := lv_set (dw_leveled x) l (remove_first w v) |}
      | None => Some x
      end
  | ResetL l => let x := ensure d in
      Some {| dw_normal := dw_normal x; dw_error := dw_error x; dw_leveled := lv_del (dw_leveled x) l |}
  | ResetLs => let x := ensure d in
      Some {| dw_normal := dw_normal x; dw_error := dw_error x; dw_leveled := [] |}
  | ResetWs => Some new_dual
  end.

(* dualWriter.Get; [errdev] = the key set of mLevelUseErrorDevice *)
Definition lvl_off : Z := 7.
Definition dw_get (errdev : list Z) (x : dualwriter) (lvl : Z) : list member :=
  if lvl =? lvl_off then [Wrapped w_discard]
  else match lv_get (dw_leveled x) lvl with
       | Some (m :: t) => m :: t
       | _ => if memZ errdev lvl then dw_error x else dw_normal x
       end.

(* Entry.findWriter: own configuration, else the package default *)
Definition find_writer (errdev : list Z) (d : option dualwriter) (lvl : Z) : list member :=
  dw_get errdev (ensure d) lvl.

Definition dest (errdev : list Z) (d : option dualwriter) (lvl : Z) : list wid :=
  map member_id (find_writer errdev d lvl).

(* ---- specification: what an op sequence denotes ---- *)
Record wconf := {
  c_normal : list wid;
  c_error : list wid;
  c_leveled : Z -> list wid
}.

Definition conf_default : wconf :=
  {| c_normal := [w_stdout]; c_error := [w_stderr]; c_leveled := fun _ => [] |}.

Fixpoint del_first (w : wid) (l : list wid) : list wid :=
  match l with
  | [] => []
  | x :: t => if x =? w then t else x :: del_first w t
  end.

Definition upd (f : Z -> list wid) (l : Z) (v : list wid) : Z -> list wid :=
  fun k => if k =? l then v else f k.

Definition denote_step (c : wconf) (o : wop) : wconf :=
  match o with
  | SetW w => {| c_normal := [w]; c_error := c_error c; c_leveled := c_leveled c |}
  | AddW w => {| c_normal := c_normal c ++ [w]; c_error := c_error c; c_leveled := c_leveled c |}
  | RemW w => {| c_normal := del_first w (c_normal c); c_error := c_error c; c_leveled := c_leveled c |}
  | SetE w => {| c_normal := c_normal c; c_error := [w]; c_leveled := c_leveled c |}
  | AddE w => {| c_normal := c_normal c; c_error := c_error c ++ [w]; c_leveled := c_leveled c |}
  | RemE w => {| c_normal := c_normal c; c_error := del_first w (c_error c); c_leveled := c_leveled c |}
  | AddL l w => {| c_normal := c_normal c; c_error := c_error c;
                   c_leveled := upd (c_leveled c) l (c_leveled c l ++ [w]) |}
  | RemL l w => {| c_normal := c_normal c; c_error := c_error c;
                   c_leveled := upd (c_leveled c) l (del_first w (c_leveled c l)) |}
  | ResetL l => {| c_normal := c_normal c; c_error := c_error c; c_leveled := upd (c_leveled c) l [] |}
  | ResetLs => {| c_normal := c_normal c; c_error := c_error c; c_leveled := fun _ => [] |}
  | ResetWs => conf_default
  end.

Definition denote (ops : list wop) : wconf := fold_left denote_step ops conf_default.

(* documented routing on the denoted configuration *)
Definition route (errdev : list Z) (c : wconf) (lvl : Z) : list wid :=
  if lvl =? lvl_off then [w_discard]
  else match c_leveled c lvl with
       | x :: t => x :: t
       | [] => if memZ errdev lvl then c_error c else c_normal c
       end.

Definition abs_leveled (x : dualwriter) (l : Z) : list wid :=
  match lv_get (dw_leveled x) l with Some v => map member_id v | None => [] end.

(* abstraction of the code-level state; [None] (no own writers) denotes the package defaults *)
Definition abs (d : option dualwriter) : wconf :=
  let x := ensure d in
  {| c_normal := map member_id (dw_normal x); c_error := map member_id (dw_error x);
     c_leveled := abs_leveled x |}.

Definition conf_eq (a b : wconf) : Prop :=
  c_normal a = c_normal b /\ c_error a = c_error b /\ forall l, c_leveled a l = c_leveled b l.

(* the writer an operation names *)
Definition wop_writer (o : wop) : option wid :=
  match o with
  | SetW w | AddW w | RemW w | SetE w | AddE w | RemE w | AddL _ w | RemL _ w => Some w
  | _ => None
  end.
(* user writers are positive ids (stdout/stderr/discard are negative and cannot be named) *)
Definition wop_ok (o : wop) : bool :=
  match wop_writer o with Some w => 0 <? w | None => true end.

(* delivery of one record (printOut -> LWs.WriteLeveled): a member that is
   LevelSettable is told the level right before its Write *)
Inductive wevent := EvSet (w : wid) (l : Z) | EvWrite (w : wid).
Section Deliver.
Variable is_ls : wid -> bool.
Definition deliver1 (lvl : Z) (m : member) : list wevent :=
  (if is_ls (member_id m) then [EvSet (member_id m) lvl] else []) ++ [EvWrite (member_id m)].
Definition deliver (ms : list member) (lvl : Z) : list wevent := flat_map (deliver1 lvl) ms.
End Deliver.

End WithPool.
