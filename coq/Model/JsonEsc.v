(* appendEscapedJSONString of slog/pc.go (from encoding/json, escapeHTML = false). No proofs here. *)
Require Import Verif.Model.Base Verif.Model.Utf8 Verif.Model.Quote.

(* safeSet: every ASCII byte except control characters, the quote and the backslash *)
Definition json_safe (n : Z) : bool := (32 <=? n) && (n <? 128) && negb (n =? 34) && negb (n =? 92).

Definition json_esc_ascii (b : byte) : bytes :=
  let n := bz b in
  if json_safe n then [b]
  else if (n =? 92) || (n =? 34) then [x5c; b]
  else if n =? 10 then [x5c; x6e]
  else if n =? 13 then [x5c; x72]
  else if n =? 9 then [x5c; x74]
  else x5c :: x75 :: x30 :: x30 :: hexn 2 n.       (* \u00XX *)

(* skip = bytes of the current rune still to be passed over; emit = copy them (a valid
   rune is copied verbatim) or drop them (U+2028/9 were written as an escape) *)
Fixpoint jesc (skip : nat) (emit : bool) (s : bytes) : bytes :=
  match s with
  | [] => []
  | b :: t =>
    match skip with
    | S k => (if emit then [b] else []) ++ jesc k emit t
    | O =>
      if bz b <? 128 then json_esc_ascii b ++ jesc 0 true t
      else
        let '(r, w) := decode_rune s in
        if (r =? RuneError) && Nat.eqb w 1 then [x5c; x75; x66; x66; x66; x64] ++ jesc 0 true t   (* � *)
        else if (r =? 8232) || (r =? 8233) then
          [x5c; x75; x32; x30; x32; hexd (r mod 16)] ++ jesc (w - 1) false t                        (*     *)
        else b :: jesc (w - 1) true t
    end
  end.
Definition json_escape (s : bytes) : bytes := jesc 0 true s.
Definition json_quote (s : bytes) : bytes := x22 :: json_escape s ++ [x22].
