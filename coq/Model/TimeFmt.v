(* C16: Go's layout language (time.Time.AppendFormat, go1.23 src/time/format.go) as an
   executable model, for the instants and layouts this library meets, and a
   SPECIFICATION-side reader of the same language.

   [format_time layout unix_sec nsec offset_sec abbrev] is what
       time.Unix(unix_sec, nsec).In(zone).Format(layout)
   prints when the zone in force at that instant is [offset_sec] seconds east of UTC
   and is abbreviated [abbrev] (what Time.Zone() returns).  [None] = outside the modelled
   domain: civil year outside 0..9999 (Go then prints a sign or five digits),
   nanoseconds outside [0, 1e9) (impossible for a time.Time), an offset of 100 hours or
   more (Go then prints three hour digits).  EVERY layout element Go knows is modelled.

   Shape of the model against the Go source:
   - [std_at] is the body of nextStdChunk's loop at one position (the same tests in
     the same order); [tokens] walks the layout once, [skip] standing for the jump to
     the suffix (nextStdChunk only ever looks forward, so re-scanning the suffix and
     going on scanning are the same thing; the special case _2006 = literal underscore +
     2006 falls out by treating the underscore as a literal).
   - the civil date is computed from the day number by the era/day-of-era algorithm
     (days_from_civil / civil_from_days), with floor division on Z, not by Go's absDate
     cycle cutting; the two agree (correspondence run) and the former has the inverse
     proved in Proofs/TimeFmtP.v.
   - appendInt is specialised to the widths that occur (2, 4, 9 digits, unpadded below
     100); appendNano's "print 9 digits, cut, strip zeros" is written arithmetically
     ([frac_trim]: digits are emitted until the remainder is zero).
   - the zone offset follows Go to the letter, including truncating division
     (Z.quot / Z.rem): an offset in (-60 s, 0) under a seconds-bearing zone element
     prints as +00:00:-SS.

   [parse_time layout text] is NOT Go's time.Parse.  It is the obvious reader of the
   layout language: one field reader per element, literal bytes must match, the fields
   are combined into (unix seconds, nanoseconds, offset).  No proofs here. *)
Require Import Verif.Model.Base.
From Coq Require Import Strings.String.

Definition lit (s : string) : bytes := list_byte_of_string s.

(* ------------------------------------------------------------------ *)
(* decimal digits                                                       *)
(* ------------------------------------------------------------------ *)
Definition digit (d : Z) : byte := zb (48 + d).
Definition is_digit (b : byte) : bool := (48 <=? bz b) && (bz b <=? 57).
Definition digit_val (b : byte) : Z := bz b - 48.

(* exactly k digits, most significant first (0 <= v < 10^k) *)
Fixpoint decn (k : nat) (v : Z) : bytes :=
  match k with
  | O => []
  | S k' => digit (v / 10 ^ Z.of_nat k') :: decn k' (v mod 10 ^ Z.of_nat k')
  end.
Definition dec2 (v : Z) : bytes := decn 2 v.
(* appendInt(x, 0) for 0 <= x < 100: no padding *)
Definition dec_min (v : Z) : bytes := if v <? 10 then [digit v] else dec2 v.
(* appendInt(x, 2) for -100 < x < 100 *)
Definition append_int2 (x : Z) : bytes := if x <? 0 then "-"%byte :: dec2 (- x) else dec2 x.

(* ------------------------------------------------------------------ *)
(* proleptic Gregorian calendar, day 0 = 1970-01-01                     *)
(* ------------------------------------------------------------------ *)
Definition is_leap (y : Z) : bool :=
  (y mod 4 =? 0) && (negb (y mod 100 =? 0) || (y mod 400 =? 0)).

Definition days_in_month (y m : Z) : Z :=
  if m =? 2 then (if is_leap y then 29 else 28)
  else if (m =? 4) || (m =? 6) || (m =? 9) || (m =? 11) then 30 else 31.

Definition valid_date (y m d : Z) : bool :=
  (1 <=? m) && (m <=? 12) && (1 <=? d) && (d <=? days_in_month y m).

Definition days_from_civil (y m d : Z) : Z :=
  let y' := if m <=? 2 then y - 1 else y in
  let era := y' / 400 in
  let yoe := y' - era * 400 in
  let mp := if 2 <? m then m - 3 else m + 9 in
  let doy := (153 * mp + 2) / 5 + d - 1 in
  let doe := yoe * 365 + yoe / 4 - yoe / 100 + doy in
  era * 146097 + doe - 719468.

Definition civil_from_days (n : Z) : Z * Z * Z :=
  let z := n + 719468 in
  let era := z / 146097 in
  let doe := z - era * 146097 in
  let yoe := (doe - doe / 1460 + doe / 36524 - doe / 146096) / 365 in
  let doy := doe - (365 * yoe + yoe / 4 - yoe / 100) in
  let mp := (5 * doy + 2) / 153 in
  let d := doy - (153 * mp + 2) / 5 + 1 in
  let m := if mp <? 10 then mp + 3 else mp - 9 in
  let y := yoe + era * 400 in
  ((if m <=? 2 then y + 1 else y), m, d).

(* 0 = Sunday; 1970-01-01 was a Thursday *)
Definition weekday_of_days (n : Z) : Z := (n + 4) mod 7.

(* ------------------------------------------------------------------ *)
(* an instant in a zone, broken down                                    *)
(* ------------------------------------------------------------------ *)
Record tm := mk_tm {
  t_year : Z; t_month : Z; t_day : Z; t_yday : Z; t_wday : Z;
  t_hour : Z; t_min : Z; t_sec : Z; t_nsec : Z; t_off : Z; t_abbrev : bytes
}.

Definition tm_of (unix_sec nsec off : Z) (abbrev : bytes) : tm :=
  let loc := unix_sec + off in
  let days := loc / 86400 in
  let sod := loc mod 86400 in
  let '(y, m, d) := civil_from_days days in
  mk_tm y m d (days - days_from_civil y 1 1 + 1) (weekday_of_days days)
        (sod / 3600) (sod / 60 mod 60) (sod mod 60) nsec off abbrev.

Definition tm_in_range (t : tm) : bool :=
  (0 <=? t_year t) && (t_year t <=? 9999) &&
  (0 <=? t_nsec t) && (t_nsec t <? 1000000000) &&
  (-360000 <? t_off t) && (t_off t <? 360000).

(* ------------------------------------------------------------------ *)
(* layout elements (the std* constants of format.go)                    *)
(* ------------------------------------------------------------------ *)
Inductive zshape := ZS_hhmm | ZS_hh_mm | ZS_hhmmss | ZS_hh_mm_ss | ZS_hh.
(*                  -0700     -07:00     -070000     -07:00:00     -07   *)

Inductive elem :=
| ELongMonth | EMonth | ENumMonth | EZeroMonth
| ELongWeekDay | EWeekDay
| EDay | EUnderDay | EZeroDay | EUnderYearDay | EZeroYearDay
| EHour | EHour12 | EZeroHour12 | EMinute | EZeroMinute | ESecond | EZeroSecond
| ELongYear | EYear
| EPM | Epm
| ETZ
| EZone (iso : bool) (sh : zshape)            (* iso = the Z... forms: Z for offset 0 *)
| EFrac (nine : bool) (n : nat) (comma : bool). (* .000 / .999 / ,000 / ,999 with n digits *)

Inductive item := Lit (c : byte) | El (e : elem).

(* ---- nextStdChunk ---- *)
Fixpoint starts_with (p l : bytes) : bool :=
  match p with
  | [] => true
  | c :: p' => match l with [] => false | d :: l' => byte_eqb c d && starts_with p' l' end
  end.

Definition lower_first (l : bytes) : bool :=
  match l with [] => false | c :: _ => (97 <=? bz c) && (bz c <=? 122) end.
Definition digit_first (l : bytes) : bool :=
  match l with [] => false | c :: _ => is_digit c end.

(* length of the run of [ch] at the head of l *)
Fixpoint run_of (ch : byte) (l : bytes) : nat :=
  match l with c :: l' => if byte_eqb c ch then S (run_of ch l') else O | [] => O end.

Definition s_January := Eval vm_compute in lit "January".
Definition s_Jan := Eval vm_compute in lit "Jan".
Definition s_Monday := Eval vm_compute in lit "Monday".
Definition s_Mon := Eval vm_compute in lit "Mon".
Definition s_MST := Eval vm_compute in lit "MST".
Definition s_2006 := Eval vm_compute in lit "2006".
Definition s_070000 := Eval vm_compute in lit "070000".
Definition s_07c00c00 := Eval vm_compute in lit "07:00:00".
Definition s_0700 := Eval vm_compute in lit "0700".
Definition s_07c00 := Eval vm_compute in lit "07:00".
Definition s_07 := Eval vm_compute in lit "07".

(* the std element starting at the head of l, with the number of layout bytes it takes *)
Definition std_at (l : bytes) : option (elem * nat) :=
  match l with
  | [] => None
  | c :: tl =>
    match c with
    | "J"%byte =>
        if starts_with s_Jan l then
          if starts_with s_January l then Some (ELongMonth, 7%nat)
          else if negb (lower_first (skipn 3 l)) then Some (EMonth, 3%nat) else None
        else None
    | "M"%byte =>
        if starts_with s_Mon l then
          if starts_with s_Monday l then Some (ELongWeekDay, 6%nat)
          else if negb (lower_first (skipn 3 l)) then Some (EWeekDay, 3%nat) else None
        else if starts_with s_MST l then Some (ETZ, 3%nat) else None
    | "0"%byte =>
        match tl with
        | "1"%byte :: _ => Some (EZeroMonth, 2%nat)
        | "2"%byte :: _ => Some (EZeroDay, 2%nat)
        | "3"%byte :: _ => Some (EZeroHour12, 2%nat)
        | "4"%byte :: _ => Some (EZeroMinute, 2%nat)
        | "5"%byte :: _ => Some (EZeroSecond, 2%nat)
        | "6"%byte :: _ => Some (EYear, 2%nat)
        | "0"%byte :: "2"%byte :: _ => Some (EZeroYearDay, 3%nat)
        | _ => None
        end
    | "1"%byte =>
        match tl with "5"%byte :: _ => Some (EHour, 2%nat) | _ => Some (ENumMonth, 1%nat) end
    | "2"%byte =>
        if starts_with s_2006 l then Some (ELongYear, 4%nat) else Some (EDay, 1%nat)
    | "_"%byte =>
        match tl with
        | "2"%byte :: _ =>
            (* _2006 is a literal underscore followed by 2006: leave the underscore to the
               caller as a literal, the next position finds 2006 *)
            if starts_with s_2006 tl then None else Some (EUnderDay, 2%nat)
        | "_"%byte :: "2"%byte :: _ => Some (EUnderYearDay, 3%nat)
        | _ => None
        end
    | "3"%byte => Some (EHour12, 1%nat)
    | "4"%byte => Some (EMinute, 1%nat)
    | "5"%byte => Some (ESecond, 1%nat)
    | "P"%byte => match tl with "M"%byte :: _ => Some (EPM, 2%nat) | _ => None end
    | "p"%byte => match tl with "m"%byte :: _ => Some (Epm, 2%nat) | _ => None end
    | "-"%byte =>
        if starts_with s_070000 tl then Some (EZone false ZS_hhmmss, 7%nat)
        else if starts_with s_07c00c00 tl then Some (EZone false ZS_hh_mm_ss, 9%nat)
        else if starts_with s_0700 tl then Some (EZone false ZS_hhmm, 5%nat)
        else if starts_with s_07c00 tl then Some (EZone false ZS_hh_mm, 6%nat)
        else if starts_with s_07 tl then Some (EZone false ZS_hh, 3%nat)
        else None
    | "Z"%byte =>
        if starts_with s_070000 tl then Some (EZone true ZS_hhmmss, 7%nat)
        else if starts_with s_07c00c00 tl then Some (EZone true ZS_hh_mm_ss, 9%nat)
        else if starts_with s_0700 tl then Some (EZone true ZS_hhmm, 5%nat)
        else if starts_with s_07c00 tl then Some (EZone true ZS_hh_mm, 6%nat)
        else if starts_with s_07 tl then Some (EZone true ZS_hh, 3%nat)
        else None
    | "."%byte | ","%byte =>
        match tl with
        | ch :: _ =>
            if byte_eqb ch "0"%byte || byte_eqb ch "9"%byte then
              let n := run_of ch tl in
              (* the run of digits must end here: only a fractional second is all digits *)
              if digit_first (skipn n tl) then None
              else Some (EFrac (byte_eqb ch "9"%byte) n (byte_eqb c ","%byte), S n)
            else None
        | [] => None
        end
    | _ => None
    end
  end.

(* the whole layout as literal bytes and elements *)
Fixpoint tokens_from (l : bytes) (skip : nat) : list item :=
  match l with
  | [] => []
  | c :: tl =>
    match skip with
    | S k => tokens_from tl k
    | O => match std_at l with
           | Some (e, n) => El e :: tokens_from tl (Nat.pred n)
           | None => Lit c :: tokens_from tl O
           end
    end
  end.
Definition tokens (layout : bytes) : list item := tokens_from layout O.

(* ------------------------------------------------------------------ *)
(* rendering                                                            *)
(* ------------------------------------------------------------------ *)
Definition long_months : list bytes := Eval vm_compute in
  map lit ["January"; "February"; "March"; "April"; "May"; "June"; "July"; "August";
           "September"; "October"; "November"; "December"]%string.
Definition short_months : list bytes := Eval vm_compute in map (firstn 3) long_months.
Definition long_days : list bytes := Eval vm_compute in
  map lit ["Sunday"; "Monday"; "Tuesday"; "Wednesday"; "Thursday"; "Friday"; "Saturday"]%string.
Definition short_days : list bytes := Eval vm_compute in map (firstn 3) long_days.

Definition name_of (tbl : list bytes) (i : Z) : bytes := nth (Z.to_nat i) tbl [].

Definition zs_colon (sh : zshape) : bool :=
  match sh with ZS_hh_mm | ZS_hh_mm_ss => true | _ => false end.
Definition zs_minutes (sh : zshape) : bool := match sh with ZS_hh => false | _ => true end.
Definition zs_seconds (sh : zshape) : bool :=
  match sh with ZS_hhmmss | ZS_hh_mm_ss => true | _ => false end.

(* the numeric zone of appendFormat: zone := offset / 60 with Go's truncating division, the
   sign taken from zone (so it is + for offsets in (-60, 0)), seconds = absoffset % 60 with
   Go's remainder (negative for those offsets) *)
Definition render_zone (iso : bool) (sh : zshape) (off : Z) : bytes :=
  if iso && (off =? 0) then ["Z"%byte] else
  let zone := Z.quot off 60 in
  let neg := zone <? 0 in
  let zone' := if neg then - zone else zone in
  let absoff := if neg then - off else off in
  [if neg then "-"%byte else "+"%byte]
  ++ dec2 (zone' / 60)
  ++ (if zs_colon sh then [":"%byte] else [])
  ++ (if zs_minutes sh then dec2 (zone' mod 60) else [])
  ++ (if zs_seconds sh
      then (if zs_colon sh then [":"%byte] else []) ++ append_int2 (Z.rem absoff 60)
      else []).

(* digits of the k-digit number v, stopping as soon as the rest is zero
   (= the k digits with the trailing zeros stripped) *)
Fixpoint frac_trim (k : nat) (v : Z) : bytes :=
  match k with
  | O => []
  | S k' => if v =? 0 then []
            else digit (v / 10 ^ Z.of_nat k') :: frac_trim k' (v mod 10 ^ Z.of_nat k')
  end.

(* digits a fraction element keeps: digitsLen masks with 0xfff, appendNano prints at most 9 *)
Definition frac_digits (n : nat) : nat := Nat.min (Nat.modulo n 4096) 9.
(* one unit of the last digit kept, in nanoseconds *)
Definition frac_unit (n : nat) : Z := 10 ^ Z.of_nat (9 - frac_digits n).

Definition render_frac (nine : bool) (n : nat) (comma : bool) (nsec : Z) : bytes :=
  let sep := if comma then ","%byte else "."%byte in
  let k := frac_digits n in
  if nine then
    match frac_trim 9 (nsec / frac_unit n * frac_unit n) with
    | [] => []
    | ds => sep :: ds
    end
  else sep :: decn k (nsec / frac_unit n).

Definition hour12 (h : Z) : Z := if h mod 12 =? 0 then 12 else h mod 12.

Definition render_elem (e : elem) (t : tm) : bytes :=
  match e with
  | ELongMonth => name_of long_months (t_month t - 1)
  | EMonth => name_of short_months (t_month t - 1)
  | ENumMonth => dec_min (t_month t)
  | EZeroMonth => dec2 (t_month t)
  | ELongWeekDay => name_of long_days (t_wday t)
  | EWeekDay => name_of short_days (t_wday t)
  | EDay => dec_min (t_day t)
  | EUnderDay => if t_day t <? 10 then " "%byte :: dec_min (t_day t) else dec_min (t_day t)
  | EZeroDay => dec2 (t_day t)
  | EUnderYearDay =>
      (if t_yday t <? 100 then " "%byte :: (if t_yday t <? 10 then [" "%byte] else []) else [])
      ++ (if t_yday t <? 100 then dec_min (t_yday t) else decn 3 (t_yday t))
  | EZeroYearDay => decn 3 (t_yday t)
  | EHour => dec2 (t_hour t)
  | EHour12 => dec_min (hour12 (t_hour t))
  | EZeroHour12 => dec2 (hour12 (t_hour t))
  | EMinute => dec_min (t_min t)
  | EZeroMinute => dec2 (t_min t)
  | ESecond => dec_min (t_sec t)
  | EZeroSecond => dec2 (t_sec t)
  | ELongYear => decn 4 (t_year t)
  | EYear => dec2 (t_year t mod 100)
  | EPM => if 12 <=? t_hour t then lit "PM" else lit "AM"
  | Epm => if 12 <=? t_hour t then lit "pm" else lit "am"
  | ETZ =>
      match t_abbrev t with
      | [] => (* no abbreviation known: the -0700 form *)
          let zone := Z.quot (t_off t) 60 in
          let neg := zone <? 0 in
          let zone' := if neg then - zone else zone in
          (if neg then "-"%byte else "+"%byte) :: dec2 (zone' / 60) ++ dec2 (zone' mod 60)
      | name => name
      end
  | EZone iso sh => render_zone iso sh (t_off t)
  | EFrac nine n comma => render_frac nine n comma (t_nsec t)
  end.

Definition render_item (t : tm) (it : item) : bytes :=
  match it with Lit c => [c] | El e => render_elem e t end.

Fixpoint render_items (its : list item) (t : tm) : bytes :=
  match its with
  | [] => []
  | it :: more => render_item t it ++ render_items more t
  end.

Definition format_tm (layout : bytes) (t : tm) : option bytes :=
  if tm_in_range t then Some (render_items (tokens layout) t) else None.

Definition format_time (layout : bytes) (unix_sec nsec offset_sec : Z) (abbrev : bytes) : option bytes :=
  format_tm layout (tm_of unix_sec nsec offset_sec abbrev).

(* ------------------------------------------------------------------ *)
(* the specification-side reader                                        *)
(* ------------------------------------------------------------------ *)
(* what a text can say about an instant *)
Inductive fkind := FYear | FYy | FMonth | FDay | FYday | FWday | FHour | FH12 | FPm
                 | FMin | FSec | FNsec | FOff.
Definition fkind_eqb (a b : fkind) : bool :=
  match a, b with
  | FYear, FYear | FYy, FYy | FMonth, FMonth | FDay, FDay | FYday, FYday | FWday, FWday
  | FHour, FHour | FH12, FH12 | FPm, FPm | FMin, FMin | FSec, FSec | FNsec, FNsec
  | FOff, FOff => true
  | _, _ => false
  end.
(* fields read so far, the latest first *)
Definition fields := list (fkind * Z).
Fixpoint get (f : fields) (k : fkind) : option Z :=
  match f with
  | [] => None
  | (k', v) :: f' => if fkind_eqb k' k then Some v else get f' k
  end.

(* exactly k digits *)
Fixpoint read_fixed (k : nat) (acc : Z) (text : bytes) : option (Z * bytes) :=
  match k with
  | O => Some (acc, text)
  | S k' => match text with
            | c :: tl => if is_digit c then read_fixed k' (acc * 10 + digit_val c) tl else None
            | [] => None
            end
  end.
(* one digit, and a second one if it is there *)
Definition read_1or2 (text : bytes) : option (Z * bytes) :=
  match text with
  | c :: tl =>
      if is_digit c then
        match tl with
        | c2 :: tl2 => if is_digit c2 then Some (digit_val c * 10 + digit_val c2, tl2)
                       else Some (digit_val c, tl)
        | [] => Some (digit_val c, tl)
        end
      else None
  | [] => None
  end.
(* the rest of text after the prefix p *)
Fixpoint strip_prefix (p text : bytes) : option bytes :=
  match p with
  | [] => Some text
  | c :: p' => match text with
               | d :: tl => if byte_eqb c d then strip_prefix p' tl else None
               | [] => None
               end
  end.
(* index of the first name of the table the text starts with *)
Fixpoint read_name (tbl : list bytes) (i : Z) (text : bytes) : option (Z * bytes) :=
  match tbl with
  | [] => None
  | nm :: tbl' => match strip_prefix nm text with
                  | Some rest => Some (i, rest)
                  | None => read_name tbl' (i + 1) text
                  end
  end.
(* up to k fraction digits, the first worth 10^(k-1) *)
Fixpoint read_fracdigits (k : nat) (text : bytes) : Z * bytes :=
  match k with
  | O => (0, text)
  | S k' => match text with
            | c :: tl => if is_digit c
                         then let '(v, r) := read_fracdigits k' tl in
                              (digit_val c * 10 ^ Z.of_nat k' + v, r)
                         else (0, text)
            | [] => (0, [])
            end
  end.

Definition read_byte (c : byte) (text : bytes) : option bytes :=
  match text with d :: tl => if byte_eqb c d then Some tl else None | [] => None end.
Definition read_colon (want : bool) (text : bytes) : option bytes :=
  if want then read_byte ":"%byte text else Some text.

(* +hh[:]mm[[:]ss] / -hh... / (iso only) Z *)
Definition read_zone (iso : bool) (sh : zshape) (text : bytes) : option (Z * bytes) :=
  match text with
  | [] => None
  | c :: tl =>
    if iso && byte_eqb c "Z"%byte then Some (0, tl) else
    let sign := if byte_eqb c "+"%byte then Some 1 else if byte_eqb c "-"%byte then Some (-1) else None in
    match sign with
    | None => None
    | Some sg =>
      match read_fixed 2 0 tl with
      | None => None
      | Some (hh, r1) =>
        if negb (zs_minutes sh) then Some (sg * (hh * 3600), r1) else
        match read_colon (zs_colon sh) r1 with
        | None => None
        | Some r2 =>
          match read_fixed 2 0 r2 with
          | None => None
          | Some (mm, r3) =>
            if negb (zs_seconds sh) then
              (if mm <? 60 then Some (sg * (hh * 3600 + mm * 60), r3) else None)
            else
            match read_colon (zs_colon sh) r3 with
            | None => None
            | Some r4 =>
              match read_fixed 2 0 r4 with
              | None => None
              | Some (ss, r5) =>
                  if (mm <? 60) && (ss <? 60) then Some (sg * (hh * 3600 + mm * 60 + ss), r5) else None
              end
            end
          end
        end
      end
    end
  end.

Definition one (k : fkind) (r : option (Z * bytes)) : option (fields * bytes) :=
  match r with Some (v, rest) => Some ([(k, v)], rest) | None => None end.

Definition read_elem (e : elem) (text : bytes) : option (fields * bytes) :=
  match e with
  | ELongMonth => one FMonth (read_name long_months 1 text)
  | EMonth => one FMonth (read_name short_months 1 text)
  | ENumMonth => one FMonth (read_1or2 text)
  | EZeroMonth => one FMonth (read_fixed 2 0 text)
  | ELongWeekDay => one FWday (read_name long_days 0 text)
  | EWeekDay => one FWday (read_name short_days 0 text)
  | EDay => one FDay (read_1or2 text)
  | EUnderDay =>
      match text with
      | c :: tl => if byte_eqb c " "%byte then one FDay (read_fixed 1 0 tl)
                   else one FDay (read_fixed 2 0 text)
      | [] => None
      end
  | EZeroDay => one FDay (read_fixed 2 0 text)
  | EUnderYearDay =>
      match text with
      | c :: c2 :: tl =>
          if byte_eqb c " "%byte then
            (if byte_eqb c2 " "%byte then one FYday (read_fixed 1 0 tl)
             else one FYday (read_fixed 2 0 (c2 :: tl)))
          else one FYday (read_fixed 3 0 text)
      | _ => None
      end
  | EZeroYearDay => one FYday (read_fixed 3 0 text)
  | EHour => one FHour (read_fixed 2 0 text)
  | EHour12 => one FH12 (read_1or2 text)
  | EZeroHour12 => one FH12 (read_fixed 2 0 text)
  | EMinute => one FMin (read_1or2 text)
  | EZeroMinute => one FMin (read_fixed 2 0 text)
  | ESecond => one FSec (read_1or2 text)
  | EZeroSecond => one FSec (read_fixed 2 0 text)
  | ELongYear => one FYear (read_fixed 4 0 text)
  | EYear => one FYy (read_fixed 2 0 text)
  | EPM =>
      match strip_prefix (lit "PM") text with
      | Some rest => Some ([(FPm, 1)], rest)
      | None => match strip_prefix (lit "AM") text with
                | Some rest => Some ([(FPm, 0)], rest)
                | None => None
                end
      end
  | Epm =>
      match strip_prefix (lit "pm") text with
      | Some rest => Some ([(FPm, 1)], rest)
      | None => match strip_prefix (lit "am") text with
                | Some rest => Some ([(FPm, 0)], rest)
                | None => None
                end
      end
  | ETZ => None      (* a zone abbreviation does not determine an offset: not read *)
  | EZone iso sh => one FOff (read_zone iso sh text)
  | EFrac nine n comma =>
      let sep := if comma then ","%byte else "."%byte in
      if nine then
        match text with
        | s :: c :: tl =>
            if byte_eqb s sep && is_digit c
            then let '(v, rest) := read_fracdigits 9 (c :: tl) in
                 (* not more digits than the element prints *)
                 if v mod frac_unit n =? 0 then Some ([(FNsec, v)], rest) else None
            else Some ([(FNsec, 0)], text)
        | _ => Some ([(FNsec, 0)], text)
        end
      else
        match read_byte sep text with
        | Some tl => match read_fixed (frac_digits n) 0 tl with
                     | Some (v, rest) => Some ([(FNsec, v * frac_unit n)], rest)
                     | None => None
                     end
        | None => None
        end
  end.

Definition read_item (it : item) (text : bytes) : option (fields * bytes) :=
  match it with
  | Lit c => match read_byte c text with Some rest => Some ([], rest) | None => None end
  | El e => read_elem e text
  end.

Fixpoint read_items (its : list item) (text : bytes) (acc : fields) : option (fields * bytes) :=
  match its with
  | [] => Some (acc, text)
  | it :: more => match read_item it text with
                  | Some (fs, rest) => read_items more rest (fs ++ acc)
                  | None => None
                  end
  end.

(* the fields a text carries under a layout; the whole text must be consumed *)
Definition parse_fields (layout text : bytes) : option fields :=
  match read_items (tokens layout) text [] with
  | Some (f, []) => Some f
  | _ => None
  end.

Definition dflt (d : Z) (o : option Z) : Z := match o with Some v => v | None => d end.

(* fields -> (unix seconds, nanoseconds, offset).  Missing fields take Go's defaults
   (year 0, January 1st, 00:00:00, no fraction, UTC); a two-digit year is 19yy from 69 on,
   else 20yy; a 12-hour clock needs AM/PM to say more than the morning; a day of the year
   stands in when month and day are both missing.  Out-of-range fields are refused. *)
Definition combine (f : fields) : option (Z * Z * Z) :=
  let y := match get f FYear with
           | Some y => y
           | None => match get f FYy with
                     | Some yy => if 69 <=? yy then 1900 + yy else 2000 + yy
                     | None => 0
                     end
           end in
  let days :=
    match get f FMonth, get f FDay, get f FYday with
    | None, None, Some yd =>
        if (1 <=? yd) && (yd <=? (if is_leap y then 366 else 365))
        then Some (days_from_civil y 1 1 + yd - 1) else None
    | mo, dd, _ =>
        let m := dflt 1 mo in let d := dflt 1 dd in
        if valid_date y m d then Some (days_from_civil y m d) else None
    end in
  let hour :=
    match get f FHour with
    | Some h => if h <? 24 then Some h else None
    | None => match get f FH12 with
              | Some h12 => if (1 <=? h12) && (h12 <=? 12)
                            then Some (h12 mod 12 + (if dflt 0 (get f FPm) =? 1 then 12 else 0))
                            else None
              | None => Some 0
              end
    end in
  let mi := dflt 0 (get f FMin) in
  let s := dflt 0 (get f FSec) in
  let off := dflt 0 (get f FOff) in
  match days, hour with
  | Some dn, Some h =>
      if (mi <? 60) && (s <? 60)
      then Some (dn * 86400 + h * 3600 + mi * 60 + s - off, dflt 0 (get f FNsec), off)
      else None
  | _, _ => None
  end.

Definition parse_time (layout text : bytes) : option (Z * Z * Z) :=
  match parse_fields layout text with
  | Some f => combine f
  | None => None
  end.

(* ------------------------------------------------------------------ *)
(* the domain of the round-trip theorems (boolean, evaluated on every   *)
(* layout the harness uses)                                             *)
(* ------------------------------------------------------------------ *)
Definition is_sep (b : byte) : bool := byte_eqb b "."%byte || byte_eqb b ","%byte.

(* the text rendered from these items never starts with a digit, a point or a comma *)
Definition starts_clean (its : list item) : bool :=
  match its with
  | [] => true
  | Lit c :: _ => negb (is_digit c) && negb (is_sep c)
  | El e :: _ => match e with
                 | ELongMonth | EMonth | ELongWeekDay | EWeekDay | EPM | Epm | EZone _ _ => true
                 | _ => false
                 end
  end.
(* elements whose width depends on the value: what follows must not continue them *)
Definition var_width (e : elem) : bool :=
  match e with
  | ENumMonth | EDay | EHour12 | EMinute | ESecond | EFrac true _ _ => true
  | _ => false
  end.
Definition readable (e : elem) : bool := match e with ETZ => false | _ => true end.

Fixpoint follows_ok (its : list item) : bool :=
  match its with
  | [] => true
  | Lit _ :: more => follows_ok more
  | El e :: more => readable e && (if var_width e then starts_clean more else true) && follows_ok more
  end.

Definition elem_of (it : item) : option elem := match it with El e => Some e | Lit _ => None end.
Definition has_elem (p : elem -> bool) (its : list item) : bool :=
  existsb (fun it => match it with El e => p e | Lit _ => false end) its.

(* the fraction elements of a layout all keep this unit (1 s when there is none) *)
Fixpoint layout_unit (its : list item) : Z :=
  match its with
  | [] => 1000000000
  | El (EFrac _ n _) :: _ => frac_unit n
  | _ :: more => layout_unit more
  end.
Definition fracs_uniform (its : list item) : bool :=
  forallb (fun it => match it with
                     | El (EFrac _ n _) => frac_unit n =? layout_unit its
                     | _ => true end) its.

(* the coarsest zone element of a layout: offsets must be multiples of this to survive *)
Definition zone_unit (its : list item) : Z :=
  if has_elem (fun e => match e with EZone _ ZS_hh => true | _ => false end) its then 3600
  else if has_elem (fun e => match e with EZone _ sh => negb (zs_seconds sh) | _ => false end) its then 60
  else 1.
Definition zone_has_seconds (its : list item) : bool :=
  has_elem (fun e => match e with EZone _ sh => zs_seconds sh | _ => false end) its.

(* which field kinds a layout's elements deliver *)
Definition kind_of (e : elem) : option fkind :=
  match e with
  | ELongMonth | EMonth | ENumMonth | EZeroMonth => Some FMonth
  | ELongWeekDay | EWeekDay => Some FWday
  | EDay | EUnderDay | EZeroDay => Some FDay
  | EUnderYearDay | EZeroYearDay => Some FYday
  | EHour => Some FHour
  | EHour12 | EZeroHour12 => Some FH12
  | EMinute | EZeroMinute => Some FMin
  | ESecond | EZeroSecond => Some FSec
  | ELongYear => Some FYear
  | EYear => Some FYy
  | EPM | Epm => Some FPm
  | ETZ => None
  | EZone _ _ => Some FOff
  | EFrac _ _ _ => Some FNsec
  end.
Definition has_kind (its : list item) (k : fkind) : bool :=
  has_elem (fun e => match kind_of e with Some k' => fkind_eqb k' k | None => false end) its.

(* every element can be read back unambiguously *)
Definition items_parse (its : list item) : bool := follows_ok its && fracs_uniform its.
Definition layout_parses (layout : bytes) : bool := items_parse (tokens layout).

(* ... and the fields determine the instant: four-digit year, month, day of the month,
   hour (24 h, or 12 h with AM/PM), minute, second, numeric zone *)
Definition items_roundtrip (its : list item) : bool :=
  items_parse its
  && has_kind its FYear && has_kind its FMonth && has_kind its FDay
  && (has_kind its FHour || (has_kind its FH12 && has_kind its FPm))
  && has_kind its FMin && has_kind its FSec && has_kind its FOff.
Definition layout_roundtrips (layout : bytes) : bool := items_roundtrip (tokens layout).

(* the instants and zones of the round-trip theorems *)
Definition zone_fits (its : list item) (off : Z) : bool :=
  (off mod zone_unit its =? 0)
  (* Go prints offsets in (-60 s, 0) under a seconds-bearing element as +00:00:-SS *)
  && negb (zone_has_seconds its && (-60 <? off) && (off <? 0)).

(* ------------------------------------------------------------------ *)
(* vocabulary of the round-trip statements                              *)
(* ------------------------------------------------------------------ *)
(* what field k of an instant is, nanoseconds cut to the unit u *)
Definition tval (u : Z) (t : tm) (k : fkind) : Z :=
  match k with
  | FYear => t_year t
  | FYy => t_year t mod 100
  | FMonth => t_month t
  | FDay => t_day t
  | FYday => t_yday t
  | FWday => t_wday t
  | FHour => t_hour t
  | FH12 => hour12 (t_hour t)
  | FPm => if 12 <=? t_hour t then 1 else 0
  | FMin => t_min t
  | FSec => t_sec t
  | FNsec => t_nsec t / u * u
  | FOff => t_off t
  end.

(* the finest offset a zone element can express *)
Definition zs_unit (sh : zshape) : Z :=
  match sh with ZS_hh => 3600 | ZS_hhmm | ZS_hh_mm => 60 | ZS_hhmmss | ZS_hh_mm_ss => 1 end.

(* the shape of one element's text (width and character classes) *)
Definition all_digits (s : bytes) : bool := forallb is_digit s.
Definition is_letter (b : byte) : bool :=
  ((65 <=? bz b) && (bz b <=? 90)) || ((97 <=? bz b) && (bz b <=? 122)).
Definition one_or_two_digits (s : bytes) : bool :=
  match s with
  | [a] => is_digit a
  | [a; b] => is_digit a && is_digit b && negb (byte_eqb a "0"%byte)
  | _ => false
  end.
Definition numeric_zone_shape (sh : zshape) (s : bytes) : bool :=
  match s with
  | sg :: ds =>
      (byte_eqb sg "+"%byte || byte_eqb sg "-"%byte) &&
      match sh, ds with
      | ZS_hh, [a; b] => all_digits [a; b]
      | ZS_hhmm, [a; b; c; d] => all_digits [a; b; c; d]
      | ZS_hh_mm, [a; b; k; c; d] => all_digits [a; b; c; d] && byte_eqb k ":"%byte
      | ZS_hhmmss, [a; b; c; d; e; f] => all_digits [a; b; c; d; e; f]
      | ZS_hh_mm_ss, [a; b; k; c; d; k2; e; f] =>
          all_digits [a; b; c; d; e; f] && byte_eqb k ":"%byte && byte_eqb k2 ":"%byte
      | _, _ => false
      end
  | [] => false
  end.
Definition elem_shape (e : elem) (s : bytes) : bool :=
  match e with
  | ELongMonth => existsb (bytes_eqb s) long_months
  | EMonth => existsb (bytes_eqb s) short_months
  | ELongWeekDay => existsb (bytes_eqb s) long_days
  | EWeekDay => existsb (bytes_eqb s) short_days
  | ENumMonth | EDay | EHour12 | EMinute | ESecond => one_or_two_digits s
  | EZeroMonth | EZeroDay | EHour | EZeroHour12 | EZeroMinute | EZeroSecond | EYear =>
      (List.length s =? 2)%nat && all_digits s
  | ELongYear => (List.length s =? 4)%nat && all_digits s
  | EZeroYearDay => (List.length s =? 3)%nat && all_digits s
  | EUnderDay =>
      match s with
      | [a; b] => (byte_eqb a " "%byte || (is_digit a && negb (byte_eqb a "0"%byte))) && is_digit b
      | _ => false
      end
  | EUnderYearDay =>
      match s with
      | [a; b; c] =>
          is_digit c &&
          ((byte_eqb a " "%byte && byte_eqb b " "%byte)
           || (byte_eqb a " "%byte && is_digit b && negb (byte_eqb b "0"%byte))
           || (is_digit a && negb (byte_eqb a "0"%byte) && is_digit b))
      | _ => false
      end
  | EPM => bytes_eqb s (lit "AM") || bytes_eqb s (lit "PM")
  | Epm => bytes_eqb s (lit "am") || bytes_eqb s (lit "pm")
  | ETZ => true
  | EZone iso sh => (iso && bytes_eqb s ["Z"%byte]) || numeric_zone_shape sh s
  | EFrac nine n comma =>
      let sep := if comma then ","%byte else "."%byte in
      match s with
      | [] => nine
      | c :: ds =>
          byte_eqb c sep && all_digits ds &&
          (if nine
           then (1 <=? List.length ds)%nat && (List.length ds <=? frac_digits n)%nat
                && negb (byte_eqb (last ds "0"%byte) "0"%byte)
           else (List.length ds =? frac_digits n)%nat)
      end
  end.

(* the civil year an instant falls in, in a zone *)
Definition civil_year (unix_sec off : Z) : Z :=
  let '(y, _, _) := civil_from_days ((unix_sec + off) / 86400) in y.

(* the instants of the statements: what a time.Time of the years 0..9999 can be *)
Definition instant_ok (unix_sec nsec off : Z) : Prop :=
  0 <= civil_year unix_sec off <= 9999 /\ 0 <= nsec < 1000000000 /\ -360000 < off < 360000.

(* a whole text against a layout: the concatenation of one piece per item, each of its shape *)
Definition piece_ok (it : item) (p : bytes) : Prop :=
  match it with Lit c => p = [c] | El e => elem_shape e p = true end.

(* Go prints offsets in (-60 s, 0) under a seconds-bearing zone element as +00:00:-SS
   (three characters of seconds): every other zone text has the element's shape *)
Definition zone_printable (its : list item) (off : Z) : bool :=
  negb (zone_has_seconds its && (-60 <? off) && (off <? 0)).

(* instant_ok as a boolean (for the examples and the correspondence) *)
Definition instant_okb (unix_sec nsec off : Z) : bool :=
  (0 <=? civil_year unix_sec off) && (civil_year unix_sec off <=? 9999)
  && (0 <=? nsec) && (nsec <? 1000000000) && (-360000 <? off) && (off <? 360000).

(* a layout carries a whole instant: date, time of day and numeric zone *)
Definition carries_instant (layout : bytes) : bool :=
  let its := tokens layout in
  has_kind its FYear && has_kind its FMonth && has_kind its FDay
  && (has_kind its FHour || (has_kind its FH12 && has_kind its FPm))
  && has_kind its FMin && has_kind its FSec && has_kind its FOff.
