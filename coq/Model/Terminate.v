(* C12: one native log call as a trace of events - the record is written to
   every destination first, then the call terminates the way the tail of
   Entry.logContext decides (slog/entry.go).  No proofs here.

   Shape of the code (every native entry point, see Gen/EntryPoints.v):
       if s.EnabledContext(ctx, lvl) {          <- the gate (Level.enabled_code)
           s.logContext(ctx, lvl, pc, msg, args...)
       }
   and in logContext:   collectArgs; s.print(...)  <- one Write per destination
                        the tail (termination)     <- return | panic(msg) | os.Exit(-3)
   so the tail is evaluated only for an admitted call, and after the writes. *)
Require Import Verif.Model.Base Verif.Model.Decision Verif.Model.DecisionRef Verif.Model.Level.
Require Import Verif.Model.EntryPoint.

(* how the call ends, as the process sees it *)
Inductive term :=
| Continue                  (* the call returns normally *)
| DoPanic (value : bytes)   (* panic(msg): the panic value is the message string *)
| DoExit (status : Z).      (* os.Exit(code): the parent observes code mod 256 *)

(* the exit status a parent process observes for os.Exit(code) *)
Definition exit_status (code : Z) : Z := code mod 256.

Definition term_of (a : action) (msg : bytes) : term :=
  match a with
  | ActContinue => Continue
  | ActPanic => DoPanic msg
  | ActExit c => DoExit (exit_status c)
  end.

Inductive event :=
| EvWrite (dest : nat)      (* the complete record handed to destination number dest in one Write *)
| EvEnd (t : term).         (* how the call ends; always the last event *)

(* the writes of one record to n destinations, in order *)
Definition writes (n : nat) : list event := map EvWrite (seq 0 n).

(* One native log call.  [termf] is the decision of the tail: the reference
   DecisionRef.termination_ref in the theorems, the translation regenerated
   from the source (Gen/Decisions.termination) in the correspondence run. *)
Definition log_outcome_with (termf : bool -> Z -> Z -> action)
    (in_testing : bool) (flags : Z) (enabled_as : list (Z * Z)) (dbg : bool)
    (L r : Z) (msg : bytes) (n : nat) : list event :=
  if enabled_code enabled_as dbg L r
  then writes n ++ [EvEnd (term_of (termf in_testing flags r) msg)]
  else [EvEnd Continue].

Definition log_outcome := log_outcome_with termination_ref.

(* projections used by the statements and by the correspondence *)
Definition is_write (e : event) : bool := match e with EvWrite _ => true | EvEnd _ => false end.
Definition count_writes (tr : list event) : Z := Z.of_nat (length (filter is_write tr)).
Fixpoint ending (tr : list event) : option term :=
  match tr with
  | [] => None
  | EvEnd t :: _ => Some t
  | EvWrite _ :: rest => ending rest
  end.

(* the two flag bits, as bit numbers of Flags *)
Definition bit_nointerrupt : Z := 20.
Definition bit_interruptalways : Z := 21.

(* the statement's side condition: the no-interrupt flag is not set, and the process is not
   under go test unless the interrupt-always flag is set *)
Definition may_interrupt (in_testing : bool) (flags : Z) : Prop :=
  Z.testbit flags bit_nointerrupt = false /\ (in_testing = false \/ Z.testbit flags bit_interruptalways = true).

(* severities an entry point can carry *)
Definition can_carry (s : sev) (r : Z) : bool :=
  match s with
  | SevConst l => l =? r
  | SevParam | SevSlog => true
  | SevNone => false
  end.
Definition can_terminate (s : sev) : bool := can_carry s lv_panic || can_carry s lv_fatal.

(* ---- every panic( / os.Exit( / single-value type assertion of package slog ----
   Gen/PanicSites.v is regenerated from the source; each of its rows must be
   in this list (a NEW site breaks C12_panic_sites; fewer sites are fine).
   reach: how the site relates to a log call. *)
Inductive reach :=
| RTail          (* the documented termination itself *)
| RNeverFails    (* on the path of a log call, but cannot fail *)
| RLogCall       (* can be reached by a log call with particular arguments/settings: see the comment *)
| RNotLog.       (* not on the path of a log call *)

Inductive skind := KPanic | KExit | KAssert.

Definition known_panic_sites : list (bytes * skind * reach) := [
  (* Entry.logContext: panic(msg) and os.Exit(-3) of the tail - the subject of this property *)
  ([x45;x6e;x74;x72;x79;x2e;x6c;x6f;x67;x43;x6f;x6e;x74;x65;x78;x74], KPanic, RTail);
  ([x45;x6e;x74;x72;x79;x2e;x6c;x6f;x67;x43;x6f;x6e;x74;x65;x78;x74], KExit, RTail);
  (* Entry.logContext: poolAttrs.Get().(Attrs) - the pool only ever holds Attrs (its New and every Put) *)
  ([x45;x6e;x74;x72;x79;x2e;x6c;x6f;x67;x43;x6f;x6e;x74;x65;x78;x74], KAssert, RNeverFails);
  (* Entry.print: poolPrintCtx.Get().( *PrintCtx) - same argument *)
  ([x45;x6e;x74;x72;x79;x2e;x70;x72;x69;x6e;x74], KAssert, RNeverFails);
  (* Entry.Println and Println: args[0].(string) - KNOWN DEFECT of property C02: Println(42) panics
     with a runtime type-assertion error whatever the flags say; repaired under C02, after which the
     two rows disappear from Gen/PanicSites.v (fewer sites are fine for the inclusion) *)
  ([x45;x6e;x74;x72;x79;x2e;x50;x72;x69;x6e;x74;x6c;x6e], KAssert, RLogCall);
  ([x50;x72;x69;x6e;x74;x6c;x6e], KAssert, RLogCall);
  (* Level.ShortTag: panics for a length outside 1..5; a log call in colour mode calls
     lvl.ShortTag(levelOutputWidth), and SetLevelOutputWidth accepts 0..5, so after
     SetLevelOutputWidth(0) every coloured log call panics (see the report of C12); with the
     default width 3 and widths 1..5 it cannot fail *)
  ([x4c;x65;x76;x65;x6c;x2e;x53;x68;x6f;x72;x74;x54;x61;x67], KPanic, RLogCall);
  (* PrintCtx buffer API (property C19): Grow(negative), Truncate(out of range), ReadFrom/WriteTo with a
     misbehaving reader/writer - called by users of PrintCtx, not by a log call *)
  ([x50;x72;x69;x6e;x74;x43;x74;x78;x2e;x47;x72;x6f;x77], KPanic, RNotLog);
  ([x50;x72;x69;x6e;x74;x43;x74;x78;x2e;x52;x65;x61;x64;x46;x72;x6f;x6d], KPanic, RNotLog);
  ([x50;x72;x69;x6e;x74;x43;x74;x78;x2e;x54;x72;x75;x6e;x63;x61;x74;x65], KPanic, RNotLog);
  ([x50;x72;x69;x6e;x74;x43;x74;x78;x2e;x57;x72;x69;x74;x65;x54;x6f], KPanic, RNotLog);
  (* PrintCtx.grow / growSlice: panic(ErrTooLarge) when the record buffer would exceed the address
     space (same as bytes.Buffer); on the path of every log call, out of reach for records that fit in memory *)
  ([x50;x72;x69;x6e;x74;x43;x74;x78;x2e;x67;x72;x6f;x77], KPanic, RLogCall);
  ([x67;x72;x6f;x77;x53;x6c;x69;x63;x65], KPanic, RLogCall);
  (* gkvp.SetValue: panics for a value that is not Attrs/[]Attr/Attr; called by users building groups
     (Group(...) passes Attrs), not by the logging path *)
  ([x67;x6b;x76;x70;x2e;x53;x65;x74;x56;x61;x6c;x75;x65], KPanic, RNotLog);
  (* serializeAttrs: the branch is guarded twice by the same condition (if c {..} else { if c {panic} }): dead code *)
  ([x73;x65;x72;x69;x61;x6c;x69;x7a;x65;x41;x74;x74;x72;x73], KPanic, RNeverFails)
].

Definition skind_eqb (a b : skind) : bool :=
  match a, b with KPanic, KPanic | KExit, KExit | KAssert, KAssert => true | _, _ => false end.

Definition known_site (f : bytes) (k : skind) : bool :=
  existsb (fun s : bytes * skind * reach => bytes_eqb (fst (fst s)) f && skind_eqb (snd (fst s)) k) known_panic_sites.

(* the sites that end a log call ON PURPOSE: explicit panic( / os.Exit( classified RTail *)
Definition deliberate_sites : list (bytes * skind) :=
  map fst (filter (fun s : bytes * skind * reach => match snd s with RTail => true | _ => false end) known_panic_sites).
