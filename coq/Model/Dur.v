(* C20: duration text helpers (slog/internal/times/dur.go):
     shortDur / shortDurFormat / fmtSeconds / fmtMsec / fmtFrac / fmtInt   -> short_dur
     ParseDuration / leadingInt / leadingFraction / unitMap                -> parse_dur
   The model follows the code as it is, statement by statement.  No proofs here. *)
Require Import Verif.Model.Base Verif.Model.Decision Verif.Gen.Tables.
From Coq Require Import Floats.

Inductive result (A : Type) := Ok (a : A) | Panic | Err | OutOfFuel.
Arguments Ok {A} a.  Arguments Panic {A}.  Arguments Err {A}.  Arguments OutOfFuel {A}.

Definition two63 : Z := 9223372036854775808.       (* 1<<63 *)
Definition two64 : Z := 18446744073709551616.      (* 1<<64 *)
Definition u64 (z : Z) : Z := z mod two64.         (* value of a uint64 expression *)
Definition i64 (z : Z) : Z := (z + two63) mod two64 - two63.   (* conversion to int64 / int64 arithmetic *)

(* time.Duration constants *)
Definition microsecond : Z := 1000.
Definition millisecond : Z := 1000000.
Definition second : Z := 1000000000.
Definition minute : Z := 60000000000.
Definition hour : Z := 3600000000000.
Definition day : Z := 86400000000000.              (* 24*time.Hour *)

(* ------------------------------------------------------------------ *)
(* The formatter.

   State of the right-to-left writer: [Some (w, acc)] - [w] is the Go index
   variable (next free slot is w-1), [acc] the bytes arr[w:] written so far
   (writes are contiguous: every write goes to index w-1 after [w--], the two
   [copy] calls write the 2 resp. 3 slots just below the previous w) - or
   [None] once an index below 0 was used (Go: index / slice bounds out of
   range panic).  [string(arr[n:])] is then exactly [acc].  A write at
   [w-1] panics iff [w-1 < 0]; [w -= 3; copy(buf[w:], ...)] panics iff
   [w-3 < 0], which is what three single pushes give. *)
Definition wstate := option (Z * bytes).

Definition push (c : byte) (st : wstate) : wstate :=
  match st with
  | Some (w, acc) => let w' := w - 1 in if w' <? 0 then None else Some (w', c :: acc)
  | None => None
  end.

Definition digit_byte (d : Z) : byte := zb (d + 48).   (* byte(digit) + '0' *)

(* fmtInt: [for v > 0 { w--; buf[w] = byte(v%10)+'0'; v /= 10 }].  A uint64 has
   at most 20 decimal digits, so 20 rounds always reach v = 0 (DurP.dec_loop_dval:
   the digits written read back as v for every v < 10^20); the fuel only makes
   the recursion structural. *)
Fixpoint fmt_int_loop (fuel : nat) (v : Z) (st : wstate) : wstate :=
  match fuel with
  | O => st
  | S f => if v >? 0 then fmt_int_loop f (v / 10) (push (digit_byte (v mod 10)) st) else st
  end.
Definition fmt_int (v : Z) (st : wstate) : wstate :=
  if v =? 0 then push x30 st else fmt_int_loop 20 v st.

(* fmtFrac *)
Fixpoint fmt_frac_loop (prec : nat) (v : Z) (printed : bool) (st : wstate) : wstate * bool * Z :=
  match prec with
  | O => (st, printed, v)
  | S p =>
      let digit := v mod 10 in
      let printed' := printed || negb (digit =? 0) in
      let st' := if printed' then push (digit_byte digit) st else st in
      fmt_frac_loop p (v / 10) printed' st'
  end.
Definition fmt_frac (st : wstate) (v : Z) (prec : nat) : wstate * Z :=
  let '(st', printed, v') := fmt_frac_loop prec v false st in
  (if printed then push x2e st' else st', v').

(* fmtMsec (after fmtSeconds wrote the 's') *)
Definition fmt_msec (u : Z) (st : wstate) : wstate :=
  if u =? 0 then push x30 st
  else if u <? microsecond then
    let st := push x6e st in                       (* 'n' *)
    let '(st, u) := fmt_frac st u 0 in fmt_int u st
  else if u <? millisecond then
    let st := push xc2 (push xb5 st) in            (* w--; w--; copy(buf[w:], micro sign C2 B5) *)
    let '(st, u) := fmt_frac st u 3 in fmt_int u st
  else
    let st := push x6d st in                       (* 'm' *)
    let '(st, u) := fmt_frac st u 6 in fmt_int u st.

Definition fmt_seconds (u : Z) (st : wstate) : wstate := fmt_msec u (push x73 st).

(* the compact branch, first half: [if u >= X { part = u / X; u = u % X }] *)
Definition split_at (u m : Z) : Z * Z := if u >=? m then (u / m, u mod m) else (0, u).
Definition compact_split (u : Z) : Z * Z * Z * Z * Z * Z * Z :=
  let '(days, u) := if u >=? day then (u / 24 / hour, u mod day) else (0, u) in
  let '(hours, u) := split_at u hour in
  let '(minutes, u) := split_at u minute in
  let '(seconds, u) := split_at u second in
  let '(ms, u) := split_at u millisecond in
  let '(us, u) := split_at u microsecond in
  (days, hours, minutes, seconds, ms, us, u).

(* the compact branch, second half: [if part > 0 { unit letters; fmtInt }] *)
Definition fmt_part (v : Z) (unit_rev : bytes) (st : wstate) : wstate :=
  if v >? 0 then fmt_int v (fold_left (fun s c => push c s) unit_rev st) else st.

Definition short_dur (bufsize : Z) (frac : bool) (d : Z) : result bytes :=
  let u0 := u64 d in                               (* u := uint64(d) *)
  let neg := d <? 0 in
  let u := if neg then u64 (- u0) else u0 in       (* u = -u, modulo 2^64 *)
  let st0 : wstate := Some (bufsize, []) in        (* w := len(buf) *)
  let st :=
    if u <? second then fmt_seconds u st0
    else if frac then
      let st := push x73 st0 in
      let '(st, u) := fmt_frac st u 9 in
      let st := fmt_int (u mod 60) st in
      let u := u / 60 in
      if u >? 0 then
        let st := fmt_int (u mod 60) (push x6d st) in
        let u := u / 60 in
        if u >? 0 then fmt_int u (push x68 st) else st
      else st
    else
      let '(days, hours, minutes, seconds, ms, us, u) := compact_split u in
      let st := fmt_part u [x73; x6e] st0 in               (* "ns": 's' then 'n' *)
      let st := fmt_part us [x73; xb5; xc2] st in          (* w -= 3; copy(buf[w:], micro-s) *)
      let st := fmt_part ms [x73; x6d] st in               (* "ms" *)
      let st := fmt_part seconds [x73] st in
      let st := fmt_part minutes [x6d] st in
      let st := fmt_part hours [x68] st in
      fmt_part days [x64] st
  in
  let st := if neg then push x2d st else st in
  match st with
  | Some (_, acc) => Ok acc                        (* string(arr[n:]) *)
  | None => Panic
  end.

(* ------------------------------------------------------------------ *)
(* The parser. *)

Definition is_digit (c : byte) : bool := (48 <=? bz c) && (bz c <=? 57).
Definition is_dd (c : byte) : bool := byte_eqb c x2e || is_digit c.      (* '.' or digit *)

(* leadingInt; None = errLeadingInt.  uint64 arithmetic written with u64 *)
Fixpoint leading_int_from (x : Z) (s : bytes) : option (Z * bytes) :=
  match s with
  | c :: t =>
      if is_digit c then
        if x >? two63 / 10 then None
        else let x' := u64 (u64 (u64 (x * 10) + bz c) - 48) in
             if x' >? two63 then None else leading_int_from x' t
      else Some (x, s)
  | [] => Some (x, [])
  end.
Definition leading_int (s : bytes) := leading_int_from 0 s.

(* leadingFraction; [scale] is a float64 as in the code *)
Fixpoint leading_fraction_from (x : Z) (scale : float) (overflow : bool) (s : bytes) : Z * float * bytes :=
  match s with
  | c :: t =>
      if is_digit c then
        if overflow then leading_fraction_from x scale true t
        else if x >? (two63 - 1) / 10 then leading_fraction_from x scale true t
        else let y := u64 (u64 (u64 (x * 10) + bz c) - 48) in
             if y >? two63 then leading_fraction_from x scale true t
             else leading_fraction_from y (scale * 10)%float false t
      else (x, scale, s)
  | [] => (x, scale, [])
  end.
Definition leading_fraction (s : bytes) := leading_fraction_from 0 1%float false s.

(* the unit: the bytes up to the next '.' or digit *)
Fixpoint unit_span (s : bytes) : bytes * bytes :=
  match s with
  | c :: t => if is_dd c then ([], s) else let (u, r) := unit_span t in (c :: u, r)
  | [] => ([], [])
  end.

(* float64(x) of a uint64 x: round to nearest even.  [of_uint63] does that for
   x < 2^63; above, halve with a sticky low bit (the classical sequence, exact
   for x = 2^63, the only such value leadingFraction can return). *)
Definition float_of_u64 (z : Z) : float :=
  if z <? two63 then PrimFloat.of_uint63 (Uint63.of_Z z)
  else (PrimFloat.of_uint63 (Uint63.of_Z (Z.lor (z / 2) (z mod 2))) * 2)%float.

(* uint64(x) of a float64: truncation.  Outside [0, 2^64) Go leaves the result
   to the implementation; amd64 gives 1<<63.  (In ParseDuration the argument is
   f/scale*unit with f/scale < 1 and unit < 2^47, far inside the range.) *)
Definition trunc_u64 (x : float) : Z :=
  match Prim2SF x with
  | S754_zero _ => 0
  | S754_finite false m e =>
      let v := if 0 <=? e then Zpos m * 2 ^ e else Zpos m / 2 ^ (- e) in
      if v <? two64 then v else two63
  | S754_finite true m e =>
      if (e <? 0) && (Zpos m / 2 ^ (- e) =? 0) then 0 else two63
  | _ => two63
  end.

(* uint64(float64(f) * (float64(unit) / scale)) *)
Definition frac_op_float (f unit : Z) (scale : float) : Z :=
  trunc_u64 (float_of_u64 f * (float_of_u64 unit / scale))%float.

(* first half of one round of the [for s != ""] loop, up to "Consume unit":
   integer part v, fraction f with its scale, the unit text u (non-empty) and
   the rest; None = one of the "invalid duration" / "missing unit" returns *)
Definition scan_component (s : bytes) : option (Z * Z * float * bytes * bytes) :=
  match s with
  | [] => None
  | c :: _ =>
      if negb (is_dd c) then None                          (* next character must be [0-9.] *)
      else match leading_int s with
      | None => None
      | Some (v, s1) =>
        let pre := negb (Nat.eqb (length s) (length s1)) in
        let '(f, scale, post, s2) :=
          match s1 with
          | c1 :: t1 =>
              if byte_eqb c1 x2e then
                let '(f, scale, r) := leading_fraction t1 in
                (f, scale, negb (Nat.eqb (length t1) (length r)), r)
              else (0, 1%float, false, s1)
          | [] => (0, 1%float, false, s1)
          end in
        if negb pre && negb post then None                 (* no digits *)
        else
          let (u, s3) := unit_span s2 in
          match u with
          | [] => None                                     (* missing unit *)
          | _ :: _ => Some (v, f, scale, u, s3)
          end
      end
  end.

Inductive comp_res := CErr | CPanic | COk (v : Z) (rest : bytes).

Section Parser.
  (* the fraction operation is a parameter only so that DurP can state what
     the round trip needs from it; parse_dur below instantiates it with the
     primitive-float computation *)
  Variable fop : Z -> Z -> float -> Z.
  Variable units : list (bytes * Z).

  (* one round of the [for s != ""] loop up to (not including) [d += v]:
     the value of the component and the rest of the string.  Only called
     with s non-empty. *)
  Definition parse_component (s : bytes) : comp_res :=
    match scan_component s with
    | None => CErr
    | Some (v, f, scale, u, s3) =>
        match lookupB units u with
        | None => CErr                                     (* unknown unit *)
        | Some unit =>
            if unit =? 0 then CPanic                       (* 1<<63/unit: integer divide by zero *)
            else if v >? two63 / unit then CErr
            else
              let v1 := u64 (v * unit) in
              let v2 := if f >? 0 then u64 (v1 + fop f unit scale) else v1 in
              if (f >? 0) && (v2 >? two63) then CErr
              else COk v2 s3
        end
    end.

  (* the loop; [d] is the accumulated uint64.  Every round consumes at least
     one byte, so [length s] rounds always suffice (DurP.parse_loop_fuel,
     DurP.parse_no_fuel_out: OutOfFuel is never the result of parse_dur). *)
  Fixpoint parse_loop (fuel : nat) (s : bytes) (d : Z) : result Z :=
    match s with
    | [] => Ok d
    | _ :: _ =>
      match fuel with
      | O => OutOfFuel
      | S fuel' =>
        match parse_component s with
        | CErr => Err
        | CPanic => Panic
        | COk v s3 =>
            let d' := u64 (d + v) in
            if d' >? two63 then Err else parse_loop fuel' s3 d'
        end
      end
    end.

  Definition parse_dur_with (s : bytes) : result Z :=
    let '(neg, s1) :=
      match s with
      | c :: t => if byte_eqb c x2d || byte_eqb c x2b then (byte_eqb c x2d, t) else (false, s)
      | [] => (false, s)
      end in
    if bytes_eqb s1 [x30] then Ok 0
    else match s1 with
    | [] => Err
    | _ :: _ =>
      match parse_loop (length s1) s1 0 with
      | Ok d =>
          if neg then Ok (i64 (- i64 d))                   (* -time.Duration(d) *)
          else if d >? two63 - 1 then Err
          else Ok (i64 d)
      | r => r
      end
    end.
End Parser.

Definition parse_dur (units : list (bytes * Z)) (s : bytes) : result Z :=
  parse_dur_with frac_op_float units s.

(* ------------------------------------------------------------------ *)
(* "uses the day unit": some unit token of s - a maximal run of bytes other
   than digits and '.', after the optional sign - is exactly "d". *)
Inductive tok := T0 | Td | Tx.      (* current run: empty | exactly d | anything else *)
Definition tok_is_d (t : tok) : bool := match t with Td => true | _ => false end.
Fixpoint day_scan (st : tok) (s : bytes) : bool :=
  match s with
  | [] => tok_is_d st
  | c :: t =>
      if is_dd c then tok_is_d st || day_scan T0 t
      else match st with
           | T0 => day_scan (if byte_eqb c x64 then Td else Tx) t
           | _ => day_scan Tx t
           end
  end.
Definition strip_sign (s : bytes) : bytes :=
  match s with
  | c :: t => if byte_eqb c x2d || byte_eqb c x2b then t else s
  | [] => s
  end.
Definition uses_day_unit (s : bytes) : bool := day_scan T0 (strip_sign s).

(* result comparison for the correspondence evaluator *)
Definition result_eqb {A} (eqb : A -> A -> bool) (a b : result A) : bool :=
  match a, b with
  | Ok x, Ok y => eqb x y
  | Panic, Panic | Err, Err | OutOfFuel, OutOfFuel => true
  | _, _ => false
  end.

(* the unit tables: logg's is the literal of the source (regenerated on every
   run), time.ParseDuration's is the same without the day entry *)
Definition without_day (units : list (bytes * Z)) : list (bytes * Z) :=
  filter (fun p : bytes * Z => negb (bytes_eqb (fst p) [x64])) units.
Definition units_logg : list (bytes * Z) := t_unitMap.
Definition units_std : list (bytes * Z) := without_day units_logg.
