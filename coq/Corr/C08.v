(* Correspondence evaluator for C08.
   KFrame: one real log call; [before] is the snapshot of its collected top-level
   attributes (logger attributes ++ arguments, leaves rendered as text, group items and
   Attrs values as nested lists), [after] the snapshot of the same objects after the
   call.  The model predicts what the call leaves there: the variant under
   [fix_copy_nested] (written literally in the case) - the code as it is sorts nested
   slices in place (de-duplicated prefix + stale tail), the repaired code leaves them.
   KRun: one stress round.  The interleaving model is run on the round's calls
   (admitted?, logger, argument ids, destinations as the sequential twin delivered them)
   under a schedule drawn by the harness; its log must be, as a multiset of
   (destination, call), what the destinations observed concurrently, every payload
   being the call's own (logger, id, logger attributes ++ arguments). *)
Require Import Verif.Model.Base Verif.Model.Attrs Verif.Model.Conc.

Inductive case :=
| KFrame (fx : bool) (before after : list attr)
| KRun (lat : list (list Z))                               (* attribute ids per logger *)
       (cs : list (bool * Z * list Z * list Z))            (* admitted, logger, argument ids, destinations *)
       (sched : list (Z * Z))                              (* call, pool choice *)
       (obs : list (Z * Z)).                               (* destination, call whose record the payload is (-1: none) *)

Definition pair_eqb (a b : Z * Z) : bool := (fst a =? fst b) && (snd a =? snd b).
Definition count_in (x : Z * Z) (l : list (Z * Z)) : nat := length (filter (pair_eqb x) l).
Definition ms_eqb (a b : list (Z * Z)) : bool :=
  Nat.eqb (length a) (length b) && forallb (fun x => Nat.eqb (count_in x a) (count_in x b)) a.

Definition run_calls (cs : list (bool * Z * list Z * list Z)) (c : nat) : call Z Z :=
  match nth_error cs c with
  | Some (adm, l, args, dests) => mkcall adm (Z.to_nat l) (Z.of_nat c) args dests
  | None => mkcall false O 0 [] []
  end.

Definition ok (c : case) : bool :=
  match c with
  | KFrame fx before after => list_eqb attr_eqb (after_call fx before) after
  | KRun lat cs sched obs =>
      let lattrs := fun l => nth l lat [] in
      let calls := run_calls cs in
      let enc := fun (l : nat) (m : Z) (kv : list Z) (_ : nat -> list Z) => (l, m, kv) in
      let s := run (fun l => l) (fun _ => []) enc fix_copy_nested lattrs (fun _ => [])
                   calls (map (fun p => (Z.to_nat (fst p), Z.to_nat (snd p))) sched) in
      forallb (fun c => Nat.eqb (st_pc s c) (length (program (calls c)))) (seq 0 (length cs))
      && ms_eqb (map (fun e => (fst e, snd (fst (snd e)))) (st_log s)) obs
      && forallb (fun e => let '(w, (l, m, kv)) := e in
                           let c := Z.to_nat m in
                           Nat.eqb l (c_logger (calls c)) &&
                           list_eqb Z.eqb kv (lattrs (c_logger (calls c)) ++ c_args (calls c)))
                 (st_log s)
  end.

(* self-test of the evaluator: two calls on two loggers, interleaved *)
Example corr_selftest :
  ok (KRun [[100]; [200; 201]] [(true, 0, [1], [7]); (true, 1, [2; 3], [7; 8]); (false, 0, [], [])]
           [(0,0);(1,0);(0,0);(1,0);(1,5);(1,0);(1,0);(0,0);(0,0);(0,0);(1,0);(0,0);(1,0);(1,0);(0,0);(0,0);(2,0)]
           [(7,1);(8,1);(7,0)]) = true
  /\ ok (KFrame false [A [x67] (VGroup [A [x62] (VInt 1); A [x61] (VInt 2)])]
                      [A [x67] (VGroup [A [x61] (VInt 2); A [x62] (VInt 1)])]) = true
  /\ ok (KFrame true [A [x67] (VGroup [A [x62] (VInt 1); A [x61] (VInt 2)])]
                     [A [x67] (VGroup [A [x61] (VInt 2); A [x62] (VInt 1)])]) = false.
Proof. vm_compute. repeat split. Qed.
