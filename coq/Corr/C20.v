(* Correspondence evaluator for C20: the model against the formatter, logg's
   parser and Go's time.ParseDuration on the inputs the harness ran. *)
Require Import Verif.Model.Base Verif.Model.Dur Verif.Gen.Tables.

Inductive case :=
| Fmt (d : Z) (frac : bool) (observed : result bytes)
| Parse (s : bytes) (observed_logg observed_std : result Z).

Definition ok (c : case) : bool :=
  match c with
  | Fmt d frac obs => result_eqb bytes_eqb (short_dur t_shortDurBufSize frac d) obs
  | Parse s lg sd =>
      result_eqb Z.eqb (parse_dur units_logg s) lg && result_eqb Z.eqb (parse_dur units_std s) sd
  end.
