(* Correspondence evaluator for C19: run the concrete model of PrintCtx's buffer
   API (and the specification, fed with the model's relocation bits) on the op
   list the implementation ran, and compare, step by step, the result (integers,
   bytes, error kind / panic kind), Len(), String() and - when the harness has
   confirmed the size-class table on the running Go - Cap(). *)
Require Import Verif.Model.Base Verif.Model.Utf8 Verif.Model.Buffer.

(* The observed String() after a step is written relative to the observed
   String() before it (the cases files would otherwise repeat the whole
   contents sixty times): new = pre ++ old[skip : skip+keep] ++ suf. *)
Definition delta := (bytes * Z * Z * bytes)%type.
Definition apply_delta (old : bytes) (d : delta) : bytes :=
  let '(pre, sk, kp, suf) := d in pre ++ ztake kp (zskip sk old) ++ suf.

Record case := mk {
  c_init : bytes;          (* initial contents handed to NewPrintCtx / NewPrintCtxString *)
  c_cap : Z;               (* its capacity *)
  c_nil : bool;            (* a nil slice *)
  c_cmpcap : bool;         (* compare Cap() too *)
  c_ops : list op;         (* the executed ops (the run stops at the first panic) *)
  c_obs : list (result * Z * delta * Z)   (* per op: result, Len(), String() (as a delta), Cap() afterwards *)
}.

(* the observed (result, String()) of every step *)
Fixpoint observed (old : bytes) (ob : list (result * Z * delta * Z)) : list obs :=
  match ob with
  | [] => []
  | (r, _, d, _) :: t => let b := apply_delta old d in (r, b) :: observed b t
  end.

Fixpoint run_cmp (cmpcap : bool) (s : pc) (old : bytes) (ops : list op) (ob : list (result * Z * delta * Z)) : bool :=
  match ops, ob with
  | [], [] => true
  | o :: t, (r, n, d, c) :: ot =>
    let '(s', r') := cstep go_rup go_maxalloc s o in
    let b := apply_delta old d in
    result_eqb r' r && (clen s' =? n) && bytes_eqb (contents s') b
    && (negb cmpcap || (cap s' =? c)) && invb s'
    && (if halts r' then match ot with [] => true | _ => false end else run_cmp cmpcap s' b t ot)
  | _, _ => false
  end.

Definition obs_eqb (a b : obs) : bool := result_eqb (fst a) (fst b) && bytes_eqb (snd a) (snd b).

(* the specification has no ErrTooLarge (resource exhaustion is outside the
   contract): a final observed ErrTooLarge step is not compared with it *)
Fixpoint spec_cmp (tr ob : list obs) : bool :=
  match tr, ob with
  | [], [] => true
  | _, [(Panicked PTooLarge, _)] => true
  | x :: t, y :: u => obs_eqb x y && spec_cmp t u
  | _, _ => false
  end.

Definition ok (c : case) : bool :=
  let s0 := new_pc (c_init c) (c_cap c) (c_nil c) in
  forallb op_wfb (c_ops c) && invb s0
  && run_cmp (c_cmpcap c) s0 (c_init c) (c_ops c) (c_obs c)
  (* the specification against the implementation as well *)
  && spec_cmp (strace (cbits go_rup go_maxalloc s0 (c_ops c)) (new_spec (c_init c)) (c_ops c))
              (observed (c_init c) (c_obs c)).
