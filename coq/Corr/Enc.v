(* Correspondence evaluator shared by C04, C05, C06 (and C07, C09): byte-exact
   comparison of the encoder model with what the implementation emitted. *)
Require Import Verif.Model.Base Verif.Model.Dec Verif.Model.Level Verif.Model.Mode Verif.Model.Attrs Verif.Model.Encode.
Require Import Verif.Corr.C01.

Record ecase := mkenc {
  k_mode : shape; k_name : bytes; k_lvl : Z; k_caller : option (bytes * Z * bytes);
  k_tagw : Z; k_minw : Z; k_ts : bytes; k_msg : bytes; k_attrs : list attr; k_observed : bytes
}.

(* the registry of the harness process: the tables of the source + the RegisterLevel calls of
   harness/enc.go encRegister: 13 "custom13"; 14 "fgonly14" (foreground only); 15 "fgbg15" (both
   colours, own short tags); 16 "late16" (foreground only) *)
Definition enc_registry : registry :=
  let g1 := fst (register init_registry 13 [x63;x75;x73;x74;x6f;x6d;x31;x33] no_opts) in
  let g2 := fst (register g1 14 [x66;x67;x6f;x6e;x6c;x79;x31;x34] {| o_tags := []; o_clr := 35; o_bg := -1; o_treat := lv_max; o_err := false |}) in
  let g3 := fst (register g2 15 [x66;x67;x62;x67;x31;x35]
                   {| o_tags := [[]; [x46]; [x46;x42]; [x46;x47;x42]; [x46;x47;x42;x47]; [x46;x47;x42;x47;x35]]; o_clr := 33; o_bg := 44; o_treat := lv_max; o_err := false |}) in
  fst (register g3 16 [x6c;x61;x74;x65;x31;x36] {| o_tags := []; o_clr := 36; o_bg := -1; o_treat := lv_max; o_err := false |}).

Definition cfg_of (c : ecase) : ecfg :=
  {| e_mode := k_mode c; e_name := k_name c; e_lvl := k_lvl c; e_caller := k_caller c;
     e_tagw := k_tagw c; e_minw := k_minw c; e_ts := k_ts c |}.

(* messages with markup go through the HTML translator, which is not modelled: such a case is
   accepted here and judged by the direct oracle only *)
Definition ok_mode (want : shape) (isprint : Z -> bool) (c : ecase) : bool :=
  shape_eqb (k_mode c) want &&
  match encode isprint enc_registry (cfg_of c) (k_msg c) (k_attrs c) with
  | Some b => bytes_eqb b (k_observed c)
  | None => true
  end.
