(* Correspondence evaluator of C05.  On every record the implementation printed:
   1. the encoder model gives the observed bytes exactly (Corr/Enc.v);
   2. the record is inside the domain of the C05 theorems (Model/Logfmt.v lf_domain), or is a
      blank Print; so the hypotheses of the theorems are met by every generated input;
   3. the SPECIFICATION side is exercised on the observed line itself: the tokenizer returns
      the printed forms of the expected fields, and tokenizer + decoder return the expected
      fields (what C05_roundtrip states about the model's output). *)
Require Import Verif.Model.Base Verif.Model.Mode Verif.Model.Attrs Verif.Model.Encode Verif.Model.Logfmt Verif.Corr.Enc.

Fixpoint fval_eqb (a b : fval) {struct a} : bool :=
  match a, b with
  | FQuoted x, FQuoted y => bytes_eqb x y
  | FBare x, FBare y => bytes_eqb x y
  | FList l, FList m =>
      (fix go (l : list fval) (m : list fval) {struct l} : bool :=
         match l, m with
         | [], [] => true
         | x :: l', y :: m' => fval_eqb x y && go l' m'
         | _, _ => false
         end) l m
  | _, _ => false
  end.

(* the line without its final line feed *)
Definition strip_lf (s : bytes) : option bytes :=
  match rev s with
  | c :: t => if bz c =? 10 then Some (rev t) else None
  | [] => None
  end.

Definition spec_ok (isprint : Z -> bool) (c : ecase) : bool :=
  let cfg := cfg_of c in
  let want := fields_of enc_registry cfg (k_msg c) (k_attrs c) in
  match strip_lf (k_observed c) with
  | None => false
  | Some line =>
      option_eqb (list_eqb (pair_eqb bytes_eqb bytes_eqb)) (lf_tokens line) (Some (map (printed isprint) want))
      && option_eqb (list_eqb (pair_eqb bytes_eqb fval_eqb)) (lf_parse line) (Some want)
  end.

Definition ok (isprint : Z -> bool) (c : ecase) : bool :=
  ok_mode ShLogfmt isprint c &&
  (blank_print (cfg_of c) (k_msg c) || (lf_domain (cfg_of c) (k_msg c) (k_attrs c) && spec_ok isprint c)).
