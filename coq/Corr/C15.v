(* Correspondence evaluator for C15: the model of Model/Adapters.v (in the
   variants selected by fix_log_default / fix_bridge / fix_derived) run on the
   inputs the implementation ran, compared with what was observed. *)
Require Import Verif.Model.Base Verif.Model.Decision Verif.Model.Level Verif.Model.Mode Verif.Model.DecisionRef
  Verif.Model.Adapters.
Require Import Verif.Gen.Tables.

(* the attributes of a decoded JSON record: keys and nesting (a JSON object = a
   group); leaf values are compared by the direct oracle, not here *)
Inductive otree := OLeaf (key : bytes) | OGroup (key : bytes) (items : list otree).
Definition okey (t : otree) : bytes := match t with OLeaf k | OGroup k _ => k end.
Fixpoint otree_eqb (a b : otree) : bool :=
  match a, b with
  | OLeaf k1, OLeaf k2 => bytes_eqb k1 k2
  | OGroup k1 i1, OGroup k2 i2 =>
      bytes_eqb k1 k2 &&
      (fix items_eqb (p q : list otree) : bool :=
         match p, q with
         | [], [] => true
         | x :: p', y :: q' => otree_eqb x y && items_eqb p' q'
         | _, _ => false
         end) i1 i2
  | _, _ => false
  end.

(* an observed emission *)
Inductive obs_em :=
| EmBlank (dest : Z)                                            (* a bare line feed *)
| EmJSON (dest lvl time : Z) (msg : bytes) (attrs : list otree) (* a decoded JSON record *)
| EmOther (dest : Z) (sh : shape).                              (* logfmt / colour: counted, not decoded *)

Definition obs_em_eqb (a b : obs_em) : bool :=
  match a, b with
  | EmBlank d1, EmBlank d2 => d1 =? d2
  | EmJSON d1 l1 t1 m1 k1, EmJSON d2 l2 t2 m2 k2 =>
      (d1 =? d2) && (l1 =? l2) && (t1 =? t2) && bytes_eqb m1 m2 && list_eqb otree_eqb k1 k2
  | EmOther d1 s1, EmOther d2 s2 => (d1 =? d2) && shape_eqb s1 s2
  | _, _ => false
  end.

Inductive case :=
(* convertLogSlogLevel z, logsloglevel2Level z *)
| KConv (z hconv lconv : Z)
(* convertLevelToLogSlog l *)
| KBack (l s : Z)
(* Enabled of a handler on a logger at level L *)
| KEnabled (L : Z) (dbg : bool) (z : Z) (obs : bool)
(* convertAttrToField on each attribute of a list *)
| KTree (src : list sattr) (obs : list lattr)
(* Entry.Log on a logger at level L: written?, with which level *)
| KLog (L : Z) (dbg : bool) (z : Z) (written : bool) (lvl : Z)
(* NewLogLogger(logger at L, sev).Print: written?, as a blank line?, level, message, n *)
| KBridge (L sev : Z) (dbg : bool) (buf : bytes) (written blank : bool) (lvl : Z) (msg : bytes) (n : Z)
(* NewSlogHandler(logger c, o), a chain of derivations, one record through
   log/slog.Logger (via = true) or Handle directly.  Observed: the logger after
   NewSlogHandler (json, colour, level), the Lcaller flag, the debug mode,
   Enabled of the final handler on a few levels, the emissions *)
| KHandle (c : lcfg) (dbg0 : bool) (deflevel : Z) (o : hopts) (ds : list deriv) (via : bool) (r : srecord)
    (o_json o_color : bool) (o_lvl : Z) (o_caller o_dbg : bool) (o_en : list (Z * bool)) (o_em : list obs_em).

(* ---- canonical form: the members of every group (and the top level) sorted by key.
   The order in which logg writes siblings is not C15's business; the keys generated
   by the harness are unique among siblings. ---- *)
Fixpoint bytes_ltb (a b : bytes) : bool :=
  match a, b with
  | [], [] => false
  | [], _ :: _ => true
  | _ :: _, [] => false
  | x :: a', y :: b' => if bz x <? bz y then true else if bz y <? bz x then false else bytes_ltb a' b'
  end.
Fixpoint insert_ot (a : otree) (l : list otree) : list otree :=
  match l with
  | [] => [a]
  | b :: t => if bytes_ltb (okey a) (okey b) then a :: l else b :: insert_ot a t
  end.
Definition sort_ot (l : list otree) : list otree := fold_right insert_ot [] (rev l).
Fixpoint canon_ot (t : otree) : otree :=
  match t with
  | OLeaf k => OLeaf k
  | OGroup k items => OGroup k (sort_ot (map canon_ot items))
  end.
Definition canon_ots (l : list otree) : list otree := sort_ot (map canon_ot l).

Fixpoint ot_val (k : bytes) (v : lval) : otree :=
  match v with
  | LGroup items => OGroup k (map (fun kv => let '(k', x) := kv in ot_val k' x) items)
  | _ => OLeaf k
  end.
Definition ot_attrs (l : list lattr) : list otree := map (fun kv => let '(k', x) := kv in ot_val k' x) l.

Definition written (lvl : Z) : bool := negb (lvl =? lv_off).    (* dualWriter.Get(Off) is the discard writer *)

Definition expect_em (e : lcfg * lrecord) : obs_em :=
  let '(c, rec) := e in
  if blank_shortcut (lr_level rec) (lr_msg rec) then EmBlank (lc_dest c)
  else match shape_of {| useJSON := lc_json c; useColor := lc_color c |} with
       | ShJSON => EmJSON (lc_dest c) (lr_level rec) (lr_time rec) (lr_msg rec) (canon_ots (ot_attrs (lr_attrs rec)))
       | sh => EmOther (lc_dest c) sh
       end.

Definition canon_em (e : obs_em) : obs_em :=
  match e with
  | EmJSON d l t m a => EmJSON d l t m (canon_ots a)
  | x => x
  end.

Definition m_slog : list (Z * Z) := t_mLogSlogLevelToLevel.
Definition m_as : list (Z * Z) := t_mLevelIsEnabledAs.

Definition ok (c : case) : bool :=
  match c with
  | KConv z hc lc =>
      (convert_logslog_level_ref m_slog z =? hc) && (log_level_conv fix_log_default z =? lc)
  | KBack l s => convert_level_to_logslog_ref t_mLevelToLogSlog l =? s
  | KEnabled L dbg z obs =>
      Bool.eqb (handler_enabled_ref m_slog (enabled_code m_as dbg L) z) obs
  | KTree src obs => list_eqb lattr_eqb (conv_attrs src) obs
  | KLog L dbg z wr lvl =>
      match entry_log fix_log_default m_as dbg L z 0 [] [] with
      | Some rec => Bool.eqb wr (written (lr_level rec)) && (negb wr || (lr_level rec =? lvl))
      | None => negb wr
      end
  | KBridge L sev dbg buf wr blank lvl msg n =>
      match bridge_write fix_bridge m_as dbg L sev 0 buf with
      | (Some rec, n') =>
          (n =? n') && Bool.eqb wr (written (lr_level rec)) &&
          (negb wr ||
           (Bool.eqb blank (blank_shortcut (lr_level rec) (lr_msg rec)) &&
            (blank || ((lr_level rec =? lvl) && bytes_eqb (lr_msg rec) msg))))
      | (None, n') => (n =? n') && negb wr
      end
  | KHandle c dbg0 dl o ds via r oj oc ol ocaller odbg oen oem =>
      let '(h0, caller, dbg) := new_handler c dbg0 o in
      let h := derive fix_derived dl h0 ds in
      Bool.eqb (lc_json (h_log h0)) oj && Bool.eqb (lc_color (h_log h0)) oc && (lc_level (h_log h0) =? ol) &&
      Bool.eqb caller ocaller && Bool.eqb dbg odbg &&
      forallb (fun p : Z * bool => Bool.eqb (handler_on m_slog m_as dbg h (fst p)) (snd p)) oen &&
      list_eqb obs_em_eqb
        (map expect_em (filter (fun e : lcfg * lrecord => written (lr_level (snd e)))
                          (if via then slog_log m_slog m_as dbg h r else handle m_slog h r)))
        (map canon_em oem)
  end.
