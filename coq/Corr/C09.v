(* C09 correspondence: the bytes the implementation produced for a probe AFTER a history of
   other calls (or after the pooled context was poisoned) against the model of the probe alone. *)
Require Import Verif.Model.Base Verif.Model.Dec Verif.Model.Level Verif.Model.Mode Verif.Model.Attrs Verif.Model.Encode.
Require Import Verif.Model.PrintCtx Verif.Proofs.PrintCtxP.
Require Import Verif.Corr.C01 Verif.Corr.Enc.

Inductive c09case :=
| CProbe (c : ecase)               (* fresh / after a history / after one poisoned field: Encode.encode of the probe *)
| CPoison (c : ecase)              (* after every field was poisoned: also Model/PrintCtx.v's set + encoder on a hostile context *)
| CSet (unchanged : list bytes).   (* the poisoned fields that PrintCtx.set left as they were *)

Definition out_eqb (a : out) (b : bytes) : bool :=
  match a with Out x => bytes_eqb x b | NotModelled => true | Panics => false end.

Definition flags_of (m : shape) : mflags :=
  match m with
  | ShJSON => {| useJSON := true; useColor := false |}
  | ShColor => {| useJSON := false; useColor := true |}
  | ShLogfmt => {| useJSON := false; useColor := false |}
  end.

(* the probe as a call of the context model, formatted on the hostile context of the proofs *)
Definition on_hostile (isprint : Z -> bool) (c : ecase) : out :=
  print_on isprint enc_registry (fun _ _ _ => k_ts c)
           (fun _ => match k_caller c with Some x => x | None => ([], 0, []) end)
           {| gl_caller := match k_caller c with Some _ => true | None => false end; gl_tagw := k_tagw c; gl_minw := k_minw c |}
           w_hostile
           {| ec_name := k_name c; ec_flags := flags_of (k_mode c); ec_layout := []; ec_utc := 2; ec_valueStringer := 0;
              ec_level := lv_info; ec_attrs := [] |}
           {| cl_lvl := k_lvl c; cl_now := 0; cl_frame := 0; cl_msg := k_msg c; cl_kvps := k_attrs c |}.

(* the fields set must leave alone: never_reset_ok without dedupeAttrs (which the harness does not poison) *)
Definition set_leaves : list bytes :=
  filter (fun f => negb (bytes_eqb f [x64;x65;x64;x75;x70;x65;x41;x74;x74;x72;x73])) never_reset_ok.

Definition ok (isprint : Z -> bool) (c : c09case) : bool :=
  match c with
  | CProbe e => colors_wfb enc_registry && ok_mode (k_mode e) isprint e
  | CPoison e => colors_wfb enc_registry && ok_mode (k_mode e) isprint e && out_eqb (on_hostile isprint e) (k_observed e)
  | CSet l => list_eqb bytes_eqb l set_leaves
  end.
