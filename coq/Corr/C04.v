Require Import Verif.Model.Base Verif.Model.Mode Verif.Corr.Enc.
Definition ok (isprint : Z -> bool) (c : ecase) : bool := ok_mode ShJSON isprint c.
