(* Correspondence evaluator of C04.  Three checks per record the implementation emitted:
   1. model == implementation, byte for byte (Enc.ok_mode);
   2. the SPECIFICATION side on the observed bytes: the record must lie in the domain of the
      theorems (a record outside it would mean the hypotheses do not describe real inputs),
      and then the observed line minus its newline must parse - with the fuel of
      C04_roundtrip - to exactly json_of, with nothing left, and contain no control byte
      (an instance of C04_roundtrip / C04_one_line evaluated on the implementation's bytes);
   3. ([okj]) the Coq parser against encoding/json: the harness attaches the ordered tree
      encoding/json read from the same line (None = it rejected the line); parse_json must
      accept exactly when encoding/json does and deliver the same tree. *)
Require Import Verif.Model.Base Verif.Model.Mode Verif.Model.Attrs Verif.Model.Encode Verif.Model.Json Verif.Corr.Enc.

Definition res_eqb (a : option (json * bytes)) (j : json) : bool :=
  match a with
  | Some (v, []) => json_eqb v j
  | _ => false
  end.

Definition body_of (c : ecase) : bytes := removelast (k_observed c).

Definition spec_ok (c : ecase) : bool :=
  let cfg := cfg_of c in
  dom_cfg_b cfg && dom_attrs_b (k_attrs c) &&
  (if blank_print cfg (k_msg c) then bytes_eqb (k_observed c) [x0a]
   else res_eqb (parse_json (rec_depth cfg (k_attrs c) + 2) (body_of c)) (json_of enc_registry cfg (k_msg c) (k_attrs c))
        && byte_eqb (last (k_observed c) x00) x0a
        && forallb (fun b => 32 <=? bz b) (body_of c)).

Definition ok (isprint : Z -> bool) (c : ecase) : bool := ok_mode ShJSON isprint c && spec_ok c.

(* generous fuel: the generator nests groups <= 8 deep *)
Definition go_fuel : nat := 64.
Definition go_ok (c : ecase) (gj : option json) : bool :=
  match gj with
  | Some j => res_eqb (parse_json go_fuel (body_of c)) j
  | None => match parse_json go_fuel (body_of c) with Some (_, []) => false | _ => true end
  end.
Definition okj (isprint : Z -> bool) (x : ecase * option json) : bool := ok isprint (fst x) && go_ok (fst x) (snd x).
