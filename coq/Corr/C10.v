(* Correspondence evaluator for C10: run the Tree model on the history the
   implementation ran; compare returned loggers and the full configuration of
   every logger at the end. *)
Require Import Verif.Model.Base Verif.Model.Mode Verif.Model.Writers Verif.Model.Tree Verif.Corr.Pool.

Record lobs := mko {
  o_name : Z;                    (* 0 "", k>0 user name n<k>, -1 random, -2-n WithSkip(n) *)
  o_parent : option nat;
  o_root : nat;
  o_json : bool; o_color : bool;
  o_level : Z; o_skip : Z; o_layout : Z; o_utc : Z;
  o_attrs : list Z; o_ctx : list Z;
  o_w : option (list Z * list Z * list (Z * list Z));   (* own writers: normal, error, leveled sorted by level, empties dropped *)
  o_each : list (nat * nat)
}.

Record case := mk {
  c_lvl0 : Z;
  c_ops : list op;
  c_rets : list (option nat);
  c_final : list lobs
}.

Fixpoint run_rets (w : world) (ops : list op) : world * list (option nat) :=
  match ops with
  | [] => (w, [])
  | o :: t => let '(w1, r) := step is_lw w o in
              let '(w2, rs) := run_rets w1 t in (w2, r :: rs)
  end.

Definition name_code (n : lname) : Z :=
  match n with
  | NEmpty => 0
  | NStr k => k
  | NAnon _ => -1
  | NSkip _ n => -2 - n
  end.

Fixpoint insert_lv (kv : Z * list Z) (l : list (Z * list Z)) : list (Z * list Z) :=
  match l with
  | [] => [kv]
  | h :: t => if fst kv <=? fst h then kv :: l else h :: insert_lv kv t
  end.
Definition canon_leveled (m : list (Z * list member)) : list (Z * list Z) :=
  fold_right insert_lv []
    (flat_map (fun kv : Z * list member => match snd kv with [] => [] | _ => [(fst kv, map member_id (snd kv))] end) m).

Definition obs_of (w : world) (i : nat) (e : entry) : lobs :=
  mko (name_code (e_name e)) (e_owner e) (root_of w i)
      (useJSON (e_mode e)) (useColor (e_mode e)) (e_level e) (e_skip e) (e_layout e) (e_utc e)
      (e_attrs e) (e_ctxkeys e)
      (match e_writer e with
       | Some d => Some (map member_id (dw_normal d), map member_id (dw_error d), canon_leveled (dw_leveled d))
       | None => None end)
      (each w i).

Definition zl_eqb := list_eqb Z.eqb.
Definition w_eqb (a b : list Z * list Z * list (Z * list Z)) : bool :=
  let '(n1, e1, l1) := a in let '(n2, e2, l2) := b in
  zl_eqb n1 n2 && zl_eqb e1 e2 && list_eqb (pair_eqb Z.eqb zl_eqb) l1 l2.

Definition lobs_eqb (a b : lobs) : bool :=
  (o_name a =? o_name b) && option_eqb Nat.eqb (o_parent a) (o_parent b) && Nat.eqb (o_root a) (o_root b)
  && Bool.eqb (o_json a) (o_json b) && Bool.eqb (o_color a) (o_color b)
  && (o_level a =? o_level b) && (o_skip a =? o_skip b) && (o_layout a =? o_layout b) && (o_utc a =? o_utc b)
  && zl_eqb (o_attrs a) (o_attrs b) && zl_eqb (o_ctx a) (o_ctx b)
  && option_eqb w_eqb (o_w a) (o_w b)
  && list_eqb (pair_eqb Nat.eqb Nat.eqb) (o_each a) (o_each b).

Fixpoint obs_all (w : world) (i : nat) (es : list entry) : list lobs :=
  match es with [] => [] | e :: t => obs_of w i e :: obs_all w (S i) t end.

Definition ok (c : case) : bool :=
  let '(w, rets) := run_rets (init_world (c_lvl0 c) false false) (c_ops c) in
  list_eqb (option_eqb Nat.eqb) rets (c_rets c)
  && list_eqb lobs_eqb (obs_all w 0 (entries w)) (c_final c).
