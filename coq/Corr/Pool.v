(* the writer pool of the harness (harness/tree.go): ids 1..6 *)
Require Import Verif.Model.Base.
Definition is_lw (w : Z) : bool := (w =? 3) || (w =? 4) || (w =? 6) || (w =? 7).   (* LogWriter (has Close); 7 = a handle made by slog.NewLogWriter *)
Definition is_ls (w : Z) : bool := (w =? 5) || (w =? 6).               (* LevelSettable *)
