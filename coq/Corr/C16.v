(* Correspondence evaluator for C16.

   A case carries what the logger was told (the argument lists of SetUTCMode and
   SetTimeFormat, None = never called), the package flags, the shape of the record, the
   renderings  instant.In(zone).Format(layout)  of the record's instant produced by the
   harness with Go's time package for every candidate (zone, layout), and the timestamp
   bytes observed in the record (with their framing).  The model - the decision functions
   REGENERATED from the source (Gen.Decisions) on the table regenerated from the source
   (Gen.Tables.t_defaultLayouts) - selects zone and layout; the selected rendering, framed,
   must be the observed bytes.  A selected (zone, layout) that is not among the candidates
   is a mismatch. *)
Require Import Verif.Model.Base Verif.Model.Decision Verif.Model.Mode Verif.Model.DecisionRef Verif.Model.Time.
Require Import Verif.Gen.Tables Verif.Gen.Decisions.

Record case := mk {
  c_utc : option (list bool);          (* SetUTCMode(args...) *)
  c_layout : option (list bytes);      (* SetTimeFormat(args...) *)
  c_flags : Z;                         (* slog.GetFlags() at the time of the record *)
  c_shape : shape;
  c_cands : list (zone * bytes * bytes);   (* (zone, layout, rendered) *)
  c_observed : bytes
}.

Fixpoint lookup_cand (cs : list (zone * bytes * bytes)) (z : zone) (l : bytes) : option bytes :=
  match cs with
  | [] => None
  | (z', l', r) :: t => if zone_eqb z' z && bytes_eqb l' l then Some r else lookup_cand t z l
  end.

(* the logger state from the generated setters *)
Definition utc_state_gen (call : option (list bool)) : Z :=
  match call with None => 0 | Some args => Decisions.set_utc_mode args end.
Definition layout_state_gen (call : option (list bytes)) : bytes :=
  match call with None => [] | Some args => Decisions.set_time_format args end.

(* Model.Time.timestamp with every decision taken by the generated functions *)
Definition timestamp_gen (render : zone -> bytes -> bytes)
  (utc_call : option (list bool)) (layout_call : option (list bytes)) (flags : Z) (sh : shape) : bytes :=
  timestamp_text sh (render (Decisions.zone_choice (utc_state_gen utc_call) flags)
                            (Decisions.layout_choice t_defaultLayouts (layout_state_gen layout_call) flags)).

Definition ok (c : case) : bool :=
  let z := Decisions.zone_choice (utc_state_gen (c_utc c)) (c_flags c) in
  let l := Decisions.layout_choice t_defaultLayouts (layout_state_gen (c_layout c)) (c_flags c) in
  match lookup_cand (c_cands c) z l with
  | None => false
  | Some r => bytes_eqb (timestamp_text (c_shape c) r) (c_observed c)
  end.
