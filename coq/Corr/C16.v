(* Correspondence evaluator for C16.

   A case carries what the logger was told (the argument lists of SetUTCMode and
   SetTimeFormat, None = never called), the package flags, the shape of the record, the
   renderings  instant.In(zone).Format(layout)  of the record's instant produced by the
   harness with Go's time package for every candidate (zone, layout), and the timestamp
   bytes observed in the record (with their framing).  The model - the decision functions
   REGENERATED from the source (Gen.Decisions) on the table regenerated from the source
   (Gen.Tables.t_defaultLayouts) - selects zone and layout; the selected rendering, framed,
   must be the observed bytes.  A selected (zone, layout) that is not among the candidates
   is a mismatch.

   The case also carries the instant itself (unix seconds, nanoseconds) and the zone the
   instant came in (offset and abbreviation in force at that instant, what Time.Zone()
   says).  The model of Go's layout language (Model/TimeFmt.v) renders the instant in the
   zone the model selected with the layout the model selected; that text, framed, must be
   the OBSERVED bytes too (and therefore the candidate Go rendered).  Where the instant is
   outside the domain of format_time (civil year outside 0..9999) only the candidate route
   applies; the harness says which route it expects ([c_model]) so that the counts it
   reports are checked here.  On the modelled route the specification-side reader
   parse_time is run on the rendered (= observed) text: where the selected layout and zone
   are in the domain of the round-trip theorem ([c_roundtrip], determined independently by
   the harness) it must give back the instant truncated to the layout's unit and the
   offset; and wherever Go's own time.Parse read the text ([c_goparse]) and the layout is
   readable, the reader must agree with it. *)
Require Import Verif.Model.Base Verif.Model.Decision Verif.Model.Mode Verif.Model.DecisionRef Verif.Model.Time.
Require Import Verif.Model.TimeFmt.
Require Import Verif.Gen.Tables Verif.Gen.Decisions.

Record case := mk {
  c_utc : option (list bool);          (* SetUTCMode(args...) *)
  c_layout : option (list bytes);      (* SetTimeFormat(args...) *)
  c_flags : Z;                         (* slog.GetFlags() at the time of the record *)
  c_shape : shape;
  c_cands : list (zone * bytes * bytes);   (* (zone, layout, rendered) *)
  c_observed : bytes;
  c_sec : Z;                           (* the record's instant: Unix seconds *)
  c_nsec : Z;                          (*   and nanoseconds *)
  c_off : Z;                           (* its own zone at that instant: seconds east of UTC *)
  c_abbrev : bytes;                    (*   and abbreviation *)
  c_model : bool;                      (* harness: the instant is in format_time's domain *)
  c_roundtrip : bool;                  (* harness: layout and zone are in the round-trip theorem's domain *)
  c_goparse : option (Z * Z * Z)       (* time.Parse(layout, text) = (unix s, ns, offset), when it succeeded *)
}.

Fixpoint lookup_cand (cs : list (zone * bytes * bytes)) (z : zone) (l : bytes) : option bytes :=
  match cs with
  | [] => None
  | (z', l', r) :: t => if zone_eqb z' z && bytes_eqb l' l then Some r else lookup_cand t z l
  end.

(* the logger state from the generated setters *)
Definition utc_state_gen (call : option (list bool)) : Z :=
  match call with None => 0 | Some args => Decisions.set_utc_mode args end.
Definition layout_state_gen (call : option (list bytes)) : bytes :=
  match call with None => [] | Some args => Decisions.set_time_format args end.

(* Model.Time.timestamp with every decision taken by the generated functions *)
Definition timestamp_gen (render : zone -> bytes -> bytes)
  (utc_call : option (list bool)) (layout_call : option (list bytes)) (flags : Z) (sh : shape) : bytes :=
  timestamp_text sh (render (Decisions.zone_choice (utc_state_gen utc_call) flags)
                            (Decisions.layout_choice t_defaultLayouts (layout_state_gen layout_call) flags)).

(* the candidate route (Go's own renderings, the model selects) *)
Definition ok_cand (c : case) : bool :=
  let z := Decisions.zone_choice (utc_state_gen (c_utc c)) (c_flags c) in
  let l := Decisions.layout_choice t_defaultLayouts (layout_state_gen (c_layout c)) (c_flags c) in
  match lookup_cand (c_cands c) z l with
  | None => false
  | Some r => bytes_eqb (timestamp_text (c_shape c) r) (c_observed c)
  end.

(* the zone a choice means for this instant *)
Definition utc_abbrev : bytes := ["U"%byte; "T"%byte; "C"%byte].
Definition zone_params (c : case) (z : zone) : Z * bytes :=
  match z with ZoneUTC => (0, utc_abbrev) | ZoneOwn => (c_off c, c_abbrev c) end.

Definition triple_eqb (a b : Z * Z * Z) : bool :=
  let '(a1, a2, a3) := a in let '(b1, b2, b3) := b in (a1 =? b1) && (a2 =? b2) && (a3 =? b3).

(* the model's rendering of the case: layout and zone chosen by the generated decisions *)
Definition model_text (c : case) : option bytes :=
  let z := Decisions.zone_choice (utc_state_gen (c_utc c)) (c_flags c) in
  let l := Decisions.layout_choice t_defaultLayouts (layout_state_gen (c_layout c)) (c_flags c) in
  let '(off, ab) := zone_params c z in
  format_time l (c_sec c) (c_nsec c) off ab.

(* the modelled route *)
Definition ok_model (c : case) : bool :=
  let z := Decisions.zone_choice (utc_state_gen (c_utc c)) (c_flags c) in
  let l := Decisions.layout_choice t_defaultLayouts (layout_state_gen (c_layout c)) (c_flags c) in
  let '(off, ab) := zone_params c z in
  match format_time l (c_sec c) (c_nsec c) off ab with
  | None => negb (c_model c)
  | Some r =>
      c_model c
      && bytes_eqb (timestamp_text (c_shape c) r) (c_observed c)
      && (let its := tokens l in
          let dom := items_roundtrip its && zone_fits its off in
          let u := layout_unit its in
          Bool.eqb dom (c_roundtrip c)
          && (if dom then option_eqb triple_eqb (parse_time l r) (Some (c_sec c, c_nsec c / u * u, off)) else true)
          && (match c_goparse c with
              | Some g => if items_parse its then option_eqb triple_eqb (parse_time l r) (Some g) else true
              | None => true
              end))
  end.

Definition ok (c : case) : bool := ok_cand c && ok_model c.
