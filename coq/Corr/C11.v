(* Correspondence evaluator for C11: run the Tree model on the op list the
   implementation ran and compare getters, returned loggers and record shape. *)
Require Import Verif.Model.Base Verif.Model.Mode Verif.Model.Writers Verif.Model.Tree.

Record case := mk {
  c_lvl0 : Z;
  c_ops : list op;
  c_rets : list (option nat);          (* logger returned by each op *)
  c_obs : list (bool * bool * shape)   (* per logger: JSONMode(), ColorMode(), shape of a probe record *)
}.

Definition nolw (w : wid) : bool := false.

Fixpoint run_rets (w : world) (ops : list op) : world * list (option nat) :=
  match ops with
  | [] => (w, [])
  | o :: t => let '(w1, r) := step nolw w o in
              let '(w2, rs) := run_rets w1 t in (w2, r :: rs)
  end.

Definition obs_of (e : entry) : bool * bool * shape :=
  (useJSON (e_mode e), useColor (e_mode e), shape_of (e_mode e)).

Definition obs_eqb (a b : bool * bool * shape) : bool :=
  let '(j1, c1, s1) := a in let '(j2, c2, s2) := b in
  Bool.eqb j1 j2 && Bool.eqb c1 c2 && shape_eqb s1 s2.

Definition ok (c : case) : bool :=
  let '(w, rets) := run_rets (init_world (c_lvl0 c) false false) (c_ops c) in
  list_eqb (option_eqb Nat.eqb) rets (c_rets c)
  && list_eqb obs_eqb (map obs_of (entries w)) (c_obs c).
