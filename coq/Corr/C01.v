(* Correspondence evaluator for C01. *)
Require Import Verif.Model.Base Verif.Model.Decision Verif.Model.Level Verif.Model.EntryPoint Verif.Model.Emit.
Require Import Verif.Gen.Tables Verif.Gen.EntryPoints.

Inductive case :=
| Cell (enabled_as : list (Z * Z)) (dbg : bool) (L : Z) (recv name : bytes) (param writes : Z)
| Hist (lvl0 : Z) (ops : list gop) (probes : list (nat * bytes * bytes * Z * Z)).

Definition treat_opt (t : Z) : regopts :=
  {| o_tags := []; o_clr := -1; o_bg := -1; o_treat := t; o_err := false |}.

(* the registry a process starts with: the literal tables of the source *)
Definition init_registry : registry :=
  {| r_all := t_allLevels; r_l2s := t_levelToString; r_s2l := t_stringToLevel; r_tags := t_shortTagMap;
     r_as := t_mLevelIsEnabledAs;
     r_errdev := map fst (filter (fun p : Z * bool => snd p) t_mLevelUseErrorDevice);
     r_colors := t_mLevelColors |}.

Definition b2z (b : bool) : Z := if b then 1 else 0.

Definition ok (c : case) : bool :=
  match c with
  | Cell m dbg L recv name param writes =>
      match find_ep recv name entry_points with
      | Some e => b2z (emits e m dbg L param) =? writes
      | None => false
      end
  | Hist lvl0 ops probes =>
      let w := grun {| g_levels := [lvl0]; g_reg := init_registry; g_dbg := false |} ops in
      forallb (fun p : nat * bytes * bytes * Z * Z =>
                 let '(i, recv, name, param, writes) := p in
                 match nth_error (g_levels w) i, find_ep recv name entry_points with
                 | Some L, Some e => b2z (emits e (r_as (g_reg w)) (g_dbg w) L param) =? writes
                 | _, _ => false
                 end) probes
  end.
