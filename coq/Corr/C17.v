(* Correspondence evaluator for C17. *)
Require Import Verif.Model.Base Verif.Model.Decision Verif.Model.Level Verif.Corr.C01.

Record call := mkcall { k_v : Z; k_title : bytes; k_opts : regopts; k_ok : bool }.
Definition mkopts (tags : list bytes) (clr bg treat : Z) (err : bool) : regopts :=
  {| o_tags := tags; o_clr := clr; o_bg := bg; o_treat := treat; o_err := err |}.

Record lobs := mkobs { b_l : Z; b_str : bytes; b_tags : list bytes; b_parse : Z; b_errdev : bool; b_treat : Z }.

Record case := mk { c_calls : list call; c_obs : list lobs }.

(* run the calls; every accept/refuse decision must agree *)
Fixpoint run_calls (g : registry) (cs : list call) : registry * bool :=
  match cs with
  | [] => (g, true)
  | c :: t =>
      let '(g1, res) := register g (k_v c) (k_title c) (k_opts c) in
      let agree := Bool.eqb (match res with RegOk => true | _ => false end) (k_ok c) in
      let '(g2, rest) := run_calls g1 t in (g2, agree && rest)
  end.

Definition obs_ok (g : registry) (o : lobs) : bool :=
  bytes_eqb (level_string g (b_l o)) (b_str o)
  && list_eqb (option_eqb bytes_eqb) (map (fun n => short_tag g n (b_l o)) [1;2;3;4;5]) (map Some (b_tags o))
  && (match parse_level g (b_str o) with Some l => l | None => -9999 end =? b_parse o)
  && Bool.eqb (memZ (r_errdev g) (b_l o)) (b_errdev o)
  && (treated_as (r_as g) (b_l o) =? b_treat o).

Definition ok (c : case) : bool :=
  let '(g, agree) := run_calls init_registry (c_calls c) in
  agree && list_eqb Z.eqb (r_all g) (map b_l (c_obs c)) && forallb (obs_ok g) (c_obs c).
