(* Correspondence evaluator for C03. *)
Require Import Verif.Model.Base Verif.Model.Writers Verif.Corr.Pool.

Record case := mk {
  c_errdev : list Z;                         (* key set of mLevelUseErrorDevice *)
  c_ops : list wop;
  c_probes : list (Z * list Z * list Z)      (* severity, writers written to in order, writers told the level *)
}.

(* stdout/stderr are observed through file descriptors: their position is not observable *)
Definition std_last (l : list Z) : list Z := filter (fun x => 0 <=? x) l ++ filter (fun x => x <? 0) l.

Definition written (evs : list wevent) : list Z :=
  flat_map (fun e => match e with EvWrite w => [w] | _ => [] end) evs.
(* writers whose write is immediately preceded by EvSet of the same writer and level *)
Fixpoint told (lvl : Z) (evs : list wevent) : list Z :=
  match evs with
  | EvSet w l :: ((EvWrite w' :: _) as t) => (if (w =? w') && (l =? lvl) then [w] else []) ++ told lvl t
  | _ :: t => told lvl t
  | [] => []
  end.

Definition ok (c : case) : bool :=
  let d := fold_left (wstep is_lw) (c_ops c) None in
  forallb (fun p : Z * list Z * list Z =>
             let '(lvl, dest_obs, told_obs) := p in
             if lvl =? lvl_off then match dest_obs with [] => true | _ => false end
             else
               let evs := deliver is_ls (find_writer (c_errdev c) d lvl) lvl in
               list_eqb Z.eqb (std_last (written evs)) dest_obs
               && list_eqb Z.eqb (told lvl evs) told_obs)
          (c_probes c).
