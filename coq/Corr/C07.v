(* Correspondence evaluator for C07: assemble the attributes with the model
   (Model/Collect.v collect, variant Collect.fix_inherit) from the inputs the
   implementation ran on - inherit flag, registered context keys, context, own
   attribute lists from the logger up to the root, call arguments - encode the
   record with the timestamp text taken from the observed record, and compare all
   bytes with what the implementation wrote. *)
Require Import Verif.Model.Base Verif.Model.Mode Verif.Model.Attrs Verif.Model.Encode Verif.Model.Collect.
Require Import Verif.Corr.Enc.

Record case := mk07 {
  c_inherit : bool;                          (* LattrsR *)
  c_keys : list ckey;                        (* the logging logger's registered context keys *)
  c_ctx : option (list (ckey * value));      (* None = nil context; WithValue layers oldest first *)
  c_chain : list (list attr);                (* own attributes: logger, parent, ..., root *)
  c_args : list attr;                        (* the call's arguments *)
  c_enc : ecase                              (* format, logger name, severity, k_ts, message, observed bytes; k_attrs unused *)
}.

Definition ok (isprint : Z -> bool) (c : case) : bool :=
  let e := c_enc c in
  match encode isprint enc_registry (cfg_of e) (k_msg e)
               (collect (c_inherit c) fix_inherit (c_keys c) (c_ctx c) (c_chain c) (c_args c)) with
  | Some b => bytes_eqb b (k_observed e)
  | None => false      (* the messages of this check carry no markup *)
  end.
