(* Correspondence evaluator for C14: one case per record issued by the harness.

   recv/name   the entry point ("Entry"/"pkg" rows of Gen.entry_points; "slogadapter"/"bridge" = the adapter sites)
   extra       the skip count given by WithSkip/SetSkip to the logger
   known       how many frames above the issuing statement the harness can recognise (wrappers + its driver)
   observed    k >= 0: the record's caller is the call statement k frames above the issuing statement
               (0 = the issuing statement itself); -1: some other place; -2: no record was written *)
Require Import Verif.Model.Base Verif.Model.EntryPoint Verif.Model.Caller.
Require Import Verif.Gen.EntryPoints Verif.Gen.CallerSites.
Require Import Verif.Proofs.CallerP.

Inductive case := Case (recv name : bytes) (extra known observed : Z).

Definition predicted (recv name : bytes) (extra known : Z) : Z :=
  match find_ep recv name entry_points with
  | Some e => if issues e then user_offset (attributed e extra (Z.to_nat known)) else -2
  | None =>
      match find_adapter recv (sites_now 2 2) with
      | Some a => user_offset (adapter_attributed a extra (Z.to_nat known))
      | None => -3
      end
  end.

Definition ok (c : case) : bool :=
  match c with Case recv name extra known observed => predicted recv name extra known =? observed end.
