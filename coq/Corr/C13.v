(* Correspondence evaluator for C13: the model of the delivery cycle, with the guard
   REGENERATED from the source (Gen.Decisions.should_warn), is run on the configuration, the
   calls and every fault schedule the implementation ran under, and its attempt lists are
   compared with the per-writer attempt log observed by the fault-injecting writers. *)
Require Import Verif.Model.Base Verif.Model.Decision Verif.Model.Level Verif.Model.DecisionRef
  Verif.Model.Writers Verif.Model.Deliver Verif.Corr.Pool.
Require Import Verif.Gen.Decisions.

Record case := mk {
  c_errdev : list Z;               (* key set of mLevelUseErrorDevice *)
  c_as : list (Z * Z);             (* mLevelIsEnabledAs *)
  c_dbg : bool;
  c_intesting : bool;
  c_flags : Z;
  c_ops : list wop;                (* writer configuration calls on a fresh logger *)
  c_level : Z;                     (* logger level *)
  c_calls : list Z;                (* severities of the calls, in order *)
  (* per schedule: bit n of the first component = the n-th Write attempt fails (-1: every
     attempt fails for ever); then, per call, the attempts observed in order, each coded as
     4*writer + 2*(payload is the diagnostic) + 1*(the Write returned an error) *)
  c_runs : list (Z * list (list Z))
}.

Definition sched_bits (s : Z) : nat -> bool := fun n => Z.testbit s (Z.of_nat n).

Definition code (a : attempt) : Z :=
  4 * a_w a + (match a_kind a with Diag => 2 | Orig => 0 end) + (if a_failed a then 1 else 0).

Definition call_ok (r : outcome) (obs : list Z) : bool :=
  match r with
  | Normal atts _ => list_eqb Z.eqb (map code atts) obs
  | _ => false
  end.

Fixpoint all2 {A B} (f : A -> B -> bool) (a : list A) (b : list B) : bool :=
  match a, b with
  | [], [] => true
  | x :: a', y :: b' => f x y && all2 f a' b'
  | _, _ => false
  end.

Definition ok (c : case) : bool :=
  let cfg := {| l_writers := fold_left (wstep is_lw) (c_ops c) None; l_errdev := c_errdev c; l_as := c_as c;
                l_dbg := c_dbg c; l_level := c_level c; l_intesting := c_intesting c; l_flags := c_flags c |} in
  forallb (fun sr : Z * list (list Z) =>
             let '(rs, _) := run Decisions.should_warn 3 (sched_bits (fst sr)) {| w_cfg := cfg; w_next := 0 |} (c_calls c) in
             all2 call_ok rs (snd sr))
          (c_runs c).
