(* C06 correspondence: byte-exact comparison of the colour-mode encoder model with the
   implementation (Enc.ok_mode), and - so that the SPECIFICATION side of the theorems is
   exercised on every observed record - the hypotheses of C06_hygiene / C06_layout are
   evaluated on the record and, where they hold, their conclusions are evaluated on the
   OBSERVED bytes: hygienic observed, strip_sgr observed = layout_of ... *)
Require Import Verif.Model.Base Verif.Model.Mode Verif.Model.Level Verif.Model.Attrs Verif.Model.Encode Verif.Model.Ansi.
Require Import Verif.Corr.Enc.

(* the hypotheses of the C06 theorems that speak about the configuration and the attributes *)
Definition hyp_cfg (g : registry) (c : ecfg) (attrs : list attr) : bool :=
  colors_ok g && text_ok (e_ts c) && text_ok (e_name c) && caller_texts_ok (e_caller c)
  && text_ok (tag_of g (e_tagw c) (e_lvl c)) && attrs_ok attrs.

Definition blank_always (c : ecfg) (msg : bytes) : bool := (e_lvl c =? lv_always) && all_blank msg.

Definition ok (isprint : Z -> bool) (c : ecase) : bool :=
  ok_mode ShColor isprint c &&
  match encode isprint enc_registry (cfg_of c) (k_msg c) (k_attrs c) with
  | None => true      (* markup in the first line: HTML translator, not modelled; direct oracle only *)
  | Some _ =>
      let h := hyp_cfg enc_registry (cfg_of c) (k_attrs c) in
      implb (h && esc_free (k_msg c)) (hygienic_b (k_observed c))
      && implb (h && layout_domain (k_msg c) && negb (blank_always (cfg_of c) (k_msg c)))
               (bytes_eqb (strip_sgr (k_observed c)) (layout_of isprint enc_registry (cfg_of c) (k_msg c) (k_attrs c)))
  end.

(* how many records of a run meet the hypotheses (reported by the harness as coverage) *)
Definition in_hygiene_domain (c : ecase) : bool :=
  hyp_cfg enc_registry (cfg_of c) (k_attrs c) && esc_free (k_msg c).
Definition in_layout_domain (c : ecase) : bool :=
  hyp_cfg enc_registry (cfg_of c) (k_attrs c) && layout_domain (k_msg c) && negb (blank_always (cfg_of c) (k_msg c)).
