(* Correspondence evaluator for C12: one child process = one native log call.
   The model is run with the GENERATED tail decision (Gen/Decisions.termination) and the
   admission rule over the treated-as table of the source (Gen/Tables) extended by the levels the
   child registered; compared with what the parent process observed. *)
Require Import Verif.Model.Base Verif.Model.Decision Verif.Model.Level Verif.Model.Terminate.
Require Import Verif.Gen.Tables Verif.Gen.Decisions.

Inductive case :=
| Cell (in_testing : bool)        (* what the child reports for slog's inTesting *)
       (flags : Z)                (* slog.GetFlags() in the child just before the call *)
       (registered : list (Z * Z))(* treated-as entries added by RegisterLevel in the child *)
       (dbg : bool)               (* is.DebugMode() in the child just before the call *)
       (L r : Z)                  (* logger level, severity of the call *)
       (msg : bytes)              (* the message *)
       (n : nat)                  (* destinations configured for the severity *)
       (records : Z)              (* complete records found in the destinations after the process ended *)
       (obs : term).              (* normal return | recovered panic value | exit status *)

Definition term_eqb (a b : term) : bool :=
  match a, b with
  | Continue, Continue => true
  | DoPanic x, DoPanic y => bytes_eqb x y
  | DoExit x, DoExit y => x =? y
  | _, _ => false
  end.

Definition ok (c : case) : bool :=
  match c with
  | Cell t flags registered dbg L r msg n records obs =>
      let tr := log_outcome_with Decisions.termination t flags (t_mLevelIsEnabledAs ++ registered) dbg L r msg n in
      (count_writes tr =? records) && option_eqb term_eqb (ending tr) (Some obs)
  end.
