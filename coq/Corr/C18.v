(* Correspondence evaluator for C18: the implementation's checkpath (Safety,
   SafetyFiles, VerifCheckpath, sampled over Go's map iteration orders) against
   Model/Path.v run on every iteration order of the table. *)
Require Import Verif.Model.Base Verif.Model.Path.

Record case := Case {
  c_priv : bool;                        (* Lprivacypath *)
  c_rx : bool;                          (* Lprivacypathregexp *)
  c_init : list (bytes * bytes);        (* the table before the operations *)
  c_ops : list tbl_op;                  (* Add/Remove/ResetKnownPathMapping calls *)
  c_table : list (bytes * bytes);       (* the table the implementation then holds (sorted by key) *)
  c_nvol : nat;                         (* the regexp table: that many copies of the built-in one *)
  c_cwd : bytes;
  c_file : bytes;
  c_rel : bytes;                        (* filepath.Rel(cwd, file) as computed by the standard library, [] on error *)
  c_obs : list bytes                    (* the distinct results observed over the repetitions *)
}.

Definition entry_eqb : bytes * bytes -> bytes * bytes -> bool := pair_eqb bytes_eqb bytes_eqb.
Definition subtable (a b : list (bytes * bytes)) : bool :=
  forallb (fun kv => existsb (entry_eqb kv) b) a.
Definition same_table (a b : list (bytes * bytes)) : bool :=
  (length a =? length b)%nat && subtable a b && subtable b a.

Definition model_results (c : case) : list (option bytes) :=
  map (fun t => checkpath (fun _ _ => c_rel c) boundary_fix (c_priv c) (c_rx c) t
                          (repeat volumes_rx (c_nvol c)) (c_cwd c) (c_file c))
      (perms (c_table c)).

Definition ok (c : case) : bool :=
  keys_nonempty (c_table c)
  && (length (c_table c) <=? 5)%nat
  && same_table (fold_left tbl_step (c_ops c) (c_init c)) (c_table c)
  && match c_obs c with [] => false | _ :: _ => true end
  && let res := model_results c in
     forallb (fun o => existsb (fun m => option_eqb bytes_eqb m (Some o)) res) (c_obs c).
