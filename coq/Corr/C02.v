(* Correspondence evaluator for C02: the model of the full call (Model/Args.v) is run on the
   configuration, the entry point and the ARGUMENT LIST the implementation ran on, and its
   events are compared with what the recording writers saw: which writers, in which order, how
   many Writes, and the payload BYTE FOR BYTE (the timestamp text of the record is time.Now():
   it is cut out of the observed payload and handed to the model).  Where the encoder model has
   no bytes (markup in a coloured message, an attribute container or a MarshalJSON value in
   value position) the observed payload must still end with a line feed. *)
Require Import Verif.Model.Base Verif.Model.Decision Verif.Model.Level Verif.Model.Mode Verif.Model.Attrs
  Verif.Model.Encode Verif.Model.Writers Verif.Model.Deliver Verif.Model.Args.
Require Import Verif.Corr.Pool Verif.Corr.Enc.

Record case := mk {
  c_errdev : list Z;                 (* key set of mLevelUseErrorDevice *)
  c_as : list (Z * Z);               (* mLevelIsEnabledAs *)
  c_dbg : bool;
  c_flags : Z;
  c_ops : list wop;                  (* writer configuration calls on the fresh logger *)
  c_level : Z;                       (* the logger's level *)
  c_mode : shape;
  c_name : bytes;
  c_callinfo : bytes * Z * bytes;    (* file, line, function of the call statement (calibrated per entry point) *)
  c_tagw : Z;
  c_minw : Z;
  c_ts : bytes;                      (* timestamp text cut out of the observed payload *)
  c_own : list arg;                  (* logger.Set(own...) *)
  c_ep : entry;
  c_args : list arg;
  c_panicked : bool;                 (* the call panicked (recover) *)
  c_writers : list Z;                (* observed: the writer of every Write, in order *)
  c_payloads : list bytes            (* observed: the distinct payloads, in order of first appearance *)
}.

Definition ends_lf_b (b : bytes) : bool :=
  match rev b with x :: _ => byte_eqb x x0a | [] => false end.

Definition payload_ok (p : option bytes) (obs : list bytes) : bool :=
  match obs with
  | [b] => match p with Some x => bytes_eqb x b | None => ends_lf_b b end
  | _ => false
  end.

Definition ev_writer (e : event) : Z := match e with Write w _ => w end.

Definition ok (isprint : Z -> bool) (c : case) : bool :=
  let cfg := {| x_l := {| l_writers := fold_left (wstep is_lw) (c_ops c) None; l_errdev := c_errdev c; l_as := c_as c;
                          l_dbg := c_dbg c; l_level := c_level c; l_intesting := false; l_flags := c_flags c |};
                x_mode := c_mode c; x_name := c_name c; x_callinfo := c_callinfo c; x_tagw := c_tagw c;
                x_minw := c_minw c; x_ts := c_ts c; x_own := c_own c |} in
  match log_call_full isprint enc_registry cfg (c_ep c) (c_args c) with
  | Panicked (RTypeAssertion _) =>
      c_panicked c && match c_writers c with [] => true | _ => false end
  | Panicked _ => false
  | Returned evs =>
      negb (c_panicked c)
      && list_eqb Z.eqb (map ev_writer evs) (c_writers c)
      && match evs with
         | [] => match c_payloads c with [] => true | _ => false end
         | Write _ p :: _ => payload_ok p (c_payloads c)
         end
  end.
