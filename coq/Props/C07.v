(* C07 - Attribute assembly: sources, precedence, uniqueness and order.
   Only property theorems here; each is closed by [exact] of a lemma of Proofs/.

   Model: Model/Collect.v ([collect] = Entry.collectArgs with fromCtx and
   walkParentAttrs; [printed] = what serializeAttrs prints of it: every level
   sorted by key, the last of equal keys kept - Model/Attrs.v norm_attrs, whose
   sort is the stable one the repository uses since commit e5ee9d6).
   [collect] has a switch: fx = false is collectArgs as found (ancestors are only
   looked at `if len(s.attrs) > 0`), fx = true the proposed one-line repair
   (proposed_fix_C07.diff).  Collect.fix_inherit says which variant the
   correspondence check compares with the implementation.

   chain = own :: up: the logger's own attributes, then those of its parent,
   grand-parent, ... root.  keys = the logger's registered context keys, ctx = the
   context of the call (None = nil context). *)
Require Import Verif.Model.Base Verif.Model.Mode Verif.Model.Attrs Verif.Model.Encode Verif.Model.Collect.
Require Import Verif.Proofs.SortP Verif.Proofs.CollectP.
Require Import Verif.Model.CollectRef.
Require Verif.Gen.Assembly Verif.Proofs.GenCollectP.

(* ---- the source against the model (Gen/Assembly.v is translated from Entry.walkParentAttrs and
   Entry.collectArgs on every run).  A *Entry is read as its chain of own attribute lists, *kvps
   as the list it points to; [inherit_on flags] is IsAnyBitsSet(LattrsR). ---- *)

(* walkParentAttrs is recursive; this is its induction step: if the recursive call on the parent
   appends what the model says for the parent's chain, the body appends what the model says for the
   chain itself - the early return for a logger without attributes when the flag is off, the ancestors
   first (outermost first) when and only when the flag is on, then the own attributes *)
Theorem C07_gen_walk_parents : forall flags ctx lvl chain kvps,
  let inh := inherit_on flags in
  Assembly.walk_parent_attrs (fun c k => k ++ walk_parents inh c) flags ctx lvl chain kvps =
  kvps ++ walk_parents inh chain.
Proof. exact GenCollectP.gen_walk_parents. Qed.
Print Assumptions C07_gen_walk_parents.

(* collectArgs, given that its three callees append what the model says (fromCtx: the context
   values of the registered keys; walkParentAttrs: see above; argsToAttrs: the call's attributes),
   computes the model's [collect] in the repaired variant: context, then chain, then arguments *)
Theorem C07_gen_collect : forall flags keys ctxv chain args rough lvl,
  let inh := inherit_on flags in
  Assembly.collect_args (fun _ k => k ++ from_ctx keys ctxv) (fun c k => k ++ walk_parents inh c) (fun k a => k ++ a)
    flags (match keys with [] => false | _ :: _ => true end) chain (chain_attrs chain) tt [] rough lvl args =
  collect inh true keys ctxv chain args.
Proof. exact GenCollectP.gen_collect. Qed.
Print Assumptions C07_gen_collect.

(* ORDER: the printed attributes have strictly ascending keys (byte-wise; a nil
   entry, which prints nothing, sorts first) at top level and inside every group
   at every depth.  Both variants, every input. *)
Theorem C07_order : forall inheritR fx keys ctx chain args,
  all_levels strictly (printed inheritR fx keys ctx chain args).
Proof. exact printed_order. Qed.
Print Assumptions C07_order.

(* UNIQUENESS: each key occurs at most once at every level (and at most one nil
   entry, at the front). *)
Theorem C07_once : forall inheritR fx keys ctx chain args,
  all_levels (fun l => NoDup (keys_of l)) (printed inheritR fx keys ctx chain args) /\
  all_levels (fun l => match l with [] => True | _ :: t => ~ In ANil t end) (printed inheritR fx keys ctx chain args).
Proof. intros. split; [apply printed_once|apply printed_one_nil]. Qed.
Print Assumptions C07_once.

(* SOURCES (repaired variant): a key is printed iff the context carries a non-nil
   value for a registered string/Stringer key of that name, or - iff the flag is
   on - an ancestor has it, or the logger has it, or the call has it. *)
Theorem C07_sources : forall inheritR keys ctx own up args k,
  (exists v, In (A k v) (printed inheritR true keys ctx (own :: up) args)) <->
  (  (exists c ck v, ctx = Some c /\ In ck keys /\ ckey_name ck = Some k /\ ctx_value c ck = Some v /\ is_nil v = false)
  \/ (inheritR = true /\ exists anc v, In anc up /\ In (A k v) anc)
  \/ (exists v, In (A k v) own)
  \/ (exists v, In (A k v) args)).
Proof. exact printed_sources. Qed.
Print Assumptions C07_sources.

(* the same for either variant: the code as found (fx = false) takes the ancestors
   only if, in addition, the logger has own attributes *)
Theorem C07_sources_either_variant : forall inheritR fx keys ctx own up args k,
  (exists v, In (A k v) (printed inheritR fx keys ctx (own :: up) args)) <->
  (  (exists c ck v, ctx = Some c /\ In ck keys /\ ckey_name ck = Some k /\ ctx_value c ck = Some v /\ is_nil v = false)
  \/ (inheritR && (fx || negb (Nat.eqb (length own) 0)) = true /\ exists anc v, In anc up /\ In (A k v) anc)
  \/ (exists v, In (A k v) own)
  \/ (exists v, In (A k v) args)).
Proof. exact printed_sources_gen. Qed.
Print Assumptions C07_sources_either_variant.

(* a nil context, a context without values and a logger without registered keys
   contribute nothing; nothing printed for a key whose context value is nil *)
Theorem C07_context_absent : forall keys ctx,
  from_ctx keys None = [] /\ from_ctx keys (Some []) = [] /\ from_ctx [] ctx = [] /\ ~ In ANil (from_ctx keys ctx).
Proof.
  intros. split; [apply from_ctx_nil_ctx|]. split; [apply from_ctx_empty_ctx|].
  split; [apply from_ctx_no_keys|apply from_ctx_no_nil].
Qed.
Print Assumptions C07_context_absent.

(* PRECEDENCE (repaired variant): the value printed for k is the (normalised) value
   of the LAST occurrence of k in the order context, ancestors outermost first iff
   the flag, own attributes, call arguments. *)
Theorem C07_precedence : forall inheritR keys ctx own up args k v,
  In (A k v) (printed inheritR true keys ctx (own :: up) args) <->
  option_map norm_value (last_value k (sources inheritR keys ctx own up args)) = Some v.
Proof. exact printed_precedence. Qed.
Print Assumptions C07_precedence.

(* ... which for the code as found holds when the logger has own attributes or the flag is off *)
Theorem C07_precedence_found_partial : forall inheritR keys ctx own up args k v,
  own <> [] \/ inheritR = false ->
  (In (A k v) (printed inheritR false keys ctx (own :: up) args) <->
   option_map norm_value (last_value k (sources inheritR keys ctx own up args)) = Some v).
Proof. exact printed_precedence_found. Qed.
Print Assumptions C07_precedence_found_partial.

(* the order of precedence spelled out: call site over logger over ancestor (iff
   the flag; the nearer ancestor over the farther) over context *)
Theorem C07_precedence_order : forall inheritR keys ctx own up args k,
  last_value k (sources inheritR keys ctx own up args) =
  match last_value k args with
  | Some v => Some v
  | None =>
    match last_value k own with
    | Some v => Some v
    | None =>
      match (if inheritR then last_value k (concat (rev up)) else None) with
      | Some v => Some v
      | None => last_value k (from_ctx keys ctx)
      end
    end
  end.
Proof. exact sources_last_value. Qed.
Print Assumptions C07_precedence_order.

Theorem C07_nearer_ancestor_wins : forall k parent up,
  last_value k (concat (rev (parent :: up))) =
  match last_value k parent with Some v => Some v | None => last_value k (concat (rev up)) end.
Proof. exact ancestors_last_value. Qed.
Print Assumptions C07_nearer_ancestor_wins.

Theorem C07_call_site_wins : forall inheritR keys ctx own up args k v,
  last_value k args = Some v ->
  In (A k (norm_value v)) (printed inheritR true keys ctx (own :: up) args).
Proof. exact call_site_wins. Qed.
Print Assumptions C07_call_site_wins.

Theorem C07_logger_beats_ancestors_and_context : forall inheritR keys ctx own up args k v,
  last_value k args = None -> last_value k own = Some v ->
  In (A k (norm_value v)) (printed inheritR true keys ctx (own :: up) args).
Proof. exact logger_beats_ancestors_and_context. Qed.
Print Assumptions C07_logger_beats_ancestors_and_context.

Theorem C07_ancestor_beats_context : forall keys ctx own up args k v,
  last_value k args = None -> last_value k own = None -> last_value k (concat (rev up)) = Some v ->
  In (A k (norm_value v)) (printed true true keys ctx (own :: up) args).
Proof. exact ancestor_beats_context. Qed.
Print Assumptions C07_ancestor_beats_context.

Theorem C07_context_is_last : forall inheritR keys ctx own up args k v,
  last_value k args = None -> last_value k own = None ->
  (inheritR = true -> last_value k (concat (rev up)) = None) ->
  last_value k (from_ctx keys ctx) = Some v ->
  In (A k (norm_value v)) (printed inheritR true keys ctx (own :: up) args).
Proof. exact context_is_last. Qed.
Print Assumptions C07_context_is_last.

(* INHERITANCE (repaired variant): the list assembled is exactly the sources of the
   statement - the ancestors, outermost first, when and only when the flag is on ... *)
Theorem C07_inherit_iff_flag : forall inheritR keys ctx own up args,
  collect inheritR true keys ctx (own :: up) args =
  from_ctx keys ctx ++ (if inheritR then concat (rev up) else []) ++ own ++ args.
Proof. exact collect_fixed. Qed.
Print Assumptions C07_inherit_iff_flag.

(* ... so a key that only ancestors carry is printed iff the flag is on *)
Theorem C07_inherit_iff_flag_key : forall inheritR keys ctx own up args k,
  (exists anc v, In anc up /\ In (A k v) anc) ->
  last_value k (from_ctx keys ctx) = None -> last_value k own = None -> last_value k args = None ->
  ((exists v, In (A k v) (printed inheritR true keys ctx (own :: up) args)) <-> inheritR = true).
Proof. exact inherit_iff_flag. Qed.
Print Assumptions C07_inherit_iff_flag_key.

(* REFUTED for collectArgs as found: the flag is on, an ancestor carries k, the
   logger has no own attributes - k is not printed (finding
   C07/inherit-skipped-when-no-own-attrs; the witness is replayed on the
   implementation by the correspondence run) *)
Theorem C07_inherit_iff_flag_refuted : exists keys ctx own up args k,
  (exists anc v, In anc up /\ In (A k v) anc) /\
  ~ (exists v, In (A k v) (printed true false keys ctx (own :: up) args)).
Proof. exact inherit_refuted_found. Qed.
Print Assumptions C07_inherit_iff_flag_refuted.

(* what does hold of the code as found *)
Theorem C07_inherit_found_partial : forall inheritR keys ctx own up args,
  (own <> [] \/ inheritR = false ->
   collect inheritR false keys ctx (own :: up) args =
   from_ctx keys ctx ++ (if inheritR then concat (rev up) else []) ++ own ++ args) /\
  collect inheritR false keys ctx ([] :: up) args = from_ctx keys ctx ++ args.
Proof. intros. split; [apply collect_found_partial|apply collect_found_no_own]. Qed.
Print Assumptions C07_inherit_found_partial.

(* ALL FORMATS: the assembly has no format argument, and each of the three encoders
   serialises the one list [printed], one member per non-nil entry in that order *)
Theorem C07_all_formats : forall isprint m clr bg inheritR fx keys ctx chain args,
  ser_top isprint m clr bg (collect inheritR fx keys ctx chain args) =
  render_members m clr bg true (members_of isprint m clr bg [] (printed inheritR fx keys ctx chain args))
  /\ length (members_of isprint m clr bg [] (printed inheritR fx keys ctx chain args))
     = length (keys_of (printed inheritR fx keys ctx chain args)).
Proof. intros. split; [apply ser_top_printed|apply members_of_length]. Qed.
Print Assumptions C07_all_formats.

(* ---- concrete instances ---- *)
Definition ka : bytes := [x61].
Definition kb : bytes := [x62].
Definition kc : bytes := [x63].
Definition kg : bytes := [x67].

(* context c=0 a=0 (under a Stringer key), root a=1 b=1, parent b=2, logger c=3 + a group,
   call a=4 and the group again: flag on *)
Definition ex_keys : list ckey := [CKStr kc; CKStringer ka; CKStr kb].
Definition ex_ctx : option (list (ckey * value)) :=
  Some [(CKStr kc, VInt 0); (CKStringer ka, VInt 0); (CKStr kb, VNil)].
Definition ex_chain : list (list attr) :=
  [ [A kc (VInt 3); A kg (VGroup [A kb (VInt 1); A ka (VInt 1); A kb (VInt 2)])];
    [A kb (VInt 2)];
    [A ka (VInt 1); A kb (VInt 1)] ].
Definition ex_args : list attr := [A ka (VInt 4); ANil].

Example C07_example_on :
  printed true true ex_keys ex_ctx ex_chain ex_args =
  [ANil; A ka (VInt 4); A kb (VInt 2); A kc (VInt 3); A kg (VGroup [A ka (VInt 1); A kb (VInt 2)])].
Proof. vm_compute. reflexivity. Qed.

Example C07_example_off :
  printed false true ex_keys ex_ctx ex_chain ex_args =
  [ANil; A ka (VInt 4); A kc (VInt 3); A kg (VGroup [A ka (VInt 1); A kb (VInt 2)])].
Proof. vm_compute. reflexivity. Qed.

(* the hypotheses of the precedence corollaries are satisfiable *)
Example C07_example_ancestor_beats_context :
  last_value kb ex_args = None /\ last_value kb (hd [] ex_chain) = None /\
  last_value kb (concat (rev (tl ex_chain))) = Some (VInt 2).
Proof. vm_compute. repeat split. Qed.

(* the code as found and the repaired one differ exactly on a logger without own attributes *)
Example C07_example_found_vs_fixed :
  printed true false [] None ([] :: tl ex_chain) [] = [] /\
  printed true true [] None ([] :: tl ex_chain) [] = [A ka (VInt 1); A kb (VInt 2)].
Proof. vm_compute. split; reflexivity. Qed.
