(* C04 - JSON mode: each record is one line of valid JSON decoding to what was logged.

   Model side: Model/Encode.v (Entry.printImpl and helpers in JSON mode), Model/JsonEsc.v
   (appendEscapedJSONString), Model/Attrs.v (sort + de-duplication of serializeAttrs).
   Specification side: Model/Json.v - [parse_json], a byte-level RFC 8259 parser with
   ORDERED object members and explicit fuel for nesting (running out of fuel is a result
   of its own, and a [Some] excludes it), [json_of], the expected object of DESIGN.md A.1,
   and [fixu s] = s with every byte that is not part of a valid UTF-8 sequence replaced by
   U+FFFD (what every reader of JSON text delivers).

   Domain (boolean predicates, evaluated by the correspondence run on every generated record):
   - [dom_cfg_b c]: the logger is in JSON mode and the timestamp text - produced by
     time.AppendFormat and written between quotes WITHOUT escaping - consists of bytes
     0x20..0x7e other than the quote and the backslash;
   - [dom_attrs_b attrs]: the same for the pre-rendered text of VFloat, VComplex, VTime and of
     the elements of VFloats and VTimes (strconv.AppendFloat / FormatComplex / RFC3339Nano,
     also written raw between quotes).  NOTHING is assumed about the message, the logger
     name, the keys, strings, byte slices, error texts, durations, the %v fallback text, the
     caller's file and function: arbitrary bytes, at every nesting depth.
   - [blank_print c msg = false] (round trip only): Print/Println at the Always level with a
     blank message writes one bare newline instead of a record (properties C02/C15).
   User marshallers and value stringers are not in the value type (outside the property).

   Every theorem holds for every function [isprint] and every level registry [g]. *)
Require Import Verif.Model.Base Verif.Model.Dec Verif.Model.Level Verif.Model.Mode.
Require Import Verif.Model.JsonEsc Verif.Model.Attrs Verif.Model.Encode Verif.Model.Json.
Require Import Verif.Proofs.EscP Verif.Proofs.SortP Verif.Proofs.JsonStrP Verif.Proofs.JsonP.
Require Import Verif.Model.GoSem.
Require Verif.Gen.Escapes Verif.Gen.Tables Verif.Proofs.GenEscP.
Require Verif.Gen.Layout Verif.Model.LayoutRef Verif.Proofs.GenLayoutP.

(* ---- the source against the model: PrintCtx.appendEscapedJSONString as it is in /repo now
   (translated on every run, Gen/Escapes.v: the index loop with its lazily copied run val[start:i],
   utf8.DecodeRuneInString = Model/Utf8.v, the tables hex and safeSet = Gen/Tables.v, every index
   and slice a possible panic) appends exactly the model's json_escape to the buffer, for every
   byte string and every buffer.  [None] would be a panic or a loop that outruns its declared fuel
   len(val)+1: neither happens. ---- *)
Theorem C04_gen_json_escape : forall val buf,
  Escapes.json_escape Tables.t_hex Tables.t_safeSet val buf = Some (buf ++ json_escape val).
Proof. exact GenEscP.gen_json_escape. Qed.
Print Assumptions C04_gen_json_escape.

(* a member name goes through that escaper between two quotes (JSON mode) or is copied (otherwise):
   PrintCtx.pcAppendStringKey as it is in /repo now; a helper it calls (a fast path) would be
   translated with it *)
Theorem C04_gen_string_key : forall jsonMode buf str,
  Escapes.string_key Tables.t_hex Tables.t_safeSet jsonMode buf str =
  Some (buf ++ if jsonMode then json_quote str else str).
Proof. exact GenEscP.gen_string_key. Qed.
Print Assumptions C04_gen_string_key.

(* The quoted form of ANY byte string (quotes, backslashes, CR/LF, control characters,
   U+2028/9, invalid UTF-8, ...) followed by anything is read back by the JSON parser as
   one string, the text a UTF-8 reader sees, leaving exactly what followed. *)
Theorem C04_string_roundtrip : forall s rest f,
  parse_json (S f) (json_quote s ++ rest) = Some (JStr (fixu s), rest).
Proof. exact string_roundtrip. Qed.
Print Assumptions C04_string_roundtrip.

(* ... and valid UTF-8 comes back byte-for-byte *)
Theorem C04_string_exact : forall s, valid_utf8b s = true -> fixu s = s.
Proof. exact fixu_valid. Qed.
Print Assumptions C04_string_exact.

(* Framing: every byte of the record except the last is >= 0x20 and the last is the
   newline - no message, key or value can break the line or start a second record. *)
Theorem C04_one_line : forall isprint g c msg attrs out,
  dom_cfg_b c = true -> dom_attrs_b attrs = true ->
  encode isprint g c msg attrs = Some out ->
  exists body, out = body ++ [x0a] /\ Forall noctl body.
Proof. exact record_one_line. Qed.
Print Assumptions C04_one_line.

Theorem C04_one_line_no_lf : forall body, Forall noctl body -> ~ In x0a body.
Proof. exact noctl_no_lf. Qed.
Print Assumptions C04_one_line_no_lf.

(* The record without its newline is exactly ONE syntactically valid JSON value - the
   expected object, members in order, values preserved as json_of says - with nothing
   after it; for any nesting depth ([rec_depth] = depth of the attribute tree, at least 1
   with the caller field), with every larger fuel as well. *)
Theorem C04_roundtrip : forall isprint g c msg attrs out fuel,
  dom_cfg_b c = true -> dom_attrs_b attrs = true -> blank_print c msg = false ->
  (rec_depth c attrs + 2 <= fuel)%nat ->
  encode isprint g c msg attrs = Some out ->
  exists body, out = body ++ [x0a] /\ parse_json fuel body = Some (json_of g c msg attrs, []).
Proof. exact record_roundtrip. Qed.
Print Assumptions C04_roundtrip.

(* No forgery: the decoded object has exactly the members time, [logger], level, msg, one
   per distinct attribute key in strictly ascending byte order, [caller] - whatever the
   message, keys and values contain.  (Member names are [fixu key]: two different keys that
   are not UTF-8 can read as the same name; on valid UTF-8 keys the names are the keys.) *)
Theorem C04_no_forgery : forall isprint g c msg attrs out fuel,
  dom_cfg_b c = true -> dom_attrs_b attrs = true -> blank_print c msg = false ->
  (rec_depth c attrs + 2 <= fuel)%nat ->
  encode isprint g c msg attrs = Some out ->
  exists body ms, out = body ++ [x0a] /\ parse_json fuel body = Some (JObj ms, []) /\
                  map fst ms = member_names c attrs /\
                  keys_ascending (attr_keys (norm_attrs attrs)) /\ NoDup (attr_keys (norm_attrs attrs)).
Proof. exact record_no_forgery. Qed.
Print Assumptions C04_no_forgery.

(* Key order: at EVERY nesting level of the normalised tree (the one json_of and the
   encoder walk) the keys are strictly ascending, each once, and for each key the LAST
   occurrence in the input won. *)
Theorem C04_keys_order : forall attrs,
  levels_strict (norm_attrs attrs) /\
  (forall l, levels_strict l -> keys_ascending (attr_keys l) /\ NoDup (attr_keys l)) /\
  (forall k, last_value k (norm_attrs attrs) = last_value k (map norm_attr attrs)) /\
  (forall items, norm_value (VGroup items) = VGroup (sort_dedupe (map norm_attr items)) /\
                 forall k, last_value k (sort_dedupe (map norm_attr items)) = last_value k (map norm_attr items)).
Proof. exact keys_order. Qed.
Print Assumptions C04_keys_order.

(* ---- non-vacuity: a concrete hostile record inside the domain ---- *)
(* TIE TO THE SOURCE: THE FRAMING.  PrintCtx.Begin and End, translated from the source on every run
   (Gen/Layout.v): in JSON mode Begin appends an opening brace and End a closing brace, in the other modes
   neither appends a brace; End(true) appends, after that, exactly one line feed, End(false) none; nothing
   else is written (the buffer before is a prefix). *)
Theorem C04_gen_pc_begin : forall jsonMode buf,
  Layout.pc_begin jsonMode buf = Some (buf ++ (if jsonMode then [x7b] else [])).
Proof. exact GenLayoutP.gen_pc_begin. Qed.
Print Assumptions C04_gen_pc_begin.
Theorem C04_gen_pc_end : forall jsonMode buf newline,
  Layout.pc_end jsonMode buf newline = Some (buf ++ (if jsonMode then [x7d] else []) ++ (if newline then [x0a] else [])).
Proof. exact GenLayoutP.gen_pc_end. Qed.
Print Assumptions C04_gen_pc_end.

(* THE SEPARATORS AND THE APPEND HELPERS.  pcAppendByte, pcAppendStringValue, pcAppendColon and pcAppendComma,
   translated from the source on every run (Gen/Layout.v; WriteByte / WriteString append, C19): a byte / a text is
   appended and nothing else happens; between a key and its value stands ':' in JSON mode and '=' otherwise,
   between two members ',' in JSON mode and a blank otherwise.  The first two are the renderings the translations
   of the escapers and of the framing declare for these helpers: now theorems about the code. *)
Theorem C04_gen_pc_append_byte : forall buf b, Layout.pc_append_byte buf b = Some (buf ++ [zb b]).
Proof. exact GenLayoutP.gen_pc_append_byte. Qed.
Print Assumptions C04_gen_pc_append_byte.
Theorem C04_gen_pc_append_string_value : forall buf str, Layout.pc_append_string_value buf str = Some (buf ++ str).
Proof. exact GenLayoutP.gen_pc_append_string_value. Qed.
Print Assumptions C04_gen_pc_append_string_value.
Theorem C04_gen_pc_append_colon : forall jsonMode buf,
  Layout.pc_append_colon jsonMode buf = Some (buf ++ [if jsonMode then x3a else x3d]).
Proof. exact GenLayoutP.gen_pc_append_colon. Qed.
Print Assumptions C04_gen_pc_append_colon.
Theorem C04_gen_pc_append_comma : forall jsonMode buf,
  Layout.pc_append_comma jsonMode buf = Some (buf ++ [if jsonMode then x2c else x20]).
Proof. exact GenLayoutP.gen_pc_append_comma. Qed.
Print Assumptions C04_gen_pc_append_comma.

Definition ex_reg : registry :=
  {| r_all := [4]; r_l2s := [(4, [x69; x6e; x66; x6f])]; r_s2l := []; r_tags := []; r_as := []; r_errdev := []; r_colors := [] |}.
Definition ex_cfg : ecfg :=
  {| e_mode := ShJSON; e_name := [x73; x76; x63]; e_lvl := 4;
     e_caller := Some ([x2f; x61; x22; x2e; x67; x6f], 42, [x6d; x0a; x66]);
     e_tagw := 3; e_minw := 36; e_ts := [x32; x30; x32; x36; x2d; x31; x30; x2d; x30; x31] |}.
(* message: quote, backslash, CR LF, NUL, U+2028, an invalid byte, and a forged member *)
Definition ex_msg : bytes :=
  [x22; x5c; x0d; x0a; x00; xe2; x80; xa8; xff; x22; x2c; x22; x6c; x65; x76; x65; x6c; x22; x3a; x22; x78; x22; x7d; x0a; x7b].
Definition ex_attrs : list attr :=
  [A [x7a] (VInt (-7)); ANil; A [x6b; x22; x0a] (VStr [x76; x09; xc3]);
   A [x67] (VGroup [A [x62] (VBools [true; false]); A [x61] VNil; A [x62] (VErr [x65; x22]);
                    A [x67; x32] (VGroup [A [x75] (VUint 18446744073709551615); A [x66] (VFloats [[x31; x2e; x35]; [x4e; x61; x4e]])])]);
   A [x7a] (VBytes [x00; xff])].

Example C04_example_in_domain :
  dom_cfg_b ex_cfg = true /\ dom_attrs_b ex_attrs = true /\ blank_print ex_cfg ex_msg = false /\ rec_depth ex_cfg ex_attrs = 3%nat.
Proof. vm_compute. repeat split. Qed.

Example C04_example_roundtrip :
  match encode (fun _ => true) ex_reg ex_cfg ex_msg ex_attrs with
  | Some out => parse_json 5 (removelast out) = Some (json_of ex_reg ex_cfg ex_msg ex_attrs, [])
                /\ last out x00 = x0a /\ forallb (fun b => 32 <=? bz b) (removelast out) = true
  | None => False
  end.
Proof. vm_compute. repeat split. Qed.

(* fuel is a real bound: one unit less than the theorem asks for is reported as out of fuel *)
Example C04_example_fuel :
  match encode (fun _ => true) ex_reg ex_cfg ex_msg ex_attrs with
  | Some out => pval 4 (removelast out) = PFuel
  | None => False
  end.
Proof. vm_compute. reflexivity. Qed.

(* the parser rejects what the property is about: a raw newline, a raw control byte,
   Go-syntax escapes, a bare <nil>, a missing comma, trailing garbage is left over *)
Example C04_parser_rejects :
  parse_json 3 [x7b; x22; x61; x22; x3a; x22; x0a; x22; x7d] = None /\
  parse_json 3 [x7b; x22; x61; x22; x3a; x22; x5c; x78; x30; x31; x22; x7d] = None /\
  parse_json 3 [x7b; x22; x61; x22; x3a; x3c; x6e; x69; x6c; x3e; x7d] = None /\
  parse_json 3 [x7b; x22; x61; x22; x3a; x31; x22; x62; x22; x3a; x32; x7d] = None /\
  parse_json 3 [x7b; x61; x3a; x31; x7d] = None /\
  parse_json 3 [x7b; x7d; x7b; x7d] = Some (JObj [], [x7b; x7d]).
Proof. vm_compute. repeat split. Qed.

(* why the raw standard-library texts need their charset hypothesis: a float text with a
   quote in it would not read back (no Go float prints like that) *)
Example C04_plain_needed :
  exists out, encode (fun _ => true) ex_reg ex_cfg [x6d] [A [x6b] (VFloat [x31; x22])] = Some out /\
              parse_json 5 (removelast out) = None.
Proof. eexists. split; [vm_compute; reflexivity|vm_compute; reflexivity]. Qed.
