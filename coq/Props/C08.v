(* C08 - Concurrent logging is race-free and never tears or loses a record (PARTIAL).

   Model/Conc.v: one log call is the program
     GetAttrs; Collect; GetPC; Set; Format; WriteOut; PutPC; PutAttrs
   (logContext / print of slog/entry.go) over the two sync.Pools; a schedule is ANY
   list of (call id, pool choice) - any number of calls, any interleaving, any object
   the pool cares to hand out.  Every step has a footprint: the locations it reads and
   writes (pooled attribute slices, pooled PrintCtx, and the SHARED inputs: a logger's
   attribute slice, the caller's argument slice, the items of group / Attrs values).
   [enc] is the sequential encoder (C04-C06), [inplace] what sort + dedupeSlice leave
   in a slice, [refs] the shared group slices a record serialises - all arbitrary.

   [fx = false] is the code as it is: serializeAttrs sorts and de-duplicates the items
   of a group value IN PLACE, i.e. it writes memory shared with the caller and with
   every other goroutine that logs the same value.  [fx = true] copies nested slices
   before sorting (proposed_fix_C08.diff).  Conc.fix_copy_nested says which variant the
   correspondence check compares with the implementation.
   [safe]: fx = true, or (code as it is) no record serialises a shared group slice.

   PARTIAL: the Go memory model, sync.Pool, real scheduling and the atomicity of a
   destination's own Write are not modelled.  Steps are atomic, which is justified for
   the variant without conflicting concurrent steps (C08_no_conflict); the tie to the
   code is the frame test, the stress run and the race detector (harness/c08.go).
   Concurrent reconfiguration of a logger is outside the claim: logger attributes,
   formats and destinations are constants of a run. *)
Require Import Verif.Model.Base Verif.Model.Attrs Verif.Model.Conc.
Require Import Verif.Proofs.ConcP.
From Coq Require Import Permutation.

(* both variants, every schedule, every number of calls: no pooled object is free twice,
   held by two calls, or both held and free *)
Theorem C08_exclusive : forall item msg payload inplace refs enc fx lattrs groups0 calls sched,
  let s := @run item msg payload inplace refs enc fx lattrs groups0 calls sched in
  pool_ok (st_A s) /\ pool_ok (st_P s).
Proof. intros. apply exclusive. Qed.
Print Assumptions C08_exclusive.

(* no step writes a shared input: every written location is a pool object the stepping
   call holds, and the shared group slices are what they were *)
Theorem C08_frame : forall item msg payload inplace refs enc fx lattrs groups0 calls,
  safe refs fx lattrs calls -> forall sched,
  let s := @run item msg payload inplace refs enc fx lattrs groups0 calls sched in
  (forall c l, In l (writes refs fx calls s c) -> shared_loc l = false /\ owned s c l) /\
  st_groups s = groups0.
Proof.
  intros ? ? ? ? ? ? ? ? ? ? Hs sched. split; [intros c l; apply frame, Hs|apply shared_unchanged, Hs].
Qed.
Print Assumptions C08_frame.

(* the code as it is: the Format step of ONE call that logs a group writes the group's
   slice, and after the call the caller's slice z=1 a=2 m=3 a=4 reads a=4 m=3 z=1 z=1 *)
Theorem C08_group_sort_refuted :
  In (LGroup 0) (writes rrefs false w_calls (rrun false w_lattrs w_groups w_calls (w_sched4 0%nat)) 0%nat) /\
  shared_loc (LGroup 0) = true /\
  st_groups (rrun false w_lattrs w_groups w_calls (w_sched4 0%nat ++ w_sched4 0%nat)) 0%nat
  = [A [x61] (VInt 4); A [x6d] (VInt 3); A [x7a] (VInt 1); A [x7a] (VInt 1)].
Proof. exact group_sort_refuted. Qed.
Print Assumptions C08_group_sort_refuted.

(* race freedom of the discipline: in every reachable state, what the next step of one
   call writes is neither read nor written by the next step of any other call *)
Theorem C08_no_conflict : forall item msg payload inplace refs enc fx lattrs groups0 calls,
  safe refs fx lattrs calls -> forall sched c1 c2 l, c1 <> c2 ->
  let s := @run item msg payload inplace refs enc fx lattrs groups0 calls sched in
  In l (writes refs fx calls s c1) ->
  ~ In l (reads refs fx calls s c2) /\ ~ In l (writes refs fx calls s c2).
Proof. intros ? ? ? ? ? ? ? ? ? ? Hs sched c1 c2 l Hne. apply no_conflict; assumption. Qed.
Print Assumptions C08_no_conflict.

(* the code as it is: two calls that log the same group are both about to format -
   each writes the slice the other reads and writes *)
Theorem C08_no_conflict_refuted :
  let s := rrun false w_lattrs w_groups w_calls (w_sched4 0%nat ++ w_sched4 1%nat) in
  In (LGroup 0) (writes rrefs false w_calls s 0%nat) /\
  In (LGroup 0) (writes rrefs false w_calls s 1%nat) /\
  In (LGroup 0) (reads rrefs false w_calls s 1%nat).
Proof. exact no_conflict_refuted. Qed.
Print Assumptions C08_no_conflict_refuted.

(* every Write a destination observes is the complete record of exactly one call, the
   one that call formats on its own ([payload_of]: the sequential encoder on the call's
   own logger, message and attributes): the log is the concatenation, in the order of
   the WriteOut steps, of the records of the calls that reached WriteOut, each exactly
   once.  Interleaving cannot mix payloads. *)
Theorem C08_atomic_records : forall item msg payload inplace refs enc fx lattrs groups0 calls,
  safe refs fx lattrs calls -> forall sched,
  let s := @run item msg payload inplace refs enc fx lattrs groups0 calls sched in
  st_log s = flat_map (writes_of enc lattrs groups0 calls) (st_wo s) /\
  NoDup (st_wo s) /\
  (forall c, In c (st_wo s) <-> c_admitted (calls c) = true /\ (6 <= st_pc s c)%nat).
Proof. intros ? ? ? ? ? ? ? ? ? ? Hs sched. apply log_is_records, Hs. Qed.
Print Assumptions C08_atomic_records.

(* delivered multiset = admitted multiset: when the calls of a finite set all ran to
   completion and no other call started, the log is a permutation of the records of
   the admitted ones (nothing torn, lost or duplicated) *)
Theorem C08_multiset : forall item msg payload inplace refs enc fx lattrs groups0 calls,
  safe refs fx lattrs calls -> forall sched cs,
  let s := @run item msg payload inplace refs enc fx lattrs groups0 calls sched in
  NoDup cs -> (forall c, In c cs -> completed calls s c) -> (forall c, ~ In c cs -> st_pc s c = 0%nat) ->
  Permutation (st_log s) (flat_map (writes_of enc lattrs groups0 calls) (filter (fun c => c_admitted (calls c)) cs)).
Proof. intros ? ? ? ? ? ? ? ? ? ? Hs sched cs. apply atomic_records_perm, Hs. Qed.
Print Assumptions C08_multiset.

(* an admitted call that ran to completion has every one of its writes in the log,
   whatever the other calls did and however far they got *)
Theorem C08_no_lost : forall item msg payload inplace refs enc fx lattrs groups0 calls,
  safe refs fx lattrs calls -> forall sched c w,
  let s := @run item msg payload inplace refs enc fx lattrs groups0 calls sched in
  c_admitted (calls c) = true -> completed calls s c -> In w (c_dests (calls c)) ->
  In (w, payload_of enc lattrs groups0 calls c) (st_log s).
Proof. intros ? ? ? ? ? ? ? ? ? ? Hs sched c w. apply no_lost, Hs. Qed.
Print Assumptions C08_no_lost.

(* the tree model used by the frame test: the fixed variant leaves the caller's values alone *)
Theorem C08_after_call_fixed : forall l, after_call true l = l.
Proof. exact after_call_fixed. Qed.
Print Assumptions C08_after_call_fixed.

(* the hypotheses are satisfiable, and a concrete interleaving: in the fixed variant two
   calls sharing a group run interleaved (0 and 1 up to Format, 1 finishes, 0 finishes);
   the log holds both records, complete, the group slice is untouched *)
Example C08_example :
  let s := rrun true w_lattrs w_groups w_calls
             (w_sched4 0%nat ++ w_sched4 1%nat ++ w_sched4 1%nat ++ w_sched4 0%nat) in
  safe rrefs true w_lattrs w_calls /\
  st_log s = [(1, renc 0 [x74;x77;x6f] [A [x67] (VUint 0)] w_groups);
              (1, renc 0 [x6f;x6e;x65] [A [x67] (VUint 0)] w_groups)] /\
  st_wo s = [1%nat; 0%nat] /\ st_groups s 0%nat = w_items /\
  completed w_calls s 0%nat /\ completed w_calls s 1%nat.
Proof. split; [left; reflexivity|]. vm_compute. repeat split. Qed.

Example C08_after_call_example :
  after_call false [A [x67] (VGroup w_items)]
  = [A [x67] (VGroup [A [x61] (VInt 4); A [x6d] (VInt 3); A [x7a] (VInt 1); A [x7a] (VInt 1)])].
Proof. exact after_call_example. Qed.
