(* C15 - log/slog handler and std log bridge preserve content, severity and gating.

   Model: Model/Adapters.v.  Each of the three repairs proposed for this property
   has a switch there (fix_log_default, fix_bridge, fix_derived) that says which
   variant of the code the correspondence check (Corr/C15.v) and the C15_gen_*
   ties run against; the theorems below are about BOTH variants, named
   [.._fixed] / [.._keep] for the repaired code and [.._refuted] / [.._partial]
   for the code as it was found.

   Reading of the statement:
   - "emitted once by the underlying logger with the same message, the record's
     own time, all its attributes": what Handle hands to the logger's print
     routine (one [lrecord] on the handler's logger [lcfg]); the attribute trees
     are related by [same_val] (same keys, same nesting to any depth, same leaf
     values, a LogValuer standing for what it resolves to).
   - "namesake severity for Debug/Info/Warn/Error ... Enabled answers exactly as
     the underlying logger's gating": [enabled_code] of C01 on the namesake.
   - "no level other than the explicit Fatal/Panic constants maps to a terminating
     severity": for every z in Z, on each of the paths that accept a log/slog level.
   - the bridge: one record at the bridge severity with the buffer minus ONE final
     line feed, iff the logger admits that severity.
   Tables and constants (t_mLogSlogLevelToLevel, c_LevelFatal ...) are the ones
   regenerated from the source on every run. *)
Require Import Verif.Model.Base Verif.Model.Decision Verif.Model.Level Verif.Model.Mode Verif.Model.DecisionRef
  Verif.Model.Adapters.
Require Import Verif.Gen.Tables Verif.Gen.Decisions.
Require Import Verif.Proofs.LevelP Verif.Proofs.AdaptersP.
Require Import Verif.Model.GoSem Verif.Model.AdaptRef.
Require Verif.Gen.Handlers Verif.Proofs.GenAdaptP.

(* ---- the source against the model: handler4LogSlog.with as it is in /repo now (translated on every run,
   Gen/Handlers.v).  s.ops is a slice of HEAP cells (array, offset, length, capacity) and the heap the list of
   arrays, so that two slices can share a backing array - which is what `append(s.ops, op)` would do when the
   parent has spare capacity.  [h_ok]: the parent's slice lies inside its array. ---- *)

(* with(op) allocates a NEW array holding the receiver's ops followed by op; no existing array is written *)
Theorem C15_gen_handler_with : forall zero growcap lg ops op heap, h_ok heap ops = true ->
  Handlers.handler_with zero growcap lg ops op heap = handler_with_ref zero growcap lg ops op heap.
Proof. exact GenAdaptP.gen_handler_with. Qed.
Print Assumptions C15_gen_handler_with.

(* hence two handlers derived from ONE parent do not disturb each other: after parent.with(a) and then
   parent.with(b), the first still reads parent ++ [a], the second parent ++ [b], the parent is unchanged *)
Theorem C15_gen_siblings_independent : forall zero growcap lg ops a b heap, h_ok heap ops = true ->
  match Handlers.handler_with zero growcap lg ops a heap with
  | Some ((_, ops1), heap1) =>
      match Handlers.handler_with zero growcap lg ops b heap1 with
      | Some ((_, ops2), heap2) =>
          h_read heap2 ops1 = h_read heap ops ++ [a] /\ h_read heap2 ops2 = h_read heap ops ++ [b]
          /\ h_read heap2 ops = h_read heap ops
      | None => False
      end
  | None => False
  end.
Proof. exact GenAdaptP.siblings_independent. Qed.
Print Assumptions C15_gen_siblings_independent.

(* nest(fields) on the same heap: for ops whose slices lie inside their arrays, the translated loop ends
   without a panic, writes NO existing array (the heap after is the heap before plus new arrays), the
   slice it returns reads as the nesting of fields under the ops (a group op wraps what has been built
   so far into one attribute, an attrs op puts its attributes in front), and that slice is either the
   caller's own [fields] (no op changed it) or lives in an array allocated by this call -- so it shares
   no array with any stored op.attrs, and the printer, which sorts what it is handed in place, cannot
   reorder a handler's stored attributes *)
Theorem C15_gen_handler_nest : forall zero growcap grp ops fields heap,
  (forall op, In op ops -> h_ok heap (snd op) = true) -> h_ok heap fields = true ->
  exists res extra,
    Handlers.handler_nest zero growcap grp ops fields heap = Some (res, heap ++ extra)
    /\ h_read (heap ++ extra) res
       = nest_cells grp (map (fun op => (fst op, h_read heap (snd op))) ops) (h_read heap fields)
    /\ (res = fields \/ (let '(a, _, _, _) := res in (length heap <= a)%nat)).
Proof. exact GenAdaptP.gen_handler_nest. Qed.
Print Assumptions C15_gen_handler_nest.
Require Verif.Model.BridgeRef Verif.Gen.Bridge Verif.Proofs.GenBridgeP.

(* ---- the std-log bridge: NewLogLogger and handlerWriter.Write are translated whole (Gen/Bridge.v).  The flags word,
   the logger's level, the package level and io.Discard are part of the fragment of NewLogLogger, so that a decision
   taken at construction time is a different value and not a fall-back. ---- *)

(* NewLogLogger(h, lvl) hands log.New a writer that REMEMBERS the logger and the severity and nothing else: it always
   captures the program counter, has no extra frames, no prefix, no std-log flags - whatever the flags word, the level of
   the logger or of the package, the answer of the logger's gate and its skip count are when it is built *)
Theorem C15_gen_new_log_logger : forall f_level enabled_then skip_then flags deflevel h lvl,
  Bridge.new_log_logger f_level enabled_then skip_then flags deflevel h lvl = BridgeRef.mk_bridge (h, lvl, true, 0) [] 0.
Proof. exact GenBridgeP.gen_new_log_logger. Qed.
Print Assumptions C15_gen_new_log_logger.

(* Write(buf): the logger is asked at WRITE time whether it admits the bridge severity; if so (and it can take raw
   bytes) exactly one WriteInternal at that severity with the bytes as they are and the program counter of depth 4 +
   extraFrames + the logger's skip count (0 when capturePC is off); its results are handed back; otherwise nothing *)
Theorem C15_gen_bridge_write : forall f_enabled f_skip f_getpc as_aware w_n w_e l lvl capture extra buf tr,
  Bridge.bridge_write f_enabled f_skip f_getpc as_aware w_n w_e l lvl capture extra buf tr =
  if f_enabled l lvl
  then match as_aware l with
       | Some h => (w_n, w_e, tr ++ [BridgeRef.BWInternal h lvl (if capture then f_getpc 4 (extra + f_skip l) else 0) buf])
       | None => (0, None, tr)
       end
  else (0, None, tr).
Proof. exact GenBridgeP.gen_bridge_write. Qed.
Print Assumptions C15_gen_bridge_write.

(* writeInternal(ctx, lvl, pc, buf), what the bridge's Write ends in: no index or slice expression panics; n is the whole
   length of buf; exactly one record is printed, at lvl, the current instant and pc, without attributes, whose message is
   buf minus ONE final line feed - [strip_lf] of the model, which takes off nothing else (no CR, no second LF) *)
Theorem C15_gen_write_internal : forall trim_right trim_suffix now lvl pc buf tr,
  Bridge.write_internal trim_right trim_suffix now lvl pc buf tr =
  Some (Z.of_nat (length buf), None, tr ++ [BridgeRef.BWPrint lvl now pc (strip_lf buf)]).
Proof. exact GenBridgeP.gen_write_internal_model. Qed.
Print Assumptions C15_gen_write_internal.


(* ---- ties: the five decision functions translated from the source equal the
   references the theorems are about, for all arguments ---- *)
Theorem C15_gen_bridge_admit : forall f s l, Decisions.bridge_admit f s l = bridge_admit_model fix_bridge f s l.
Proof. exact gen_bridge_admit. Qed.
Print Assumptions C15_gen_bridge_admit.

Theorem C15_gen_handler_enabled : forall m f z, Decisions.handler_enabled m f z = handler_enabled_ref m f z.
Proof. exact gen_handler_enabled. Qed.
Print Assumptions C15_gen_handler_enabled.

Theorem C15_gen_convert_logslog_level : forall m z, Decisions.convert_logslog_level m z = convert_logslog_level_ref m z.
Proof. exact gen_convert_logslog_level. Qed.
Print Assumptions C15_gen_convert_logslog_level.

Theorem C15_gen_convert_level_to_logslog : forall m z,
  Decisions.convert_level_to_logslog m z = convert_level_to_logslog_ref m z.
Proof. exact gen_convert_level_to_logslog. Qed.
Print Assumptions C15_gen_convert_level_to_logslog.

Theorem C15_gen_logsloglevel2level : forall z, Decisions.logsloglevel2level z = log_level_conv fix_log_default z.
Proof. exact gen_logsloglevel2level. Qed.
Print Assumptions C15_gen_logsloglevel2level.

(* ---- levels ---- *)
(* the handler path (Handle): for EVERY z the four standard levels go to their
   namesakes and nothing goes to Panic or Fatal *)
Theorem C15_levels : forall z,
  let c := convert_logslog_level_ref t_mLogSlogLevelToLevel z in
  (z = slog_debug -> c = lv_debug) /\ (z = slog_info -> c = lv_info) /\
  (z = slog_warn -> c = lv_warn) /\ (z = slog_error -> c = lv_error) /\
  terminating c = false.
Proof. exact handler_levels. Qed.
Print Assumptions C15_levels.

(* Entry.Log, repaired variant: the same, and Panic/Fatal only for the explicit constants *)
Theorem C15_log_levels_fixed : forall z,
  let c := log_level_conv true z in
  (z = slog_debug -> c = lv_debug) /\ (z = slog_info -> c = lv_info) /\
  (z = slog_warn -> c = lv_warn) /\ (z = slog_error -> c = lv_error) /\
  (c = lv_panic -> z = c_LevelPanic) /\ (c = lv_fatal -> z = c_LevelFatal).
Proof. exact log_levels_fixed. Qed.
Print Assumptions C15_log_levels_fixed.

(* Entry.Log as found: log/slog level 1 (any level the switch does not list) is Fatal *)
Theorem C15_log_levels_refuted :
  log_level_conv false 1 = lv_fatal /\ 1 <> c_LevelFatal /\ 1 <> c_LevelPanic /\
  terminating (log_level_conv false 1) = true.
Proof. exact log_levels_refuted. Qed.
Print Assumptions C15_log_levels_refuted.

(* ... what is true of it: the namesakes, Panic only for LevelPanic, and Fatal only
   for LevelFatal among the levels the switch lists.  Missing: Fatal for every other z. *)
Theorem C15_log_levels_partial : forall z,
  let c := log_level_conv false z in
  (z = slog_debug -> c = lv_debug) /\ (z = slog_info -> c = lv_info) /\
  (z = slog_warn -> c = lv_warn) /\ (z = slog_error -> c = lv_error) /\
  (c = lv_panic -> z = c_LevelPanic) /\
  (c = lv_fatal -> z = c_LevelFatal \/ lookupZ log_listed z = None).
Proof. exact log_levels_partial. Qed.
Print Assumptions C15_log_levels_partial.

(* the repair changes nothing for the listed constants and orders the others as log/slog does *)
Theorem C15_log_levels_fixed_conservative :
  (forall z l, lookupZ log_listed z = Some l -> log_level_conv true z = l /\ log_level_conv false z = l) /\
  (forall z, lookupZ log_listed z = None ->
     log_level_conv true z =
       if z <? slog_debug then lv_trace else if z <? slog_info then lv_debug
       else if z <? slog_warn then lv_info else if z <? slog_error then lv_warn else lv_error).
Proof. split; [exact log_levels_listed|exact log_levels_fixed_ranges]. Qed.
Print Assumptions C15_log_levels_fixed_conservative.

(* ---- gating ---- *)
(* Enabled on a standard level is the logger's gating (C01's rule) of the namesake,
   for every treated-as table, debug mode and logger level; every other level is let through *)
Theorem C15_enabled_agrees : forall enabled_as dbg h,
  let f := enabled_code enabled_as dbg (lc_level (h_log h)) in
  handler_on t_mLogSlogLevelToLevel enabled_as dbg h slog_debug = f lv_debug /\
  handler_on t_mLogSlogLevelToLevel enabled_as dbg h slog_info = f lv_info /\
  handler_on t_mLogSlogLevelToLevel enabled_as dbg h slog_warn = f lv_warn /\
  handler_on t_mLogSlogLevelToLevel enabled_as dbg h slog_error = f lv_error /\
  (forall z, z <> slog_debug -> z <> slog_info -> z <> slog_warn -> z <> slog_error ->
     handler_on t_mLogSlogLevelToLevel enabled_as dbg h z = true).
Proof. intros enabled_as dbg h. exact (enabled_agrees (enabled_code enabled_as dbg (lc_level (h_log h)))). Qed.
Print Assumptions C15_enabled_agrees.

(* ---- Handle ---- *)
(* a record through log/slog.Logger on a handler made by NewSlogHandler: nothing
   when Enabled says no, otherwise exactly one record on the handler's own logger
   with the same message, the record's time, the converted level, and attributes
   that are the image of the record's attributes - and the only such image *)
Theorem C15_handle_once : forall enabled_as dbg h r, h_ops h = [] ->
  exists rec,
    slog_log t_mLogSlogLevelToLevel enabled_as dbg h r =
      (if handler_on t_mLogSlogLevelToLevel enabled_as dbg h (sr_level r) then [(h_log h, rec)] else []) /\
    handle t_mLogSlogLevelToLevel h r = [(h_log h, rec)] /\
    lr_msg rec = sr_msg r /\ lr_time rec = sr_time r /\
    lr_level rec = convert_logslog_level_ref t_mLogSlogLevelToLevel (sr_level r) /\
    Forall2 same_attr (sr_attrs r) (lr_attrs rec) /\
    (forall l', Forall2 same_attr (sr_attrs r) l' -> l' = lr_attrs rec) /\
    map fst (lr_attrs rec) = map fst (sr_attrs r) /\
    flat_map lattr_leaves (lr_attrs rec) = flat_map sattr_leaves (sr_attrs r).
Proof. exact handle_once_full. Qed.
Print Assumptions C15_handle_once.

(* the conversion of ONE attribute, through groups nested to any depth: image,
   uniqueness, leaves with their key paths, nesting depth *)
Theorem C15_attr_conversion : forall k v,
  same_val v (conv_val v) /\ (forall l, same_val v l -> l = conv_val v) /\
  lleaves [k] (conv_val v) = sleaves [k] v /\ ldepth (conv_val v) = sdepth v.
Proof. exact attr_conversion. Qed.
Print Assumptions C15_attr_conversion.

(* a record at one of the four standard levels, or with a message that is not
   blank, is written in full ... *)
Theorem C15_written_in_full : forall z msg,
  (z = slog_debug \/ z = slog_info \/ z = slog_warn \/ z = slog_error) \/ forallb is_blank msg = false ->
  blank_shortcut (convert_logslog_level_ref t_mLogSlogLevelToLevel z) msg = false.
Proof. exact written_in_full. Qed.
Print Assumptions C15_written_in_full.

(* ... but a record at a level log/slog does not name becomes an Always record, and
   printImpl writes an Always record with a blank message as a bare line feed:
   time and attributes are lost (finding C15/blank-message-unlisted-level) *)
Theorem C15_handle_blank_refuted :
  exists r rec c, handle t_mLogSlogLevelToLevel {| h_log := c; h_ops := [] |} r = [(c, rec)] /\
    sr_attrs r <> [] /\ blank_shortcut (lr_level rec) (lr_msg rec) = true.
Proof. exact handle_blank_refuted. Qed.
Print Assumptions C15_handle_blank_refuted.

(* NewSlogHandler: same destination; level and format as the options say *)
Theorem C15_handler_options : forall c dbg o,
  let '(h, caller, dbg') := new_handler c dbg o in
  lc_dest (h_log h) = lc_dest c /\
  lc_level (h_log h) = (if o_level o =? lv_panic then lc_level c else o_level o) /\
  lc_json (h_log h) = o_json o /\
  lc_color (h_log h) = (negb (o_json o) && negb (o_nocolor o)) /\
  caller = negb (o_nosource o) /\
  dbg' = (dbg || (o_level o =? lv_debug)).
Proof. exact new_handler_cfg. Qed.
Print Assumptions C15_handler_options.

(* ---- derived handlers ---- *)
(* repaired variant, for EVERY chain of WithAttrs / WithGroup: the logger
   (destination, format, level - hence Enabled) is the receiver's, and a record is
   written once with what the chain added around its own attributes *)
Theorem C15_derived_keep : forall enabled_as dbg deflevel h ds r, h_ops h = [] ->
  let h' := derive true deflevel h ds in
  h_log h' = h_log h /\
  (forall z, handler_on t_mLogSlogLevelToLevel enabled_as dbg h' z =
             handler_on t_mLogSlogLevelToLevel enabled_as dbg h z) /\
  handle t_mLogSlogLevelToLevel h' r =
    [(h_log h, {| lr_level := convert_logslog_level_ref t_mLogSlogLevelToLevel (sr_level r); lr_time := sr_time r;
                  lr_msg := sr_msg r; lr_attrs := expected ds (conv_attrs (sr_attrs r)) |})].
Proof. exact (derived_keep t_mLogSlogLevelToLevel). Qed.
Print Assumptions C15_derived_keep.

(* the code as found: EVERY derived handler writes with a new logger that has no
   writer of its own (package default writers), is coloured and at the package default level *)
Theorem C15_derived_partial : forall deflevel h d,
  let h' := derive1 false deflevel h d in
  lc_dest (h_log h') = 0 /\ lc_json (h_log h') = false /\ lc_color (h_log h') = true /\
  lc_level (h_log h') = deflevel /\ h_ops h' = [].
Proof. exact derived_current. Qed.
Print Assumptions C15_derived_partial.

(* ... so destination, format, level and gating are not kept and nothing is added:
   a JSON logger at Debug writing to destination 1, WithAttrs(w=1), an Info record *)
Theorem C15_derived_refuted :
  exists deflevel h a r, h_ops h = [] /\ a <> [] /\
    let h' := with_attrs false deflevel h a in
    lc_dest (h_log h') <> lc_dest (h_log h) /\ lc_json (h_log h') <> lc_json (h_log h) /\
    lc_level (h_log h') <> lc_level (h_log h) /\
    handler_on t_mLogSlogLevelToLevel t_mLevelIsEnabledAs false h slog_info = true /\
    handler_on t_mLogSlogLevelToLevel t_mLevelIsEnabledAs false h' slog_info = false /\
    exists rec, handle t_mLogSlogLevelToLevel h' r = [(h_log h', rec)] /\ lr_attrs rec = conv_attrs (sr_attrs r).
Proof. exact derived_refuted. Qed.
Print Assumptions C15_derived_refuted.

Theorem C15_derived_group_refuted :
  exists deflevel h g r, h_ops h = [] /\ g <> [] /\ sr_attrs r <> [] /\
    let h' := with_group false deflevel h g in
    lc_dest (h_log h') <> lc_dest (h_log h) /\
    exists rec, handle t_mLogSlogLevelToLevel h' r = [(h_log h', rec)] /\ lr_attrs rec = conv_attrs (sr_attrs r).
Proof. exact group_refuted. Qed.
Print Assumptions C15_derived_group_refuted.

(* ---- the std-log bridge ---- *)
(* writeInternal's message: the buffer without ONE final line feed *)
Theorem C15_bridge_message : forall buf,
  (exists s, buf = s ++ [x0a] /\ strip_lf buf = s) \/
  ((forall s, buf <> s ++ [x0a]) /\ strip_lf buf = buf).
Proof. exact strip_lf_spec. Qed.
Print Assumptions C15_bridge_message.

(* repaired variant: one record (the message, the bridge severity, no attributes)
   exactly when the logger admits that severity by C01's rule; n = len(buf) then, 0 otherwise *)
Theorem C15_bridge : forall enabled_as dbg L sev now buf,
  bridge_write true enabled_as dbg L sev now buf =
    (if enabled_code enabled_as dbg L sev
     then (Some {| lr_level := sev; lr_time := now; lr_msg := strip_lf buf; lr_attrs := [] |}, Z.of_nat (length buf))
     else (None, 0)) /\
  (fst (bridge_write true enabled_as dbg L sev now buf) <> None <-> admits enabled_as dbg L sev).
Proof. exact bridge_full. Qed.
Print Assumptions C15_bridge.

(* both variants: whatever is written is the message at the bridge severity *)
Theorem C15_bridge_partial : forall fx enabled_as dbg L sev now buf,
  (fst (bridge_write fx enabled_as dbg L sev now buf) =
     Some {| lr_level := sev; lr_time := now; lr_msg := strip_lf buf; lr_attrs := [] |} /\
   snd (bridge_write fx enabled_as dbg L sev now buf) = Z.of_nat (length buf)) \/
  (fst (bridge_write fx enabled_as dbg L sev now buf) = None /\ snd (bridge_write fx enabled_as dbg L sev now buf) = 0).
Proof. exact bridge_partial. Qed.
Print Assumptions C15_bridge_partial.

(* the code as found admits when sev >= L as numbers: a logger at Info drops the
   Error bridge although it admits Error; a logger at Error lets the Debug bridge through *)
Theorem C15_bridge_refuted :
  (exists L sev, enabled_code t_mLevelIsEnabledAs false L sev = true /\
     forall now buf, bridge_write false t_mLevelIsEnabledAs false L sev now buf = (None, 0)) /\
  (exists L sev, enabled_code t_mLevelIsEnabledAs false L sev = false /\
     forall now buf, fst (bridge_write false t_mLevelIsEnabledAs false L sev now buf) =
                     Some {| lr_level := sev; lr_time := now; lr_msg := strip_lf buf; lr_attrs := [] |}).
Proof. exact bridge_refuted. Qed.
Print Assumptions C15_bridge_refuted.

(* ---- Entry.Log end to end, repaired variant: a record at a terminating severity
   only for the explicit constants ---- *)
Theorem C15_entry_log_fixed : forall enabled_as dbg L z now msg args rec,
  entry_log true enabled_as dbg L z now msg args = Some rec ->
  terminating (lr_level rec) = true -> z = c_LevelPanic \/ z = c_LevelFatal.
Proof. exact entry_log_never_terminates_unlisted. Qed.
Print Assumptions C15_entry_log_fixed.

(* non-vacuity: a nested group with a LogValuer inside, two derivations, the bridge *)
Example C15_example :
  conv_attrs [([x67], SGroup [([x61], SValuer (SInt 1)); ([x68], SGroup [([x73], SString [x71])])])]
    = [([x67], LGroup [([x61], LInt 1); ([x68], LGroup [([x73], LString [x71])])])]
  /\ expected [DGroup [x47]; DAttrs [([x77], SBool true)]] [([x6b], LInt 2)]
    = [([x47], LGroup [([x77], LBool true); ([x6b], LInt 2)])]
  /\ h_ops (derive true 3 {| h_log := detached 3 []; h_ops := [] |} [DGroup [x47]; DAttrs [([x77], SBool true)]])
    = [HGroup [x47]; HAttrs [([x77], LBool true)]]
  /\ bridge_write true t_mLevelIsEnabledAs false lv_info lv_error 0 [x6d; x0a; x0a]
    = (Some {| lr_level := lv_error; lr_time := 0; lr_msg := [x6d; x0a]; lr_attrs := [] |}, 3)
  /\ log_level_conv true 5 = lv_warn /\ log_level_conv true (-5) = lv_trace /\ log_level_conv true 100 = lv_error.
Proof. vm_compute. repeat split; reflexivity. Qed.
