(* C01 - Level gating: one admission rule, identical at every entry point. *)
Require Import Verif.Model.Base Verif.Model.Decision Verif.Model.Level Verif.Model.EntryPoint Verif.Model.Emit.
Require Import Verif.Gen.EntryPoints Verif.Gen.Decisions.
Require Import Verif.Proofs.LevelP Verif.Proofs.EmitP.
Require Verif.Proofs.ModeP Verif.Model.DecisionRef.

(* tie: the translation of Level.Enabled regenerated from the source equals the
   reference function, for all tables, modes and levels *)
Theorem C01_gen_enabled : forall m d L r, Decisions.enabled m d L r = enabled_code m d L r.
Proof. intros m d L r. reflexivity. Qed.
Print Assumptions C01_gen_enabled.

(* SetLevel as it is in /repo now: the level is stored, and Debug / Trace switch the process-wide
   debug / trace mode on (never off) - the mode the admission rule reads *)
Theorem C01_gen_set_level : forall dbg trc lvl, Decisions.set_level dbg trc lvl = DecisionRef.set_level_ref dbg trc lvl.
Proof. exact Verif.Proofs.ModeP.gen_set_level. Qed.
Print Assumptions C01_gen_set_level.

(* tie for the one entry point with two exits: Entry.Println is translated whole (Gen/Routes.v; the internal routines
   a short cut could call - printOut, logContext - are part of the fragment, so that using one is a DIFFERENT route,
   not a fall-back).  For every argument list, with or without arguments, a string or any other first argument: the
   call ends in s.log1 at AlwaysLevel - the routine whose gate, caller depth and termination the row of
   Gen.entry_points describes - with the first argument as the message and the others handed on. *)
Require Verif.Model.GoSem Verif.Model.TreeRef Verif.Model.RouteRef Verif.Gen.Routes Verif.Proofs.GenEntryRouteP.
Theorem C01_gen_println_route : forall as_string f_sprint args,
  Routes.println_route as_string f_sprint args
  = RouteRef.RLog1 lv_always (RouteRef.println_msg as_string f_sprint args) (tl args).
Proof. exact GenEntryRouteP.gen_println_route. Qed.
Print Assumptions C01_gen_println_route.

(* the admission rule of the statement, for every registry (treated-as table),
   debug mode, logger level and severity - all of Z, built-in or not *)
Theorem C01_enabled_rule : forall m dbg L r, enabled_code m dbg L r = true <-> admits m dbg L r.
Proof. exact enabled_rule. Qed.
Print Assumptions C01_enabled_rule.

(* every public entry point found in the source (Gen.entry_points) applies exactly that rule *)
Theorem C01_every_entry_point : forall e m d L p r, In e entry_points -> severity_of e p = Some r ->
  (emits e m d L p = true <-> admits m d L r).
Proof. exact every_entry_point. Qed.
Print Assumptions C01_every_entry_point.

(* Verbose and VerboseContext (methods and package functions) emit nothing in a default build *)
Theorem C01_verbose_silent : forall e m d L p, In e entry_points -> is_verbose_name (ep_name e) = true ->
  emits e m d L p = false.
Proof. exact verbose_silent. Qed.
Print Assumptions C01_verbose_silent.

(* histories: the debug side effect of SetLevel(Debug) persists ... *)
Theorem C01_debug_side_effect : forall ops1 ops2 w i, (i < length (g_levels (grun w ops1)))%nat ->
  existsb is_set_debug ops2 = false ->
  g_dbg (grun w (ops1 ++ GSetLevel i lv_debug :: ops2)) = true
  /\ g_dbg (grun w (ops1 ++ GWithLevel i lv_debug :: ops2)) = true.
Proof. exact debug_side_effect. Qed.
Print Assumptions C01_debug_side_effect.

(* ... nothing else in logg changes it ... *)
Theorem C01_debug_otherwise_unchanged : forall w o, is_set_debug o = false ->
  switches_debug_on (length (g_levels w)) o = false -> g_dbg (gstep w o) = g_dbg w.
Proof. exact gstep_dbg_same. Qed.
Print Assumptions C01_debug_otherwise_unchanged.

(* ... a logger's level is the last one given to it and no other logger's changes ... *)
Theorem C01_set_level_effect : forall w i l, (i < length (g_levels w))%nat ->
  nth_error (g_levels (gstep w (GSetLevel i l))) i = Some l
  /\ forall j, j <> i -> nth_error (g_levels (gstep w (GSetLevel i l))) j = nth_error (g_levels w) j.
Proof. exact set_level_effect. Qed.
Print Assumptions C01_set_level_effect.

(* ... and the way an existing level is gated is never changed by later registrations *)
Theorem C01_registry_stable : forall g v t o r, In r (r_all g) ->
  lookupZ (r_as (fst (register g v t o))) r = lookupZ (r_as g) r.
Proof. exact register_as_stable. Qed.
Print Assumptions C01_registry_stable.

(* corollaries users rely on *)
Theorem C01_corollaries :
  (forall m dbg r, enabled_code m dbg lv_off r = false) /\
  (forall m dbg L, enabled_code m dbg L lv_off = false) /\
  (forall m dbg L, L <> lv_off -> enabled_code m dbg L lv_always = true) /\
  (forall m dbg r, r <> lv_off -> enabled_code m dbg lv_always r = true) /\
  (forall m dbg L L' r, L <> lv_off -> L' <> lv_off -> L <= L' -> L <> lv_always ->
     enabled_code m dbg L r = true -> enabled_code m dbg L' r = true).
Proof.
  split; [exact off_logger_silent|]. split; [exact off_severity_silent|].
  split; [exact always_severity|]. split; [exact always_logger|exact monotone].
Qed.
Print Assumptions C01_corollaries.

(* non-vacuity: a registered level 13 treated as Info is admitted by a Debug logger and not by a Warn logger *)
Example C01_example :
  enabled_code [(13, 4)] false 5 13 = true /\ enabled_code [(13, 4)] false 3 13 = false
  /\ enabled_code [] true 3 5 = true /\ length entry_points = 58%nat.
Proof. vm_compute. repeat split; reflexivity. Qed.
