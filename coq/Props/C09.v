(* C09 - History independence: a record's bytes depend only on that call.
   Only property theorems here; each is closed by [exact] of a lemma of Proofs/PrintCtxP.v.

   Reading guide (Model/PrintCtx.v).  [printctx] has every field of `type PrintCtx struct`;
   [pc_set pc e c] is PrintCtx.set (setentry + the five assignments of set) applied to whatever
   context [pc] the pool handed out; [print_on .. gl pc e c] = what printOut receives when
   Entry.print formats call [c] of logger [e] on that context: the encoder [encode_pc] READS the
   fields of the context (mode, level, message, attributes, instant/layout/zone, clr/bg, prefix,
   inGroupedMode, skipFirstSep, dedupeAttrs, restLines/eol, buf/off).  [encode_call gl e c] is the
   pure function of Model/Encode.v (properties C04-C06) applied to the call alone.  [gl] are the
   process-wide settings (caller flag, tag width, message width); the registry [g], strconv.IsPrint,
   the rendering of the instant (property C16) and of the program counter are parameters - part of
   "the call" in the statement.  Outcomes: [Out bytes], [NotModelled] (markup in the message or a
   ValueStringer: user/HTML code, outside the model in C06 too), [Panics].

   The one hypothesis [pooled pc] (dedupeAttrs = true) is the field that no call establishes:
   newPrintCtx sets it and no statement of package slog assigns it afterwards
   (C09_constant_fields_unwritten, from the regenerated list of written fields). *)
Require Import Verif.Model.Base Verif.Model.Level Verif.Model.Mode Verif.Model.Attrs Verif.Model.Encode Verif.Model.PrintCtx.
Require Import Verif.Proofs.PrintCtxP.
Require Import Verif.Gen.PrintCtxFields.
Require Import Verif.Corr.C01.
Require Import Verif.Model.GoSem Verif.Model.PcRef.
Require Verif.Gen.Context Verif.Proofs.GenPcP.

(* ---- the source against the model, VALUE by value: PrintCtx.setentry and PrintCtx.set as they are in /repo
   now (translated in full on every run, Gen/Context.v: all 24 fields of the context are binders and are handed
   back; the buffer is (visible part, spare capacity [sp]); an *Entry is read through the seven fields setentry
   looks at) compute exactly the model's pc_setentry / pc_set, for EVERY previous context [pc] (whatever an
   earlier record left in the pooled object), every logger configuration [e] and every call [c].  [with_fields]
   applies a function of all fields to a context, [tuple_of] lists the fields of a context. ---- *)
Theorem C09_gen_pc_setentry : forall pc sp e flags,
  econf_args (with_fields Context.pc_setentry_full pc sp) e flags = Some (tuple_of (pc_setentry pc e) (pf_buf pc ++ sp)).
Proof. exact GenPcP.gen_pc_setentry. Qed.
Print Assumptions C09_gen_pc_setentry.

Theorem C09_gen_pc_set : forall pc sp e c flags ent,
  econf_args (with_fields Context.pc_set_full pc sp) e flags ent (cl_lvl c) (cl_now c) (cl_frame c) (cl_msg c) (cl_kvps c) =
  Some (tuple_of (pc_set pc e c) (pf_buf pc ++ sp)).
Proof. exact GenPcP.gen_pc_set. Qed.
Print Assumptions C09_gen_pc_set.

(* The bytes do not depend on the context the pool hands out: every field the encoder reads is
   written by set, or by the encoder itself before it is read.  For ANY two contexts (any
   contents of all 24 fields) that agree on the constant field. *)
Theorem C09_independent : forall isprint g render_ts source_of gl (pc0 pc1 : printctx) (e : econf) (c : call),
  pf_dedupeAttrs pc0 = pf_dedupeAttrs pc1 ->
  print_on isprint g render_ts source_of gl pc0 e c = print_on isprint g render_ts source_of gl pc1 e c.
Proof. exact independent. Qed.
Print Assumptions C09_independent.

(* ... and they are the pure function of the call of Model/Encode.v: the configuration of the
   logger, the severity, the timestamp, the message, the attributes and the global settings. *)
Theorem C09_is_function_of_call : forall isprint g render_ts source_of gl (pc : printctx) (e : econf) (c : call),
  pooled pc -> ec_valueStringer e = 0 -> colors_wfb g = true ->
  print_on isprint g render_ts source_of gl pc e c = encode_call isprint g render_ts source_of gl e c.
Proof. exact function_of_call. Qed.
Print Assumptions C09_is_function_of_call.

(* Histories: [h] lists the earlier calls - any loggers, any calls - each with the context the
   pool hands out next, which is ARBITRARY but pooled (the context the call used as the encoder
   left it, one that another goroutine used, or a new one).  The probe's bytes after the history
   are its bytes on the fresh context, and the pure function of the probe call. *)
Theorem C09_history : forall isprint g render_ts source_of gl (h : list hstep) (pc0 : printctx) (e : econf) (c : call),
  pooled pc0 -> Forall hstep_ok h ->
  print_on isprint g render_ts source_of gl (pooled_after pc0 h) e c = print_on isprint g render_ts source_of gl pc0 e c.
Proof. exact history. Qed.
Print Assumptions C09_history.

Theorem C09_history_function : forall isprint g render_ts source_of gl (h : list hstep) (pc0 : printctx) (e : econf) (c : call),
  pooled pc0 -> Forall hstep_ok h -> ec_valueStringer e = 0 -> colors_wfb g = true ->
  print_on isprint g render_ts source_of gl (pooled_after pc0 h) e c = encode_call isprint g render_ts source_of gl e c.
Proof. exact history_function. Qed.
Print Assumptions C09_history_function.

(* The same with the contexts the calls REALLY leave ([after_print]: buffer contents, colours of
   the level, restLines/eol, cachedSource ...), from newPrintCtx, by induction over the history;
   no hypothesis left. *)
Theorem C09_history_concrete : forall isprint g render_ts source_of gl (h : list (econf * call)) (e : econf) (c : call),
  print_on isprint g render_ts source_of gl (run_calls isprint g render_ts source_of gl new_printctx h) e c
  = print_on isprint g render_ts source_of gl new_printctx e c.
Proof. exact history_concrete. Qed.
Print Assumptions C09_history_concrete.

(* the hypotheses are met: the real leftover of a call is a pooled context *)
Theorem C09_leftover_is_pooled : forall isprint g render_ts source_of gl pc e c,
  pooled pc -> pooled (after_print isprint g render_ts source_of gl pc e c).
Proof. exact after_print_pooled. Qed.
Print Assumptions C09_leftover_is_pooled.

(* set never leaves the mode combination the model does not cover *)
Theorem C09_set_mode : forall pc e c, mode_of_pc (pc_set pc e c) = Some (shape_of (ec_flags e)).
Proof. exact pc_set_mode. Qed.
Print Assumptions C09_set_mode.

(* poolAttrs (Entry.logContext): the slice goes back truncated, so every record of any history
   of calls is formatted with exactly its own logger attributes and arguments ... *)
Theorem C09_pool_slice : forall calls : list (list attr * list attr),
  fst (log_history true [] calls) = map (fun p => fst p ++ snd p) calls
  /\ snd (log_history true [] calls) = [].
Proof.
  intro calls. split; [ exact (log_history_own calls) | ].
  rewrite log_history_slice. destruct calls; reflexivity.
Qed.
Print Assumptions C09_pool_slice.

(* ... and without `kvps = kvps[:0]` the second record carries the attributes of the first *)
Theorem C09_pool_slice_needed : exists calls : list (list attr * list attr),
  fst (log_history false [] calls) <> map (fun p => fst p ++ snd p) calls.
Proof. eexists. exact log_history_leak. Qed.
Print Assumptions C09_pool_slice_needed.

(* REGRESSION WITNESS.  With setentry as it was before the repair (only the buffer length reset):
   a colour-mode record of level 42 (no entry in mLevelColors) has different bytes on a fresh
   context and on the context an Error record left (it comes out in Error's colours). *)
Theorem C09_unreset_refuted : exists isprint g render_ts source_of gl pc0 pc1 e c,
  pooled pc0 /\ pooled pc1 /\
  print_on_old isprint g render_ts source_of gl pc0 e c <> print_on_old isprint g render_ts source_of gl pc1 e c.
Proof.
  exists w_isprint, init_registry, w_ts, w_src, w_gl, new_printctx, w_after_error, (w_logger false true), w_probe.
  exact unreset_refuted_w.
Qed.
Print Assumptions C09_unreset_refuted.

(* a stale read offset alone (off not reset): the record loses its first bytes *)
Theorem C09_unreset_off_refuted : exists isprint g render_ts source_of gl pc0 pc1 e c,
  pooled pc0 /\ pooled pc1 /\
  print_on_keep isprint g render_ts source_of (scratch_eqb SOff) gl pc0 e c
  <> print_on_keep isprint g render_ts source_of (scratch_eqb SOff) gl pc1 e c.
Proof.
  exists w_isprint, init_registry, w_ts, w_src, w_gl, new_printctx, w_hostile, (w_logger false false), w_probe.
  split; [ reflexivity | split; [ reflexivity | exact unreset_off_w ] ].
Qed.
Print Assumptions C09_unreset_off_refuted.

(* Each of the six resets off, clr, bg, prefix, inGroupedMode, skipFirstSep is needed (leaving out
   that one alone makes the bytes depend on the context) ... *)
Theorem C09_resets_needed : forall s, defensive s = false ->
  exists isprint g render_ts source_of gl pc0 pc1 e c, pooled pc0 /\ pooled pc1 /\
  print_on_keep isprint g render_ts source_of (scratch_eqb s) gl pc0 e c
  <> print_on_keep isprint g render_ts source_of (scratch_eqb s) gl pc1 e c.
Proof.
  intros s Hs. destruct (resets_needed_w s Hs) as [json [color H]].
  exists w_isprint, init_registry, w_ts, w_src, w_gl, new_printctx, w_hostile, (w_logger json color), w_probe.
  split; [ reflexivity | split; [ reflexivity | exact H ] ].
Qed.
Print Assumptions C09_resets_needed.

(* ... and the other four (lastRead, firstLine, restLines, eol) are defensive: the encoder never
   reads the first two and writes the last two before it reads them. *)
Theorem C09_resets_defensive : forall isprint g render_ts source_of keep gl pc0 pc1 e c,
  (forall s, keep s = true -> defensive s = true) -> pf_dedupeAttrs pc0 = pf_dedupeAttrs pc1 ->
  print_on_keep isprint g render_ts source_of keep gl pc0 e c = print_on_keep isprint g render_ts source_of keep gl pc1 e c.
Proof. exact independent_keep. Qed.
Print Assumptions C09_resets_defensive.

(* ---- the struct of the source against the model (regenerated from /repo on every run) ---- *)
(* the model has exactly the fields of `type PrintCtx struct`, in order: a new field breaks this *)
Theorem C09_fields_match : pc_fields = model_fields.
Proof. vm_compute. reflexivity. Qed.
Print Assumptions C09_fields_match.

Definition same_set (a b : list bytes) : bool :=
  forallb (fun f => mem_bytes f b) a && forallb (fun f => mem_bytes f a) b.

(* set/setentry assign exactly the fields [pc_set] overwrites *)
Theorem C09_set_fields_match : same_set pc_set_fields model_set_fields = true.
Proof. vm_compute. reflexivity. Qed.
Print Assumptions C09_set_fields_match.

(* every field of the struct is assigned by set/setentry or is on the hand-written list
   [never_reset_ok] (Model/PrintCtx.v, with the reason why it is harmless) *)
Theorem C09_every_field_covered :
  forallb (fun f => mem_bytes f pc_set_fields || mem_bytes f never_reset_ok) pc_fields = true.
Proof. vm_compute. reflexivity. Qed.
Print Assumptions C09_every_field_covered.

(* the reasons on that list, against the source: nothing outside newPrintCtx writes dedupeAttrs,
   nothing reads noQuoted (nor firstLine) *)
Theorem C09_constant_fields_unwritten :
  mem_bytes [x64;x65;x64;x75;x70;x65;x41;x74;x74;x72;x73] pc_written_outside_set = false      (* dedupeAttrs *)
  /\ mem_bytes [x6e;x6f;x51;x75;x6f;x74;x65;x64] pc_written_outside_set = false                (* noQuoted *)
  /\ mem_bytes [x6e;x6f;x51;x75;x6f;x74;x65;x64] pc_read_fields = false
  /\ mem_bytes [x66;x69;x72;x73;x74;x4c;x69;x6e;x65] pc_read_fields = false.                   (* firstLine *)
Proof. vm_compute. repeat split. Qed.
Print Assumptions C09_constant_fields_unwritten.

(* ---- concrete instances ---- *)
(* the hypotheses are satisfiable; the bytes of a JSON record of level 42 with one attribute *)
Example C09_example_json :
  print_on w_isprint init_registry w_ts w_src w_gl w_hostile (w_logger true false) w_probe
  = Out [x7b;x22;x74;x69;x6d;x65;x22;x3a;x22;x54;x22;x2c;x22;x6c;x65;x76;x65;x6c;x22;x3a;x22;x4c;x23;x34;x32;x22;x2c;
         x22;x6d;x73;x67;x22;x3a;x22;x6d;x22;x2c;x22;x6b;x22;x3a;x31;x7d;x0a].
Proof. vm_compute. reflexivity. Qed.

(* a history of three real calls (an Error record in colour, a JSON record with a group, a
   multi-line colour record) and an arbitrary hostile leftover, then the probe *)
Example C09_example_history :
  let h := [ {| h_e := w_logger false true; h_call := w_error_call; h_next := w_after_error |};
             {| h_e := w_logger true false; h_call := w_probe; h_next := w_hostile |} ] in
  Forall hstep_ok h /\
  print_on w_isprint init_registry w_ts w_src w_gl (pooled_after new_printctx h) (w_logger false true) w_probe
  = encode_call w_isprint init_registry w_ts w_src w_gl (w_logger false true) w_probe.
Proof.
  cbv zeta. split; [ repeat constructor | vm_compute; reflexivity ].
Qed.

Example C09_example_registry_wf : colors_wfb init_registry = true.
Proof. vm_compute. reflexivity. Qed.
