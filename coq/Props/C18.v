(* C18 - Path hardening never lets a protected directory prefix through.

   checkpath (Model/Path.v) is the one function behind Safety, SafetyFiles and
   the caller file of every record.  [fx = false] is slog/stack.go as it was before the
   repair 0169cbb (strings.HasPrefix + strings.ReplaceAll), [fx = true] the repaired code of today
   (match on a component boundary, replace the prefix only); Path.boundary_fix (= true)
   says which one the correspondence check runs against the implementation.
   The map iteration order is the order of the table list; every theorem
   quantifies over every Permutation of the table.  [rel] is filepath.Rel, about
   which nothing is assumed except, in two witnesses, its value at the witness.

   Hypotheses used and why:
   - keys_abs: the keys are absolute paths (what AddKnownPathMapping is for; the
     home and current directories are).  A relative key could undo an earlier
     replacement.
   - repls_rel: replacements are non-empty and not absolute (the short form).
     With an empty replacement both variants can report the key again
     (C18_no_prefix_empty_repl_refuted).
   - rx_keeps_rel: a regexp mapping does not turn a relative text into an
     absolute one; Go regexps are not modelled, the built-in one satisfies it
     (C18_builtin_rx_keeps_rel). *)
Require Import Verif.Model.Base Verif.Model.Path.
Require Import Verif.Proofs.PathP.
From Coq Require Import Permutation.
Require Import Verif.Model.PathRef.
Require Verif.Gen.Paths Verif.Proofs.GenPathP.

(* ---- the source against the model: underDir and checkpath as they are in /repo now (translated on
   every run, Gen/Paths.v; every index / slice expression is a possible panic = None) compute the
   model's [under] and the repaired variant of [checkpath], for every iteration order of
   knownPathMap (the order of [table]), every list of regexp mappings (abstract), every flag word,
   working directory and Rel function.  In particular the translated code never panics where the
   model does not (C18_total). ---- *)
Theorem C18_gen_under_dir : forall file dir, Paths.under_dir file dir = Some (under file dir).
Proof. exact GenPathP.gen_under_dir. Qed.
Print Assumptions C18_gen_under_dir.

Theorem C18_gen_checkpath : forall rel flags table rxs cwd file,
  Paths.checkpath rel flags table rxs cwd file =
  checkpath rel true (privacy_on flags) (rx_on flags) table rxs cwd file.
Proof. exact GenPathP.gen_checkpath. Qed.
Print Assumptions C18_gen_checkpath.

(* the function never panics: the only partial operations of checkpath are the
   two slice expressions of the /Volumes/ branch (None in the model); everything
   else (HasPrefix, ReplaceAll, IndexRune, the regexp calls, Rel with its error
   ignored) is total in Go and total by construction here *)
Theorem C18_total : forall rel fx privacy rxflag table rxs cwd file,
  checkpath rel fx privacy rxflag table rxs cwd file <> None.
Proof. exact checkpath_total. Qed.
Print Assumptions C18_total.

(* P1, the code as it is now AND the repaired variant: with the privacy flag on,
   a path lying (component-wise) under a key of the table is never reported with
   that key as prefix - not as a directory prefix, not even as a string prefix;
   the result is not absolute at all.  Every iteration order. *)
Theorem C18_no_prefix : forall rel fx rxflag table table' rxs cwd file k v r,
  Permutation table table' ->
  keys_abs table = true -> repls_rel table = true ->
  (forall x, In x rxs -> rx_keeps_rel x) ->
  In (k, v) table -> under file k = true ->
  checkpath rel fx true rxflag table' rxs cwd file = Some r ->
  has_prefix r k = false /\ under r k = false /\ is_abs r = false.
Proof. exact no_prefix. Qed.
Print Assumptions C18_no_prefix.

(* why repls_rel asks for NON-EMPTY replacements (both variants) *)
Theorem C18_no_prefix_empty_repl_refuted : forall rel fx,
  rel (B "/w") (B "/aa/x/a/xa/q") = B "../aa/x/a/xa/q" ->
  rel (B "/w") (B "/aa/aa/q") = B "../aa/aa/q" ->
  exists table cwd file k v r,
    keys_abs table = true /\ forallb (fun kv => negb (is_abs (snd kv))) table = true /\
    In (k, v) table /\ under file k = true /\
    checkpath rel fx true false table [] cwd file = Some r /\ under r k = true.
Proof. exact no_prefix_empty_repl_refuted. Qed.
Print Assumptions C18_no_prefix_empty_repl_refuted.

(* "the prefix is replaced by its short form", repaired variant: the result is
   the replacement of ONE key the path lies under, followed by the rest of the
   path (when no regexp mapping matches the path) *)
Theorem C18_short_form_fixed : forall rel rxflag table table' rxs cwd file r,
  Permutation table table' ->
  keys_abs table = true -> repls_rel table = true ->
  (rxflag = true -> forall x, In x rxs -> rx_matches x file = false) ->
  (exists kv, In kv table /\ under file (fst kv) = true) ->
  checkpath rel true true rxflag table' rxs cwd file = Some r ->
  exists k v, In (k, v) table /\ under file k = true /\ r = v ++ skipn (length k) file.
Proof. intros rel. exact (short_form rel true). Qed.
Print Assumptions C18_short_form_fixed.

(* the same for the code as it is now, as far as it is true: the key is a STRING
   prefix and EVERY occurrence of it is replaced *)
Theorem C18_short_form_partial : forall rel rxflag table table' rxs cwd file r,
  Permutation table table' ->
  keys_abs table = true -> repls_rel table = true ->
  (rxflag = true -> forall x, In x rxs -> rx_matches x file = false) ->
  (exists kv, In kv table /\ has_prefix file (fst kv) = true) ->
  checkpath rel false true rxflag table' rxs cwd file = Some r ->
  exists k v, In (k, v) table /\ has_prefix file k = true /\ r = replace_all file k v.
Proof. intros rel. exact (short_form rel false). Qed.
Print Assumptions C18_short_form_partial.

(* ... and what is false today: /root/a/root/b with /root -> ~ is reported as ~/a~/b *)
Theorem C18_short_form_refuted : forall rel,
  exists table cwd file r,
    keys_abs table = true /\ repls_rel table = true /\
    (exists kv, In kv table /\ under file (fst kv) = true) /\
    checkpath rel false true false table [] cwd file = Some r /\
    forall k v, In (k, v) table -> r <> v ++ skipn (length k) file.
Proof. exact short_form_refuted. Qed.
Print Assumptions C18_short_form_refuted.

(* P2, repaired variant: a path under no key (component-wise) that no regexp
   mapping matches (flag on) resp. that is not below /Volumes/ (flag off) is
   returned unchanged, or as rel cwd file when that is non-empty and shorter.
   No hypothesis on the table.  Every iteration order. *)
Theorem C18_outside_unchanged_fixed : forall rel rxflag table table' rxs cwd file r,
  Permutation table table' ->
  (forall kv, In kv table -> under file (fst kv) = false) ->
  (rxflag = true -> forall x, In x rxs -> rx_matches x file = false) ->
  (rxflag = false -> has_prefix file volumes = false) ->
  checkpath rel true true rxflag table' rxs cwd file = Some r ->
  tail_ok rel cwd file r.
Proof. intros rel. exact (outside rel true). Qed.
Print Assumptions C18_outside_unchanged_fixed.

(* the code as it is now, as far as it is true: no key is a STRING prefix *)
Theorem C18_outside_unchanged_partial : forall rel rxflag table table' rxs cwd file r,
  Permutation table table' ->
  (forall kv, In kv table -> has_prefix file (fst kv) = false) ->
  (rxflag = true -> forall x, In x rxs -> rx_matches x file = false) ->
  (rxflag = false -> has_prefix file volumes = false) ->
  checkpath rel false true rxflag table' rxs cwd file = Some r ->
  tail_ok rel cwd file r.
Proof. intros rel. exact (outside rel false). Qed.
Print Assumptions C18_outside_unchanged_partial.

(* ... and what is false today: /rootx/f does not lie under /root and is reported
   as ~x/f (filepath.Rel("/w", "/rootx/f") is "../rootx/f") *)
Theorem C18_outside_refuted : forall rel, rel (B "/w") (B "/rootx/f") = B "../rootx/f" ->
  exists table cwd file r,
    keys_abs table = true /\ repls_rel table = true /\
    (forall kv, In kv table -> under file (fst kv) = false) /\
    has_prefix file volumes = false /\
    checkpath rel false true false table [] cwd file = Some r /\ ~ tail_ok rel cwd file r.
Proof. exact outside_refuted. Qed.
Print Assumptions C18_outside_refuted.

(* with the privacy flag off nothing is rewritten (both variants, any table) *)
Theorem C18_flag_off_unchanged : forall rel fx rxflag table rxs cwd file r,
  checkpath rel fx false rxflag table rxs cwd file = Some r -> tail_ok rel cwd file r.
Proof. exact flag_off. Qed.
Print Assumptions C18_flag_off_unchanged.

(* the result may depend on the iteration order when keys are nested (both
   variants); each of the results satisfies the theorems above *)
Theorem C18_order_dependent : forall rel fx,
  exists t1 t2 cwd file r1 r2, Permutation t1 t2 /\ keys_abs t1 = true /\ repls_rel t1 = true /\
    checkpath rel fx true false t1 [] cwd file = Some r1 /\
    checkpath rel fx true false t2 [] cwd file = Some r2 /\ r1 <> r2.
Proof. exact order_dependent. Qed.
Print Assumptions C18_order_dependent.

(* the built-in regexp mapping  /Volumes/[^/]+/ -> ~  meets rx_keeps_rel *)
Theorem C18_builtin_rx_keeps_rel : rx_keeps_rel volumes_rx.
Proof. exact volumes_rx_keeps_rel. Qed.
Print Assumptions C18_builtin_rx_keeps_rel.

(* Add/RemoveKnownPathMapping: what the table holds afterwards *)
Theorem C18_table_add : forall t k v k' v',
  In (k', v') (tbl_add t k v) <-> (k' = k /\ v' = v) \/ (k' <> k /\ In (k', v') t).
Proof. exact tbl_add_spec. Qed.
Print Assumptions C18_table_add.

Theorem C18_table_remove : forall t k k' v',
  In (k', v') (tbl_remove t k) <-> k' <> k /\ In (k', v') t.
Proof. exact tbl_remove_spec. Qed.
Print Assumptions C18_table_remove.

(* the enumeration the correspondence check runs the model on contains every
   iteration order *)
Theorem C18_perms_complete : forall (l l' : list (bytes * bytes)), Permutation l l' -> In l' (perms l).
Proof. exact (@perms_complete (bytes * bytes)). Qed.
Print Assumptions C18_perms_complete.

(* non-vacuity: a table as init.go builds it plus nested registered keys; the
   hypotheses hold, and the two variants differ exactly on the boundary *)
Definition ex_table : list (bytes * bytes) :=
  [(B "/root", B "~"); (B "/w", B "."); (B "/a/b", B "$ab"); (B "/a/b/c", B "$abc"); (B "/a/bc", B "$bc")].
Definition ex_rel (cwd file : bytes) : bytes := [].   (* filepath.Rel failing *)

Example C18_example :
  keys_abs ex_table = true /\ repls_rel ex_table = true /\
  under (B "/a/b/c/f.go") (B "/a/b") = true /\ under (B "/a/bc/f.go") (B "/a/b") = false /\
  under (B "/a/b") (B "/a/b") = true /\ under (B "/a/b/") (B "/a/b") = true /\
  length (perms ex_table) = 120%nat /\
  checkpath ex_rel true true true ex_table [volumes_rx] (B "/w") (B "/root/go/x.go") = Some (B "~/go/x.go") /\
  checkpath ex_rel false true true ex_table [volumes_rx] (B "/w") (B "/root/go/x.go") = Some (B "~/go/x.go") /\
  checkpath ex_rel true true true ex_table [volumes_rx] (B "/w") (B "/rootx/f") = Some (B "/rootx/f") /\
  checkpath ex_rel false true true ex_table [volumes_rx] (B "/w") (B "/rootx/f") = Some (B "~x/f") /\
  checkpath ex_rel true true true ex_table [volumes_rx] (B "/w") (B "/root/a/root/b") = Some (B "~/a/root/b") /\
  checkpath ex_rel false true true ex_table [volumes_rx] (B "/w") (B "/root/a/root/b") = Some (B "~/a~/b") /\
  checkpath ex_rel false true true ex_table [volumes_rx] (B "/w") (B "/Volumes/vol1/src/x.go") = Some (B "~src/x.go") /\
  checkpath ex_rel false true false ex_table [volumes_rx] (B "/w") (B "/Volumes/vol1/src/x.go") = Some (B "~/src/x.go") /\
  checkpath ex_rel false false true ex_table [volumes_rx] (B "/w") (B "/root/go/x.go") = Some (B "/root/go/x.go") /\
  checkpath (fun _ _ => B "../x") false false true ex_table [] (B "/w") (B "/root/go/x.go") = Some (B "../x").
Proof. vm_compute. repeat split; reflexivity. Qed.
