(* C16 - Timestamps show the record's instant in the configured zone and layout.  PARTIAL.

   Proved here: everything logg decides - which zone (UTC or the instant's own), which
   layout (the logger's, else by the date/time/microseconds flags, with the table of the
   source), what SetUTCMode / SetTimeFormat leave in the logger, the framing of the text in
   the three output formats - about reference functions that are proved equal, for all
   arguments, to the translations of appendTimestamp / SetUTCMode / SetTimeFormat
   REGENERATED from the source on every run (the four C16_gen theorems).
   NOT proved: Go's Time.In(zone).Format(layout) is a parameter [render] of the model, and
   the claim that time.Parse gives the instant back to the layout's precision is about
   Go's time package; it is checked on every generated cell by the harness (direct oracle),
   not proved.  The tie between the modelled decisions and the bytes really printed is the
   correspondence run (Corr/C16.v, C16_corr_sound says what an accepted case means). *)
Require Import Verif.Model.Base Verif.Model.Decision Verif.Model.Mode Verif.Model.DecisionRef Verif.Model.Time.
Require Import Verif.Gen.Tables Verif.Gen.Decisions.
Require Import Verif.Corr.C16 Verif.Proofs.TimeP.
Require Coq.Strings.String.
Import Coq.Strings.String.StringSyntax.

(* ---- ties to the current source ---- *)
Theorem C16_gen_zone : forall utc flags, Decisions.zone_choice utc flags = zone_choice_ref utc flags.
Proof. exact gen_zone. Qed.
Print Assumptions C16_gen_zone.

Theorem C16_gen_layout : forall m layout flags,
  Decisions.layout_choice m layout flags = layout_choice_ref m layout flags.
Proof. exact gen_layout. Qed.
Print Assumptions C16_gen_layout.

Theorem C16_gen_utc_mode : forall args, Decisions.set_utc_mode args = set_utc_mode_ref args.
Proof. exact gen_utc_mode. Qed.
Print Assumptions C16_gen_utc_mode.

Theorem C16_gen_time_format : forall args, Decisions.set_time_format args = set_time_format_ref args.
Proof. exact gen_time_format. Qed.
Print Assumptions C16_gen_time_format.

(* ---- zone ---- *)
(* For EVERY value of the mode field and every flags word: the timestamp is in UTC iff the
   logger is in UTC mode (2), or no mode was chosen (0) and the local-time flag (the constant
   of the source) is off; otherwise it is in the instant's own zone.  In particular mode 1
   (SetUTCMode(false)) and any value other than 0 and 2 give the instant's own zone whatever
   the flags say. *)
Theorem C16_zone : forall utc flags,
  (zone_choice_ref utc flags = ZoneUTC <-> utc = 2 \/ (utc = 0 /\ Z.land flags c_LlocalTime = 0)) /\
  (zone_choice_ref utc flags = ZoneOwn <-> ~ (utc = 2 \/ (utc = 0 /\ Z.land flags c_LlocalTime = 0))) /\
  (utc <> 0 -> utc <> 2 -> zone_choice_ref utc flags = ZoneOwn).
Proof.
  intros utc flags. split; [exact (zone_rule utc flags)|]. split; [exact (zone_own utc flags)|exact (zone_other utc flags)].
Qed.
Print Assumptions C16_zone.

(* a fresh logger is in state 0; SetUTCMode() and SetUTCMode(true) give 2, SetUTCMode(false)
   gives 1, with more arguments the last one wins; no call can give anything but 1 or 2 *)
Theorem C16_utc_mode_values :
  utc_state None = 0 /\ set_utc_mode_ref [] = 2 /\ set_utc_mode_ref [true] = 2 /\ set_utc_mode_ref [false] = 1
  /\ (forall args x, set_utc_mode_ref (args ++ [x]) = if x : bool then 2 else 1)
  /\ (forall args, set_utc_mode_ref args = 1 \/ set_utc_mode_ref args = 2).
Proof. exact utc_mode_values. Qed.
Print Assumptions C16_utc_mode_values.

(* ---- layout ---- *)
(* for every table: the logger's layout when it is not empty, else the table entry for
   flags & (Ldate|Ltime|Lmicroseconds), else TimeNano (constants of the source) *)
Theorem C16_layout : forall m layout flags,
  (layout <> [] -> layout_choice_ref m layout flags = layout) /\
  (layout = [] -> layout_choice_ref m layout flags =
     match lookupZ m (Z.land flags c_Ldatetimeflags) with Some l => l | None => c_TimeNano end).
Proof. exact layout_rule. Qed.
Print Assumptions C16_layout.

(* with the table of the CURRENT source (by computation), for every flags word: the layout
   is the one Model.Time.layout_by_flags writes out for the eight combinations -
     none                          15:04:05.000000Z07:00   (not in the table: TimeNano)
     Ldate                         2006-01-02
     Ltime                         15:04:05Z07:00
     Ldate|Ltime                   2006-01-0215:04:05Z07:00
     Lmicroseconds                 15:04:05.000000Z07:00   (not in the table: TimeNano)
     Ldate|Lmicroseconds           2006-01-02T15:04:05.000000Z07:00
     Ltime|Lmicroseconds           15:04:05.000000Z07:00
     Ldate|Ltime|Lmicroseconds     2006-01-02T15:04:05.000000Z07:00 *)
Theorem C16_layout_table : forall flags,
  layout_choice_ref t_defaultLayouts [] flags = layout_by_flags (Z.land flags c_Ldatetimeflags)
  /\ lookupZ t_defaultLayouts 0 = None /\ lookupZ t_defaultLayouts c_Lmicroseconds = None
  /\ length t_defaultLayouts = 6%nat.
Proof. intros flags. split; [exact (layout_table flags)|exact layout_table_lacks]. Qed.
Print Assumptions C16_layout_table.

(* the eight combinations, spelled with the flag constants of the source *)
Theorem C16_layout_eight :
  let sel f := layout_choice_ref t_defaultLayouts [] f in
  sel 0 = asc "15:04:05.000000Z07:00" /\
  sel c_Ldate = asc "2006-01-02" /\
  sel c_Ltime = asc "15:04:05Z07:00" /\
  sel (Z.lor c_Ldate c_Ltime) = asc "2006-01-0215:04:05Z07:00" /\
  sel c_Lmicroseconds = asc "15:04:05.000000Z07:00" /\
  sel (Z.lor c_Ldate c_Lmicroseconds) = asc "2006-01-02T15:04:05.000000Z07:00" /\
  sel (Z.lor c_Ltime c_Lmicroseconds) = asc "15:04:05.000000Z07:00" /\
  sel (Z.lor c_Ldate (Z.lor c_Ltime c_Lmicroseconds)) = asc "2006-01-02T15:04:05.000000Z07:00" /\
  sel c_LstdFlags = asc "15:04:05.000000Z07:00".
Proof. exact layout_eight. Qed.
Print Assumptions C16_layout_eight.

(* SetTimeFormat keeps the LAST NON-EMPTY argument; Go's RFC3339Nano when there is none *)
Theorem C16_set_time_format : forall args,
  set_time_format_ref args = last_nonempty (asc "2006-01-02T15:04:05.999999999Z07:00") args
  /\ (forallb (fun l => negb (nonempty l)) args = true ->
        set_time_format_ref args = asc "2006-01-02T15:04:05.999999999Z07:00")
  /\ (forall (pre : list bytes) (l : bytes) (post : list bytes), args = pre ++ l :: post -> l <> [] ->
        forallb (fun l => negb (nonempty l)) post = true -> set_time_format_ref args = l).
Proof. exact set_time_format_clauses. Qed.
Print Assumptions C16_set_time_format.

(* ---- framing: quoted in JSON and logfmt, followed by a bar in colour mode ---- *)
Theorem C16_quoted : forall s rendered,
  append_timestamp_framing (pc_json_mode s) (pc_no_color s) rendered = timestamp_text (shape_of s) rendered /\
  timestamp_text ShJSON rendered = [x22] ++ rendered ++ [x22] /\
  timestamp_text ShLogfmt rendered = [x22] ++ rendered ++ [x22] /\
  timestamp_text ShColor rendered = rendered ++ [x7c].
Proof. intros s rendered. split; [exact (framing_by_shape s rendered)|exact (quoted rendered)]. Qed.
Print Assumptions C16_quoted.

(* ---- the timestamp as a whole, for every rendering function (= for every instant) ---- *)
Theorem C16_timestamp : forall render utc_call layout_call flags sh,
  timestamp_gen render utc_call layout_call flags sh =
  timestamp_text sh (render (zone_choice_ref (utc_state utc_call) flags)
                            (layout_choice_ref t_defaultLayouts (layout_state layout_call) flags)).
Proof. exact timestamp_gen_spec. Qed.
Print Assumptions C16_timestamp.

(* what a correspondence case accepted by Corr.C16.ok establishes *)
Theorem C16_corr_sound : forall c render,
  (forall z l r, lookup_cand (c_cands c) z l = Some r -> render z l = r) ->
  ok c = true ->
  timestamp render t_defaultLayouts (c_utc c) (c_layout c) (c_flags c) (c_shape c) = c_observed c.
Proof. exact corr_sound. Qed.
Print Assumptions C16_corr_sound.

(* non-vacuity: a logger that was told SetUTCMode(true, false) and SetTimeFormat(Kitchen, empty),
   under the standard flags, in logfmt: the instant's own zone, Kitchen layout, quoted *)
Example C16_example :
  let render z l := (match z with ZoneUTC => asc "U:" | ZoneOwn => asc "O:" end) ++ l in
  timestamp render t_defaultLayouts (Some [true; false]) (Some [asc "3:04PM"; []]) c_LstdFlags ShLogfmt
    = [x22] ++ asc "O:3:04PM" ++ [x22]
  /\ timestamp render t_defaultLayouts None None (Z.lor c_Ldate c_Ltime) ShColor = asc "U:2006-01-0215:04:05Z07:00|"
  /\ timestamp render t_defaultLayouts None None c_LstdFlags ShJSON = [x22] ++ asc "O:15:04:05.000000Z07:00" ++ [x22].
Proof. vm_compute. repeat split; reflexivity. Qed.
