(* C16 - Timestamps show the record's instant in the configured zone and layout.

   Proved here:
   (1) everything logg decides - which zone (UTC or the instant's own), which layout (the
       logger's, else by the date/time/microseconds flags, with the table of the source), what
       SetUTCMode / SetTimeFormat leave in the logger, the framing of the text in the three
       output formats - about reference functions that are proved equal, for all arguments, to
       the translations of appendTimestamp / SetUTCMode / SetTimeFormat REGENERATED from the
       source on every run (the four C16_gen theorems);
   (2) the rendering itself: Model/TimeFmt.v is an executable model of Go's layout language
       (every element of time.Time.AppendFormat, instants of the civil years 0..9999).  Its
       calendar arithmetic is proved to be a bijection between day numbers and valid dates
       (C16_calendar_days, C16_calendar_civil), every element's text has its exact width and character classes
       (C16_format_shape), and THE PARSE-BACK CLAIM of the property is a theorem about a
       specification-side reader of the layout language written independently of Go's parser
       (C16_parse_back: the instant cut to the layout's unit and the offset come back, for every
       layout that carries date, time and numeric zone unambiguously; C16_parse_back_fields:
       every readable layout gives back exactly the fields it carries), instantiated for the
       layouts of the source (C16_default_layouts_domain, C16_default_timestamp_parse_back).
       Where Go itself is irregular - offsets in (-60 s, 0) under a seconds-bearing zone
       element print as +00:00:-SS - the model says what Go does, the round trip excludes
       exactly that region (zone_fits) and C16_parse_back_subminute_refuted is the witness
       that it fails there.
   NOT proved: that Go's time package IS the model.  That tie is the correspondence run
   (Corr/C16.v): on every case the model's format_time, applied to the layout and zone the
   regenerated decisions select, must equal the observed timestamp byte for byte (and Go's own
   rendering of the same candidate), the reader must give back the instant on the observed text
   wherever the theorem's hypotheses hold, and must agree with Go's own time.Parse wherever
   that succeeds (C16_corr_sound, C16_corr_sound_model say what an accepted case means).
   Outside the model: civil years outside 0..9999, offsets of 100 hours and more, and the
   reading of zone abbreviations (MST), which do not determine an offset. *)
Require Import Verif.Model.Base Verif.Model.Decision Verif.Model.Mode Verif.Model.DecisionRef Verif.Model.Time.
Require Import Verif.Gen.Tables Verif.Gen.Decisions.
Require Import Verif.Model.TimeFmt.
Require Import Verif.Corr.C16 Verif.Proofs.TimeP Verif.Proofs.CalendarP Verif.Proofs.TimeFmtP.
Require Coq.Strings.String.
Import Coq.Strings.String.StringSyntax.

(* ---- ties to the current source ---- *)
Theorem C16_gen_zone : forall utc flags, Decisions.zone_choice utc flags = zone_choice_ref utc flags.
Proof. exact gen_zone. Qed.
Print Assumptions C16_gen_zone.

Theorem C16_gen_layout : forall m layout flags,
  Decisions.layout_choice m layout flags = layout_choice_ref m layout flags.
Proof. exact gen_layout. Qed.
Print Assumptions C16_gen_layout.

Theorem C16_gen_utc_mode : forall args, Decisions.set_utc_mode args = set_utc_mode_ref args.
Proof. exact gen_utc_mode. Qed.
Print Assumptions C16_gen_utc_mode.

Theorem C16_gen_time_format : forall args, Decisions.set_time_format args = set_time_format_ref args.
Proof. exact gen_time_format. Qed.
Print Assumptions C16_gen_time_format.

(* ---- zone ---- *)
(* For EVERY value of the mode field and every flags word: the timestamp is in UTC iff the
   logger is in UTC mode (2), or no mode was chosen (0) and the local-time flag (the constant
   of the source) is off; otherwise it is in the instant's own zone.  In particular mode 1
   (SetUTCMode(false)) and any value other than 0 and 2 give the instant's own zone whatever
   the flags say. *)
Theorem C16_zone : forall utc flags,
  (zone_choice_ref utc flags = ZoneUTC <-> utc = 2 \/ (utc = 0 /\ Z.land flags c_LlocalTime = 0)) /\
  (zone_choice_ref utc flags = ZoneOwn <-> ~ (utc = 2 \/ (utc = 0 /\ Z.land flags c_LlocalTime = 0))) /\
  (utc <> 0 -> utc <> 2 -> zone_choice_ref utc flags = ZoneOwn).
Proof.
  intros utc flags. split; [exact (zone_rule utc flags)|]. split; [exact (zone_own utc flags)|exact (zone_other utc flags)].
Qed.
Print Assumptions C16_zone.

(* a fresh logger is in state 0; SetUTCMode() and SetUTCMode(true) give 2, SetUTCMode(false)
   gives 1, with more arguments the last one wins; no call can give anything but 1 or 2 *)
Theorem C16_utc_mode_values :
  utc_state None = 0 /\ set_utc_mode_ref [] = 2 /\ set_utc_mode_ref [true] = 2 /\ set_utc_mode_ref [false] = 1
  /\ (forall args x, set_utc_mode_ref (args ++ [x]) = if x : bool then 2 else 1)
  /\ (forall args, set_utc_mode_ref args = 1 \/ set_utc_mode_ref args = 2).
Proof. exact utc_mode_values. Qed.
Print Assumptions C16_utc_mode_values.

(* ---- layout ---- *)
(* for every table: the logger's layout when it is not empty, else the table entry for
   flags & (Ldate|Ltime|Lmicroseconds), else TimeNano (constants of the source) *)
Theorem C16_layout : forall m layout flags,
  (layout <> [] -> layout_choice_ref m layout flags = layout) /\
  (layout = [] -> layout_choice_ref m layout flags =
     match lookupZ m (Z.land flags c_Ldatetimeflags) with Some l => l | None => c_TimeNano end).
Proof. exact layout_rule. Qed.
Print Assumptions C16_layout.

(* with the table of the CURRENT source (by computation), for every flags word: the layout
   is the one Model.Time.layout_by_flags writes out for the eight combinations -
     none                          15:04:05.000000Z07:00   (not in the table: TimeNano)
     Ldate                         2006-01-02
     Ltime                         15:04:05Z07:00
     Ldate|Ltime                   2006-01-0215:04:05Z07:00
     Lmicroseconds                 15:04:05.000000Z07:00   (not in the table: TimeNano)
     Ldate|Lmicroseconds           2006-01-02T15:04:05.000000Z07:00
     Ltime|Lmicroseconds           15:04:05.000000Z07:00
     Ldate|Ltime|Lmicroseconds     2006-01-02T15:04:05.000000Z07:00 *)
Theorem C16_layout_table : forall flags,
  layout_choice_ref t_defaultLayouts [] flags = layout_by_flags (Z.land flags c_Ldatetimeflags)
  /\ lookupZ t_defaultLayouts 0 = None /\ lookupZ t_defaultLayouts c_Lmicroseconds = None
  /\ length t_defaultLayouts = 6%nat.
Proof. intros flags. split; [exact (layout_table flags)|exact layout_table_lacks]. Qed.
Print Assumptions C16_layout_table.

(* the eight combinations, spelled with the flag constants of the source *)
Theorem C16_layout_eight :
  let sel f := layout_choice_ref t_defaultLayouts [] f in
  sel 0 = asc "15:04:05.000000Z07:00" /\
  sel c_Ldate = asc "2006-01-02" /\
  sel c_Ltime = asc "15:04:05Z07:00" /\
  sel (Z.lor c_Ldate c_Ltime) = asc "2006-01-0215:04:05Z07:00" /\
  sel c_Lmicroseconds = asc "15:04:05.000000Z07:00" /\
  sel (Z.lor c_Ldate c_Lmicroseconds) = asc "2006-01-02T15:04:05.000000Z07:00" /\
  sel (Z.lor c_Ltime c_Lmicroseconds) = asc "15:04:05.000000Z07:00" /\
  sel (Z.lor c_Ldate (Z.lor c_Ltime c_Lmicroseconds)) = asc "2006-01-02T15:04:05.000000Z07:00" /\
  sel c_LstdFlags = asc "15:04:05.000000Z07:00".
Proof. exact layout_eight. Qed.
Print Assumptions C16_layout_eight.

(* SetTimeFormat keeps the LAST NON-EMPTY argument; Go's RFC3339Nano when there is none *)
Theorem C16_set_time_format : forall args,
  set_time_format_ref args = last_nonempty (asc "2006-01-02T15:04:05.999999999Z07:00") args
  /\ (forallb (fun l => negb (nonempty l)) args = true ->
        set_time_format_ref args = asc "2006-01-02T15:04:05.999999999Z07:00")
  /\ (forall (pre : list bytes) (l : bytes) (post : list bytes), args = pre ++ l :: post -> l <> [] ->
        forallb (fun l => negb (nonempty l)) post = true -> set_time_format_ref args = l).
Proof. exact set_time_format_clauses. Qed.
Print Assumptions C16_set_time_format.

(* ---- framing: quoted in JSON and logfmt, followed by a bar in colour mode ---- *)
Theorem C16_quoted : forall s rendered,
  append_timestamp_framing (pc_json_mode s) (pc_no_color s) rendered = timestamp_text (shape_of s) rendered /\
  timestamp_text ShJSON rendered = [x22] ++ rendered ++ [x22] /\
  timestamp_text ShLogfmt rendered = [x22] ++ rendered ++ [x22] /\
  timestamp_text ShColor rendered = rendered ++ [x7c].
Proof. intros s rendered. split; [exact (framing_by_shape s rendered)|exact (quoted rendered)]. Qed.
Print Assumptions C16_quoted.

(* ---- the timestamp as a whole, for every rendering function (= for every instant) ---- *)
Theorem C16_timestamp : forall render utc_call layout_call flags sh,
  timestamp_gen render utc_call layout_call flags sh =
  timestamp_text sh (render (zone_choice_ref (utc_state utc_call) flags)
                            (layout_choice_ref t_defaultLayouts (layout_state layout_call) flags)).
Proof. exact timestamp_gen_spec. Qed.
Print Assumptions C16_timestamp.

(* what a correspondence case accepted by Corr.C16.ok establishes *)
Theorem C16_corr_sound : forall c render,
  (forall z l r, lookup_cand (c_cands c) z l = Some r -> render z l = r) ->
  ok c = true ->
  timestamp render t_defaultLayouts (c_utc c) (c_layout c) (c_flags c) (c_shape c) = c_observed c.
Proof. exact corr_sound. Qed.
Print Assumptions C16_corr_sound.

(* non-vacuity: a logger that was told SetUTCMode(true, false) and SetTimeFormat(Kitchen, empty),
   under the standard flags, in logfmt: the instant's own zone, Kitchen layout, quoted *)
Example C16_example :
  let render z l := (match z with ZoneUTC => asc "U:" | ZoneOwn => asc "O:" end) ++ l in
  timestamp render t_defaultLayouts (Some [true; false]) (Some [asc "3:04PM"; []]) c_LstdFlags ShLogfmt
    = [x22] ++ asc "O:3:04PM" ++ [x22]
  /\ timestamp render t_defaultLayouts None None (Z.lor c_Ldate c_Ltime) ShColor = asc "U:2006-01-0215:04:05Z07:00|"
  /\ timestamp render t_defaultLayouts None None c_LstdFlags ShJSON = [x22] ++ asc "O:15:04:05.000000Z07:00" ++ [x22].
Proof. vm_compute. repeat split; reflexivity. Qed.

(* ================================================================== *)
(* the rendering (Go's layout language) and the parse-back claim       *)
(* ================================================================== *)

(* ---- calendar: day numbers <-> civil dates, both ways, no bound on the day number ---- *)
Theorem C16_calendar_days : forall n, let '(y, m, d) := civil_from_days n in
  days_from_civil y m d = n /\ 1 <= m <= 12 /\ 1 <= d <= days_in_month y m.
Proof. exact dfc_cfd. Qed.
Print Assumptions C16_calendar_days.

Theorem C16_calendar_civil : forall y m d, valid_date y m d = true ->
  civil_from_days (days_from_civil y m d) = (y, m, d).
Proof. exact cfd_dfc. Qed.
Print Assumptions C16_calendar_civil.

(* ---- the text is defined on the whole domain and has, item by item, the element's shape:
   literal bytes as they are, 2/3/4-digit fields of exactly that width, unpadded fields of one
   or two digits without a leading zero, names from Go's tables, a fraction of exactly n digits
   (.000 form) or of 1..n digits not ending in 0 or nothing at all (.999 form), a zone that is
   Z or a sign followed by the digits and colons of the element ---- *)
Theorem C16_format_shape : forall layout sec nsec off ab,
  instant_ok sec nsec off -> zone_printable (tokens layout) off = true ->
  exists text pieces,
    format_time layout sec nsec off ab = Some text /\ text = concat pieces /\
    Forall2 piece_ok (tokens layout) pieces.
Proof. exact format_time_shape. Qed.
Print Assumptions C16_format_shape.

(* ---- parse-back, field by field: for every layout whose elements can be read back
   unambiguously (no zone abbreviation; an unpadded number or a .999 fraction is not followed
   by a digit, point or comma; all fraction elements of one precision) the reader returns
   exactly the fields the layout carries, each with the instant's value (nanoseconds cut to
   the layout's unit), and no other field ---- *)
Theorem C16_parse_back_fields : forall layout sec nsec off ab,
  layout_parses layout = true -> instant_ok sec nsec off -> zone_fits (tokens layout) off = true ->
  exists text f,
    format_time layout sec nsec off ab = Some text /\
    parse_fields layout text = Some f /\
    forall k, get f k = if has_kind (tokens layout) k
                        then Some (tval (layout_unit (tokens layout)) (tm_of sec nsec off ab) k)
                        else None.
Proof. exact parse_fields_format. Qed.
Print Assumptions C16_parse_back_fields.

(* ---- THE parse-back claim: for every layout that moreover carries a four-digit year, month,
   day, hour (24 h, or 12 h with AM/PM), minute, second and a numeric zone, every instant of the
   years 0..9999 with any nanosecond part, in every zone whose offset the layout's zone
   elements can express (multiple of their coarsest unit; not Go's irregular region), the text
   reads back as the instant cut to the layout's unit, in the same offset ---- *)
Theorem C16_parse_back : forall layout sec nsec off ab,
  layout_roundtrips layout = true -> instant_ok sec nsec off -> zone_fits (tokens layout) off = true ->
  exists text,
    format_time layout sec nsec off ab = Some text /\
    parse_time layout text =
      Some (sec, nsec / layout_unit (tokens layout) * layout_unit (tokens layout), off).
Proof. exact parse_time_format. Qed.
Print Assumptions C16_parse_back.

(* Go's own irregularity: the full statement (without zone_fits' second clause) is FALSE *)
Theorem C16_parse_back_subminute_refuted :
  exists layout sec nsec off ab text,
    layout_roundtrips layout = true /\ instant_ok sec nsec off /\
    off mod zone_unit (tokens layout) = 0 /\
    format_time layout sec nsec off ab = Some text /\
    text = lit "1969-12-31T23:59:59+00:00:-01" /\
    parse_time layout text = None.
Proof. exact parse_back_subminute_refuted. Qed.
Print Assumptions C16_parse_back_subminute_refuted.

(* ---- the layouts of the CURRENT source (by computation over Gen.Tables): every layout the
   flags can select reads back field by field; every table entry that carries date, time and
   zone is in the domain of C16_parse_back, and so is SetTimeFormat's default; with the date
   and the time flag on, the selected layout is in that domain ---- *)
Theorem C16_default_layouts_domain :
  forallb (fun kl => layout_parses (snd kl) && implb (carries_instant (snd kl)) (layout_roundtrips (snd kl)))
          t_defaultLayouts = true
  /\ layout_parses c_TimeNano = true
  /\ layout_roundtrips rfc3339nano = true
  /\ (forall flags, layout_parses (layout_choice_ref t_defaultLayouts [] flags) = true)
  /\ (forall flags, Z.land flags c_Ldate <> 0 -> Z.land flags c_Ltime <> 0 ->
        layout_roundtrips (layout_choice_ref t_defaultLayouts [] flags) = true).
Proof. exact default_layouts_domain. Qed.
Print Assumptions C16_default_layouts_domain.

(* ---- the logger's timestamp: zone and layout as the logger selects them ---- *)
Theorem C16_timestamp_parse_back : forall utc_call layout_call flags sec nsec own_off own_ab,
  let z := zone_choice_ref (utc_state utc_call) flags in
  let l := layout_choice_ref t_defaultLayouts (layout_state layout_call) flags in
  let off := chosen_off z own_off in
  layout_roundtrips l = true -> instant_ok sec nsec off -> zone_fits (tokens l) off = true ->
  exists text,
    format_time l sec nsec off (chosen_abbrev z own_ab) = Some text /\
    parse_time l text = Some (sec, nsec / layout_unit (tokens l) * layout_unit (tokens l), off).
Proof. exact timestamp_parse_back. Qed.
Print Assumptions C16_timestamp_parse_back.

(* no layout set, date and time flags on, any UTC mode and local-time flag: every instant in a
   minute-aligned zone reads back - to the second, or to the microsecond with Lmicroseconds *)
Theorem C16_default_timestamp_parse_back : forall utc_call flags sec nsec own_off own_ab,
  Z.land flags c_Ldate <> 0 -> Z.land flags c_Ltime <> 0 ->
  let z := zone_choice_ref (utc_state utc_call) flags in
  let l := layout_choice_ref t_defaultLayouts [] flags in
  let off := chosen_off z own_off in
  let u := if Z.land flags c_Lmicroseconds =? 0 then 1000000000 else 1000 in
  instant_ok sec nsec off -> off mod 60 = 0 ->
  exists text,
    format_time l sec nsec off (chosen_abbrev z own_ab) = Some text /\
    parse_time l text = Some (sec, nsec / u * u, off).
Proof. exact default_timestamp_parse_back. Qed.
Print Assumptions C16_default_timestamp_parse_back.

(* what a correspondence case accepted by Corr.C16.ok establishes about the modelled rendering *)
Theorem C16_corr_sound_model : forall c, ok c = true ->
  match model_text c with
  | Some r => c_model c = true /\ timestamp_text (c_shape c) r = c_observed c
  | None => c_model c = false
  end.
Proof. exact corr_sound_model. Qed.
Print Assumptions C16_corr_sound_model.

(* ---- non-vacuity: the hypotheses hold, and the conclusions compute, on instants that are
   not in the middle of the range ---- *)
Definition rt (layout : bytes) (sec nsec off : Z) : bool :=
  layout_roundtrips layout && instant_okb sec nsec off && zone_fits (tokens layout) off.

(* one second before the epoch, maximal nanoseconds, a negative half-hour zone, microsecond layout *)
Example C16_example_before_epoch :
  let l := lit "2006-01-02T15:04:05.000000Z07:00" in
  rt l (-1) 999999999 (-12600) = true /\
  format_time l (-1) 999999999 (-12600) (lit "NST") = Some (lit "1969-12-31T20:29:59.999999-03:30") /\
  parse_time l (lit "1969-12-31T20:29:59.999999-03:30") = Some (-1, 999999000, -12600).
Proof. vm_compute. repeat split; reflexivity. Qed.

(* the leap day of 2000 and the last nanosecond of year 9999, RFC3339Nano, +05:45 *)
Example C16_example_leap_day_and_last_instant :
  let l := rfc3339nano in
  rt l 951827696 120000000 20700 = true /\
  format_time l 951827696 120000000 20700 (lit "NPT") = Some (lit "2000-02-29T18:19:56.12+05:45") /\
  parse_time l (lit "2000-02-29T18:19:56.12+05:45") = Some (951827696, 120000000, 20700) /\
  rt l 253402300799 999999999 0 = true /\
  format_time l 253402300799 999999999 0 (lit "UTC") = Some (lit "9999-12-31T23:59:59.999999999Z") /\
  parse_time l (lit "9999-12-31T23:59:59.999999999Z") = Some (253402300799, 999999999, 0).
Proof. vm_compute. repeat split; reflexivity. Qed.

(* the first instant of year 0 (a leap year), a zone with seconds under a seconds-bearing
   layout, and a 12-hour layout with names *)
Example C16_example_year_zero_and_names :
  let l := lit "2006-01-02T15:04:05.000000000Z07:00:00" in
  rt l (-62167219200) 1 0 = true /\
  format_time l (-62167219200) 1 0 (lit "UTC") = Some (lit "0000-01-01T00:00:00.000000001Z") /\
  rt l (-62162035201) 0 (-17762) = true /\
  format_time l (-62162035201) 0 (-17762) (lit "LMT") = Some (lit "0000-02-29T19:03:57.000000000-04:56:02") /\
  parse_time l (lit "0000-02-29T19:03:57.000000000-04:56:02") = Some (-62162035201, 0, -17762) /\
  let k := lit "Monday, January 2 2006 3:04:05PM -0700" in
  rt k 1709210096 5 (-18000) = true /\
  format_time k 1709210096 5 (-18000) (lit "EST") = Some (lit "Thursday, February 29 2024 7:34:56AM -0500") /\
  parse_time k (lit "Thursday, February 29 2024 7:34:56AM -0500") = Some (1709210096, 0, -18000).
Proof. vm_compute. repeat split; reflexivity. Qed.

(* the candidate-only route of the correspondence: the first second of year 10000 is outside
   format_time's domain (Go prints five digits there); the case is then judged on Go's own
   rendering of the selected candidate alone, and must say so (c_model = false) *)
Example C16_example_candidate_route :
  let l := asc "2006-01-02T15:04:05.000000Z07:00" in
  let c := mk None None (Z.lor c_Ldate c_Lmicroseconds) ShJSON
              [(ZoneUTC, l, asc "10000-01-01T00:00:00.000000Z")]
              ([x22] ++ asc "10000-01-01T00:00:00.000000Z" ++ [x22])
              253402300800 0 3600 (asc "CET") false false None in
  model_text c = None /\ ok c = true /\ ok (mk (c_utc c) (c_layout c) (c_flags c) (c_shape c) (c_cands c) (c_observed c)
                                            (c_sec c) (c_nsec c) (c_off c) (c_abbrev c) true false None) = false.
Proof. vm_compute. repeat split; reflexivity. Qed.
