(* C13 - Failing destinations: bounded reaction, no lost records elsewhere, recovery.

   Quantifiers everywhere: [faults : nat -> bool] is ANY assignment of fail/succeed to the
   Write attempts of the whole history, [c : lcfg] ANY logger configuration (writer sets
   after any configuration history or none at all, error-device set, treated-as table,
   debug mode, logger level, flags), [lvl] ANY severity in Z, [n] any starting attempt
   number.  [dest_ids c lvl] are the destinations selected for a severity (C03). *)
Require Import Verif.Model.Base Verif.Model.Decision Verif.Model.Level Verif.Model.DecisionRef
  Verif.Model.Writers Verif.Model.Deliver.
Require Import Verif.Gen.Decisions.
Require Import Verif.Proofs.DeliverP.
Require Import Verif.Model.GoSem Verif.Model.GenRef.
Require Verif.Gen.Delivery.
Require Import Verif.Proofs.GenDeliverP.

(* tie: the condition of the nested diagnostic in Entry.printOut, translated from the source
   on every run, is the guard the theorems below are proved about *)
Theorem C13_gen_should_warn : forall err lvl, Decisions.should_warn err lvl = should_warn_ref err lvl.
Proof. intros err lvl. reflexivity. Qed.
Print Assumptions C13_gen_should_warn.

(* ---- the delivery code against the delivery model (Gen/Delivery.v is translated from
   LWs.WriteLeveled, LWs.Write and Entry.printOut on every run).  What the outside world does is
   quantified: [wres k] = (count, failed) returned by the k-th Write attempt of the history, [isls] =
   which writers are LevelSettable; the type assertions of the code are read on the member model
   (GenRef.asm_ls ...: a *logwr cell is not LevelSettable itself, the writer inside may be).
   The fault oracle of the model is [fun i => snd (wres i)]. ---- *)

(* LWs.WriteLeveled continues past a failing member: EVERY member gets exactly one Write, in order
   (told the level right before it if it asks for that: Writers.deliver, C03); the byte count adds
   up the successful attempts only; the joined error consists of exactly the failed attempts, in
   order; the clock, the error flag and the attempted writers are those of the model's write_all *)
Theorem C13_gen_write_leveled : forall isls wres ms lvl p tr k kind,
  let faults := fun i => snd (wres i) in
  Delivery.write_leveled (asm_ls isls) asm_logwr cell_writer (inner_ls isls) wres ms lvl p tr k =
    (counted_bytes wres k (length ms), failed_attempts wres k (length ms), tr ++ deliver isls ms lvl,
     snd (fst (write_all faults kind ms k)))
  /\ negb (err_is_nil (failed_attempts wres k (length ms))) = snd (write_all faults kind ms k)
  /\ writes_of (deliver isls ms lvl) = map a_w (fst (fst (write_all faults kind ms k))).
Proof. exact gen_write_leveled. Qed.
Print Assumptions C13_gen_write_leveled.

(* LWs.Write: the same without the level notification *)
Theorem C13_gen_write : forall wres ms p tr k kind,
  let faults := fun i => snd (wres i) in
  Delivery.write_plain wres ms p tr k =
    (counted_bytes wres k (length ms), failed_attempts wres k (length ms),
     tr ++ map (fun m => EvWrite (member_id m)) ms, snd (fst (write_all faults kind ms k)))
  /\ negb (err_is_nil (failed_attempts wres k (length ms))) = snd (write_all faults kind ms k)
  /\ map member_id ms = map a_w (fst (fst (write_all faults kind ms k))).
Proof. exact gen_write_plain. Qed.
Print Assumptions C13_gen_write.

(* Entry.printOut on the destinations findWriter selects for the configuration [c] is one unfolding
   of the model's cycle: it returns, or its LAST act is the nested s.Warn (then the model of Warn -
   gate, logContext's tail, printOut at Warn - continues), and that happens exactly when some
   attempt failed and the level is not Warn *)
Theorem C13_gen_print_out : forall (wget : Z -> list member) isls wres c lvl msg k kind fuel,
  let faults := fun i => snd (wres i) in
  let atts := fun tr' => stamp faults kind (writes_of tr') k in
  print_out_code (S fuel) c faults lvl kind k =
  match Delivery.print_out (asm_ls isls) asm_logwr cell_writer (inner_ls isls) lw_as_list (lw_as_ls isls) wget
          (fun l => LWlist (dests c l)) wres lvl msg [] k with
  | PoReturn tr' k' => Normal (atts tr') k'
  | PoWarn tr' k' =>
      if admitted c lv_warn
      then seq_after (atts tr') (tail c lv_warn (print_out_code fuel c faults lv_warn Diag k'))
      else Normal (atts tr') k'
  | PoOther _ _ => OutOfFuel
  end
  /\ (forall tr' k', Delivery.print_out (asm_ls isls) asm_logwr cell_writer (inner_ls isls) lw_as_list (lw_as_ls isls) wget
          (fun l => LWlist (dests c l)) wres lvl msg [] k <> PoOther tr' k').
Proof. exact gen_print_out. Qed.
Print Assumptions C13_gen_print_out.

(* the branches of printOut that dualWriter.Get never produces: nothing happens for a nil writer; a
   single writer that is not a list gets one Write (and SetLevel first if it asks for it) *)
Theorem C13_gen_print_out_other : forall (wget : Z -> list member) isls wres lvl msg tr k m,
  Delivery.print_out (asm_ls isls) asm_logwr cell_writer (inner_ls isls) lw_as_list (lw_as_ls isls) wget
    (fun _ => LWnil) wres lvl msg tr k = PoReturn tr k
  /\ Delivery.print_out (asm_ls isls) asm_logwr cell_writer (inner_ls isls) lw_as_list (lw_as_ls isls) wget
       (fun _ => LWone m) wres lvl msg tr k =
     (if snd (wres k) && negb (lvl =? 3) then PoWarn else PoReturn)
       (tr ++ (match asm_ls isls m with Some x => [EvSet x lvl] | None => [] end) ++ [EvWrite (member_id m)]) (S k).
Proof. exact gen_print_out_other. Qed.
Print Assumptions C13_gen_print_out_other.

(* termination of the nested call: fuel for the call itself and for ONE nested diagnostic is
   always enough, for printOut, for a public call and for any history of calls *)
Theorem C13_bounded : forall faults c lvl k n fuel, (2 <= fuel)%nat ->
  print_out_code fuel c faults lvl k n = print_out_code 2 c faults lvl k n
  /\ print_out_code fuel c faults lvl k n <> OutOfFuel.
Proof. exact print_out_bounded. Qed.
Print Assumptions C13_bounded.

Theorem C13_bounded_call : forall faults c lvl n fuel, (2 <= fuel)%nat ->
  log_call_code fuel c faults lvl n = log_call_code 2 c faults lvl n
  /\ log_call_code fuel c faults lvl n <> OutOfFuel.
Proof. exact log_call_bounded. Qed.
Print Assumptions C13_bounded_call.

Theorem C13_bounded_history : forall faults calls w fuel, (2 <= fuel)%nat ->
  run_code fuel faults w calls = run_code 2 faults w calls
  /\ ~ In OutOfFuel (fst (run_code fuel faults w calls)).
Proof. exact run_bounded. Qed.
Print Assumptions C13_bounded_history.

(* the `lvl != WarnLevel` conjunct is what bounds it: without it, when every Write fails, no
   amount of fuel suffices (the diagnostic about the diagnostic about ... never ends) *)
Theorem C13_guard_needed : forall c, dest_ids c lv_warn <> [] -> admitted c lv_warn = true ->
  forall fuel lvl k n, dest_ids c lvl <> [] -> print_out_noguard fuel c all_fail lvl k n = OutOfFuel.
Proof. exact noguard_diverges. Qed.
Print Assumptions C13_guard_needed.

(* every selected destination is attempted exactly once with the original record, in order,
   whatever the other attempts return; the original attempts come first *)
Theorem C13_others_served : forall faults c lvl n fuel, (2 <= fuel)%nat ->
  let r := log_call_code fuel c faults lvl n in
  origs r = (if admitted c lvl then stamp faults Orig (dest_ids c lvl) n else [])
  /\ map a_w (origs r) = (if admitted c lvl then dest_ids c lvl else [])
  /\ attempts_of r = origs r ++ diags r.
Proof. exact others_served. Qed.
Print Assumptions C13_others_served.

(* the diagnostic is attempted once on each destination of Warn, exactly when the record was
   admitted, some attempt of it failed, it was not itself a warning, and the logger admits
   Warn; otherwise there is none; never more than one per destination of Warn *)
Theorem C13_one_diagnostic : forall faults c lvl n fuel, (2 <= fuel)%nat ->
  let r := log_call_code fuel c faults lvl n in
  let trig := admitted c lvl && existsb a_failed (origs r) && negb (lvl =? lv_warn) && admitted c lv_warn in
  diags r = (if trig then stamp faults Diag (dest_ids c lv_warn) (n + length (dest_ids c lvl))%nat else [])
  /\ map a_w (diags r) = (if trig then dest_ids c lv_warn else [])
  /\ (length (diags r) <= length (dest_ids c lv_warn))%nat.
Proof. exact one_diagnostic. Qed.
Print Assumptions C13_one_diagnostic.

(* the call returns: the only non-normal outcome is the documented termination of the
   caller's own Panic/Fatal severity (C12), decided by the flags and never by a fault; the
   nested diagnostic cannot terminate anything *)
Theorem C13_returns : forall faults c lvl n fuel, (2 <= fuel)%nat ->
  (exists atts n', log_call_code fuel c faults lvl n =
     if admitted c lvl then tail c lvl (Normal atts n') else Normal [] n)
  /\ (termination_ref (l_intesting c) (l_flags c) lvl = ActContinue ->
      outcome_is_normal (log_call_code fuel c faults lvl n) = true)
  /\ (lvl <> lv_panic -> lvl <> lv_fatal -> outcome_is_normal (log_call_code fuel c faults lvl n) = true).
Proof. exact returns. Qed.
Print Assumptions C13_returns.

(* no sticky state: a call leaves the configuration as it was, so does any history ... *)
Theorem C13_no_sticky : forall sw fuel faults calls w lvl,
  w_cfg (snd (step sw fuel faults w lvl)) = w_cfg w
  /\ w_cfg (snd (run sw fuel faults w calls)) = w_cfg w.
Proof. intros sw fuel faults calls w lvl. split; [apply step_cfg|apply run_cfg]. Qed.
Print Assumptions C13_no_sticky.

(* ... hence after ANY history of calls and failures, as soon as the destinations work again
   ([faults] is false from the current attempt on) a call delivers exactly as the same call on
   a fresh logger whose destinations never failed: once to each selected destination, no diagnostic *)
Theorem C13_recovery : forall fuel faults w pre lvl, (2 <= fuel)%nat ->
  let w' := snd (run_code fuel faults w pre) in
  (forall m, (w_next w' <= m)%nat -> faults m = false) ->
  erase (fst (step_code fuel faults w' lvl)) = erase (log_call_code fuel (w_cfg w) all_succeed lvl 0)
  /\ attempts_of (fst (step_code fuel faults w' lvl)) =
     (if admitted (w_cfg w) lvl then stamp all_succeed Orig (dest_ids (w_cfg w) lvl) 0 else []).
Proof. exact recovery. Qed.
Print Assumptions C13_recovery.

(* ---- non-vacuity ---- *)
Definition ex_cfg (level : Z) : lcfg :=
  {| l_writers := fold_left (wstep (fun w => w =? 3)) [SetW 1; AddW 2; SetE 3; AddE 4; AddL 3 5] None;
     l_errdev := [0; 1; 2; 3; 11]; l_as := [(9, 4); (10, 4); (11, 2)]; l_dbg := false;
     l_level := level; l_intesting := false; l_flags := 0 |}.

(* Info on a Debug-level logger, writers 1 and 2; the first Write fails, the second is still
   attempted; one diagnostic goes to the leveled Warn writer 5 (and fails, with no further
   reaction); fuel 1 is not enough for it, so the bound 2 is exact *)
Example C13_example :
  let f := sched_of [true; false; true] false in
  log_call_code 2 (ex_cfg 5) f 4 0 =
    Normal [ {| a_w := 1; a_kind := Orig; a_failed := true |}; {| a_w := 2; a_kind := Orig; a_failed := false |};
             {| a_w := 5; a_kind := Diag; a_failed := true |} ] 3
  /\ log_call_code 1 (ex_cfg 5) f 4 0 = OutOfFuel
  (* an Error-level logger does not admit the diagnostic *)
  /\ attempts_of (log_call_code 2 (ex_cfg 2) all_fail 2 0) =
       [ {| a_w := 3; a_kind := Orig; a_failed := true |}; {| a_w := 4; a_kind := Orig; a_failed := true |} ]
  (* a failing warning has no diagnostic *)
  /\ attempts_of (log_call_code 2 (ex_cfg 5) all_fail 3 0) = [ {| a_w := 5; a_kind := Orig; a_failed := true |} ]
  (* a Panic record without LnoInterrupt terminates after delivery and after its diagnostic *)
  /\ log_call_code 2 (ex_cfg 5) all_fail 0 7 =
       Terminated ActPanic [ {| a_w := 3; a_kind := Orig; a_failed := true |}; {| a_w := 4; a_kind := Orig; a_failed := true |};
                             {| a_w := 5; a_kind := Diag; a_failed := true |} ] 10
  (* without the guard the same configuration runs out of any fuel, e.g. 50 *)
  /\ print_out_noguard 50 (ex_cfg 5) all_fail 4 Orig 0 = OutOfFuel
  (* recovery: three calls with failures, then the schedule is over *)
  /\ (let w' := snd (run_code 2 f {| w_cfg := ex_cfg 5; w_next := 0 |} [4; 2; 3]) in
      w_next w' = 6%nat /\ w_cfg w' = ex_cfg 5
      /\ attempts_of (fst (step_code 2 f w' 4)) =
           [ {| a_w := 1; a_kind := Orig; a_failed := false |}; {| a_w := 2; a_kind := Orig; a_failed := false |} ]).
Proof. vm_compute. repeat split; reflexivity. Qed.
