(* C20 - Duration text helpers are total, invertible and agree with the standard parser.

   Model: Model/Dur.v (short_dur with the buffer size as a parameter, parse_dur
   with the unit table as a parameter).  units_logg is the unitMap literal of
   the source (Gen.Tables.t_unitMap, regenerated on every run), units_std the
   same table without the day entry, i.e. time.ParseDuration's table; the
   buffer size of the source is Gen.Tables.t_shortDurBufSize.

   The float expression uint64(float64(f) * (float64(unit) / scale)) of the
   parser is computed with Coq's primitive binary64 floats.  Its exactness on
   the fractions the formatter emits (DurP.frac_op_float_exact) is proved from
   the standard library's specification of the primitives (FloatAxioms.mul_spec,
   FloatAxioms.of_uint63_spec) plus kernel evaluation of the 18 closed
   quotients float64(10^p)/10^k (DurP.quot_pk); these and the primitive
   operations are what Print Assumptions lists below. *)
Require Import Verif.Model.Base Verif.Model.Decision Verif.Model.Dur Verif.Gen.Tables.
Require Import Verif.Proofs.DurP.

(* Totality.  For every buffer of at least 33 bytes, every int64 and both
   styles the formatter returns a text. *)
Theorem C20_total : forall B frac d, 33 <= B -> - 2 ^ 63 <= d < 2 ^ 63 -> short_dur B frac d <> Panic.
Proof. exact total_any. Qed.
Print Assumptions C20_total.

(* 33 is sharp: with the [32]byte array the code had when this file was written
   the compact style panics (index -1), e.g. at math.MinInt64 ... *)
Theorem C20_total_refuted_at_32 : exists d, - 2 ^ 63 <= d < 2 ^ 63 /\ short_dur 32 false d = Panic.
Proof. exists (- 2 ^ 63). vm_compute. repeat split; discriminate. Qed.
Print Assumptions C20_total_refuted_at_32.

(* ... and in general: the formatter is total exactly when the buffer has 33 bytes or more *)
Theorem C20_total_iff : forall B, 0 <= B ->
  ((forall frac d, - 2 ^ 63 <= d < 2 ^ 63 -> short_dur B frac d <> Panic) <-> 33 <= B).
Proof. exact total_iff. Qed.
Print Assumptions C20_total_iff.

(* The code as it is now (buffer size regenerated from the source): either the
   array has >= 33 bytes and the formatter is total, or it is shorter and there
   is a panicking duration.  Today t_shortDurBufSize = 32 and the second
   disjunct holds (known finding C20/compact-buffer-overflow); once the array
   is enlarged, [C20_total t_shortDurBufSize] applied to the then provable
   [33 <= t_shortDurBufSize] is the full totality theorem of the current code. *)
Theorem C20_total_current :
  (33 <= t_shortDurBufSize /\
     forall frac d, - 2 ^ 63 <= d < 2 ^ 63 -> short_dur t_shortDurBufSize frac d <> Panic)
  \/ (t_shortDurBufSize < 33 /\
     exists d, - 2 ^ 63 <= d < 2 ^ 63 /\ short_dur t_shortDurBufSize false d = Panic).
Proof. exact total_current. Qed.
Print Assumptions C20_total_current.

(* Round trip, both styles, every int64, whatever the buffer size: a returned
   text is read back by logg's parser as exactly the same duration. *)
Theorem C20_roundtrip : forall B frac d t, 0 <= B -> - 2 ^ 63 <= d < 2 ^ 63 ->
  short_dur B frac d = Ok t -> parse_dur units_logg t = Ok d.
Proof. exact roundtrip_any. Qed.
Print Assumptions C20_roundtrip.

Theorem C20_roundtrip_current : forall frac d t, - 2 ^ 63 <= d < 2 ^ 63 ->
  short_dur t_shortDurBufSize frac d = Ok t -> parse_dur units_logg t = Ok d.
Proof. intros frac d t. exact (roundtrip_any t_shortDurBufSize frac d t bufsize_nonneg). Qed.
Print Assumptions C20_roundtrip_current.

(* Everything the standard parser accepts, logg's parser accepts with the same result. *)
Theorem C20_superset : forall s r, parse_dur units_std s = Ok r -> parse_dur units_logg s = Ok r.
Proof. exact superset_std. Qed.
Print Assumptions C20_superset.

(* What logg's parser accepts beyond that uses the day unit. *)
Theorem C20_only_day : forall s r, parse_dur units_logg s = Ok r ->
  parse_dur units_std s = Ok r \/ uses_day_unit s = true.
Proof. exact only_day. Qed.
Print Assumptions C20_only_day.

(* On strings without a day unit token the two parsers are the same function
   (same accept/reject decision, same value) ... *)
Theorem C20_same_decision : forall s, uses_day_unit s = false -> parse_dur units_std s = parse_dur units_logg s.
Proof. exact same_decision. Qed.
Print Assumptions C20_same_decision.

(* ... in particular a string rejected by the standard parser is rejected by logg's unless it uses the day unit *)
Theorem C20_reject_agreement : forall s, parse_dur units_std s = Err ->
  parse_dur units_logg s = Err \/ uses_day_unit s = true.
Proof. exact reject_agreement. Qed.
Print Assumptions C20_reject_agreement.

(* Both parsers always decide: a value or an error, never a panic (no zero unit) and the loop fuel of the model is never exhausted *)
Theorem C20_parse_decides : forall s,
  ((exists r, parse_dur units_logg s = Ok r) \/ parse_dur units_logg s = Err)
  /\ ((exists r, parse_dur units_std s = Ok r) \/ parse_dur units_std s = Err).
Proof. exact parse_decides. Qed.
Print Assumptions C20_parse_decides.

(* non-vacuity and concrete instances *)
Example C20_example_format :
  short_dur 33 false (- 2 ^ 63)
    = Ok [x2d;x31;x30;x36;x37;x35;x31;x64;x32;x33;x68;x34;x37;x6d;x31;x36;x73;x38;x35;x34;x6d;x73;x37;x37;x35;xc2;xb5;x73;x38;x30;x38;x6e;x73]
  /\ short_dur t_shortDurBufSize true (- 2 ^ 63)
    = Ok [x2d;x32;x35;x36;x32;x30;x34;x37;x68;x34;x37;x6d;x31;x36;x2e;x38;x35;x34;x37;x37;x35;x38;x30;x38;x73]
  /\ short_dur t_shortDurBufSize false 1500000 = Ok [x31;x2e;x35;x6d;x73]
  /\ short_dur t_shortDurBufSize true 3605000000000 = Ok [x31;x68;x30;x6d;x35;x73]
  /\ short_dur t_shortDurBufSize false 133200000000000 = Ok [x31;x64;x31;x33;x68].
Proof. vm_compute. repeat split; reflexivity. Qed.

Example C20_example_parse :
  parse_dur units_logg [x33;x64;x37;x73] = Ok 259207000000000            (* "3d7s" *)
  /\ parse_dur units_std [x33;x64;x37;x73] = Err
  /\ uses_day_unit [x33;x64;x37;x73] = true
  /\ parse_dur units_std [x2d;x31;x2e;x35;x68] = Ok (-5400000000000)     (* "-1.5h" *)
  /\ parse_dur units_logg [x2d;x31;x2e;x35;x68] = Ok (-5400000000000)
  /\ uses_day_unit [x2d;x31;x2e;x35;x68] = false
  /\ parse_dur units_logg [x39;x39;x39;x2e;x39;x39;x39;xc2;xb5;x73] = Ok 999999   (* "999.999 micro-s" *)
  /\ parse_dur units_logg [x2d;x39;x32;x32;x33;x33;x37;x32;x30;x33;x36;x38;x35;x34;x37;x37;x35;x38;x30;x38;x6e;x73] = Ok (- 2 ^ 63)
  /\ parse_dur units_logg [x39;x32;x32;x33;x33;x37;x32;x30;x33;x36;x38;x35;x34;x37;x37;x35;x38;x30;x38;x6e;x73] = Err
  /\ parse_dur units_logg [x31;x64;x64] = Err /\ uses_day_unit [x31;x64;x64] = false.
Proof. vm_compute. repeat split; reflexivity. Qed.
