(* C11 - Output format is a per-logger three-state machine; getters and bytes agree.
   Only property theorems here; each is closed by [exact] of a lemma of Proofs/. *)
Require Import Verif.Model.Base Verif.Model.Mode Verif.Model.Writers Verif.Model.Tree.
Require Import Verif.Proofs.ModeP Verif.Proofs.TreeP.
Require Verif.Gen.Decisions.
Require Import Verif.Model.DecisionRef.

(* ---- the source against the model: SetJSONMode, SetColorMode and PrintCtx.setentry as they are
   in /repo now (translated on every run, Gen/Decisions.v) compute the model's functions ---- *)
Theorem C11_gen_set_json_mode : forall useJSON useColor (b : list bool),
  Decisions.set_json_mode useJSON useColor b = set_json_mode_ref useJSON useColor b.
Proof. exact gen_set_json_mode. Qed.
Print Assumptions C11_gen_set_json_mode.

Theorem C11_gen_set_color_mode : forall useJSON useColor (b : list bool),
  Decisions.set_color_mode useJSON useColor b = set_color_mode_ref useJSON useColor b.
Proof. exact gen_set_color_mode. Qed.
Print Assumptions C11_gen_set_color_mode.

(* the two mode bits of the pooled print context after setentry *)
Theorem C11_gen_pc_setentry : forall useJSON useColor,
  Decisions.pc_setentry useJSON useColor = pc_setentry_ref useJSON useColor.
Proof. exact gen_pc_setentry. Qed.
Print Assumptions C11_gen_pc_setentry.


(* For every list of mode calls (any number of boolean arguments each) applied to
   a logger, the flags follow the three-state machine of the statement and the
   two flags are never both set. *)
Theorem C11_machine : forall (cs : list mcall) (s : mflags), mode_wf s ->
  mode_of (fold_left apply_call cs s) = fold_left mode_step cs (mode_of s)
  /\ mode_wf (fold_left apply_call cs s).
Proof. exact mode_machine_fold. Qed.
Print Assumptions C11_machine.

(* the four clauses of the statement *)
Theorem C11_clauses : forall b s,
  (last_of true b = true -> mode_of (set_json_mode b s) = MJ) /\
  (last_of true b = true -> mode_of (set_color_mode b s) = MC) /\
  (last_of true b = false -> mode_of (set_color_mode b s) = ML) /\
  (mode_wf s -> last_of true b = false ->
     mode_of (set_json_mode b s) = match mode_of s with MJ => ML | m => m end).
Proof.
  intros b s. split; [exact (clause_json_true b s)|]. split; [exact (clause_color_true b s)|].
  split; [exact (clause_color_false b s)|exact (clause_json_false b s)].
Qed.
Print Assumptions C11_clauses.

(* getters and the shape of the emitted record agree with the state *)
Theorem C11_getters : forall s, mode_wf s ->
  (useJSON s = true <-> mode_of s = MJ) /\ (useColor s = true <-> mode_of s = MC).
Proof. exact getters_agree. Qed.
Print Assumptions C11_getters.

Theorem C11_shape : forall s, mode_wf s ->
  shape_of s = match mode_of s with MJ => ShJSON | MC => ShColor | ML => ShLogfmt end.
Proof. exact shape_agrees. Qed.
Print Assumptions C11_shape.

(* every logger of every world reachable by any history of tree operations
   (New with options, With*, Set*, WithSkip, package SetLevel, ...) is in exactly
   one of the three formats *)
Theorem C11_invariant : forall islw ops l d t,
  Forall (fun e => mode_wf (e_mode e)) (entries (run islw (init_world l d t) ops)).
Proof. intros islw ops l d t. exact (run_wf islw ops _ (init_wf l d t)). Qed.
Print Assumptions C11_invariant.

(* a mode call on logger i is the machine step on i ... *)
Theorem C11_set_effect : forall islw w i e c,
  nth_error (entries w) i = Some e ->
  nth_error (entries (fst (step islw w (OSet i (match c with CallJSON b => SJSON b | CallColor b => SColor b end))))) i
  = Some (with_mode e (apply_call (e_mode e) c)).
Proof. exact set_mode_call_effect. Qed.
Print Assumptions C11_set_effect.

(* ... and never changes another logger (any operation: only the touched one may change) *)
Theorem C11_local : forall islw w o j, (j < length (entries w))%nat -> touched w o <> Some j ->
  nth_error (entries (fst (step islw w o))) j = nth_error (entries w) j.
Proof. exact step_isolation. Qed.
Print Assumptions C11_local.

(* non-vacuity: a concrete reachable world with a JSON, a colour and a logfmt logger *)
Example C11_example :
  let w := run (fun _ => false) (init_world 3 false false)
             [OWith 0%nat (SJSON []); OWith 1%nat (SColor [false]); OSet 1%nat (SJSON [true; false])] in
  map (fun e => mode_of (e_mode e)) (entries w) = [MC; ML; ML].
Proof. vm_compute. reflexivity. Qed.
