(* C02 - Exactly-once delivery: each admitted call is one whole Write, for any arguments.

   Model: Model/Args.v (argument list -> attributes -> ONE buffer -> one Write per selected
   destination), built from Model/Deliver.v (admission, destinations, the Write loop, the
   termination tail: property C13's model under the schedule in which no Write fails),
   Model/Writers.v (C03) and Model/Encode.v (the three encoders, C04-C06).  Lemmas:
   Proofs/ArgsP.v.

   Two defects were found under this property; each is a switch of the model
   (Args.fix_println, Args.fix_emptykey; false = the code as found) and every theorem below is
   stated for BOTH values unless it says otherwise:
     * Println(42) / logger.Println(42) panic on args[0].(string): C02_println_refuted for the
       code as found, C02_no_model_panic_fixed for the repaired variant;
     * an empty string in key position is swallowed and shifts every later pair:
       C02_emptykey_refuted.

   PARTIAL: "returns normally" is proved for the model's explicit panic sites (the
   single-value type assertions and panic( calls of the source, Gen/PanicSites.v); a run-time
   panic the Go runtime can raise anywhere (nil dereference inside a value's own method, ...)
   is reachable only by the generated inputs of the correspondence run. *)
Require Import Verif.Model.Base Verif.Model.Decision Verif.Model.DecisionRef Verif.Model.Level Verif.Model.Mode.
Require Import Verif.Model.Attrs Verif.Model.Encode Verif.Model.Writers Verif.Model.Deliver Verif.Model.Args.
Require Import Verif.Model.Terminate Verif.Gen.PanicSites Verif.Gen.Tables.
Require Import Verif.Proofs.ArgsP.
Require Verif.Gen.Layout Verif.Model.LayoutRef Verif.Proofs.GenLayoutP.

(* the three encoders end every record with a line feed (from the definition of Encode.encode;
   None = a coloured-mode message with markup, rendered by an HTML translator outside the model) *)
Theorem C02_encode_ends_lf : forall isprint g c msg attrs b,
  encode isprint g c msg attrs = Some b -> exists pre, b = pre ++ [x0a].
Proof. exact encode_ends_lf. Qed.
Print Assumptions C02_encode_ends_lf.

(* EXACTLY ONCE.  For every configuration (writers, registry, debug mode, logger level, flags,
   format, name, own attributes), every entry point, every argument list and both variants of
   the two repairs: when the call resolves to a severity that is not Panic/Fatal, then
   - admitted: the events are exactly one Write per destination selected for the severity
     (Writers.dest), in order, all with ONE payload p, and p (when the encoder model gives its
     bytes) ends with a line feed;
   - not admitted: there is no event at all. *)
Theorem C02_exactly_once : forall isprint g fp fx c ep args lvl msg rest,
  resolve_with fp ep args = inl (lvl, msg, rest) -> terminating lvl = false ->
  exists p,
    p = payload isprint g fx c lvl msg rest
    /\ (enabled_code (l_as (x_l c)) (l_dbg (x_l c)) (l_level (x_l c)) lvl = true ->
          log_call_full_with isprint g fp fx c ep args
          = Returned (map (fun w => Write w p) (dest (l_errdev (x_l c)) (l_writers (x_l c)) lvl)))
    /\ (enabled_code (l_as (x_l c)) (l_dbg (x_l c)) (l_level (x_l c)) lvl = false ->
          log_call_full_with isprint g fp fx c ep args = Returned [])
    /\ (forall b, p = Some b -> exists pre, b = pre ++ [x0a]).
Proof. exact exactly_once. Qed.
Print Assumptions C02_exactly_once.

(* the verbs, Context verbs, LogAttrs/Logit/Log and the package-level functions always resolve:
   the statement without the resolution hypothesis *)
Theorem C02_exactly_once_verbs : forall isprint g fp fx c lvl msg args, terminating lvl = false ->
  log_call_full_with isprint g fp fx c (EVerb lvl msg) args =
  Returned (if enabled_code (l_as (x_l c)) (l_dbg (x_l c)) (l_level (x_l c)) lvl
            then map (fun w => Write w (payload isprint g fx c lvl msg args))
                     (dest (l_errdev (x_l c)) (l_writers (x_l c)) lvl)
            else []).
Proof. intros isprint g fp fx c lvl msg args T. exact (call_closed isprint g fp fx c _ _ _ _ _ (resolve_verb fp lvl msg args) T). Qed.
Print Assumptions C02_exactly_once_verbs.

(* a destination that is not selected sees nothing; the number of Writes is the number of
   selected destinations *)
Theorem C02_nothing_else : forall ws p w, ~ In w ws ->
  (forall q, ~ In (Write w q) (writes_to ws p)) /\ length (writes_to ws p) = length ws.
Proof. intros ws p w H. split; [exact (nothing_else ws p w H)|exact (writes_to_length ws p)]. Qed.
Print Assumptions C02_nothing_else.

(* BLANK PRINT.  An Always-severity call (Print, Println, ...) whose message is empty or
   consists of blanks, tabs, CR and LF only is delivered as the single byte LF to each
   destination - whatever its arguments; and ONLY then: at any other severity a blank message
   is an ordinary record (at least two bytes, ending with LF). *)
Theorem C02_blank_print : forall isprint g fp fx c ep args msg rest,
  resolve_with fp ep args = inl (lv_always, msg, rest) -> all_blank msg = true ->
  log_call_full_with isprint g fp fx c ep args =
  Returned (if enabled_code (l_as (x_l c)) (l_dbg (x_l c)) (l_level (x_l c)) lv_always
            then map (fun w => Write w (Some [x0a])) (dest (l_errdev (x_l c)) (l_writers (x_l c)) lv_always)
            else []).
Proof. exact blank_print. Qed.
Print Assumptions C02_blank_print.

Theorem C02_blank_only_print : forall isprint g fx c lvl msg args b,
  (blank_record lvl msg = true <-> lvl = lv_always /\ all_blank msg = true)
  /\ (lvl <> lv_always -> payload isprint g fx c lvl msg args = Some b ->
        (2 <= length b)%nat /\ exists pre, b = pre ++ [x0a]).
Proof.
  intros isprint g fx c lvl msg args b. split; [exact (blank_record_only lvl msg)|].
  exact (not_blank_other_severity isprint g fx c lvl msg args b).
Qed.
Print Assumptions C02_blank_only_print.

(* ARGUMENTS.  argsToAttrs is total (a structural function) and is characterised item by item:
   the list splits into segments (segs) that together are the whole list, nothing lost or
   invented (1); the attributes are those of the segments, in order: one attribute per
   key/value pair, every Attr argument itself, every member of an Attrs / []Attr argument (2);
   what is dropped is exactly: an empty string in key position (only in the code as found), a
   value that is neither string nor attribute in key position, and a key with nothing after
   it, which can only be the last item (3, 4); a well-paired list loses nothing (5). *)
Theorem C02_args_total : forall fx args,
  flat_map seg_items (segs fx args) = args
  /\ args_to_attrs_with fx args = flat_map seg_attrs (segs fx args)
  /\ Forall (drop_shape fx) (segs fx args)
  /\ (forall pre k post, segs fx args = pre ++ SDangling k :: post -> post = [])
  /\ (well_paired args = true -> dropped fx args = []).
Proof.
  intros fx args. split; [exact (segs_items fx args)|]. split; [exact (args_segs fx args)|].
  split; [exact (segs_shapes fx args)|]. split; [exact (dangling_last fx args)|].
  exact (well_paired_nothing_dropped fx args).
Qed.
Print Assumptions C02_args_total.

(* the code as found: `"", "x", "k", 1` yields x="k" - the pair k=1 is lost and an attribute
   nobody passed appears; repaired, both pairs are kept *)
Theorem C02_emptykey_refuted :
  let args := [AStr []; AStr [x78]; AStr [x6b]; AOther (VInt 1)] in
  args_to_attrs_with false args = [A [x78] (VStr [x6b])]
  /\ args_to_attrs_with true args = [A [] (VStr [x78]); A [x6b] (VInt 1)].
Proof. exact emptykey_refuted. Qed.
Print Assumptions C02_emptykey_refuted.

(* NO PANIC (model sites).  Repaired variant: a call of non-terminating severity always
   returns.  Code as found: it returns unless it is Println with a first argument that is not
   a string - then, and only then, it panics at the type assertion. *)
Theorem C02_no_model_panic_fixed : forall isprint g fx c ep args, entry_nonterminating ep = true ->
  exists evs, log_call_full_with isprint g true fx c ep args = Returned evs.
Proof. exact no_model_panic_fixed. Qed.
Print Assumptions C02_no_model_panic_fixed.

Theorem C02_no_model_panic_partial : forall isprint g fp fx c ep args r, entry_nonterminating ep = true ->
  log_call_full_with isprint g fp fx c ep args = Panicked r ->
  fp = false /\ exists pkg sp x t, ep = EPrintln pkg sp /\ args = x :: t /\ (forall s, x <> AStr s)
                                   /\ r = RTypeAssertion (if pkg then site_println else site_entry_println).
Proof. exact only_println_panics. Qed.
Print Assumptions C02_no_model_panic_partial.

Theorem C02_println_refuted : forall isprint g fx c pkg sp,
  log_call_full_with isprint g false fx c (EPrintln pkg sp) [AOther (VInt 42)]
  = Panicked (RTypeAssertion (if pkg then site_println else site_entry_println)).
Proof. exact println_refuted. Qed.
Print Assumptions C02_println_refuted.

(* PANIC SITES, tied to the source: of the single-value type assertions found in package slog
   (Gen/PanicSites.v, regenerated on every run) those that property C12's accounting
   (Terminate.known_panic_sites) classifies as reachable by a log call are exactly the two
   Println sites while the defect is there, and none after the repair (the switch fix_println
   must say which); a panic of the model names one of them. *)
Theorem C02_panic_sites :
  reachable_assertions = (if fix_println then [] else [site_entry_println; site_println])
  /\ forall isprint g c ep args s, entry_nonterminating ep = true ->
       log_call_full isprint g c ep args = Panicked (RTypeAssertion s) ->
       fix_println = false /\ In s reachable_assertions.
Proof. split; [exact reachable_assertions_now|exact model_sites_in_source]. Qed.
Print Assumptions C02_panic_sites.

(* non-vacuity: a logger at Info with two normal writers (1, 2) and an error writer (3), logfmt;
   Info("m", "k", 1, "dangling") is written once to 1 and once to 2 with the same bytes;
   Debug(...) is not admitted: nothing; Print(" \n") is one LF to each; Println(42) panics
   today and is delivered after the repair *)
(* TIE TO THE SOURCE: ONE DELIVERY PER RECORD.  The statements of Entry.printImpl after the blank-line
   rule, translated from the source on every run (Gen/Layout.v): whatever the part printers do to the
   context, whenever the function returns it has appended exactly one delivery to what was delivered
   before - printOut at the level of the context of the bytes the context holds after End(true) (the
   final line feed is End's argument) - and nothing else. *)
Theorem C02_gen_one_printout : forall (R E D : Type)
  (f_begin f_timestamp f_name f_severity f_msg f_first f_pc f_rest : LayoutRef.pcs R -> LayoutRef.pcs R)
  (f_attrs : LayoutRef.pcs R -> E * LayoutRef.pcs R) (f_errdump : LayoutRef.pcs R -> E -> LayoutRef.pcs R)
  (f_end : LayoutRef.pcs R -> bool -> LayoutRef.pcs R) (f_bytes : LayoutRef.pcs R -> bytes) (d_printout : Z -> bytes -> D)
  m flags pc tr tr' pc',
  @Layout.print_impl R E D f_begin f_timestamp f_name f_severity f_msg f_first f_pc f_rest f_attrs f_errdump f_end f_bytes d_printout m flags pc tr
  = Some (tr', pc') ->
  tr' = tr ++ [d_printout (LayoutRef.pc_lvl pc') (f_bytes pc')] /\ exists q, pc' = f_end q true.
Proof.
  intros R E D fb ft fn fs fm ff fp fr fa fe fend fby dp m flags pc tr tr' pc' H.
  rewrite GenLayoutP.gen_print_impl in H. exact (GenLayoutP.print_impl_one_delivery _ _ _ _ _ _ _ _ _ _ _ _ _ _ _ _ _ _ _ _ H).
Qed.
Print Assumptions C02_gen_one_printout.

Definition ex_cfg : xcfg :=
  {| x_l := {| l_writers := Some {| dw_normal := [Wrapped 1; Wrapped 2]; dw_error := [Wrapped 3]; dw_leveled := [] |};
               l_errdev := [0; 1; 2]; l_as := []; l_dbg := false; l_level := lv_info; l_intesting := false; l_flags := 0 |};
     x_mode := ShLogfmt; x_name := []; x_callinfo := ([], 0, []); x_tagw := 3; x_minw := 36;
     x_ts := [x54]; x_own := [] |}.
Definition ex_isp (r : Z) : bool := (32 <=? r) && (r <? 127).
Definition ex_reg : registry :=
  {| r_all := []; r_l2s := [(lv_info, [x69;x6e;x66;x6f])]; r_s2l := []; r_tags := []; r_as := []; r_errdev := []; r_colors := [] |}.

Example C02_example :
  log_call_full_with ex_isp ex_reg false false ex_cfg (EVerb lv_info [x6d]) [AStr [x6b]; AOther (VInt 1); AStr [x64]]
    = Returned (let p := Some [x74;x69;x6d;x65;x3d;x22;x54;x22;x20;x6c;x65;x76;x65;x6c;x3d;x22;x69;x6e;x66;x6f;x22;x20;
                               x6d;x73;x67;x3d;x22;x6d;x22;x20;x6b;x3d;x31;x0a] in [Write 1 p; Write 2 p])
  /\ log_call_full_with ex_isp ex_reg false false ex_cfg (EVerb lv_debug [x6d]) [AStr [x6b]; AOther (VInt 1)] = Returned []
  /\ log_call_full_with ex_isp ex_reg false false ex_cfg (EVerb lv_error [x6d]) [AAttr (A [x6b] (VBool true))]
       = Returned [Write 3 (Some [x74;x69;x6d;x65;x3d;x22;x54;x22;x20;x6c;x65;x76;x65;x6c;x3d;x22;x4c;x23;x32;x22;x20;
                                  x6d;x73;x67;x3d;x22;x6d;x22;x20;x6b;x3d;x74;x72;x75;x65;x0a])]
  /\ log_call_full_with ex_isp ex_reg false false ex_cfg (EPrintln false []) [AStr [x20;x0a]; AStr [x6b]; AOther (VInt 1)]
       = Returned [Write 1 (Some [x0a]); Write 2 (Some [x0a])]
  /\ log_call_full_with ex_isp ex_reg false false ex_cfg (EPrintln false [x34;x32]) [AOther (VInt 42)]
       = Panicked (RTypeAssertion site_entry_println)
  /\ (exists p, log_call_full_with ex_isp ex_reg true false ex_cfg (EPrintln false [x34;x32]) [AOther (VInt 42)]
                = Returned [Write 1 p; Write 2 p])
  /\ log_call_full_with ex_isp ex_reg false false ex_cfg (EVerb lv_info [x6d]) [AStr [x6b]; AAttr (A [x78] (VInt 1))]
       = Returned [Write 1 None; Write 2 None].
Proof. repeat split; try (eexists; vm_compute; reflexivity); vm_compute; reflexivity. Qed.
