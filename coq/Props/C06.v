(* C06 - Coloured console mode: faithful layout and no colour bleeding out of a record.

   encode isprint g cfg msg attrs (Model/Encode.v) is the model of Entry.printImpl; in colour
   mode it is None exactly when the padded first line contains '<' or '&' (such a line goes
   through the HTML translator of hedzr/is, which is not modelled: covered by the direct oracle
   of the harness only, where it is the known findings C06/hygiene/markup+cr and
   C06/hygiene/markup+charref).  Model/Ansi.v is the specification side: strip_sgr, the colour
   state scanner sgr_scan / hygienic, and layout_of (DESIGN.md appendix A.3).

   Hypotheses that are boolean predicates are evaluated by the harness on every record
   (Corr/C06.v): text_ok = no ESC and no LF in the texts the encoder copies verbatim (timestamp,
   logger name, caller file/function, level tag, attribute keys, and the float/complex/time
   texts of the standard library, which colour mode prints unquoted); colors_ok = the colour numbers of the
   level registry are >= 0 (background: or -1 = none).  The tag width is 1..5 as in the property:
   outside that range Level.ShortTag panics (the setter accepts 0), which the encoder model does
   not represent (tag_of is then empty), so the theorems are stated for 1..5 only.

   The layout keeps the blank the encoder writes for a group itself: a group shows as one extra
   blank in front of its members (which carry the dotted key); see lay_value in Model/Ansi.v. *)
Require Import Verif.Model.Base Verif.Model.Dec Verif.Model.Level Verif.Model.Mode.
Require Import Verif.Model.Quote Verif.Model.Attrs Verif.Model.Encode Verif.Model.Ansi.
Require Import Verif.Proofs.EscP Verif.Proofs.SortP Verif.Proofs.AnsiP.
Require Import Verif.Corr.C01 Verif.Corr.Enc.
Require Verif.Gen.LevelNames Verif.Gen.Escapes Verif.Gen.Colors Verif.Proofs.GenColorP Verif.Gen.Layout Verif.Gen.Tables Verif.Model.LayoutRef Verif.Proofs.GenLayoutP.

(* strconv.IsPrint on ASCII; the theorems hold for every such function *)
Definition isprint_std (isprint : Z -> bool) : Prop :=
  forall r, 0 <= r < 128 -> isprint r = (32 <=? r) && (r <? 127).

(* COLOUR HYGIENE.  For every registry, configuration in colour mode, severity (any Z), tag width,
   minimal width, message WITHOUT an escape byte (any other byte, any number of lines), and
   attribute list (all kinds, groups nested to any depth) whose verbatim texts hold no ESC/LF:
   every colour the record switches on is off again at each line feed and at its end, and the
   record contains no escape byte outside its own colour sequences. *)
Theorem C06_hygiene : forall isprint, isprint_std isprint ->
  forall g c msg attrs out,
  e_mode c = ShColor -> 1 <= e_tagw c <= 5 -> colors_ok g = true ->
  text_ok (e_ts c) = true -> text_ok (e_name c) = true -> caller_texts_ok (e_caller c) = true ->
  text_ok (tag_of g (e_tagw c) (e_lvl c)) = true ->
  attrs_ok attrs = true ->
  esc_free msg = true ->
  encode isprint g c msg attrs = Some out ->
  hygienic out.
Proof.
  intros isprint Hi g c msg attrs out Hm _ Hc Ht Hn Hca Htg Ha Hmsg He.
  exact (hygiene_thm isprint Hi g c msg attrs Hm Hc Ht Hn Hca Htg Ha out Hmsg He).
Qed.
Print Assumptions C06_hygiene.

(* LAYOUT.  For every message in the layout domain (no '<', '>', '&', no control character other
   than LF) that is not the blank Print of property C02: the model is defined, the record is
   hygienic, and with the colour sequences removed it is exactly the layout of appendix A.3;
   the attributes are the sorted, de-duplicated list, whose keys ascend strictly. *)
Theorem C06_layout : forall isprint, isprint_std isprint ->
  forall g c msg attrs,
  e_mode c = ShColor -> 1 <= e_tagw c <= 5 -> colors_ok g = true ->
  text_ok (e_ts c) = true -> text_ok (e_name c) = true -> caller_texts_ok (e_caller c) = true ->
  text_ok (tag_of g (e_tagw c) (e_lvl c)) = true ->
  attrs_ok attrs = true ->
  layout_domain msg = true -> (e_lvl c =? lv_always) && all_blank msg = false ->
  exists out, encode isprint g c msg attrs = Some out /\ hygienic out
              /\ strip_sgr out = layout_of isprint g c msg attrs
              /\ strictly (norm_attrs attrs).
Proof.
  intros isprint Hi g c msg attrs Hm _ Hc Ht Hn Hca Htg Ha Hd Hb.
  destruct (layout_thm isprint Hi g c msg attrs Hm Hc Ht Hn Hca Htg Ha Hd Hb) as [out [H1 [H2 H3]]].
  exists out. repeat split; try assumption. exact (sort_dedupe_strict _).
Qed.
Print Assumptions C06_layout.

(* the parts of the layout, in order: timestamp "|" blank [name blank], "[" tag "]" blank, the
   padded first line, the attributes and the caller, the remaining lines, the final line feed *)
Theorem C06_layout_parts : forall isprint g c msg attrs,
  layout_of isprint g c msg attrs =
  (e_ts c ++ [x7c; x20] ++ (match e_name c with [] => [] | nm => nm ++ [x20] end))
  ++ (x5b :: tag_of g (e_tagw c) (e_lvl c) ++ [x5d; x20])
  ++ pad_to (hd [] (split_lf (fst (msg_body msg)))) (e_minw c)
  ++ (lay_members isprint [] (norm_attrs attrs) ++ lay_caller (e_caller c))
  ++ lay_rest (tl (split_lf (fst (msg_body msg)))) (snd (msg_body msg)) ++ [x0a].
Proof. exact layout_parts. Qed.
Print Assumptions C06_layout_parts.

(* the tag between the brackets is exactly as wide as configured (widths 1..5), for every
   severity: built-in, registered (custom tags of the right length, tags_ok) and unregistered *)
Theorem C06_tag_width : forall g w lvl, tags_ok g = true -> 1 <= w <= 5 ->
  length (tag_of g w lvl) = Z.to_nat w /\ short_tag g w lvl = Some (tag_of g w lvl).
Proof. exact tag_width_thm. Qed.
Print Assumptions C06_tag_width.

(* the first line is padded with blanks to the minimal width and never cut *)
Theorem C06_padding : forall s w,
  pad_to s w = s ++ repeat x20 (Z.to_nat w - length s)
  /\ length (pad_to s w) = Nat.max (length s) (Z.to_nat w).
Proof. intros s w. split; [reflexivity|exact (pad_to_length s w)]. Qed.
Print Assumptions C06_padding.

(* the lines: the body is the message without the line ends it finishes with; its lines (no LF
   inside) joined by LF are the body; the first is padded, each other one follows a line feed and
   four blanks, and one more line feed is written when the message ended with one *)
Theorem C06_rest_lines : forall msg,
  let body := fst (msg_body msg) in let eol := snd (msg_body msg) in
  join_with [x0a] (split_lf body) = body
  /\ (forall l, In l (split_lf body) -> nolf l = true)
  /\ (eol = false -> body = msg)
  /\ (eol = true -> exists tail, msg = body ++ tail /\ forallb is_crlf tail = true)
  /\ (forall x rl, lay_rest (x :: rl) eol
        = concat (map (fun l => x0a :: x20 :: x20 :: x20 :: x20 :: l) (x :: rl)) ++ (if eol then [x0a] else []))
  /\ lay_rest [] eol = [].
Proof.
  intros msg body eol. destruct (message_lines msg) as [H1 [H2 [H3 H4]]].
  repeat split; try assumption; reflexivity.
Qed.
Print Assumptions C06_rest_lines.

(* ATTRIBUTE VALUES.  Colour mode writes verbatim exactly: keys, and the number / time texts the
   standard library produces for VFloat, VComplex, VTime, VFloats, VTimes (raw_texts: text of
   strconv.AppendFloat / FormatComplex and Time.AppendFormat(RFC3339Nano), carried pre-rendered in
   the model; the harness evaluates value_ok on every token it produces).  That these texts and
   the keys hold no control byte is the ONLY hypothesis.  Everything logg itself decides is
   proved: strings, errors, durations, byte slices, the %v fallback text of struct/map/... values
   (quoted since /repo 0c009c6) and their slices are quoted by quote_go, numbers, booleans and
   <nil> are computed - whatever they contain, a value contributes no byte below 0x20 and no 0x7f,
   and its only escape bytes are complete colour sequences of the encoder (first two conjuncts). *)
Theorem C06_values_clean : forall isprint, isprint_std isprint ->
  forall clr bg v pfx, -1 <= clr -> -1 <= bg ->
  Forall clean pfx -> Forall (Forall clean) (raw_texts v) ->
  let x := ser_value isprint ShColor clr bg pfx v in
  (forall r, strip_sgr (x ++ r) = lay_value isprint pfx v ++ strip_sgr r)
  /\ (forall on, exists on', forall r, sgr_scan on (x ++ r) = sgr_scan on' r)
  /\ Forall clean (lay_value isprint pfx v).
Proof.
  intros isprint Hi clr bg v pfx Hc Hb Hp Hr x.
  destruct (values_clean isprint Hi clr bg v pfx Hc Hb Hp Hr) as [[B1 B2] C]. repeat split; assumption.
Qed.
Print Assumptions C06_values_clean.

(* ... in particular, unconditionally, for the string-like kinds and the %v fallback *)
Theorem C06_values_clean_quoted : forall isprint, isprint_std isprint ->
  forall clr bg s l, -1 <= clr -> -1 <= bg ->
  Forall clean (strip_sgr (ser_value isprint ShColor clr bg [] (VStr s)))
  /\ Forall clean (strip_sgr (ser_value isprint ShColor clr bg [] (VErr s)))
  /\ Forall clean (strip_sgr (ser_value isprint ShColor clr bg [] (VBytes s)))
  /\ Forall clean (strip_sgr (ser_value isprint ShColor clr bg [] (VDur s)))
  /\ Forall clean (strip_sgr (ser_value isprint ShColor clr bg [] (VStrs l)))
  /\ Forall clean (strip_sgr (ser_value isprint ShColor clr bg [] (VFallback s))).
Proof. exact values_clean_quoted. Qed.
Print Assumptions C06_values_clean_quoted.

(* the registry of the source tables, with or without further registrations whose colours are
   colour numbers, meets the hypotheses on the registry *)
Theorem C06_registry_ok :
  colors_ok init_registry = true /\ tags_ok init_registry = true
  /\ colors_ok enc_registry = true /\ tags_ok enc_registry = true
  /\ (forall g v t o, colors_ok g = true -> (o_clr o = -1 \/ 0 <= o_clr o) -> -1 <= o_bg o ->
        colors_ok (fst (register g v t o)) = true).
Proof.
  split; [vm_compute; reflexivity|]. split; [vm_compute; reflexivity|].
  split; [vm_compute; reflexivity|]. split; [vm_compute; reflexivity|]. exact colors_ok_register.
Qed.
Print Assumptions C06_registry_ok.

(* a concrete record: Error level, logger "svc", caller, a two-line message ending in LF, a string
   with an escape sequence inside, an error, a group *)
(* TIE TO THE SOURCE.  The six colour helpers of slog/colorize_tool.go, translated from the source on
   every run (Gen/Colors.v), are the model's functions for all arguments: echoColor / echoBgColor /
   echoColorAndBg write ESC [ <decimal> m per colour and NOTHING for clrNone, echoResetColor writes
   ESC [ 0 m (out = what the io.Writer holds, every Write appends); rightPad never cuts and pads to
   the minimal width; splitFirstAndRestLines (index of the first line feed, TrimRight of the final
   line ends) computes exactly the first line / rest / eol triple the layout theorems speak about. *)
Theorem C06_gen_echo_color : forall out c, Colors.echo_color out c = Some (out ++ echo_color c).
Proof. exact GenColorP.gen_echo_color. Qed.
Print Assumptions C06_gen_echo_color.
Theorem C06_gen_echo_bg_color : forall out c, Colors.echo_bg_color out c = Some (out ++ echo_color c).
Proof. exact GenColorP.gen_echo_bg_color. Qed.
Print Assumptions C06_gen_echo_bg_color.
Theorem C06_gen_echo_color_bg : forall out c b, Colors.echo_color_bg out c b = Some (out ++ echo_color_bg c b).
Proof. exact GenColorP.gen_echo_color_bg. Qed.
Print Assumptions C06_gen_echo_color_bg.
Theorem C06_gen_echo_reset : forall out, Colors.echo_reset out = Some (out ++ sgr_reset).
Proof. exact GenColorP.gen_echo_reset. Qed.
Print Assumptions C06_gen_echo_reset.
Theorem C06_gen_right_pad : forall str minw, Colors.right_pad str [x20] minw = Some (right_pad str minw).
Proof. exact GenColorP.gen_right_pad. Qed.
Print Assumptions C06_gen_right_pad.
Theorem C06_gen_split_first_rest : forall str, Colors.split_first_rest str = Some (split_first_rest str).
Proof. exact GenColorP.gen_split_first_rest. Qed.
Print Assumptions C06_gen_split_first_rest.

(* THE SKELETON OF THE RECORD.  Entry.printImpl after the blank-line rule, translated from the source on
   every run (Gen/Layout.v), for EVERY choice of the part printers (parameters over the context), colour
   table, flag word and context: Begin; in the two plain formats timestamp, logger name, severity,
   message - in colour mode first the colours registered for the record's level (the first is the
   foreground, a second one the background: with one colour the background, with none both colours are
   what the context held - setentry resets them, C09), then timestamp, name, severity, FIRST LINE; then the
   attributes, the caller part iff Lcaller is set, the rest lines, the error dump, End(true), and one
   printOut of the context's bytes at its level. *)
Theorem C06_gen_print_impl : forall (R E D : Type)
  (f_begin f_timestamp f_name f_severity f_msg f_first f_pc f_rest : LayoutRef.pcs R -> LayoutRef.pcs R)
  (f_attrs : LayoutRef.pcs R -> E * LayoutRef.pcs R) (f_errdump : LayoutRef.pcs R -> E -> LayoutRef.pcs R)
  (f_end : LayoutRef.pcs R -> bool -> LayoutRef.pcs R) (f_bytes : LayoutRef.pcs R -> bytes) (d_printout : Z -> bytes -> D)
  m flags pc tr,
  @Layout.print_impl R E D f_begin f_timestamp f_name f_severity f_msg f_first f_pc f_rest f_attrs f_errdump f_end f_bytes d_printout m flags pc tr
  = LayoutRef.print_impl_ref f_begin f_timestamp f_name f_severity f_msg f_first f_pc f_rest f_attrs f_errdump f_end f_bytes d_printout
      m flags Tables.c_Lcaller pc tr.
Proof. intros. exact (GenLayoutP.gen_print_impl _ _ _ _ _ _ _ _ _ _ _ _ _ m flags pc tr). Qed.
Print Assumptions C06_gen_print_impl.

(* THE WIDTH SETTINGS.  SetLevelOutputWidth and SetMessageMinimalWidth, translated from the source on every
   run (Gen/Layout.v): a tag width is stored iff it lies in 0..5, a minimal width iff it is at least 16,
   anything else leaves the setting as it was - so, whatever is handed to the setter and in whatever order,
   the stored tag width stays in 0..5 (Level.ShortTag panics from 6 on; 0 is accepted by the setter and is
   outside the property's widths 1..5, see the note in the evidence). *)
Theorem C06_gen_set_level_output_width : forall cur w,
  Layout.set_level_output_width cur w = (if (0 <=? w) && (w <=? 5) then w else cur).
Proof. exact GenLayoutP.gen_set_level_output_width. Qed.
Print Assumptions C06_gen_set_level_output_width.
Theorem C06_gen_set_message_minimal_width : forall cur w,
  Layout.set_message_minimal_width cur w = (if 16 <=? w then w else cur).
Proof. exact GenLayoutP.gen_set_message_minimal_width. Qed.
Print Assumptions C06_gen_set_message_minimal_width.
Theorem C06_gen_widths_stay_in_range : forall ws cur, 0 <= cur <= 5 ->
  0 <= fold_left Layout.set_level_output_width ws cur <= 5.
Proof. exact GenLayoutP.widths_stay_in_range. Qed.
Print Assumptions C06_gen_widths_stay_in_range.

(* THE FIRST PART OF EVERY RECORD.  Entry.printTimestamp, translated from the source on every run (Gen/Layout.v) over
   the other translations (pcAppendStringKey, the separators, echoColor): in the two plain formats the key `time`
   (escaped as a key of the format), the separator, what appendTimestamp writes (C16), the member separator; in colour
   mode the timestamp colour (SGR 32), the timestamp and ONE blank - for every buffer and every appendTimestamp. *)
Theorem C06_gen_print_timestamp : forall f_ts hex safe pc noColor json buf,
  Layout.print_timestamp f_ts hex safe pc noColor json buf =
  if noColor
  then match Escapes.string_key hex safe json buf [x74;x69;x6d;x65] with
       | None => None
       | Some b => Some (f_ts (b ++ [if json then x3a else x3d]) ++ [if json then x2c else x20])
       end
  else Some (f_ts (buf ++ echo_color clr_timestamp) ++ [x20]).
Proof. exact GenLayoutP.gen_print_timestamp. Qed.
Print Assumptions C06_gen_print_timestamp.

(* THE LOGGER NAME PART.  Entry.printLoggerName, translated from the source on every run: a logger WITHOUT a name
   writes nothing at all; a named one writes the member `logger` and the member separator of the format in the plain
   formats, and in colour mode the name in the logger-name colour (37, no background) followed by ONE blank
   (AddString and the colour library's WrapColorAndBgTo are parameters). *)
Theorem C06_gen_print_logger_name : forall fa fw name pc noColor json buf,
  Layout.print_logger_name fa fw name pc noColor json buf = LayoutRef.print_logger_name_ref fa fw name noColor json buf.
Proof. exact GenLayoutP.gen_print_logger_name. Qed.
Print Assumptions C06_gen_print_logger_name.
Theorem C06_gen_no_name_no_part : forall fa fw pc noColor json buf,
  Layout.print_logger_name fa fw [] pc noColor json buf = Some buf.
Proof. intros. rewrite GenLayoutP.gen_print_logger_name. reflexivity. Qed.
Print Assumptions C06_gen_no_name_no_part.

(* THE SEVERITY PART.  Entry.printSeverity, translated from the source on every run over the translations of
   Level.String and Level.ShortTag (tied to the model by C17_gen_level_string / C17_gen_short_tag): in the plain formats
   the member `level` holding the level's NAME and the member separator; in colour mode the short tag of the CONFIGURED
   width (levelOutputWidth) between '[' and ']' in the record's two colours, followed by ONE blank. *)
Theorem C06_gen_print_severity : forall fa fw fr tags l2s width pc noColor json lvl clr bg buf,
  Layout.print_severity fa fw fr tags l2s width pc noColor json lvl clr bg buf =
  LayoutRef.print_severity_ref fa fw fr (LevelNames.level_string l2s lvl) (LevelNames.short_tag tags l2s lvl width)
    noColor json clr bg buf.
Proof. exact GenLayoutP.gen_print_severity. Qed.
Print Assumptions C06_gen_print_severity.

Definition ex_isprint (r : Z) : bool := (32 <=? r) && (r <? 127).
Definition ex_cfg : ecfg :=
  {| e_mode := ShColor; e_name := [x73;x76;x63]; e_lvl := 2; e_caller := Some ([x61;x2e;x67;x6f], 7, [x70;x2f;x6d;x2e;x66]);
     e_tagw := 3; e_minw := 8; e_ts := [x31;x32;x3a;x30;x30] |}.
Definition ex_msg : bytes := [x68;x69;x0a;x74;x77;x6f;x0a].                     (* "hi\ntwo\n" *)
Definition ex_attrs : list attr :=
  [A [x7a] (VStr [x1b;x5b;x33;x31;x6d]); A [x65] (VErr [x62;x61;x64]);
   A [x67] (VGroup [A [x6e] (VInt 1)])].
(* the %v fallback text of a struct whose string field holds ESC[2J: quoted, no raw escape *)
Example C06_example_fallback :
  ser_value ex_isprint ShColor 36 (-1) [] (VFallback [x7b;x7b;x1b;x5b;x32;x4a;x7d;x7d])
  = [x22;x7b;x7b;x5c;x78;x31;x62;x5b;x32;x4a;x7d;x7d;x22].          (* "{{\x1b[2J}}" *)
Proof. vm_compute. reflexivity. Qed.
Example C06_example :
  isprint_std ex_isprint
  /\ attrs_ok ex_attrs = true /\ layout_domain ex_msg = true /\ text_ok (tag_of enc_registry 3 2) = true
  /\ exists out, encode ex_isprint enc_registry ex_cfg ex_msg ex_attrs = Some out
       /\ hygienic_b out = true
       /\ strip_sgr out = layout_of ex_isprint enc_registry ex_cfg ex_msg ex_attrs
       /\ layout_of ex_isprint enc_registry ex_cfg ex_msg ex_attrs =
          (* 12:00| svc [ERR] hi       e="bad"  g.n=1 z="\x1b[31m" a.go:7 m.f LF "    two" LF LF *)
          [x31;x32;x3a;x30;x30;x7c;x20; x73;x76;x63;x20; x5b;x45;x52;x52;x5d;x20; x68;x69;x20;x20;x20;x20;x20;x20;
           x20;x65;x3d;x22;x62;x61;x64;x22; x20;x20;x67;x2e;x6e;x3d;x31;
           x20;x7a;x3d;x22;x5c;x78;x31;x62;x5b;x33;x31;x6d;x22;
           x20;x61;x2e;x67;x6f;x3a;x37;x20;x6d;x2e;x66; x0a;x20;x20;x20;x20;x74;x77;x6f; x0a; x0a].
Proof.
  split; [intros r Hr; reflexivity|]. split; [vm_compute; reflexivity|]. split; [vm_compute; reflexivity|].
  split; [vm_compute; reflexivity|]. eexists. split; [vm_compute; reflexivity|].
  split; [vm_compute; reflexivity|]. split; vm_compute; reflexivity.
Qed.
