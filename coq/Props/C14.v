(* C14 - Caller attribution points at the user's call site for every entry point (PARTIAL).

   Proved: the arithmetic of the skip constants found in the source, on the
   frame list of Model/Caller.v - for every row of the entry-point table
   regenerated from /repo and for the two adapter sites.  NOT proved: that the
   Go runtime's runtime.Callers / CallersFrames count (inlined) frames the way
   the frame list says, and the depth of the two standard-library call chains
   (explicit inputs 2 and 2 below); both are exercised by the correspondence
   run in two builds (with and without inlining). *)
Require Import Verif.Model.Base Verif.Model.EntryPoint Verif.Model.Caller.
Require Import Verif.Gen.EntryPoints Verif.Gen.CallerSites.
Require Import Verif.Proofs.CallerP.

(* tie for the std-log bridge: NewLogLogger and handlerWriter.Write translated from the source (Gen/Bridge.v), one
   after the other.  A bridge as NewLogLogger builds it, when written to: the record carries the program counter
   getpc(4, skip count of the logger) - 4 = [runtime.Callers, getpc, Write, log.Logger.output, log.Print*] - for EVERY
   flags word, level, gate answer and skip count at construction time (the caller information is captured even if
   Lcaller is switched on later; the skip count is the one the logger has when it is written to) *)
Require Verif.Model.GoSem Verif.Model.BridgeRef Verif.Gen.Bridge Verif.Proofs.GenBridgeP.
Require Verif.Gen.Layout Verif.Gen.Escapes Verif.Gen.Tables Verif.Model.LayoutRef Verif.Model.Encode Verif.Proofs.GenLayoutP.
Theorem C14_gen_bridge_pc : forall f_level enabled_then skip_then flags deflevel h lvl f_enabled f_skip f_getpc as_aware w_n w_e buf tr,
  match Bridge.new_log_logger f_level enabled_then skip_then flags deflevel h lvl with
  | BridgeRef.mk_bridge (l, v, cap, extra) _ _ =>
      Bridge.bridge_write f_enabled f_skip f_getpc as_aware w_n w_e l v cap extra buf tr =
      if f_enabled h lvl
      then match as_aware h with
           | Some hh => (w_n, w_e, tr ++ [BridgeRef.BWInternal hh lvl (f_getpc 4 (0 + f_skip h)) buf])
           | None => (0, None, tr)
           end
      else (0, None, tr)
  | BridgeRef.BridgeNone => False
  end.
Proof. exact GenBridgeP.bridge_end_to_end. Qed.
Print Assumptions C14_gen_bridge_pc.

(* tie: the argument getpc hands to runtime.Callers and the one of Handle, as
   translated from the source, are the functions the model uses *)
Theorem C14_gen_callers_arg :
  (forall s x, getpc_callers_arg s x = s + x + 1) /\
  (forall ei, adapter_handle_callers_arg ei = adapter_handle_callers_arg 0 + ei).
Proof. exact gen_callers_arg. Qed.
Print Assumptions C14_gen_callers_arg.

(* every entry point of the table that issues records passes the literal that
   selects the user's frame: skip = (logg frames down to the caller of getpc) + 1 *)
Theorem C14_skip_correct : forall e, In e entry_points -> issues e = true ->
  ep_skip e = ep_depth e + 1 /\ frame_index e 0 = user_index e.
Proof. exact skip_correct. Qed.
Print Assumptions C14_skip_correct.

(* extraFrames = n moves the selected index by exactly n *)
Theorem C14_extra : forall e n, frame_index e n = frame_index e 0 + n.
Proof. exact extra_moves. Qed.
Print Assumptions C14_extra.

(* on the frame list: with skip n and at least n frames above the issuing
   statement, the record is attributed to the call statement n frames up *)
Theorem C14_attribution : forall e n w, In e entry_points -> issues e = true -> (n <= w)%nat ->
  attributed e (Z.of_nat n) w = Some (FUser n).
Proof. exact attribution. Qed.
Print Assumptions C14_attribution.

(* the two adapter sites, constants from the source, with the TRUSTED depths of
   the standard-library chains as explicit inputs (log/slog: Logger.Info -> Logger.log -> Handle = 2;
   log: Logger.Println -> Logger.output -> Write = 2): the user's statement is selected, and a
   site that reads the logger's Skip() moves exactly n frames up *)
Theorem C14_adapters : forall a, In a (sites_now 2 2) ->
  adapter_index a 0 = adapter_user_index a
  /\ (forall w, adapter_attributed a 0 w = Some (FUser 0))
  /\ (ad_reads_skip a = true -> forall n, adapter_index a n = adapter_index a 0 + n)
  /\ (ad_reads_skip a = true -> forall n w, (n <= w)%nat -> adapter_attributed a (Z.of_nat n) w = Some (FUser n)).
Proof. exact adapters_ok. Qed.
Print Assumptions C14_adapters.

(* the constants fit these library depths and no others *)
Theorem C14_adapters_depth_exact : forall d1 d2,
  (forall a, In a (sites_now d1 d2) -> adapter_index a 0 = adapter_user_index a) <-> (d1 = 2%nat /\ d2 = 2%nat).
Proof. exact adapters_depth_exact. Qed.
Print Assumptions C14_adapters_depth_exact.

(* REFUTED part of the statement: an adapter site that does not read the logger's Skip()
   (in the unchanged source: handlerWriter.Write, the std log bridge - adapter_bridge_reads_skip = false)
   keeps reporting the issuing statement whatever skip count WithSkip/SetSkip gave *)
Theorem C14_skip_ignored_refuted : forall a n w, In a (sites_now 2 2) -> ad_reads_skip a = false -> (0 < n)%nat ->
  adapter_attributed a (Z.of_nat n) w = Some (FUser 0) /\ adapter_attributed a (Z.of_nat n) w <> Some (FUser n).
Proof. exact no_skip_refutes. Qed.
Print Assumptions C14_skip_ignored_refuted.

(* non-vacuity: the package-level Info (skip 4, three logg frames) with SetSkip(2) under three
   wrappers reports the second frame up; the slog adapter moves with the skip count *)
(* TIE TO THE SOURCE: THE FUNCTION NAME OF THE CALLER PART.  checkedfuncname, translated from the source on
   every run (Gen/Layout.v): without Lcallerpackagename the name printed is the text after the last '/' of
   the frame's function name (the whole name when it holds none) - Encode.after_last_slash, what the three
   encoders print; with the flag it is the name with the provider table applied, in table order. *)
Theorem C14_gen_checked_funcname : forall f flags prov name,
  Layout.checked_funcname f flags prov name = LayoutRef.checked_funcname_ref f flags prov name.
Proof. exact GenLayoutP.gen_checked_funcname. Qed.
Print Assumptions C14_gen_checked_funcname.
Theorem C14_gen_funcname_plain : forall f flags prov name, Z.land flags Tables.c_Lcallerpackagename = 0 ->
  Layout.checked_funcname f flags prov name = Some (Encode.after_last_slash name).
Proof. intros f flags prov name H. rewrite GenLayoutP.gen_checked_funcname. exact (GenLayoutP.checked_funcname_plain f flags prov name H). Qed.
Print Assumptions C14_gen_funcname_plain.

(* THE CALLER PART OF A RECORD.  Entry.printPC, translated from the source on every run over the other translations
   (the separators, pcAppendStringKey, checkedfuncname, echoResetColor; the Add* members, AppendInt, the colour library's
   WrapColorTo and what pc.source() hands out are parameters): in the plain formats the member separator first, then in
   JSON mode the member `caller` holding an object with file, line and function in that order, in logfmt the three
   members caller.file / caller.line / caller.function; in colour mode a blank, the file, ':', the line, a blank, the
   function name as checkedfuncname gives it in dark gray, and the colours reset.  The file, the line and the function
   printed are those of the ONE source value of the record, in all three formats. *)
Theorem C14_gen_print_pc : forall fas fai fps fpi fap fwc fra hex safe flags prov src pc noColor json buf,
  Layout.print_pc fas fai fps fpi fap fwc fra hex safe flags prov src pc noColor json buf =
  LayoutRef.print_pc_ref fas fai fps fpi fap fwc
    (fun b => Escapes.string_key hex safe json b [x63;x61;x6c;x6c;x65;x72])
    (Layout.checked_funcname fra flags prov (LayoutRef.src_function src)) [x1b;x5b;x30;x6d] src noColor json buf.
Proof. exact GenLayoutP.gen_print_pc. Qed.
Print Assumptions C14_gen_print_pc.

Example C14_example :
  (match find_ep [x70;x6b;x67] [x49;x6e;x66;x6f] entry_points with
   | Some e => (ep_skip e =? 4) && (ep_depth e =? 3) && (user_offset (attributed e 2 3) =? 2)
   | None => false end) = true
  /\ map (fun a => user_offset (adapter_attributed a 3 4)) (sites_now 2 2)
     = [3; if adapter_bridge_reads_skip then 3 else 0].
Proof. vm_compute. repeat split; reflexivity. Qed.
