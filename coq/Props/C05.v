(* C05 - logfmt mode: one line of key=value pairs that parses back to what was logged.

   Encoder: Model/Encode.v [encode] with e_mode = ShLogfmt (printImpl, serializeAttrs,
   appendValue, appendQuotedWith as they are now; byte-exact against the implementation on
   every generated record, Corr/C05.v).  Specification side, independent of the encoder:
   Model/Logfmt.v - [lf_tokens] (pairs separated by runs of blanks, key up to the first '=',
   value = Go-quoted string / bracketed list / bare token, a token without '=' fails),
   [lf_decode] (strconv.Unquote on quoted values, element-wise on lists), [lf_parse] = both,
   [fields_of] = the expected decoded form of DESIGN.md appendix A.2.

   [isprint] is strconv.IsPrint: every theorem holds for EVERY function that agrees with the
   ASCII range below 128 (the harness supplies the real values for the runes it uses).
   [g] is the level registry: nothing is assumed about it (the level name is printed through
   the quoting function like every other string).

   The domain [lf_domain c msg attrs] (a boolean, evaluated by Corr/C05.v on every generated
   record, all of which satisfy it):
   - every key, at every depth, is a legal logfmt key [legal_key]: non-empty, every byte
     > 0x20, not 0x7f, not '=', not a quote, and the key is none of the reserved names time,
     logger, level, msg, caller (an attribute named time that holds a time value is printed by
     a rule of its own in serializeAttrs, which the property excludes and the model omits);
   - text that the Go standard library produced and that logg prints WITHOUT escaping:
       the record's timestamp e_ts, VTime t and the elements of VTimes (Time.AppendFormat;
         printed between two quote bytes): [qtext_ok] = bytes 0x20..0x7e except quote and backslash;
       VFloat t, VComplex t (strconv.AppendFloat / FormatComplex; printed bare): [bare_ok] =
         bytes 0x21..0x7e, not starting with a quote or '[';
       the elements of VFloats (printed bare inside brackets): [elem_ok] = non-empty, bytes
         0x21..0x7e except quote, comma and ']';
     every other kind - message, logger name, level name, VStr, VErr, VBytes, VDur, VFallback,
     VStrs, VDurs, caller file and function - is an ARBITRARY byte string;
   - the record is not a blank Print (severity Always with an empty or white-space-only
     message), which by design (property C02) is delivered as one bare line feed:
     C05_blank_print. *)
Require Import Verif.Model.Base Verif.Model.Dec Verif.Model.Level Verif.Model.Mode.
Require Import Verif.Model.Utf8 Verif.Model.Quote Verif.Model.Attrs Verif.Model.Encode Verif.Model.Logfmt.
Require Import Verif.Proofs.QuoteP Verif.Proofs.EscP Verif.Proofs.SortP Verif.Proofs.LogfmtP.
Require Import Verif.Corr.Enc.
Require Import Verif.Model.GoSem.
Require Verif.Gen.Escapes Verif.Gen.Tables Verif.Proofs.GenEscP.

(* ---- the source against the model: appendQuotedWith and appendEscapedRune as they are in /repo now
   (translated on every run, Gen/Escapes.v), called as appendQuotedString calls them (double quote,
   not ASCII-only, not graphic-only), append exactly the model's quote_go / escape_rune to the buffer:
   for every strconv.IsPrint [isprint], every isInGraphicList [gl], every byte string and every rune
   in Z.  The loop of appendQuotedWith consumes width >= 1 bytes per round (declared fuel len(s)+1),
   the hex loops of appendEscapedRune run 4 / 8 rounds (fuel 5 / 9); [None] would be a panic (an
   index or slice out of range) or insufficient fuel: neither happens.  C06 prints values through the
   same function. ---- *)
Theorem C05_gen_escape_rune : forall isprint gl buf r,
  Escapes.escape_rune isprint gl Tables.t_hex buf r 34 false false = Some (buf ++ escape_rune isprint r).
Proof. exact GenEscP.gen_escape_rune. Qed.
Print Assumptions C05_gen_escape_rune.

Theorem C05_gen_quote : forall isprint gl buf s,
  Escapes.quote_with isprint gl Tables.t_hex buf s 34 false false = Some (buf ++ quote_go isprint s).
Proof. exact GenEscP.gen_quote_with. Qed.
Print Assumptions C05_gen_quote.

(* a string value: PrintCtx.appendQuotedString as it is in /repo now - the JSON escaper between two
   quotes in JSON mode, appendQuotedWith otherwise; a helper it calls (a fast path) would be translated
   with it *)
Theorem C05_gen_quoted_string : forall isprint gl jsonMode buf str,
  Escapes.quoted_string isprint gl Tables.t_hex Tables.t_safeSet jsonMode buf str =
  Some (buf ++ if jsonMode then JsonEsc.json_quote str else quote_go isprint str).
Proof. exact GenEscP.gen_quoted_string. Qed.
Print Assumptions C05_gen_quoted_string.

Definition ascii_consistent (isprint : Z -> bool) : Prop :=
  forall r, 0 <= r < 128 -> isprint r = (32 <=? r) && (r <? 127).

(* Quoting loses nothing and frames everything: ANY byte string - CR/LF, quotes, backslashes,
   control bytes, invalid UTF-8 - reads back exactly, and its quoted form contains no byte
   below 0x20 and no 0x7f. *)
Theorem C05_quote_lossless : forall isprint, ascii_consistent isprint -> forall s,
  unquote_go (quote_go isprint s) = Some s /\ Forall clean (quote_go isprint s).
Proof. intros isprint H s. split; [exact (quote_roundtrip isprint H s)|exact (quote_clean isprint H s)]. Qed.
Print Assumptions C05_quote_lossless.

(* ... and the scanner of a quoted value stops exactly at its closing quote, whatever follows:
   no quote inside the quoted form can end the value early or forge a pair *)
Theorem C05_quote_scanned : forall isprint, ascii_consistent isprint -> forall s rest,
  scan_value (quote_go isprint s ++ rest) = Some (quote_go isprint s, rest).
Proof. exact scan_value_quoted. Qed.
Print Assumptions C05_quote_scanned.

(* One line: every byte before the final line feed is >= 0x20 and not 0x7f, for every message,
   logger name, level, string-like value and caller; keys and standard-library text only have to
   be free of control bytes themselves (blanks, '=' and quotes in a key cannot split a line).
   Includes the blank Print. *)
Theorem C05_one_line : forall isprint, ascii_consistent isprint -> forall g c msg attrs out,
  e_mode c = ShLogfmt -> lf_clean_domain c attrs = true ->
  encode isprint g c msg attrs = Some out ->
  exists line, out = line ++ [x0a] /\ Forall clean line.
Proof. exact one_line. Qed.
Print Assumptions C05_one_line.

Theorem C05_domain_one_line : forall c msg attrs, lf_domain c msg attrs = true -> lf_clean_domain c attrs = true.
Proof. exact domain_clean. Qed.
Print Assumptions C05_domain_one_line.

(* THE ROUND TRIP, for every record of the domain: the output is one line; the tokenizer
   splits it into exactly the expected pairs (their printed forms), and tokenizer + decoder
   give back time, logger, level, the message and every leaf attribute under its own dotted
   key with its exact value - for string-like kinds the original bytes through
   strconv.Unquote -, then the caller; wherever groups occur among the attributes and
   however deep they nest. *)
Theorem C05_roundtrip : forall isprint, ascii_consistent isprint -> forall g c msg attrs out,
  e_mode c = ShLogfmt -> lf_domain c msg attrs = true ->
  encode isprint g c msg attrs = Some out ->
  exists line, out = line ++ [x0a]
    /\ lf_tokens line = Some (map (printed isprint) (fields_of g c msg attrs))
    /\ lf_parse line = Some (fields_of g c msg attrs).
Proof. exact roundtrip. Qed.
Print Assumptions C05_roundtrip.

(* each expected value, as printed, decodes to itself (the exact-value half of the claim, per field) *)
Theorem C05_values_exact : forall isprint, ascii_consistent isprint -> forall g c msg attrs,
  dom_attrs attrs = true ->
  Forall (fun kv => lf_decode (print_fval isprint (snd kv)) = Some (snd kv)) (fields_of g c msg attrs).
Proof. exact printed_decodes. Qed.
Print Assumptions C05_values_exact.

(* No forgery: the keys of the parsed line are exactly the expected keys, in number and
   order - no message, key or value adds, drops or renames a pair. *)
Theorem C05_no_forgery : forall isprint, ascii_consistent isprint -> forall g c msg attrs out,
  e_mode c = ShLogfmt -> lf_domain c msg attrs = true ->
  encode isprint g c msg attrs = Some out ->
  exists line toks, out = line ++ [x0a] /\ lf_tokens line = Some toks
    /\ map fst toks = map fst (fields_of g c msg attrs)
    /\ length toks = length (fields_of g c msg attrs).
Proof. exact no_forgery. Qed.
Print Assumptions C05_no_forgery.

(* Key order.  The tree whose leaves are printed (and listed by fields_of) is norm_attrs:
   at the top level and inside every group, at every depth, the keys are strictly ascending
   in byte order, hence each occurs once ... *)
Theorem C05_keys_order : forall attrs,
  attrs_strict (norm_attrs attrs)
  /\ norm_attrs attrs = sort_dedupe (map norm_attr attrs)
  /\ (forall items, norm_value (VGroup items) = VGroup (sort_dedupe (map norm_attr items))).
Proof. exact keys_order. Qed.
Print Assumptions C05_keys_order.

(* ... and at each level (top level: items = attrs; a group: its items) the last occurrence of a
   key wins and no key is lost or invented *)
Theorem C05_level_order : forall items,
  strictly (sort_dedupe (map norm_attr items))
  /\ NoDup (map akey (sort_dedupe (map norm_attr items)))
  /\ (forall k, last_value k (sort_dedupe (map norm_attr items)) = last_value k (map norm_attr items))
  /\ (forall k, (exists v, In (A k v) items) <-> (exists v, In (A k v) (sort_dedupe (map norm_attr items)))).
Proof. exact level_order. Qed.
Print Assumptions C05_level_order.

(* in logfmt mode every record is encoded (the premise of the theorems above is never void) *)
Theorem C05_total : forall isprint g c msg attrs,
  e_mode c = ShLogfmt -> exists out, encode isprint g c msg attrs = Some out.
Proof. exact encode_total. Qed.
Print Assumptions C05_total.

(* outside the domain by design: a blank Print is one bare line feed (property C02) *)
Theorem C05_blank_print : forall isprint g c msg attrs,
  e_mode c = ShLogfmt -> blank_print c msg = true -> encode isprint g c msg attrs = Some [x0a].
Proof. exact encode_blank. Qed.
Print Assumptions C05_blank_print.

(* ---- non-vacuity: a record with nasty strings, a group BETWEEN two attributes, a nested and an
        empty group, a duplicate key, a nil attribute, lists, []byte, name and caller ---- *)
Definition ex_isprint (r : Z) : bool := (32 <=? r) && (r <? 127).
Definition ex_cfg : ecfg :=
  {| e_mode := ShLogfmt; e_name := [x73;x76;x63]; e_lvl := 4; e_caller := Some ([x61;x2e;x67;x6f], 42, [x6d;x2e;x66]);
     e_tagw := 3; e_minw := 36; e_ts := [x31;x33;x3a;x31;x34;x5a] |}.
Definition ex_msg : bytes := [x61;x22;x20;x62;x3d;x31;x0a;x5c;xff].            (* a, quote, blank, b=1, LF, backslash, 0xff *)
Definition ex_attrs : list attr :=
  [ A [x7a] (VInt 23123);
    A [x67] (VGroup [A [x79] (VStr [x0d;x0a]); ANil; A [x78] (VGroup [A [x6b] (VBool true)]); A [x65] (VGroup [])]);
    A [x61] (VBytes [x00;x22]);
    A [x7a] (VInt 7);
    A [x6c] (VStrs [[x2c;x5d]; []]);
    A [x66] (VFloats [[x31;x2e;x35]; [x2d;x37]]);
    A [x74] (VTime [x32;x30;x32;x34;x54;x5a]) ].

Example C05_example_in_domain :
  ascii_consistent ex_isprint /\ lf_domain ex_cfg ex_msg ex_attrs = true.
Proof. split; [intros r H; reflexivity|vm_compute; reflexivity]. Qed.

Example C05_example_roundtrip :
  exists line, encode ex_isprint enc_registry ex_cfg ex_msg ex_attrs = Some (line ++ [x0a])
    /\ lf_parse line = Some (fields_of enc_registry ex_cfg ex_msg ex_attrs)
    /\ map fst (fields_of enc_registry ex_cfg ex_msg ex_attrs)
       = [ lk_time; lk_logger; lk_level; lk_msg; [x61]; [x66]; [x67;x2e;x78;x2e;x6b]; [x67;x2e;x79]; [x6c]; [x74]; [x7a];
           lk_caller_file; lk_caller_line; lk_caller_function ]
    /\ In ([x7a], FBare [x37]) (fields_of enc_registry ex_cfg ex_msg ex_attrs)
    /\ In (lk_msg, FQuoted ex_msg) (fields_of enc_registry ex_cfg ex_msg ex_attrs).
Proof.
  destruct (C05_roundtrip ex_isprint (proj1 C05_example_in_domain) enc_registry ex_cfg ex_msg ex_attrs _
              eq_refl (proj2 C05_example_in_domain) eq_refl) as (line & E & _ & P).
  exists line. split; [vm_compute in E |- *; rewrite E; reflexivity|]. split; [exact P|].
  vm_compute. split; [reflexivity|]. split; [tauto|tauto].
Qed.

(* the specification tokenizer is not lenient: the historic key-loss line ("g.x=1 23123", the key of
   the attribute after a group missing) and a pair glued to a quoted value do not tokenize *)
Example C05_tokenizer_rejects :
  lf_tokens [x67;x2e;x78;x3d;x31;x20;x32;x33;x31;x32;x33] = None
  /\ lf_tokens [x6b;x3d;x22;x61;x22;x62;x3d;x31] = None
  /\ lf_tokens [x6b;x3d;x22;x61] = None
  /\ lf_tokens [x6b;x3d;x61;x20;x20;x6a;x3d] = Some [([x6b], [x61]); ([x6a], [])].
Proof. vm_compute. repeat split; reflexivity. Qed.
