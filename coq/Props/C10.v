(* C10 - Logger hierarchy: lookup by name, inheritance at creation, isolation afterwards. *)
Require Import Verif.Model.Base Verif.Model.Mode Verif.Model.Writers Verif.Model.Tree.
Require Import Verif.Proofs.TreeP Verif.Proofs.TreeP2.
Require Import Verif.Model.Decision Verif.Model.GoSem Verif.Model.TreeRef.
Require Verif.Gen.Loggers Verif.Proofs.GenTreeP.

(* ---- the source against the model: Entry.newChildLogger and the head of newentry as they are in /repo
   now (translated on every run, Gen/Loggers.v).  A *Entry is a reference, s.items a nil-able map keyed by
   the name, the arguments are gargs; the type assertion args[0].(string), the random name and newentry
   itself are parameters. ---- *)

(* which name is used and what happens: the first argument if it is a NON-EMPTY string, otherwise the
   random name; the name is looked up in s.items - the receiver's DIRECT children - and an existing child is
   returned; otherwise newentry(s, args...) is called with the receiver and the UNCHANGED arguments, stored
   under that name and returned; a nil map is allocated first; no index or map write can panic *)
Theorem C10_gen_new_child : forall as_string rnd mk s items args,
  Loggers.new_child as_string rnd mk s items args = new_child_ref as_string rnd mk s items args.
Proof. exact GenTreeP.gen_new_child. Qed.
Print Assumptions C10_gen_new_child.

(* freshness, explicitly: IF the random name is not the name of a child, a call without a name (or with an
   empty name, or a non-string first argument) creates a NEW logger and registers it under the random name *)
Theorem C10_gen_anonymous_is_new : forall rnd mk s items args,
  lookupB items rnd = None ->
  (match args with GStr (_ :: _) :: _ => False | _ => True end) ->
  Loggers.new_child garg_string rnd mk s (Some items) args = Some (mk s args, Some (items ++ [(rnd, mk s args)])).
Proof. exact GenTreeP.anon_child_is_new. Qed.
Print Assumptions C10_gen_anonymous_is_new.

(* the child starts with the receiver's format flags and level (a detached logger with JSON off, colour
   on and the package level): the values newentry computes are those of the model's fresh_entry *)
Theorem C10_gen_child_defaults : forall w p pe name,
  nth_error (entries w) p = Some pe ->
  Loggers.child_defaults true (useJSON (e_mode pe)) (useColor (e_mode pe)) (e_level pe) (deflevel w) =
    (useJSON (e_mode (fresh_entry w (Some p) name)), useColor (e_mode (fresh_entry w (Some p) name)),
     e_level (fresh_entry w (Some p) name)).
Proof. exact GenTreeP.defaults_fresh_entry. Qed.
Print Assumptions C10_gen_child_defaults.

(* the skip count (C14 reads it): SetSkip(n) and withSkip(n) store exactly n, whatever n and whatever was stored;
   WithSkip(n) asks newChildLogger for the child named c/<name>[<n>] - with the receiver's name and the SAME n in
   decimal - and sets the count n on THAT child; on EVERY call (whatever the receiver's children [items] are: a child
   found again gets the count too) and with the name as DATA (a name containing % is not read as a format: a format
   computed from the name would be Dec.go_sprintf of it); nothing else is done to the child - its format flags, level
   and count are not written from the receiver's (the setters are inputs the result does not mention) *)
Theorem C10_gen_set_skip : forall s old n,
  Loggers.set_skip s old n = n /\ Loggers.with_skip s old n = (s, n).
Proof. intros s old n. split; [apply GenTreeP.gen_set_skip|apply GenTreeP.gen_with_skip]. Qed.
Print Assumptions C10_gen_set_skip.

Theorem C10_gen_with_skip_child : forall newChild withSkip set_json set_color set_level set_extra name old lvl json color items n,
  Loggers.with_skip_child newChild withSkip set_json set_color set_level set_extra name old lvl json color items n
  = withSkip (newChild (skip_child_name name n)) n.
Proof. exact GenTreeP.gen_with_skip_child. Qed.
Print Assumptions C10_gen_with_skip_child.

(* New(name) returns the existing direct child of that name and changes nothing ... *)
Theorem C10_new_lookup : forall islw w p k opts j pe,
  nth_error (entries w) p = Some pe -> find_child w p (NStr k) = Some j ->
  step islw w (ONew p (Some k) opts) = (w, Some j).
Proof. exact new_returns_existing. Qed.
Print Assumptions C10_new_lookup.

(* ... or else creates one whose parent is the receiver and which starts with the receiver's
   level and format (and nothing else of the receiver: no attributes, writers, skip) *)
Theorem C10_new_creates : forall islw w p k opts pe,
  nth_error (entries w) p = Some pe -> find_child w p (NStr k) = None ->
  let '(w', r) := step islw w (ONew p (Some k) opts) in
  r = Some (length (entries w)) /\
  exists e, nth_error (entries w') (length (entries w)) = Some e /\ e_owner e = Some p /\ e_name e = NStr k /\
            (opts = [] -> e_level e = e_level pe /\ e_mode e = e_mode pe /\ e_attrs e = [] /\ e_writer e = None /\ e_skip e = 0).
Proof. exact new_creates. Qed.
Print Assumptions C10_new_creates.

(* every With... call returns a newly created child of the receiver *)
Theorem C10_with_is_child : forall islw w p s pe,
  nth_error (entries w) p = Some pe ->
  let '(w', r) := step islw w (OWith p s) in
  r = Some (length (entries w)) /\ length (entries w') = S (length (entries w)) /\
  exists e, nth_error (entries w') (length (entries w)) = Some e /\ e_owner e = Some p.
Proof. exact with_creates. Qed.
Print Assumptions C10_with_is_child.

(* except that WithSkip(n) keeps one child per n *)
Theorem C10_withskip_one_per_n : forall islw w p n pe, nth_error (entries w) p = Some pe ->
  let w1 := fst (step islw w (OWithSkip p n)) in
  snd (step islw w1 (OWithSkip p n)) = snd (step islw w (OWithSkip p n))
  /\ length (entries (fst (step islw w1 (OWithSkip p n)))) = length (entries w1).
Proof. exact with_skip_idempotent. Qed.
Print Assumptions C10_withskip_one_per_n.

(* every Set... call returns the receiver and creates nothing *)
Theorem C10_set_returns_receiver : forall islw w i s e, nth_error (entries w) i = Some e ->
  snd (step islw w (OSet i s)) = Some i /\ length (entries (fst (step islw w (OSet i s)))) = length (entries w).
Proof. exact set_returns_receiver. Qed.
Print Assumptions C10_set_returns_receiver.

(* isolation: no operation on one logger changes ANYTHING (level, format, attributes, skip,
   writers, context keys, name, parent) of another - one step, and any history *)
Theorem C10_isolation_step : forall islw w o j, (j < length (entries w))%nat -> touched w o <> Some j ->
  nth_error (entries (fst (step islw w o))) j = nth_error (entries w) j.
Proof. exact step_isolation. Qed.
Print Assumptions C10_isolation_step.

Theorem C10_isolation : forall islw ops w j, (j < length (entries w))%nat -> untouched islw w ops j ->
  nth_error (entries (run islw w ops)) j = nth_error (entries w) j.
Proof. exact run_isolation. Qed.
Print Assumptions C10_isolation.

(* With... leaves the receiver untouched (instance: With never "touches" an existing logger) *)
Theorem C10_with_receiver_untouched : forall islw w p s, (p < length (entries w))%nat ->
  nth_error (entries (fst (step islw w (OWith p s)))) p = nth_error (entries w) p.
Proof. intros islw w p s H. apply step_isolation; [exact H|]. cbn. discriminate. Qed.
Print Assumptions C10_with_receiver_untouched.

(* the tree of every reachable world is well formed: a parent is older than its child (no cycles),
   Root is the parentless ancestor *)
Theorem C10_tree_wf : forall islw ops l d t, owners_lt (run islw (init_world l d t) ops).
Proof. intros islw ops l d t. exact (run_owners_lt islw ops _ (init_owners_lt l d t)). Qed.
Print Assumptions C10_tree_wf.

Theorem C10_root_parentless : forall w i, owners_lt w -> (i < length (entries w))%nat ->
  parent_of w (root_of w i) = None.
Proof. exact root_parentless. Qed.
Print Assumptions C10_root_parentless.

(* Each visits exactly the loggers of the subtree, each once, at its depth *)
Theorem C10_each : forall w top,
  NoDup (map fst (each w top)) /\
  forall i d, In (i, d) (each w top) <-> (i < length (entries w))%nat /\ depth_under w top i = Some d.
Proof. intros w top. split; [exact (each_nodup w top)|exact (each_spec w top)]. Qed.
Print Assumptions C10_each.

(* package-level New: no parent, coloured, at the package's current default level *)
Theorem C10_pkg_new : forall islw w name,
  let '(w', r) := step islw w (ONewPkg name []) in
  r = Some (length (entries w)) /\
  exists e, nth_error (entries w') (length (entries w)) = Some e /\ e_owner e = None /\
            e_mode e = {| useJSON := false; useColor := true |} /\ e_level e = deflevel w.
Proof. exact pkg_new. Qed.
Print Assumptions C10_pkg_new.

(* which is Warn in a production process until SetLevel changes it *)
Example C10_production_default :
  let w := run (fun _ => false) (init_world lvl_warn false false) [ONewPkg None []; OPkgSetLevel 4; ONewPkg (Some 1) []] in
  map e_level (entries w) = [4; 3; 4] /\ map e_owner (entries w) = [None; None; None].
Proof. vm_compute. split; reflexivity. Qed.
