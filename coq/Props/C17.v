(* C17 - Level names and the level registry: round trips and safe registration. *)
Require Import Verif.Model.Base Verif.Model.Decision Verif.Model.Dec Verif.Model.Level.
Require Import Verif.Proofs.LevelP Verif.Proofs.RegistryP.
Require Import Verif.Corr.C01.
Require Import Verif.Model.GoSem Verif.Model.LevelRef.
Require Verif.Gen.LevelNames Verif.Proofs.GenLevelP.
Require Verif.Gen.Registry Verif.Model.RegRef Verif.Proofs.GenRegP.

(* ---- the source against the model: Level.String, Level.ShortTag and ParseLevel as they are in
   /repo now (translated on every run, Gen/LevelNames.v) compute the model's functions on the
   tables of ANY registry [g] (C06 and C09 print records with these names and tags) ---- *)
Theorem C17_gen_level_string : forall g l, LevelNames.level_string (r_l2s g) l = level_string g l.
Proof. exact GenLevelP.gen_level_string. Qed.
Print Assumptions C17_gen_level_string.

(* ShortTag(n): [None] = the call panics - exactly for n outside 1..5; the slice t[:n] and
   strings.Repeat can never panic on the way *)
Theorem C17_gen_short_tag : forall g n l, LevelNames.short_tag (r_tags g) (r_l2s g) l n = short_tag g n l.
Proof. exact GenLevelP.gen_short_tag. Qed.
Print Assumptions C17_gen_short_tag.

(* ParseLevel: the level and a nil error for a known name (looked up in lower case), otherwise
   level 0, a non-nil error and one warning about that name *)
Theorem C17_gen_parse_level : forall g s tr,
  LevelNames.parse_level (r_s2l g) s tr =
  match parse_level g s with
  | Some l => (l, None, tr)
  | None => (0, Some tt, tr ++ [EvWarnUnknown s])
  end.
Proof. exact GenLevelP.gen_parse_level. Qed.
Print Assumptions C17_gen_parse_level.

(* UnmarshalText (and through it UnmarshalJSON): ParseLevel of the text - lower-casing included - and nothing
   else; the receiver is overwritten iff the name is known, otherwise it keeps its value and the error is
   returned.  With C17_roundtrip and C17_json_roundtrip: what MarshalText writes for a registered level reads back as that
   level, whatever the case of the registered title. *)
Theorem C17_gen_unmarshal_text : forall g level s tr,
  LevelNames.unmarshal_text (r_s2l g) level s tr =
  match parse_level g s with
  | Some l => (None, l, tr)
  | None => (Some tt, level, tr ++ [EvWarnUnknown s])
  end.
Proof. exact GenLevelP.gen_unmarshal_text. Qed.
Print Assumptions C17_gen_unmarshal_text.

(* RegisterLevel as it is in /repo now (translated on every run, Gen/Registry.v; the options arrive as
   the regPack fields after every opt ran; a Go map write overwrites an existing key, a write into a
   missing row of shortTagMap panics) is the model's [register]: the outcome (ok / value in use / title
   in use, read from the error text) and ALL seven tables afterwards.  The model appends where Go
   overwrites, so the registry must be well formed: no table has a key outside allLevels and shortTagMap
   has exactly the rows 0..5 (RegRef.reg_wf_b, boolean).  The tables of the source satisfy it and every
   registration preserves it, so the theorem composes over any history of registrations.
   mLevelUseErrorDevice (a map[Level]bool) is read by its key set. *)
Theorem C17_gen_register : forall g v t o errm, RegRef.reg_wf_b g = true -> map fst errm = r_errdev g ->
  RegRef.view_reg (Registry.register (r_all g) (r_l2s g) (r_s2l g) (r_tags g) (r_colors g) (r_as g) errm v t
                     (o_tags o) (o_clr o) (o_bg o) (o_treat o) (o_err o))
  = Some (snd (register g v t o), fst (register g v t o)).
Proof. exact GenRegP.gen_register. Qed.
Print Assumptions C17_gen_register.

Theorem C17_reg_wf : RegRef.reg_wf_b init_registry = true
  /\ (forall g v t o, RegRef.reg_wf_b g = true -> RegRef.reg_wf_b (fst (register g v t o)) = true)
  /\ (forall cs, RegRef.reg_wf_b (reg_run init_registry cs) = true).
Proof.
  split; [exact GenRegP.init_reg_wf|]. split; [exact GenRegP.register_wf|].
  intros cs. unfold reg_run. generalize GenRegP.init_reg_wf. generalize init_registry.
  induction cs as [|c cs IH]; intros g H; [exact H|]. cbn [fold_left]. apply IH. apply GenRegP.register_wf. exact H.
Qed.
Print Assumptions C17_reg_wf.

(* For every registry reachable from the tables of the source (init_registry is built from
   coq/Gen/Tables.v) by ANY list of RegisterLevel calls - arbitrary values, titles, options -
   and every level in it: the printed name parses back to the level, and the text form
   unmarshals to the level *)
Theorem C17_roundtrip : forall cs l, let g := reg_run init_registry cs in In l (r_all g) ->
  parse_level g (level_string g l) = Some l
  /\ exists b, marshal_text g l = Some b /\ unmarshal_text g b = Some l.
Proof.
  intros cs l g Hl. pose proof (reg_run_ok cs _ init_reg_ok) as Hg. split.
  - exact (name_roundtrip _ l Hg Hl).
  - exact (text_roundtrip _ l Hg Hl).
Qed.
Print Assumptions C17_roundtrip.

(* the same round trip stated on the TRANSLATIONS of MarshalText and UnmarshalText (Gen/LevelNames.v): for every
   registry reachable by any list of registrations and every level in it, the code's MarshalText returns a text
   and no error, and the code's UnmarshalText of that text stores exactly that level - whatever the receiver
   held - returns no error and warns about nothing *)
Theorem C17_gen_marshal_text : forall g l,
  LevelNames.marshal_text (r_l2s g) l =
  match marshal_text g l with Some s => (s, None) | None => ([], Some tt) end.
Proof. exact GenLevelP.gen_marshal_text. Qed.
Print Assumptions C17_gen_marshal_text.
Theorem C17_gen_text_roundtrip : forall cs l cur tr, let g := reg_run init_registry cs in In l (r_all g) ->
  exists b, LevelNames.marshal_text (r_l2s g) l = (b, None)
         /\ LevelNames.unmarshal_text (r_s2l g) cur b tr = (None, l, tr).
Proof.
  intros cs l cur tr g Hl. subst g. pose proof (C17_roundtrip cs l) as R. cbv zeta in R.
  destruct (R Hl) as [_ [b [Hm Hu]]]. exists b. split.
  - rewrite GenLevelP.gen_marshal_text. rewrite Hm. reflexivity.
  - rewrite GenLevelP.gen_unmarshal_text. unfold unmarshal_text in Hu. rewrite Hu. reflexivity.
Qed.
Print Assumptions C17_gen_text_roundtrip.

(* the JSON form: for every JSON string codec with its own round trip (encoding/json) *)
Theorem C17_json_roundtrip : forall jq junq, (forall s, junq (jq s) = Some s) ->
  forall cs l, let g := reg_run init_registry cs in In l (r_all g) ->
  exists b, marshal_json jq g l = Some b /\ unmarshal_json junq g b = Some l.
Proof.
  intros jq junq H cs l g Hl. exact (json_roundtrip jq junq H _ l (reg_run_ok cs _ init_reg_ok) Hl).
Qed.
Print Assumptions C17_json_roundtrip.

(* RegisterLevel refuses a value or a title already in use, and a refusal changes no table *)
Theorem C17_refusal : forall g v t o,
  (In v (r_all g) -> snd (register g v t o) = RegDupValue) /\
  (forall l, ~ In v (r_all g) -> lookupB (r_s2l g) (to_lower t) = Some l -> snd (register g v t o) = RegDupTitle) /\
  (snd (register g v t o) <> RegOk -> fst (register g v t o) = g).
Proof.
  intros g v t o. split; [exact (register_dup_value g v t o)|].
  split; [intros l; exact (register_dup_title g v t o l)|exact (register_refused g v t o)].
Qed.
Print Assumptions C17_refusal.

(* after a successful registration the level answers to its title, is gated as the level it is
   treated as and is routed to the error device iff requested *)
Theorem C17_effects : forall cs v t o, let g := reg_run init_registry cs in snd (register g v t o) = RegOk ->
  let g' := fst (register g v t o) in
  In v (r_all g') /\ level_string g' v = t /\ parse_level g' t = Some v
  /\ treated_as (r_as g') v = (if o_treat o <? lv_max then o_treat o else v)
  /\ memZ (r_errdev g') v = o_err o.
Proof. intros cs v t o g H. exact (register_effects g v t o (reg_run_ok cs _ init_reg_ok) H). Qed.
Print Assumptions C17_effects.

(* ... and uses the given short tags *)
Theorem C17_given_tags : forall cs v t o n c s m0, let g := reg_run init_registry cs in
  snd (register g v t o) = RegOk -> lookupZ (r_tags g) n = Some m0 -> 1 <= n <= 5 ->
  nth_error (o_tags o) (Z.to_nat n) = Some (c :: s) ->
  short_tag (fst (register g v t o)) n v = Some (c :: s).
Proof. intros cs v t o n c s m0 g. exact (register_tags g v t o n c s m0 (reg_run_ok cs _ init_reg_ok)). Qed.
Print Assumptions C17_given_tags.

(* ShortTag(n) of any level without custom tags is exactly n bytes (= characters for ASCII titles), n in 1..5 *)
Theorem C17_short_tag_len : forall g n l, 1 <= n <= 5 ->
  (match lookupZ (r_tags g) n with Some m => lookupZ m l | None => None end) = None ->
  exists t, short_tag g n l = Some t /\ length t = Z.to_nat n.
Proof. exact short_tag_length. Qed.
Print Assumptions C17_short_tag_len.

(* and so are the built-in tags of the source tables *)
Theorem C17_builtin_tag_len :
  forallb (fun l => forallb (fun n => match short_tag init_registry n l with
                                       | Some t => Nat.eqb (length t) (Z.to_nat n) | None => false end)
                            [1;2;3;4;5]) (r_all init_registry) = true.
Proof. exact builtin_tags_length. Qed.
Print Assumptions C17_builtin_tag_len.

Example C17_example :
  let notice := [x4e;x4f;x54;x49;x43;x45] in   (* "NOTICE" *)
  let g := reg_run init_registry [ {| rc_v := 17; rc_title := notice; rc_opts := no_opts |} ] in
  In 17 (r_all g) /\ parse_level g (level_string g 17) = Some 17
  /\ snd (register g 18 [x6e;x6f;x74;x69;x63;x65] no_opts) = RegDupTitle   (* "notice": the title is in use *)
  /\ short_tag g 3 17 = Some [x4e;x4f;x54].
Proof. vm_compute. repeat split; try reflexivity. right. right. right. right. right. right. right. right. right. right. right. right. left. reflexivity. Qed.
