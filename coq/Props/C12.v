(* C12 - Panic and Fatal: the record is written first, then the documented termination.
   PARTIAL: os.Exit, the unwinding of panic and the detection of a go-test process
   (is.InTesting: argv[0] ends in .test and a -test.* argument is present) belong to the Go
   runtime / hedzr/is; they are inputs of the model (in_testing) or its outputs (DoPanic, DoExit)
   and are exhibited only by the child processes of the correspondence run (harness/c12.go). *)
Require Import Verif.Model.Base Verif.Model.Decision Verif.Model.DecisionRef Verif.Model.Level.
Require Import Verif.Model.EntryPoint Verif.Model.Terminate.
Require Import Verif.Gen.Tables Verif.Gen.EntryPoints Verif.Gen.Decisions Verif.Gen.PanicSites.
Require Import Verif.Proofs.TerminateP.
Require Import Verif.Model.GoSem Verif.Model.TermRef.
Require Verif.Gen.Termination Verif.Proofs.GenTermP.
Require Verif.Gen.Layout Verif.Proofs.GenLayoutP.

(* tie: the translation of the tail of Entry.logContext regenerated from the source equals the
   reference decision, for both process modes, every flags word in Z and every level in Z *)
Theorem C12_gen_termination : forall in_testing flags lvl,
  Decisions.termination in_testing flags lvl = termination_ref in_testing flags lvl.
Proof. exact gen_termination. Qed.
Print Assumptions C12_gen_termination.

(* tie, stronger: EVERY statement of Entry.logContext from the print of the record to the end of the function is
   translated (Gen/Termination.v: the pooled attribute slice with its length and capacity, the package variables
   inTesting / inBenching / isDebugging / isDebug as inputs, the print as an event, panic(msg) and os.Exit(code) as
   the ways the call ends).  For ALL inputs: no slice expression panics, the record is printed exactly once and
   FIRST, and the call then ends as the decision says - which depends on inTesting, the flags and the level alone.
   An early return between the print and the termination block, or a guard that reads another variable, changes
   the generated function and breaks this proof. *)
Theorem C12_gen_after_print : forall in_testing in_benching is_debugging is_debug flags lvl msg kvps tr,
  Termination.after_print in_testing in_benching is_debugging is_debug flags lvl msg kvps tr
  = Some (term_of (termination_ref in_testing flags lvl) msg, tr ++ [lvl]).
Proof. exact GenTermP.gen_after_print. Qed.
Print Assumptions C12_gen_after_print.

(* the process-mode input itself: var inTesting is initialised with is.InTesting() and nothing else (a go test
   -bench run, a debugger, the debug mode do not count as testing) *)
Theorem C12_gen_in_testing_init : forall in_testing in_benchmark in_debugging debug_mode debug_build,
  Termination.in_testing_init in_testing in_benchmark in_debugging debug_mode debug_build = in_testing.
Proof. exact GenTermP.gen_in_testing_init. Qed.
Print Assumptions C12_gen_in_testing_init.

(* the two tests of the code (flags&LnoInterrupt == LnoInterrupt, flags&Linterruptalways != 0) are
   tests of bit 20 and bit 21 of the flags word, whatever the other bits are; the constants are
   those of the source *)
Theorem C12_flag_tests : forall flags,
  has_all flags c_LnoInterrupt = Z.testbit flags bit_nointerrupt
  /\ has_any flags c_Linterruptalways = Z.testbit flags bit_interruptalways.
Proof. intros flags. split; [exact (has_all_nointerrupt flags)|exact (has_any_interruptalways flags)]. Qed.
Print Assumptions C12_flag_tests.

(* the decision: the tail terminates iff the severity is Panic or Fatal, the no-interrupt flag is
   not set, and the process is not under go test or the interrupt-always flag is set; Panic then
   panics, Fatal then calls os.Exit(-3) *)
Theorem C12_decision : forall in_testing flags lvl,
  (termination_ref in_testing flags lvl <> ActContinue <->
     (lvl = lv_panic \/ lvl = lv_fatal)
     /\ Z.testbit flags bit_nointerrupt = false
     /\ (in_testing = false \/ Z.testbit flags bit_interruptalways = true))
  /\ (may_interrupt in_testing flags -> lvl = lv_panic -> termination_ref in_testing flags lvl = ActPanic)
  /\ (may_interrupt in_testing flags -> lvl = lv_fatal -> termination_ref in_testing flags lvl = ActExit (-3)).
Proof. exact decision. Qed.
Print Assumptions C12_decision.

(* os.Exit(-3) is seen by the parent process as status 253 *)
Theorem C12_exit_status : exit_status (-3) = 253 /\ (-3) mod 256 = 253.
Proof. split; [exact exit_status_253|reflexivity]. Qed.
Print Assumptions C12_exit_status.

(* what the process observes: the panic value is the message, the exit status is 253 *)
Theorem C12_observed_termination : forall in_testing flags lvl msg, may_interrupt in_testing flags ->
  (lvl = lv_panic -> term_of (termination_ref in_testing flags lvl) msg = DoPanic msg)
  /\ (lvl = lv_fatal -> term_of (termination_ref in_testing flags lvl) msg = DoExit 253).
Proof. exact decision_term. Qed.
Print Assumptions C12_observed_termination.

(* the negative half of the decision, as users read it *)
Theorem C12_no_termination :
  (forall in_testing flags lvl, Z.testbit flags bit_nointerrupt = true -> termination_ref in_testing flags lvl = ActContinue)
  /\ (forall flags lvl, Z.testbit flags bit_interruptalways = false -> termination_ref true flags lvl = ActContinue).
Proof. split; [exact no_interrupt_wins|exact testing_continues]. Qed.
Print Assumptions C12_no_termination.

(* write first: the trace of one call is (writes) ++ [end]; only complete-record writes precede
   the end; an admitted call writes to each of its n destinations and then ends as the tail
   decides; a call that is not admitted writes nothing and returns *)
Theorem C12_write_first : forall in_testing flags enabled_as dbg L r msg n,
  exists pre e, log_outcome in_testing flags enabled_as dbg L r msg n = pre ++ [EvEnd e]
    /\ (forall x, In x pre -> exists d, x = EvWrite d)
    /\ (enabled_code enabled_as dbg L r = true ->
          pre = writes n /\ e = term_of (termination_ref in_testing flags r) msg)
    /\ (enabled_code enabled_as dbg L r = false -> pre = [] /\ e = Continue).
Proof. exact write_first. Qed.
Print Assumptions C12_write_first.

(* positional reading: wherever the end of the call stands in the trace, nothing follows it *)
Theorem C12_nothing_after_end : forall in_testing flags enabled_as dbg L r msg n pre e post,
  log_outcome in_testing flags enabled_as dbg L r msg n = pre ++ EvEnd e :: post ->
  post = [] /\ (forall x, In x pre -> exists d, x = EvWrite d).
Proof. exact write_before_end. Qed.
Print Assumptions C12_nothing_after_end.

(* no other severity ever panics or exits - any level in Z except 0 and 1, admitted or not,
   any flags, both process modes *)
Theorem C12_no_other : forall in_testing flags lvl, lvl <> lv_panic -> lvl <> lv_fatal ->
  termination_ref in_testing flags lvl = ActContinue
  /\ forall enabled_as dbg L msg n,
       ending (log_outcome in_testing flags enabled_as dbg L lvl msg n) = Some Continue.
Proof.
  intros t flags lvl Hp Hf. split; [exact (no_other t flags lvl Hp Hf)|].
  intros m dbg L msg n. exact (no_other_outcome t flags m dbg L lvl msg n Hp Hf).
Qed.
Print Assumptions C12_no_other.

(* every public entry point found in the source that can carry Panic or Fatal severity is gated
   by the admission rule and its call chain ends in Entry.logContext, i.e. in this tail; the rows
   that do not reach the tail issue nothing (Verbose in a default build) *)
Theorem C12_all_entry_points : forall e, In e entry_points ->
  (can_terminate (ep_sev e) = true -> ep_gated e = true /\ ep_tail e = true)
  /\ (ep_tail e = false -> ep_sev e = SevNone).
Proof. intros e Hin. split; [exact (all_entry_points e Hin)|exact (non_tail_silent e Hin)]. Qed.
Print Assumptions C12_all_entry_points.

(* every panic( call, os.Exit( call and single-value type assertion in the non-test files of
   package slog is one of the sites accounted for in Model/Terminate.v (a new site breaks this);
   the only deliberate terminations are the panic and the single os.Exit of Entry.logContext *)
Theorem C12_panic_sites :
  (forall f k, In (f, k) panic_sites -> known_site f (kind_of k) = true)
  /\ deliberate_sites = [([x45;x6e;x74;x72;x79;x2e;x6c;x6f;x67;x43;x6f;x6e;x74;x65;x78;x74], KPanic);
                         ([x45;x6e;x74;x72;x79;x2e;x6c;x6f;x67;x43;x6f;x6e;x74;x65;x78;x74], KExit)]
  /\ length (filter (fun s : bytes * site_kind => match snd s with SExit => true | _ => false end) panic_sites) = 1%nat.
Proof.
  split; [exact sites_known|]. destruct deliberate_only_tail as [H1 [_ H3]]. split; [exact H1|exact H3].
Qed.
Print Assumptions C12_panic_sites.

(* non-vacuity: production process, default flags 24798: Fatal on a Trace logger with two
   destinations writes twice and exits 253; the same under go test returns; with bit 21 it exits *)
(* TIE TO THE SOURCE: THE FLAG TESTS.  Every translated function of this development reads a flag through the
   declared rendering of IsAnyBitsSet(F) - negb (Z.land flags F =? 0) - (the termination tail of this property, the
   caller part, the path hardening, the attribute assembly, the timestamp).  IsAnyBitsSet, IsAllBitsSet and AddFlags
   themselves, translated from the source on every run (Gen/Layout.v), are exactly that: the rendering is a
   theorem about the code, not an assumption about it. *)
Theorem C12_gen_is_any_bits_set : forall flags f, Layout.is_any_bits_set flags f = negb (Z.land flags f =? 0).
Proof. exact GenLayoutP.gen_is_any_bits_set. Qed.
Print Assumptions C12_gen_is_any_bits_set.
Theorem C12_gen_is_all_bits_set : forall flags f, Layout.is_all_bits_set flags f = (Z.land flags f =? f).
Proof. exact GenLayoutP.gen_is_all_bits_set. Qed.
Print Assumptions C12_gen_is_all_bits_set.
Theorem C12_gen_add_flags : forall flags fs, Layout.add_flags flags fs = fold_left Z.lor fs flags.
Proof. exact GenLayoutP.gen_add_flags. Qed.
Print Assumptions C12_gen_add_flags.

Example C12_example :
  log_outcome false 24798 t_mLevelIsEnabledAs false lv_trace lv_fatal [x6d] 2 = [EvWrite 0; EvWrite 1; EvEnd (DoExit 253)]
  /\ log_outcome false 24798 t_mLevelIsEnabledAs false lv_trace lv_panic [x6d] 1 = [EvWrite 0; EvEnd (DoPanic [x6d])]
  /\ log_outcome true 24798 t_mLevelIsEnabledAs false lv_trace lv_fatal [x6d] 1 = [EvWrite 0; EvEnd Continue]
  /\ log_outcome true (24798 + 2097152) t_mLevelIsEnabledAs false lv_trace lv_fatal [x6d] 1 = [EvWrite 0; EvEnd (DoExit 253)]
  /\ log_outcome false (24798 + 1048576) t_mLevelIsEnabledAs false lv_trace lv_panic [x6d] 1 = [EvWrite 0; EvEnd Continue]
  /\ log_outcome false 24798 t_mLevelIsEnabledAs false lv_off lv_panic [x6d] 1 = [EvEnd Continue]
  /\ may_interrupt false t_flags
  /\ Nat.leb 8 (length (filter (fun e => can_terminate (ep_sev e)) entry_points)) = true.
Proof. repeat split; vm_compute; try reflexivity; auto. Qed.
