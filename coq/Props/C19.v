(* C19 - PrintCtx's buffer API behaves exactly like bytes.Buffer.
   Only property theorems here; each is closed by [exact] of a lemma of Proofs/BufferP.v.

   Reading guide.  [cstep rup maxalloc] is the model of the code of slog/pc.go
   (state: the whole s.buf, off, cap, nil-ness, lastRead; [rup] = the capacity
   append really gives, [maxalloc] = the largest allocation), [sstep] is the
   specification of bytes.Buffer's contract over the unread bytes alone.
   [ctrace]/[strace] list, for every executed operation, its result (returned
   integers and bytes, error kind or panic kind) and String() afterwards; the run
   ends at the first panic, in both.  [trace_refines tc ts] is "tc = ts, or tc ends
   in ErrTooLarge after agreeing with ts on every earlier step" (running out of
   memory is the one outcome the contract does not fix).
   The specification takes one bit per Grow - whether the unread bytes had to be
   moved - because bytes.Buffer's own behaviour of UnreadByte/UnreadRune after a
   Grow depends on exactly that; [cbits] is what the concrete run did.
   [op_wfb]: every answer of a ReadFrom reader script is at most MinRead bytes
   (the only room ReadFrom promises to the reader). *)
Require Import Verif.Model.Base Verif.Model.Utf8 Verif.Model.Buffer.
Require Import Verif.Proofs.BufferP.

(* ---- the source against the concrete model: the buffer methods of PrintCtx as they are in /repo now
   (translated on every run, Gen/Buffers.v) ARE the steps of the model [cstep] the refinement theorems
   below are about.  A []byte is (visible part d, spare capacity sp) - so re-slicing up to the capacity
   is expressible; the state is (s.buf, s.off, s.lastRead); every index and slice expression is a possible
   range panic (BRange); the state a panic leaves behind is compared too.  Hypothesis: the state is
   well formed (0 <= off <= len), which C19_invariant preserves.  [bview] reads a generated result as
   (state afterwards, result) of the model; the capacity policy does not occur in these methods. ---- *)
Require Import Verif.Model.GoSem Verif.Model.BufRef.
Require Verif.Gen.Buffers Verif.Proofs.GenBufP Verif.Proofs.GenBufWP.

Theorem C19_gen_reset : forall nil d sp o l,
  bview nil res_unit (Buffers.buf_reset (d, sp) o l) = cstep (fun c => c) 0 (abs_pc nil ((d, sp), o, l)) OReset.
Proof. exact GenBufP.gen_buf_reset. Qed.
Print Assumptions C19_gen_reset.

Theorem C19_gen_truncate : forall nil d sp o l n, 0 <= o <= Z.of_nat (length d) ->
  bview nil res_unit (Buffers.buf_truncate (d, sp) o l n) = cstep (fun c => c) 0 (abs_pc nil ((d, sp), o, l)) (OTruncate n).
Proof. exact GenBufP.gen_buf_truncate. Qed.
Print Assumptions C19_gen_truncate.

Theorem C19_gen_read_byte : forall nil d sp o l, 0 <= o <= Z.of_nat (length d) ->
  bview nil res_byte (Buffers.buf_read_byte (d, sp) o l) = cstep (fun c => c) 0 (abs_pc nil ((d, sp), o, l)) OReadByte.
Proof. exact GenBufP.gen_buf_read_byte. Qed.
Print Assumptions C19_gen_read_byte.

Theorem C19_gen_read_rune : forall nil d sp o l, 0 <= o <= Z.of_nat (length d) ->
  bview nil res_rune (Buffers.buf_read_rune (d, sp) o l) = cstep (fun c => c) 0 (abs_pc nil ((d, sp), o, l)) OReadRune.
Proof. exact GenBufP.gen_buf_read_rune. Qed.
Print Assumptions C19_gen_read_rune.

Theorem C19_gen_unread_byte : forall nil d sp o l,
  bview nil res_err (Buffers.buf_unread_byte (d, sp) o l) = cstep (fun c => c) 0 (abs_pc nil ((d, sp), o, l)) OUnreadByte.
Proof. exact GenBufP.gen_buf_unread_byte. Qed.
Print Assumptions C19_gen_unread_byte.

Theorem C19_gen_unread_rune : forall nil d sp o l,
  bview nil res_err (Buffers.buf_unread_rune (d, sp) o l) = cstep (fun c => c) 0 (abs_pc nil ((d, sp), o, l)) OUnreadRune.
Proof. exact GenBufP.gen_buf_unread_rune. Qed.
Print Assumptions C19_gen_unread_rune.

Theorem C19_gen_next : forall nil d sp o l n, 0 <= o <= Z.of_nat (length d) ->
  bview nil res_slice (Buffers.buf_next (d, sp) o l n) = cstep (fun c => c) 0 (abs_pc nil ((d, sp), o, l)) (ONext n).
Proof. exact GenBufP.gen_buf_next. Qed.
Print Assumptions C19_gen_next.

(* Read(p): the count, the error and the first n bytes of p afterwards *)
Theorem C19_gen_read : forall nil d sp o l pd psp, 0 <= o <= Z.of_nat (length d) ->
  bview_read nil (Buffers.buf_read (d, sp) o l (pd, psp)) =
  cstep (fun c => c) 0 (abs_pc nil ((d, sp), o, l)) (ORead (Z.of_nat (length pd))).
Proof. exact GenBufP.gen_buf_read. Qed.
Print Assumptions C19_gen_read.

(* WriteTo: the io.Writer is an oracle answering (m, e) with 0 <= m; it is handed exactly the unread bytes *)
Theorem C19_gen_write_to : forall nil d sp o l m (e : bool), 0 <= o <= Z.of_nat (length d) -> 0 <= m ->
  bview_wt nil (Buffers.buf_write_to (d, sp) o l tt m (if e then EUser else ENil) []) =
  cstep (fun c => c) 0 (abs_pc nil ((d, sp), o, l)) (OWriteTo m e).
Proof. exact GenBufP.gen_buf_write_to. Qed.
Print Assumptions C19_gen_write_to.

(* ---- the write side.  s.buf == nil and growSlice are oracles of the translation; here they are what the
   model says (the nil flag of the state; the capacity growSlice asks for, the rounding [rup] and the limit
   [maxalloc]).  The generated state does not carry the nil flag, so states are compared up to it ([forget] /
   [wview]); hypothesis [st_wf]: 0 <= off <= len, and a nil buffer has capacity 0. ---- *)

(* grow(n), 0 <= n: which of the five paths is taken (reset first when the buffer is empty and off <> 0; room by
   reslicing; a new small buffer for a nil one; sliding the unread bytes down; a larger array from growSlice),
   the panics (ErrTooLarge twice, a range panic), the offset, lastRead, the capacity afterwards, the returned
   write index m = the length in the model, len(s.buf) = m + n, and the bytes below m are the model's *)
Theorem C19_gen_grow_int : forall rup maxalloc nil d sp o l n,
  (forall c, c <= rup c) -> st_wf nil ((d, sp), o, l) = true -> 0 <= n ->
  grow_gen_view (Buffers.buf_grow_int (d, sp) o l (fun _ => nil) (grow_slice_oracle rup maxalloc) n)
  = grow_model_view n (grow rup maxalloc (abs_pc nil ((d, sp), o, l)) n).
Proof. exact GenBufWP.gen_buf_grow_int. Qed.
Print Assumptions C19_gen_grow_int.

Theorem C19_gen_grow : forall rup maxalloc nil d sp o l n,
  (forall c, c <= rup c) -> st_wf nil ((d, sp), o, l) = true ->
  wview (bview nil res_unit (Buffers.buf_grow (d, sp) o l (fun _ => nil) (grow_slice_oracle rup maxalloc) n))
  = wview (cstep rup maxalloc (abs_pc nil ((d, sp), o, l)) (OGrow n)).
Proof. exact GenBufWP.gen_buf_grow. Qed.
Print Assumptions C19_gen_grow.

(* Write(p) / WriteString(s) / WriteByte(c): lastRead = opInvalid, room by reslicing or by grow, the bytes stored
   at the end, the count len(p) and a nil error *)
Theorem C19_gen_write : forall rup maxalloc nil d sp o l pd psp,
  (forall c, c <= rup c) -> st_wf nil ((d, sp), o, l) = true ->
  wview (bview nil (fun v : Z * err => Res [fst v] [] (snd v))
           (Buffers.buf_write (d, sp) o l (fun _ => nil) (grow_slice_oracle rup maxalloc) (pd, psp)))
  = wview (cstep rup maxalloc (abs_pc nil ((d, sp), o, l)) (OWrite pd)).
Proof. exact GenBufWP.gen_buf_write. Qed.
Print Assumptions C19_gen_write.

Theorem C19_gen_write_string : forall rup maxalloc nil d sp o l str,
  (forall c, c <= rup c) -> st_wf nil ((d, sp), o, l) = true ->
  wview (bview nil (fun v : Z * err => Res [fst v] [] (snd v))
           (Buffers.buf_write_string (d, sp) o l (fun _ => nil) (grow_slice_oracle rup maxalloc) str))
  = wview (cstep rup maxalloc (abs_pc nil ((d, sp), o, l)) (OWriteString str)).
Proof. exact GenBufWP.gen_buf_write_string. Qed.
Print Assumptions C19_gen_write_string.

Theorem C19_gen_write_byte : forall rup maxalloc nil d sp o l c,
  (forall c, c <= rup c) -> st_wf nil ((d, sp), o, l) = true ->
  wview (bview nil res_err (Buffers.buf_write_byte (d, sp) o l (fun _ => nil) (grow_slice_oracle rup maxalloc) (bz c)))
  = wview (cstep rup maxalloc (abs_pc nil ((d, sp), o, l)) (OWriteByte c)).
Proof. exact GenBufWP.gen_buf_write_byte. Qed.
Print Assumptions C19_gen_write_byte.

(* WriteRune(r) for every int32 r: uint32(r) < RuneSelf (so a negative rune is NOT taken for ASCII) goes through
   WriteByte(byte(r)); any other rune gets room for UTFMax bytes and utf8.AppendRune(s.buf[:m], r) stores its
   encoding (the replacement character for an invalid rune) without reallocating; the count is the encoding's length *)
Theorem C19_gen_write_rune : forall rup maxalloc nil (d sp : bytes) o l r,
  (forall c, c <= rup c) -> st_wf nil ((d, sp), o, l) = true -> -2147483648 <= r < 2147483648 ->
  wview (bview nil (fun v : Z * err => Res [fst v] [] (snd v))
           (Buffers.buf_write_rune (d, sp) o l (fun _ => nil) (grow_slice_oracle rup maxalloc) r))
  = wview (cstep rup maxalloc (abs_pc nil ((d, sp), o, l)) (OWriteRune r)).
Proof. exact GenBufWP.gen_buf_write_rune. Qed.
Print Assumptions C19_gen_write_rune.

(* ReadFrom(r): the reader is a script of answers (bytes with nil / io.EOF / another error, or a negative count);
   r.Read is handed s.buf[len:cap] and what it delivers lands in the array of s.buf.  For EVERY script: the rounds
   (grow(MinRead), the cut back, the window, the count added, when it stops), the total, the error handed on (EOF
   becomes nil), the panics (errNegativeRead, ErrTooLarge), and the bytes, offset, capacity and lastRead afterwards
   are those of the model's c_readfrom.  The loop of the source is run with fuel length(script)+1, which the
   theorem shows to suffice.  [errors_is] stands for errors.Is, about which nothing is assumed: the source compares the
   reader's error with io.EOF by ==, and the result does not depend on it. *)
Theorem C19_gen_read_from : forall rup maxalloc nil errors_is (d sp : bytes) o l script,
  (forall c, c <= rup c) -> 0 <= o <= Z.of_nat (length d) ->
  wview (bview_rf nil (Buffers.buf_read_from (d, sp) o l (fun _ => nil) (grow_slice_oracle rup maxalloc) errors_is tt script))
  = wview (cstep rup maxalloc (abs_pc nil ((d, sp), o, l)) (OReadFrom script)).
Proof. exact GenBufWP.gen_buf_read_from. Qed.
Print Assumptions C19_gen_read_from.

(* For EVERY operation list (any arguments: sizes zero, negative, beyond the
   contents; any runes; any reader/writer scripts), from NewPrintCtx(b) for any b,
   capacity and nil-ness: same results, errors, panics, String() and Len() at
   every step. *)
Theorem C19_refines : forall (rup : Z -> Z) (maxalloc : Z), (forall c, c <= rup c) ->
  forall b c nil ops, init_ok b c nil -> forallb op_wfb ops = true ->
  let s0 := new_pc b c nil in
  trace_refines (ctrace rup maxalloc s0 ops) (strace (cbits rup maxalloc s0 ops) (new_spec b) ops).
Proof. exact refines_all. Qed.
Print Assumptions C19_refines.

(* the same from the empty buffer, new(PrintCtx) / NewPrintCtx(nil) *)
Theorem C19_refines_empty : forall (rup : Z -> Z) (maxalloc : Z), (forall c, c <= rup c) ->
  forall ops, forallb op_wfb ops = true ->
  let s0 := new_pc [] 0 true in
  trace_refines (ctrace rup maxalloc s0 ops) (strace (cbits rup maxalloc s0 ops) (new_spec []) ops).
Proof.
  intros rup maxalloc Hr ops Hwf.
  exact (refines_all rup maxalloc Hr [] 0 true ops (conj (Z.le_refl 0) (fun _ => conj eq_refl eq_refl)) Hwf).
Qed.
Print Assumptions C19_refines_empty.

(* the specification may be run with any bits that tell the truth on the
   executed Grow calls ... *)
Theorem C19_refines_bits : forall (rup : Z -> Z) (maxalloc : Z), (forall c, c <= rup c) ->
  forall b c nil ops bits, init_ok b c nil -> forallb op_wfb ops = true ->
  bits_ok rup maxalloc (new_pc b c nil) ops bits ->
  trace_refines (ctrace rup maxalloc (new_pc b c nil) ops) (strace bits (new_spec b) ops).
Proof. exact refines_bits. Qed.
Print Assumptions C19_refines_bits.

(* ... so without Grow it is a function of the operation list alone *)
Theorem C19_refines_nogrow : forall (rup : Z -> Z) (maxalloc : Z), (forall c, c <= rup c) ->
  forall b c nil ops, init_ok b c nil -> forallb op_wfb ops = true ->
  forallb (fun o => negb (is_grow o)) ops = true ->
  trace_refines (ctrace rup maxalloc (new_pc b c nil) ops)
                (strace (map (fun _ => false) ops) (new_spec b) ops).
Proof. exact refines_nogrow. Qed.
Print Assumptions C19_refines_nogrow.

(* 0 <= off <= len(buf) <= cap(buf) after every operation with any argument
   (no hypothesis on scripts), hence in every reachable state *)
Theorem C19_invariant_step : forall (rup : Z -> Z) (maxalloc : Z), (forall c, c <= rup c) ->
  forall s o, inv s -> inv (fst (cstep rup maxalloc s o)).
Proof. exact cstep_inv. Qed.
Print Assumptions C19_invariant_step.

Theorem C19_invariant : forall (rup : Z -> Z) (maxalloc : Z), (forall c, c <= rup c) ->
  forall b c nil ops, init_ok b c nil -> inv (crun rup maxalloc (new_pc b c nil) ops).
Proof. exact run_inv_all. Qed.
Print Assumptions C19_invariant.

(* every index and slice expression the model checks ([Panicked PRange]) is in
   range, except the one bytes.Buffer has too: Next(n) with n < 0 *)
Theorem C19_no_range_panic : forall (rup : Z -> Z) (maxalloc : Z), (forall c, c <= rup c) ->
  forall b c nil ops x, init_ok b c nil -> forallb op_wfb ops = true ->
  In (Panicked PRange, x) (ctrace rup maxalloc (new_pc b c nil) ops) ->
  exists n, In (ONext n) ops /\ n < 0.
Proof. exact no_range_panic. Qed.
Print Assumptions C19_no_range_panic.

(* the one escape of C19_refines: grow (the only place that raises ErrTooLarge, and
   it raises nothing else) does so only when the code's own overflow guard
   (2*cap + n > maxInt) or the allocator limit is hit *)
Theorem C19_toolarge_only_huge : forall (rup : Z -> Z) (maxalloc : Z), (forall c, c <= rup c) ->
  forall s n p, inv s -> 0 <= n -> grow rup maxalloc s n = GPanic p ->
  p = PTooLarge /\ (2 * cap s + n > maxInt \/ blen s + n > maxalloc \/ 2 * cap s > maxalloc).
Proof. exact grow_toolarge. Qed.
Print Assumptions C19_toolarge_only_huge.

(* the hypothesis on the capacity rounding holds for Go's size classes, with
   which the correspondence check runs the model *)
Theorem C19_go_rounding : forall c, c <= go_rup c.
Proof. exact go_rup_ge. Qed.
Print Assumptions C19_go_rounding.

(* a non-trivial concrete run from the empty buffer: 60 bytes fit the first 64-byte
   array; after reading 40 of them, 30 more neither fit (64-60 < 30) nor may slide
   (30 > 64/2-20): growSlice(buf[40:], 40+30) asks for max(20+70, 2*(64-40)) = 90 bytes
   and gets 96; the rune read before Grow(200) can no longer be unread after it (the
   data moved; UnreadRune still returns nil, as in bytes.Buffer) *)
Example C19_example :
  let ops := [OWrite (repeat x61 58); OWriteRune 233; ORead 40; OWrite (repeat x62 30); OLen;
              ONext 18; OReadRune; OGrow 200; OUnreadRune; OString; OTruncate 99] in
  let s0 := new_pc [] 0 true in
  ctrace go_rup go_maxalloc s0 ops = strace (cbits go_rup go_maxalloc s0 ops) (new_spec []) ops
  /\ map fst (ctrace go_rup go_maxalloc s0 ops) =
     [Res [58] [] ENil; Res [2] [] ENil; Res [40] (repeat x61 40) ENil; Res [30] [] ENil; Res [50] [] ENil;
      Res [] (repeat x61 18) ENil; Res [233; 2] [] ENil; Res [] [] ENil; Res [] [] ENil;
      Res [] (repeat x62 30) ENil; Panicked PTruncate]
  /\ cap (crun go_rup go_maxalloc s0 (firstn 4 ops)) = 96
  /\ cbits go_rup go_maxalloc s0 ops = [false; false; false; false; false; false; false; true; false; false; false].
Proof. vm_compute. repeat split; reflexivity. Qed.
