(* C03 - Severity routing and writer-set configuration follow the documented model. *)
Require Import Verif.Model.Base Verif.Model.Writers.
Require Import Verif.Proofs.WritersP.
Require Import Verif.Model.GoSem.
Require Verif.Gen.Routing Verif.Proofs.GenRouteP.

(* tie: dualWriter.Get as it is in /repo now (translated on every run, Gen/Routing.v) computes the
   routing function of the model, for every error-device table [m] (a Go map[Level]bool, of which
   only the key set matters), every writer configuration [x] and every severity; the per-level
   map of the code may be nil (None) when the model's association list is empty *)
Theorem C03_gen_route : forall (m : list (Z * bool)) (x : dualwriter) lvl,
  Routing.route m [Wrapped w_discard] (dw_normal x) (dw_error x) (Some (dw_leveled x)) lvl = dw_get (map fst m) x lvl
  /\ (dw_leveled x = [] ->
      Routing.route m [Wrapped w_discard] (dw_normal x) (dw_error x) None lvl = dw_get (map fst m) x lvl).
Proof. exact GenRouteP.gen_route. Qed.
Print Assumptions C03_gen_route.

(* tie for the blank-line path: the first statement of Entry.printImpl is translated (Gen/Routes.v; a Write on a
   writer obtained from findWriter is part of the fragment, so that by-passing printOut is a different trace, not a
   fall-back).  Before any formatting starts, printImpl delivers something exactly when the record is an Always
   record whose message is blank after trimming "\n\r \t", and then ONE line feed through s.printOut at the
   record's level - the delivery routine of every other record (C13_gen_print_out: the writers Get selects, each
   told the level first, the error handling). *)
Require Verif.Model.Level Verif.Model.RouteRef Verif.Gen.Routes Verif.Proofs.GenEntryRouteP.
Theorem C03_gen_blank_line : forall f_trim f_findWriter lvl msg tr,
  Routes.blank_line f_trim f_findWriter lvl msg tr =
  if (lvl =? Level.lv_always) && bytes_eqb (f_trim msg RouteRef.blank_cutset) []
  then tr ++ [RouteRef.DPrintOut lvl [10]] else tr.
Proof. exact GenEntryRouteP.gen_blank_line. Qed.
Print Assumptions C03_gen_blank_line.

(* After ANY sequence of set/add/remove/reset operations (methods or New(...) options; [None] =
   a logger never given writers) the configuration is what the sequence denotes: set replaces,
   add appends, remove deletes that writer (its first registration), reset restores the defaults.
   [wop_ok]: the operations name user writers (stdout/stderr themselves cannot be named). *)
Theorem C03_config_refines : forall islw ops, forallb wop_ok ops = true ->
  conf_eq (abs (fold_left (wstep islw) ops None)) (denote ops).
Proof. exact config_refines_fresh. Qed.
Print Assumptions C03_config_refines.

(* the destinations of a record: writers registered for exactly that severity take precedence,
   otherwise error-device severities go to the error writers and all others to the normal
   writers; a logger never given writers (d = None) routes to the package defaults *)
Theorem C03_routing : forall islw errdev ops lvl, forallb wop_ok ops = true ->
  dest errdev (fold_left (wstep islw) ops None) lvl = route errdev (denote ops) lvl.
Proof.
  intros islw errdev ops lvl H. exact (routing errdev _ _ lvl (config_refines_fresh islw ops H)).
Qed.
Print Assumptions C03_routing.

Theorem C03_defaults : forall errdev lvl, lvl <> lvl_off ->
  dest errdev None lvl = if memZ errdev lvl then [w_stderr] else [w_stdout].
Proof.
  intros errdev lvl H. unfold dest, find_writer, dw_get. apply Z.eqb_neq in H. rewrite H. cbn.
  destruct (memZ errdev lvl); reflexivity.
Qed.
Print Assumptions C03_defaults.

(* one Write per selected member, in order, and nothing for anybody else *)
Theorem C03_exactly_selected : forall isls ms lvl,
  flat_map (fun e => match e with EvWrite w => [w] | _ => [] end) (deliver isls ms lvl) = map member_id ms.
Proof. exact deliver_writes. Qed.
Print Assumptions C03_exactly_selected.

Theorem C03_nothing_else : forall isls ms lvl w, ~ In w (map member_id ms) ->
  ~ In (EvWrite w) (deliver isls ms lvl) /\ forall l, ~ In (EvSet w l) (deliver isls ms lvl).
Proof. exact deliver_nothing_else. Qed.
Print Assumptions C03_nothing_else.

(* a destination that asks to be told the severity is told it immediately before each Write *)
Theorem C03_told_level : forall isls ms lvl pre w post,
  deliver isls ms lvl = pre ++ EvWrite w :: post -> isls w = true ->
  exists pre', pre = pre' ++ [EvSet w lvl].
Proof. exact deliver_told. Qed.
Print Assumptions C03_told_level.

Example C03_example :
  let islw := fun w => w =? 3 in
  let d := fold_left (wstep islw) [AddW 1; AddE 3; AddL 4 5; RemW 1; AddW 2; RemL 4 5; AddL 2 5] None in
  dest [0;1;2;3;11] d 4 = [w_stdout; 2] /\ dest [0;1;2;3;11] d 2 = [5] /\ dest [0;1;2;3;11] d 3 = [w_stderr; 3]
  /\ deliver (fun w => w =? 5) (find_writer [0;1;2;3;11] d 2) 2 = [EvSet 5 2; EvWrite 5].
Proof. vm_compute. repeat split; reflexivity. Qed.
