(* GENERATED from /repo by /verif/extract - do not edit.
   Gallina translations of the decision functions (DESIGN.md appendix B).
   A site outside the fragment falls back on the reference definition and is flagged [translated_* = false]. *)
Require Import Verif.Model.Base Verif.Model.Decision Verif.Model.Dec Verif.Model.GoSem Verif.Model.Level Verif.Model.RegRef.

(* untranslatable: .RegisterLevel: start statement not found *)
Definition register := RegRef.register_ref.
Definition translated_register := false.

