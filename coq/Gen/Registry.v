(* GENERATED from /repo by /verif/extract - do not edit.
   Gallina translations of the decision functions (DESIGN.md appendix B).
   A site outside the fragment falls back on the reference definition and is flagged [translated_* = false]. *)
Require Import Verif.Model.Base Verif.Model.Decision Verif.Model.Dec Verif.Model.GoSem Verif.Model.Level Verif.Model.RegRef.

(* .RegisterLevel  (returns (error, tables); None = panic / out of fuel) *)
Definition register (g_allLevels : list Z) (m_levelToString : list (Z * bytes)) (m_stringToLevel : list (bytes * Z)) (m_shortTagMap : list (Z * list (Z * bytes))) (m_mLevelColors : list (Z * list Z)) (m_mLevelIsEnabledAs : list (Z * Z)) (m_mLevelUseErrorDevice : list (Z * bool)) (levelValue : Z) (title : bytes) (o_tags : list bytes) (o_clr o_bg o_treat : Z) (o_err : bool) : option (option bytes * list Z * list (Z * bytes) * list (bytes * Z) * list (Z * list (Z * bytes)) * list (Z * list Z) * list (Z * Z) * list (Z * bool)) :=
  let '(brk_, rv_) := fold_left (fun st_ (v : Z) => let '(brk_, rv_) := st_ in
    if (brk_ : bool) then st_ else
    if (v =? levelValue)
    then (true, Some (Some [x74;x68;x65;x20;x67;x69;x76;x65;x6e;x20;x6c;x65;x76;x65;x6c;x20;x25;x71;x20;x69;x73;x20;x64;x75;x70;x6c;x69;x63;x61;x74;x65;x64;x20;x77;x69;x74;x68;x20;x25;x71]))
    else (false, (@None (option bytes)))) g_allLevels (false, (@None (option bytes))) in
  match rv_ with
    | Some rv_ => Some ((rv_, g_allLevels, m_levelToString, m_stringToLevel, m_shortTagMap, m_mLevelColors, m_mLevelIsEnabledAs, m_mLevelUseErrorDevice))
    | None => match lookupB m_stringToLevel (to_lower title) with
      | Some l => Some (((Some [x74;x68;x65;x20;x74;x69;x74;x6c;x65;x20;x25;x71;x20;x68;x61;x73;x20;x62;x65;x65;x6e;x20;x75;x73;x65;x64;x20;x66;x6f;x72;x20;x25;x71]), g_allLevels, m_levelToString, m_stringToLevel, m_shortTagMap, m_mLevelColors, m_mLevelIsEnabledAs, m_mLevelUseErrorDevice))
      | None => let g_allLevels := (g_allLevels ++ [levelValue]) in
        let m_levelToString := (mapZ_set m_levelToString levelValue title) in
        let m_stringToLevel := (mapB_set m_stringToLevel (to_lower title) levelValue) in
        let i := 0 in
        match go_loop (S (Z.to_nat (6 - i))) (fun st_ => let '(m_shortTagMap, i) := st_ in
            if (i <? 6)
            then let str := (tag_at o_tags i) in
            if (negb (bytes_eqb str []))
            then match map2_set m_shortTagMap i levelValue str with
            | None => LoopPanic
            | Some r1_ => let m_shortTagMap := r1_ in
              let i := (i + 1) in
              LoopNext (m_shortTagMap, i)
            end
            else let i := (i + 1) in
            LoopNext (m_shortTagMap, i)
            else LoopDone (m_shortTagMap, i)) (m_shortTagMap, i) with
        | None => None
        | Some (m_shortTagMap, i) => let m_mLevelColors := if (negb (o_clr =? (-1)))
          then if (negb (o_bg =? (-1)))
          then let m_mLevelColors := (mapZ_set m_mLevelColors levelValue ([o_clr; o_bg])) in
          m_mLevelColors
          else let m_mLevelColors := (mapZ_set m_mLevelColors levelValue [o_clr]) in
          m_mLevelColors
          else m_mLevelColors in
          let m_mLevelIsEnabledAs := if (o_treat <? 12)
          then let m_mLevelIsEnabledAs := (mapZ_set m_mLevelIsEnabledAs levelValue o_treat) in
          m_mLevelIsEnabledAs
          else m_mLevelIsEnabledAs in
          let m_mLevelUseErrorDevice := if o_err
          then let m_mLevelUseErrorDevice := (mapZ_set m_mLevelUseErrorDevice levelValue true) in
          m_mLevelUseErrorDevice
          else m_mLevelUseErrorDevice in
          Some ((None, g_allLevels, m_levelToString, m_stringToLevel, m_shortTagMap, m_mLevelColors, m_mLevelIsEnabledAs, m_mLevelUseErrorDevice))
        end
      end
    end.
Definition translated_register := true.

