(* GENERATED from /repo by /verif/extract - do not edit.
   Gallina translations of the decision functions (DESIGN.md appendix B).
   A site outside the fragment falls back on the reference definition and is flagged [translated_* = false]. *)
Require Import Verif.Model.Base Verif.Model.Decision Verif.Model.GoSem Verif.Model.Utf8 Verif.Model.Buffer Verif.Model.BufRef.

(* PrintCtx.empty   *)
Definition buf_empty (s_buf : gslice) (s_off s_lastRead : Z) : bool :=
  ((sl_len s_buf) <=? s_off).
Definition translated_buf_empty := true.

(* PrintCtx.Len   *)
Definition buf_len (s_buf : gslice) (s_off s_lastRead : Z) : Z :=
  ((sl_len s_buf) - s_off).
Definition translated_buf_len := true.

(* PrintCtx.Reset  (BOk results state | BRange state | BPanic v state) *)
Definition buf_reset (s_buf : gslice) (s_off s_lastRead : Z) : bres unit bstate :=
  match sl_to s_buf 0 with
    | None => BRange (s_buf, s_off, s_lastRead)
    | Some r1_ => let s_buf := r1_ in
      let s_off := 0 in
      let s_lastRead := 0 in
      BOk tt (s_buf, s_off, s_lastRead)
    end.
Definition translated_buf_reset := true.

(* PrintCtx.Truncate  (BOk results state | BRange state | BPanic v state) *)
Definition buf_truncate (s_buf : gslice) (s_off s_lastRead : Z) (n : Z) : bres unit bstate :=
  if (n =? 0)
  then match buf_reset s_buf s_off s_lastRead with
    | BOk _ st_ => let '(s_buf, s_off, s_lastRead) := st_ in
      BOk tt (s_buf, s_off, s_lastRead)
    | BRange st_ => let '(s_buf, s_off, s_lastRead) := st_ in BRange (s_buf, s_off, s_lastRead)
    | BPanic p_ st_ => let '(s_buf, s_off, s_lastRead) := st_ in BPanic p_ (s_buf, s_off, s_lastRead)
    end
  else let s_lastRead := 0 in
  if ((n <? 0) || ((buf_len s_buf s_off s_lastRead) <? n))
  then BPanic [x6c;x6f;x67;x67;x2f;x73;x6c;x6f;x67;x2e;x50;x72;x69;x6e;x74;x43;x74;x78;x3a;x20;x74;x72;x75;x6e;x63;x61;x74;x69;x6f;x6e;x20;x6f;x75;x74;x20;x6f;x66;x20;x72;x61;x6e;x67;x65] (s_buf, s_off, s_lastRead)
  else match sl_to s_buf (s_off + n) with
    | None => BRange (s_buf, s_off, s_lastRead)
    | Some r1_ => let s_buf := r1_ in
      BOk tt (s_buf, s_off, s_lastRead)
    end.
Definition translated_buf_truncate := true.

(* PrintCtx.Read  (BOk results state | BRange state | BPanic v state) *)
Definition buf_read (s_buf : gslice) (s_off s_lastRead : Z) (p : gslice) : bres (Z * err) (bstate * gslice) :=
  let n := 0 in
  let err := ENil in
  let s_lastRead := 0 in
  if (buf_empty s_buf s_off s_lastRead)
  then match buf_reset s_buf s_off s_lastRead with
    | BOk _ st_ => let '(s_buf, s_off, s_lastRead) := st_ in
      if ((sl_len p) =? 0)
      then BOk ((0, ENil)) (s_buf, s_off, s_lastRead, p)
      else BOk ((0, EEOF)) (s_buf, s_off, s_lastRead, p)
    | BRange st_ => let '(s_buf, s_off, s_lastRead) := st_ in BRange (s_buf, s_off, s_lastRead, p)
    | BPanic p_ st_ => let '(s_buf, s_off, s_lastRead) := st_ in BPanic p_ (s_buf, s_off, s_lastRead, p)
    end
  else match sl_from s_buf s_off with
    | None => BRange (s_buf, s_off, s_lastRead, p)
    | Some r1_ => match sl_copy_at p 0 (sl_bytes r1_) with
      | None => BRange (s_buf, s_off, s_lastRead, p)
      | Some r2_ => let '(r3_, p) := r2_ in
        let n := r3_ in
        let s_off := (s_off + n) in
        let s_lastRead := if (0 <? n)
        then let s_lastRead := (-1) in
        s_lastRead
        else s_lastRead in
        BOk ((n, ENil)) (s_buf, s_off, s_lastRead, p)
      end
    end.
Definition translated_buf_read := true.

(* PrintCtx.Next  (BOk results state | BRange state | BPanic v state) *)
Definition buf_next (s_buf : gslice) (s_off s_lastRead : Z) (n : Z) : bres gslice bstate :=
  let s_lastRead := 0 in
  let m := (buf_len s_buf s_off s_lastRead) in
  let n := if (m <? n)
  then let n := m in
  n
  else n in
  match sl_range s_buf s_off (s_off + n) with
    | None => BRange (s_buf, s_off, s_lastRead)
    | Some r1_ => let data := r1_ in
      let s_off := (s_off + n) in
      let s_lastRead := if (0 <? n)
      then let s_lastRead := (-1) in
      s_lastRead
      else s_lastRead in
      BOk (data) (s_buf, s_off, s_lastRead)
    end.
Definition translated_buf_next := true.

(* PrintCtx.ReadByte  (BOk results state | BRange state | BPanic v state) *)
Definition buf_read_byte (s_buf : gslice) (s_off s_lastRead : Z) : bres (Z * err) bstate :=
  if (buf_empty s_buf s_off s_lastRead)
  then match buf_reset s_buf s_off s_lastRead with
    | BOk _ st_ => let '(s_buf, s_off, s_lastRead) := st_ in
      BOk ((0, EEOF)) (s_buf, s_off, s_lastRead)
    | BRange st_ => let '(s_buf, s_off, s_lastRead) := st_ in BRange (s_buf, s_off, s_lastRead)
    | BPanic p_ st_ => let '(s_buf, s_off, s_lastRead) := st_ in BPanic p_ (s_buf, s_off, s_lastRead)
    end
  else match sl_at s_buf s_off with
    | None => BRange (s_buf, s_off, s_lastRead)
    | Some r1_ => let c := r1_ in
      let s_off := (s_off + 1) in
      let s_lastRead := (-1) in
      BOk ((c, ENil)) (s_buf, s_off, s_lastRead)
    end.
Definition translated_buf_read_byte := true.

(* PrintCtx.ReadRune  (BOk results state | BRange state | BPanic v state) *)
Definition buf_read_rune (s_buf : gslice) (s_off s_lastRead : Z) : bres (Z * Z * err) bstate :=
  let r := 0 in
  let size := 0 in
  let err := ENil in
  if (buf_empty s_buf s_off s_lastRead)
  then match buf_reset s_buf s_off s_lastRead with
    | BOk _ st_ => let '(s_buf, s_off, s_lastRead) := st_ in
      BOk ((0, 0, EEOF)) (s_buf, s_off, s_lastRead)
    | BRange st_ => let '(s_buf, s_off, s_lastRead) := st_ in BRange (s_buf, s_off, s_lastRead)
    | BPanic p_ st_ => let '(s_buf, s_off, s_lastRead) := st_ in BPanic p_ (s_buf, s_off, s_lastRead)
    end
  else match sl_at s_buf s_off with
    | None => BRange (s_buf, s_off, s_lastRead)
    | Some r1_ => let c := r1_ in
      if (c <? 128)
      then let s_off := (s_off + 1) in
      let s_lastRead := 1 in
      BOk ((c, 1, ENil)) (s_buf, s_off, s_lastRead)
      else match sl_from s_buf s_off with
      | None => BRange (s_buf, s_off, s_lastRead)
      | Some r2_ => let '(r, n) := decode_rune_z (sl_bytes r2_) in
        let s_off := (s_off + n) in
        let s_lastRead := ((n + 128) mod 256 - 128) in
        BOk ((r, n, ENil)) (s_buf, s_off, s_lastRead)
      end
    end.
Definition translated_buf_read_rune := true.

(* PrintCtx.UnreadRune  (BOk results state | BRange state | BPanic v state) *)
Definition buf_unread_rune (s_buf : gslice) (s_off s_lastRead : Z) : bres err bstate :=
  if (s_lastRead <=? 0)
  then BOk ((EUnreadRune)) (s_buf, s_off, s_lastRead)
  else let s_off := if (s_lastRead <=? s_off)
  then let s_off := (s_off - s_lastRead) in
  s_off
  else s_off in
  let s_lastRead := 0 in
  BOk (ENil) (s_buf, s_off, s_lastRead).
Definition translated_buf_unread_rune := true.

(* PrintCtx.UnreadByte  (BOk results state | BRange state | BPanic v state) *)
Definition buf_unread_byte (s_buf : gslice) (s_off s_lastRead : Z) : bres err bstate :=
  if (s_lastRead =? 0)
  then BOk (EUnreadByte) (s_buf, s_off, s_lastRead)
  else let s_lastRead := 0 in
  let s_off := if (0 <? s_off)
  then let s_off := (s_off - 1) in
  s_off
  else s_off in
  BOk (ENil) (s_buf, s_off, s_lastRead).
Definition translated_buf_unread_byte := true.

(* PrintCtx.tryGrowByReslice  (BOk results state | BRange state | BPanic v state) *)
Definition buf_try_grow (s_buf : gslice) (s_off s_lastRead : Z) (n : Z) : bres (Z * bool) bstate :=
  let l := (sl_len s_buf) in
  if (n <=? ((sl_cap s_buf) - l))
  then match sl_to s_buf (l + n) with
    | None => BRange (s_buf, s_off, s_lastRead)
    | Some r1_ => let s_buf := r1_ in
      BOk ((l, true)) (s_buf, s_off, s_lastRead)
    end
  else BOk ((0, false)) (s_buf, s_off, s_lastRead).
Definition translated_buf_try_grow := true.

(* PrintCtx.grow  (BOk results state | BRange state | BPanic v state) *)
Definition buf_grow_int (s_buf : gslice) (s_off s_lastRead : Z) (f_isnil : gslice -> bool) (f_growSlice : gslice -> Z -> bres gslice unit) (n : Z) : bres Z bstate :=
  let m := (buf_len s_buf s_off s_lastRead) in
  if ((m =? 0) && (negb (s_off =? 0)))
  then match buf_reset s_buf s_off s_lastRead with
    | BOk _ st_ => let '(s_buf, s_off, s_lastRead) := st_ in
      match buf_try_grow s_buf s_off s_lastRead n with
      | BOk r_ st_ => let '(s_buf, s_off, s_lastRead) := st_ in let '(i, ok) := r_ in
        if ok
        then BOk (i) (s_buf, s_off, s_lastRead)
        else if ((f_isnil s_buf) && (n <=? 64))
        then match sl_make n 64 with
        | None => BRange (s_buf, s_off, s_lastRead)
        | Some r1_ => let s_buf := r1_ in
          BOk (0) (s_buf, s_off, s_lastRead)
        end
        else let c := (sl_cap s_buf) in
        if (n <=? ((Z.quot c 2) - m))
        then match sl_from s_buf s_off with
        | None => BRange (s_buf, s_off, s_lastRead)
        | Some r2_ => match sl_copy_at s_buf 0 (sl_bytes r2_) with
          | None => BRange (s_buf, s_off, s_lastRead)
          | Some r3_ => let '(r4_, s_buf) := r3_ in
            let s_off := 0 in
            match sl_to s_buf (m + n) with
            | None => BRange (s_buf, s_off, s_lastRead)
            | Some r5_ => let s_buf := r5_ in
              BOk (m) (s_buf, s_off, s_lastRead)
            end
          end
        end
        else if (((9223372036854775807 - c) - n) <? c)
        then BPanic p_toolarge (s_buf, s_off, s_lastRead)
        else match sl_from s_buf s_off with
        | None => BRange (s_buf, s_off, s_lastRead)
        | Some r6_ => match f_growSlice r6_ (s_off + n) with
          | BOk r_ st_ => let s_buf := r_ in
            let s_off := 0 in
            match sl_to s_buf (m + n) with
            | None => BRange (s_buf, s_off, s_lastRead)
            | Some r7_ => let s_buf := r7_ in
              BOk (m) (s_buf, s_off, s_lastRead)
            end
          | BRange st_ => BRange (s_buf, s_off, s_lastRead)
          | BPanic p_ st_ => BPanic p_ (s_buf, s_off, s_lastRead)
          end
        end
      | BRange st_ => let '(s_buf, s_off, s_lastRead) := st_ in BRange (s_buf, s_off, s_lastRead)
      | BPanic p_ st_ => let '(s_buf, s_off, s_lastRead) := st_ in BPanic p_ (s_buf, s_off, s_lastRead)
      end
    | BRange st_ => let '(s_buf, s_off, s_lastRead) := st_ in BRange (s_buf, s_off, s_lastRead)
    | BPanic p_ st_ => let '(s_buf, s_off, s_lastRead) := st_ in BPanic p_ (s_buf, s_off, s_lastRead)
    end
  else match buf_try_grow s_buf s_off s_lastRead n with
    | BOk r_ st_ => let '(s_buf, s_off, s_lastRead) := st_ in let '(i, ok) := r_ in
      if ok
      then BOk (i) (s_buf, s_off, s_lastRead)
      else if ((f_isnil s_buf) && (n <=? 64))
      then match sl_make n 64 with
      | None => BRange (s_buf, s_off, s_lastRead)
      | Some r8_ => let s_buf := r8_ in
        BOk (0) (s_buf, s_off, s_lastRead)
      end
      else let c := (sl_cap s_buf) in
      if (n <=? ((Z.quot c 2) - m))
      then match sl_from s_buf s_off with
      | None => BRange (s_buf, s_off, s_lastRead)
      | Some r9_ => match sl_copy_at s_buf 0 (sl_bytes r9_) with
        | None => BRange (s_buf, s_off, s_lastRead)
        | Some r10_ => let '(r11_, s_buf) := r10_ in
          let s_off := 0 in
          match sl_to s_buf (m + n) with
          | None => BRange (s_buf, s_off, s_lastRead)
          | Some r12_ => let s_buf := r12_ in
            BOk (m) (s_buf, s_off, s_lastRead)
          end
        end
      end
      else if (((9223372036854775807 - c) - n) <? c)
      then BPanic p_toolarge (s_buf, s_off, s_lastRead)
      else match sl_from s_buf s_off with
      | None => BRange (s_buf, s_off, s_lastRead)
      | Some r13_ => match f_growSlice r13_ (s_off + n) with
        | BOk r_ st_ => let s_buf := r_ in
          let s_off := 0 in
          match sl_to s_buf (m + n) with
          | None => BRange (s_buf, s_off, s_lastRead)
          | Some r14_ => let s_buf := r14_ in
            BOk (m) (s_buf, s_off, s_lastRead)
          end
        | BRange st_ => BRange (s_buf, s_off, s_lastRead)
        | BPanic p_ st_ => BPanic p_ (s_buf, s_off, s_lastRead)
        end
      end
    | BRange st_ => let '(s_buf, s_off, s_lastRead) := st_ in BRange (s_buf, s_off, s_lastRead)
    | BPanic p_ st_ => let '(s_buf, s_off, s_lastRead) := st_ in BPanic p_ (s_buf, s_off, s_lastRead)
    end.
Definition translated_buf_grow_int := true.

(* PrintCtx.Grow  (BOk results state | BRange state | BPanic v state) *)
Definition buf_grow (s_buf : gslice) (s_off s_lastRead : Z) (f_isnil : gslice -> bool) (f_growSlice : gslice -> Z -> bres gslice unit) (n : Z) : bres unit bstate :=
  if (n <? 0)
  then BPanic [x6c;x6f;x67;x67;x2f;x73;x6c;x6f;x67;x2e;x50;x72;x69;x6e;x74;x43;x74;x78;x2e;x47;x72;x6f;x77;x3a;x20;x6e;x65;x67;x61;x74;x69;x76;x65;x20;x63;x6f;x75;x6e;x74] (s_buf, s_off, s_lastRead)
  else match buf_grow_int s_buf s_off s_lastRead f_isnil f_growSlice n with
    | BOk r_ st_ => let '(s_buf, s_off, s_lastRead) := st_ in let m := r_ in
      match sl_to s_buf m with
      | None => BRange (s_buf, s_off, s_lastRead)
      | Some r1_ => let s_buf := r1_ in
        BOk tt (s_buf, s_off, s_lastRead)
      end
    | BRange st_ => let '(s_buf, s_off, s_lastRead) := st_ in BRange (s_buf, s_off, s_lastRead)
    | BPanic p_ st_ => let '(s_buf, s_off, s_lastRead) := st_ in BPanic p_ (s_buf, s_off, s_lastRead)
    end.
Definition translated_buf_grow := true.

(* PrintCtx.Write  (BOk results state | BRange state | BPanic v state) *)
Definition buf_write (s_buf : gslice) (s_off s_lastRead : Z) (f_isnil : gslice -> bool) (f_growSlice : gslice -> Z -> bres gslice unit) (p : gslice) : bres (Z * err) bstate :=
  let n := 0 in
  let err := ENil in
  let s_lastRead := 0 in
  match buf_try_grow s_buf s_off s_lastRead (sl_len p) with
    | BOk r_ st_ => let '(s_buf, s_off, s_lastRead) := st_ in let '(m, ok) := r_ in
      if (negb ok)
      then match buf_grow_int s_buf s_off s_lastRead f_isnil f_growSlice (sl_len p) with
      | BOk r_ st_ => let '(s_buf, s_off, s_lastRead) := st_ in let m := r_ in
        match sl_copy_at s_buf m (sl_bytes p) with
        | None => BRange (s_buf, s_off, s_lastRead)
        | Some r1_ => let '(r2_, s_buf) := r1_ in
          BOk ((r2_, ENil)) (s_buf, s_off, s_lastRead)
        end
      | BRange st_ => let '(s_buf, s_off, s_lastRead) := st_ in BRange (s_buf, s_off, s_lastRead)
      | BPanic p_ st_ => let '(s_buf, s_off, s_lastRead) := st_ in BPanic p_ (s_buf, s_off, s_lastRead)
      end
      else match sl_copy_at s_buf m (sl_bytes p) with
      | None => BRange (s_buf, s_off, s_lastRead)
      | Some r3_ => let '(r4_, s_buf) := r3_ in
        BOk ((r4_, ENil)) (s_buf, s_off, s_lastRead)
      end
    | BRange st_ => let '(s_buf, s_off, s_lastRead) := st_ in BRange (s_buf, s_off, s_lastRead)
    | BPanic p_ st_ => let '(s_buf, s_off, s_lastRead) := st_ in BPanic p_ (s_buf, s_off, s_lastRead)
    end.
Definition translated_buf_write := true.

(* PrintCtx.WriteString  (BOk results state | BRange state | BPanic v state) *)
Definition buf_write_string (s_buf : gslice) (s_off s_lastRead : Z) (f_isnil : gslice -> bool) (f_growSlice : gslice -> Z -> bres gslice unit) (str : bytes) : bres (Z * err) bstate :=
  let n := 0 in
  let err := ENil in
  let s_lastRead := 0 in
  match buf_try_grow s_buf s_off s_lastRead (Z.of_nat (List.length str)) with
    | BOk r_ st_ => let '(s_buf, s_off, s_lastRead) := st_ in let '(m, ok) := r_ in
      if (negb ok)
      then match buf_grow_int s_buf s_off s_lastRead f_isnil f_growSlice (Z.of_nat (List.length str)) with
      | BOk r_ st_ => let '(s_buf, s_off, s_lastRead) := st_ in let m := r_ in
        match sl_copy_at s_buf m str with
        | None => BRange (s_buf, s_off, s_lastRead)
        | Some r1_ => let '(r2_, s_buf) := r1_ in
          BOk ((r2_, ENil)) (s_buf, s_off, s_lastRead)
        end
      | BRange st_ => let '(s_buf, s_off, s_lastRead) := st_ in BRange (s_buf, s_off, s_lastRead)
      | BPanic p_ st_ => let '(s_buf, s_off, s_lastRead) := st_ in BPanic p_ (s_buf, s_off, s_lastRead)
      end
      else match sl_copy_at s_buf m str with
      | None => BRange (s_buf, s_off, s_lastRead)
      | Some r3_ => let '(r4_, s_buf) := r3_ in
        BOk ((r4_, ENil)) (s_buf, s_off, s_lastRead)
      end
    | BRange st_ => let '(s_buf, s_off, s_lastRead) := st_ in BRange (s_buf, s_off, s_lastRead)
    | BPanic p_ st_ => let '(s_buf, s_off, s_lastRead) := st_ in BPanic p_ (s_buf, s_off, s_lastRead)
    end.
Definition translated_buf_write_string := true.

(* PrintCtx.WriteByte  (BOk results state | BRange state | BPanic v state) *)
Definition buf_write_byte (s_buf : gslice) (s_off s_lastRead : Z) (f_isnil : gslice -> bool) (f_growSlice : gslice -> Z -> bres gslice unit) (c : Z) : bres err bstate :=
  let s_lastRead := 0 in
  match buf_try_grow s_buf s_off s_lastRead 1 with
    | BOk r_ st_ => let '(s_buf, s_off, s_lastRead) := st_ in let '(m, ok) := r_ in
      if (negb ok)
      then match buf_grow_int s_buf s_off s_lastRead f_isnil f_growSlice 1 with
      | BOk r_ st_ => let '(s_buf, s_off, s_lastRead) := st_ in let m := r_ in
        match sl_set s_buf m c with
        | None => BRange (s_buf, s_off, s_lastRead)
        | Some r1_ => let s_buf := r1_ in
          BOk (ENil) (s_buf, s_off, s_lastRead)
        end
      | BRange st_ => let '(s_buf, s_off, s_lastRead) := st_ in BRange (s_buf, s_off, s_lastRead)
      | BPanic p_ st_ => let '(s_buf, s_off, s_lastRead) := st_ in BPanic p_ (s_buf, s_off, s_lastRead)
      end
      else match sl_set s_buf m c with
      | None => BRange (s_buf, s_off, s_lastRead)
      | Some r2_ => let s_buf := r2_ in
        BOk (ENil) (s_buf, s_off, s_lastRead)
      end
    | BRange st_ => let '(s_buf, s_off, s_lastRead) := st_ in BRange (s_buf, s_off, s_lastRead)
    | BPanic p_ st_ => let '(s_buf, s_off, s_lastRead) := st_ in BPanic p_ (s_buf, s_off, s_lastRead)
    end.
Definition translated_buf_write_byte := true.

(* PrintCtx.WriteRune  (BOk results state | BRange state | BPanic v state) *)
Definition buf_write_rune (s_buf : gslice) (s_off s_lastRead : Z) (f_isnil : gslice -> bool) (f_growSlice : gslice -> Z -> bres gslice unit) (r : Z) : bres (Z * err) bstate :=
  let n := 0 in
  let err := ENil in
  if ((r mod 4294967296) <? 128)
  then match buf_write_byte s_buf s_off s_lastRead f_isnil f_growSlice (r mod 256) with
    | BOk r_ st_ => let '(s_buf, s_off, s_lastRead) := st_ in let _ := r_ in
      BOk ((1, ENil)) (s_buf, s_off, s_lastRead)
    | BRange st_ => let '(s_buf, s_off, s_lastRead) := st_ in BRange (s_buf, s_off, s_lastRead)
    | BPanic p_ st_ => let '(s_buf, s_off, s_lastRead) := st_ in BPanic p_ (s_buf, s_off, s_lastRead)
    end
  else let s_lastRead := 0 in
  match buf_try_grow s_buf s_off s_lastRead 4 with
    | BOk r_ st_ => let '(s_buf, s_off, s_lastRead) := st_ in let '(m, ok) := r_ in
      if (negb ok)
      then match buf_grow_int s_buf s_off s_lastRead f_isnil f_growSlice 4 with
      | BOk r_ st_ => let '(s_buf, s_off, s_lastRead) := st_ in let m := r_ in
        match sl_to s_buf m with
        | None => BRange (s_buf, s_off, s_lastRead)
        | Some r1_ => match sl_append_in r1_ (encode_rune r) with
          | None => BRange (s_buf, s_off, s_lastRead)
          | Some r2_ => let s_buf := r2_ in
            BOk ((((sl_len s_buf) - m), ENil)) (s_buf, s_off, s_lastRead)
          end
        end
      | BRange st_ => let '(s_buf, s_off, s_lastRead) := st_ in BRange (s_buf, s_off, s_lastRead)
      | BPanic p_ st_ => let '(s_buf, s_off, s_lastRead) := st_ in BPanic p_ (s_buf, s_off, s_lastRead)
      end
      else match sl_to s_buf m with
      | None => BRange (s_buf, s_off, s_lastRead)
      | Some r3_ => match sl_append_in r3_ (encode_rune r) with
        | None => BRange (s_buf, s_off, s_lastRead)
        | Some r4_ => let s_buf := r4_ in
          BOk ((((sl_len s_buf) - m), ENil)) (s_buf, s_off, s_lastRead)
        end
      end
    | BRange st_ => let '(s_buf, s_off, s_lastRead) := st_ in BRange (s_buf, s_off, s_lastRead)
    | BPanic p_ st_ => let '(s_buf, s_off, s_lastRead) := st_ in BPanic p_ (s_buf, s_off, s_lastRead)
    end.
Definition translated_buf_write_rune := true.

(* PrintCtx.WriteTo  (BOk results state | BRange state | BPanic v state) *)
Definition buf_write_to (s_buf : gslice) (s_off s_lastRead : Z) (w : unit) (w_m : Z) (w_e : err) (tr_ : list bytes) : bres (Z * err) (bstate * list bytes) :=
  let n := 0 in
  let err := ENil in
  let s_lastRead := 0 in
  let nBytes := (buf_len s_buf s_off s_lastRead) in
  if (0 <? nBytes)
  then match sl_from s_buf s_off with
    | None => BRange (s_buf, s_off, s_lastRead, tr_)
    | Some r1_ => let '(m, e) := (w_m, w_e) in
      let tr_ := tr_ ++ [sl_bytes r1_] in
      if (nBytes <? m)
      then BPanic [x6c;x6f;x67;x67;x2f;x73;x6c;x6f;x67;x2e;x50;x72;x69;x6e;x74;x43;x74;x78;x2e;x57;x72;x69;x74;x65;x54;x6f;x3a;x20;x69;x6e;x76;x61;x6c;x69;x64;x20;x57;x72;x69;x74;x65;x20;x63;x6f;x75;x6e;x74] (s_buf, s_off, s_lastRead, tr_)
      else let s_off := (s_off + m) in
      let n := m in
      if (negb (err_is_enil e))
      then BOk ((n, e)) (s_buf, s_off, s_lastRead, tr_)
      else if (negb (m =? nBytes))
      then BOk ((n, EShortWrite)) (s_buf, s_off, s_lastRead, tr_)
      else match buf_reset s_buf s_off s_lastRead with
      | BOk _ st_ => let '(s_buf, s_off, s_lastRead) := st_ in
        BOk ((n, ENil)) (s_buf, s_off, s_lastRead, tr_)
      | BRange st_ => let '(s_buf, s_off, s_lastRead) := st_ in BRange (s_buf, s_off, s_lastRead, tr_)
      | BPanic p_ st_ => let '(s_buf, s_off, s_lastRead) := st_ in BPanic p_ (s_buf, s_off, s_lastRead, tr_)
      end
    end
  else match buf_reset s_buf s_off s_lastRead with
    | BOk _ st_ => let '(s_buf, s_off, s_lastRead) := st_ in
      BOk ((n, ENil)) (s_buf, s_off, s_lastRead, tr_)
    | BRange st_ => let '(s_buf, s_off, s_lastRead) := st_ in BRange (s_buf, s_off, s_lastRead, tr_)
    | BPanic p_ st_ => let '(s_buf, s_off, s_lastRead) := st_ in BPanic p_ (s_buf, s_off, s_lastRead, tr_)
    end.
Definition translated_buf_write_to := true.

(* PrintCtx.ReadFrom  (BOk results state | BRange state | BPanic v state) *)
Definition buf_read_from (s_buf : gslice) (s_off s_lastRead : Z) (f_isnil : gslice -> bool) (f_growSlice : gslice -> Z -> bres gslice unit) (f_errors_is : err -> err -> bool) (r : unit) (script_ : list rresp) : bres (Z * err) (bstate * list rresp) :=
  let n := 0 in
  let err := ENil in
  let s_lastRead := 0 in
  match go_loop_b (S (List.length script_)) (fun st_ => let '(s_buf, n, err, s_off, s_lastRead, script_) := st_ in
        match buf_grow_int s_buf s_off s_lastRead f_isnil f_growSlice 512 with
        | BOk r_ st_ => let '(s_buf, s_off, s_lastRead) := st_ in let i := r_ in
          match sl_to s_buf i with
          | None => LbEnd (BRange (s_buf, s_off, s_lastRead, script_))
          | Some r1_ => let s_buf := r1_ in
            match sl_range s_buf i (sl_cap s_buf) with
            | None => LbEnd (BRange (s_buf, s_off, s_lastRead, script_))
            | Some r2_ => match rd_read s_buf script_ r2_ with
              | BOk r_ st_ => let '(s_buf, script_) := st_ in let '(m, e) := r_ in
                if (m <? 0)
                then LbEnd (BPanic p_negread (s_buf, s_off, s_lastRead, script_))
                else match sl_to s_buf (i + m) with
                | None => LbEnd (BRange (s_buf, s_off, s_lastRead, script_))
                | Some r3_ => let s_buf := r3_ in
                  let n := (n + m) in
                  if (err_eqb e EEOF)
                  then LbEnd (BOk ((n, ENil)) (s_buf, s_off, s_lastRead, script_))
                  else if (negb (err_is_enil e))
                  then LbEnd (BOk ((n, e)) (s_buf, s_off, s_lastRead, script_))
                  else LbNext (s_buf, n, err, s_off, s_lastRead, script_)
                end
              | BRange st_ => let '(s_buf, script_) := st_ in LbEnd (BRange (s_buf, s_off, s_lastRead, script_))
              | BPanic p_ st_ => let '(s_buf, script_) := st_ in LbEnd (BPanic p_ (s_buf, s_off, s_lastRead, script_))
              end
            end
          end
        | BRange st_ => let '(s_buf, s_off, s_lastRead) := st_ in LbEnd (BRange (s_buf, s_off, s_lastRead, script_))
        | BPanic p_ st_ => let '(s_buf, s_off, s_lastRead) := st_ in LbEnd (BPanic p_ (s_buf, s_off, s_lastRead, script_))
        end) (s_buf, n, err, s_off, s_lastRead, script_) with
    | None => BRange (s_buf, s_off, s_lastRead, script_)
    | Some (LrEnd r_) => r_
    | Some (LrBreak (s_buf, n, err, s_off, s_lastRead, script_)) => BOk (n, err) (s_buf, s_off, s_lastRead, script_)
    end.
Definition translated_buf_read_from := true.

