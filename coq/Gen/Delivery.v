(* GENERATED from /repo by /verif/extract - do not edit.
   Gallina translations of the decision functions (DESIGN.md appendix B).
   A site outside the fragment falls back on the reference definition and is flagged [translated_* = false]. *)
Require Import Verif.Model.Base Verif.Model.Decision Verif.Model.GoSem Verif.Model.Writers Verif.Model.GenRef.

(* LWs.WriteLeveled  (fold over the members; returns (n, err, trace, clock)) *)
Definition write_leveled (as_LevelSettable_of_LogWriter as_logwr_of_LogWriter : member -> option wid) (fld_Writer : wid -> wid) (as_LevelSettable_of_io_Writer : wid -> option wid) (wres : nat -> Z * bool) (s : list member) (lvl : Z) (p : bytes) (tr_ : list wevent) (k_ : nat) : Z * error * list wevent * nat :=
  let n := 0 in
  let err := err_nil in
  let '(n, err, tr_, k_) := fold_left (fun st_ (w : member) => let '(n, err, tr_, k_) := st_ in
    let '(tr_, k_) := match as_LevelSettable_of_LogWriter w with
      | Some x => let tr_ := tr_ ++ [EvSet x lvl] in
        (tr_, k_)
      | None => match as_logwr_of_LogWriter w with
        | Some lw => match as_LevelSettable_of_io_Writer (fld_Writer lw) with
          | Some x_1 => let tr_ := tr_ ++ [EvSet x_1 lvl] in
            (tr_, k_)
          | None => (tr_, k_)
          end
        | None => (tr_, k_)
        end
      end in
    let '(ni, e) := io_write wres k_ in
    let tr_ := tr_ ++ [EvWrite (member_id w)] in
    let k_ := S k_ in
    if (negb (err_is_nil e))
    then let err := (err_join err e) in
    (n, err, tr_, k_)
    else let n := (n + ni) in
    (n, err, tr_, k_)) s (n, err, tr_, k_) in
  (n, err, tr_, k_).
Definition translated_write_leveled := true.

(* LWs.Write  (fold over the members; returns (n, err, trace, clock)) *)
Definition write_plain (wres : nat -> Z * bool) (s : list member) (p : bytes) (tr_ : list wevent) (k_ : nat) : Z * error * list wevent * nat :=
  let n := 0 in
  let err := err_nil in
  let '(n, err, tr_, k_) := fold_left (fun st_ (w : member) => let '(n, err, tr_, k_) := st_ in
    let '(ni, e) := io_write wres k_ in
    let tr_ := tr_ ++ [EvWrite (member_id w)] in
    let k_ := S k_ in
    if (negb (err_is_nil e))
    then let err := (err_join err e) in
    (n, err, tr_, k_)
    else let n := (n + ni) in
    (n, err, tr_, k_)) s (n, err, tr_, k_) in
  (n, err, tr_, k_).
Definition translated_write_plain := true.

(* Entry.printOut  (ends in PoReturn or, with the nested diagnostic pending, in PoWarn) *)
   (* no tracked effect (declared): collectWrittenBytes(n) *)
Definition print_out (asm_LevelSettable asm_logwr : member -> option wid) (fld_Writer : wid -> wid) (as_LevelSettable_of_io_Writer : wid -> option wid) (as_LWs_of_LogWriter : logwriter -> option (list member)) (as_LevelSettable_of_LogWriter : logwriter -> option wid) (f_writerGet : Z -> list member) (f_findWriter : Z -> logwriter) (wres : nat -> Z * bool) (lvl : Z) (msg : bytes) (tr_ : list wevent) (k_ : nat) : po_result :=
  let w := (f_findWriter lvl) in
  if (negb (lw_is_nil w))
  then let n := 0 in
  let err := err_nil in
  let '(n, err, tr_, k_) := match as_LWs_of_LogWriter w with
    | Some ws => let '(n, err, tr_, k_) := write_leveled asm_LevelSettable asm_logwr fld_Writer as_LevelSettable_of_io_Writer wres ws lvl msg tr_ k_ in
      (n, err, tr_, k_)
    | None => let '(tr_, k_) := match as_LevelSettable_of_LogWriter w with
      | Some x => let tr_ := tr_ ++ [EvSet x lvl] in
        (tr_, k_)
      | None => (tr_, k_)
      end in
      let '(n, err) := io_write wres k_ in
      let tr_ := tr_ ++ [EvWrite (lw_id w)] in
      let k_ := S k_ in
      (n, err, tr_, k_)
    end in
  if ((negb (err_is_nil err)) && (negb (lvl =? 3)))
  then (PoWarn tr_ k_)
  else (PoReturn tr_ k_)
  else (PoReturn tr_ k_).
Definition translated_print_out := true.

