(* GENERATED from /repo by /verif/extract - do not edit.
   Gallina translations of the decision functions (DESIGN.md appendix B).
   A site outside the fragment falls back on the reference definition and is flagged [translated_* = false]. *)
Require Import Verif.Model.Base Verif.Model.Decision Verif.Model.GoSem Verif.Model.Utf8 Verif.Model.EscRef.

(* .appendEscapedRune  (returns buf; None = panic / out of fuel) *)
Definition escape_rune (isprint f_isInGraphicList : Z -> bool) (g_hex : bytes) (buf : bytes) (r : Z) (quote : Z) (ASCIIonly graphicOnly : bool) : option bytes :=
  if ((r =? quote) || (r =? 92))
  then let buf := (buf ++ [zb 92]) in
  let buf := (buf ++ [zb (r mod 256)]) in
  Some (buf)
  else if ASCIIonly
  then if ((r <? 128) && (isprint r))
  then let buf := (buf ++ [zb (r mod 256)]) in
  Some (buf)
  else if (r =? 7) then let buf := (buf ++ [x5c;x61]) in
  Some (buf)
  else if (r =? 8) then let buf := (buf ++ [x5c;x62]) in
  Some (buf)
  else if (r =? 12) then let buf := (buf ++ [x5c;x66]) in
  Some (buf)
  else if (r =? 10) then let buf := (buf ++ [x5c;x6e]) in
  Some (buf)
  else if (r =? 13) then let buf := (buf ++ [x5c;x72]) in
  Some (buf)
  else if (r =? 9) then let buf := (buf ++ [x5c;x74]) in
  Some (buf)
  else if (r =? 11) then let buf := (buf ++ [x5c;x76]) in
  Some (buf)
  else if ((r <? 32) || (r =? 127)) then let buf := (buf ++ [x5c;x78]) in
  match str_at g_hex (Z.shiftr (r mod 256) 4) with
    | None => None
    | Some r1_ => let buf := (buf ++ [zb r1_]) in
      match str_at g_hex (Z.land (r mod 256) 15) with
      | None => None
      | Some r2_ => let buf := (buf ++ [zb r2_]) in
        Some (buf)
      end
    end
  else if (negb (valid_rune r)) then let r := 65533 in
  let buf := (buf ++ [x5c;x75]) in
  let s := 12 in
  match go_loop (5) (fun st_ => let '(buf, s) := st_ in
        if (0 <=? s)
        then match str_at g_hex (Z.land (Z.shiftr r (s mod 18446744073709551616)) 15) with
        | None => LoopPanic
        | Some r3_ => let buf := (buf ++ [zb r3_]) in
          let s := (s - 4) in
          LoopNext (buf, s)
        end
        else LoopDone (buf, s)) (buf, s) with
    | None => None
    | Some (buf, s) => Some (buf)
    end
  else if (r <? 65536) then let buf := (buf ++ [x5c;x75]) in
  let s := 12 in
  match go_loop (5) (fun st_ => let '(buf, s) := st_ in
        if (0 <=? s)
        then match str_at g_hex (Z.land (Z.shiftr r (s mod 18446744073709551616)) 15) with
        | None => LoopPanic
        | Some r4_ => let buf := (buf ++ [zb r4_]) in
          let s := (s - 4) in
          LoopNext (buf, s)
        end
        else LoopDone (buf, s)) (buf, s) with
    | None => None
    | Some (buf, s) => Some (buf)
    end
  else let buf := (buf ++ [x5c;x55]) in
  let s := 28 in
  match go_loop (9) (fun st_ => let '(buf, s) := st_ in
        if (0 <=? s)
        then match str_at g_hex (Z.land (Z.shiftr r (s mod 18446744073709551616)) 15) with
        | None => LoopPanic
        | Some r5_ => let buf := (buf ++ [zb r5_]) in
          let s := (s - 4) in
          LoopNext (buf, s)
        end
        else LoopDone (buf, s)) (buf, s) with
    | None => None
    | Some (buf, s) => Some (buf)
    end
  else if ((isprint r) || (graphicOnly && (f_isInGraphicList r)))
  then Some ((buf ++ encode_rune r))
  else if (r =? 7) then let buf := (buf ++ [x5c;x61]) in
  Some (buf)
  else if (r =? 8) then let buf := (buf ++ [x5c;x62]) in
  Some (buf)
  else if (r =? 12) then let buf := (buf ++ [x5c;x66]) in
  Some (buf)
  else if (r =? 10) then let buf := (buf ++ [x5c;x6e]) in
  Some (buf)
  else if (r =? 13) then let buf := (buf ++ [x5c;x72]) in
  Some (buf)
  else if (r =? 9) then let buf := (buf ++ [x5c;x74]) in
  Some (buf)
  else if (r =? 11) then let buf := (buf ++ [x5c;x76]) in
  Some (buf)
  else if ((r <? 32) || (r =? 127)) then let buf := (buf ++ [x5c;x78]) in
  match str_at g_hex (Z.shiftr (r mod 256) 4) with
    | None => None
    | Some r6_ => let buf := (buf ++ [zb r6_]) in
      match str_at g_hex (Z.land (r mod 256) 15) with
      | None => None
      | Some r7_ => let buf := (buf ++ [zb r7_]) in
        Some (buf)
      end
    end
  else if (negb (valid_rune r)) then let r := 65533 in
  let buf := (buf ++ [x5c;x75]) in
  let s := 12 in
  match go_loop (5) (fun st_ => let '(buf, s) := st_ in
        if (0 <=? s)
        then match str_at g_hex (Z.land (Z.shiftr r (s mod 18446744073709551616)) 15) with
        | None => LoopPanic
        | Some r8_ => let buf := (buf ++ [zb r8_]) in
          let s := (s - 4) in
          LoopNext (buf, s)
        end
        else LoopDone (buf, s)) (buf, s) with
    | None => None
    | Some (buf, s) => Some (buf)
    end
  else if (r <? 65536) then let buf := (buf ++ [x5c;x75]) in
  let s := 12 in
  match go_loop (5) (fun st_ => let '(buf, s) := st_ in
        if (0 <=? s)
        then match str_at g_hex (Z.land (Z.shiftr r (s mod 18446744073709551616)) 15) with
        | None => LoopPanic
        | Some r9_ => let buf := (buf ++ [zb r9_]) in
          let s := (s - 4) in
          LoopNext (buf, s)
        end
        else LoopDone (buf, s)) (buf, s) with
    | None => None
    | Some (buf, s) => Some (buf)
    end
  else let buf := (buf ++ [x5c;x55]) in
  let s := 28 in
  match go_loop (9) (fun st_ => let '(buf, s) := st_ in
        if (0 <=? s)
        then match str_at g_hex (Z.land (Z.shiftr r (s mod 18446744073709551616)) 15) with
        | None => LoopPanic
        | Some r10_ => let buf := (buf ++ [zb r10_]) in
          let s := (s - 4) in
          LoopNext (buf, s)
        end
        else LoopDone (buf, s)) (buf, s) with
    | None => None
    | Some (buf, s) => Some (buf)
    end.
Definition translated_escape_rune := true.

(* .appendQuotedWith  (returns buf; None = panic / out of fuel) *)
Definition quote_with (isprint f_isInGraphicList : Z -> bool) (g_hex : bytes) (buf : bytes) (s : bytes) (quote : Z) (ASCIIonly graphicOnly : bool) : option bytes :=
  let buf := (buf ++ [zb quote]) in
  let width := 0 in
  match go_loop (S (List.length s)) (fun st_ => let '(buf, s, width) := st_ in
        if (0 <? (Z.of_nat (List.length s)))
        then match str_at s 0 with
        | None => LoopPanic
        | Some r1_ => let r := r1_ in
          let width := 1 in
          let '(width, r) := if (128 <=? r)
          then let '(r, width) := decode_rune_z s in
          (width, r)
          else (width, r) in
          if ((width =? 1) && (r =? 65533))
          then let buf := (buf ++ [x5c;x78]) in
          match str_at s 0 with
          | None => LoopPanic
          | Some r2_ => match str_at g_hex (Z.shiftr r2_ 4) with
            | None => LoopPanic
            | Some r3_ => let buf := (buf ++ [zb r3_]) in
              match str_at s 0 with
              | None => LoopPanic
              | Some r4_ => match str_at g_hex (Z.land r4_ 15) with
                | None => LoopPanic
                | Some r5_ => let buf := (buf ++ [zb r5_]) in
                  match str_suffix s width with
                  | None => LoopPanic
                  | Some r6_ => let s := r6_ in
                    LoopNext (buf, s, width)
                  end
                end
              end
            end
          end
          else match escape_rune isprint f_isInGraphicList g_hex buf r quote ASCIIonly graphicOnly with
          | None => LoopPanic
          | Some r7_ => let buf := r7_ in
            match str_suffix s width with
            | None => LoopPanic
            | Some r8_ => let s := r8_ in
              LoopNext (buf, s, width)
            end
          end
        end
        else LoopDone (buf, s, width)) (buf, s, width) with
    | None => None
    | Some (buf, s, width) => let buf := (buf ++ [zb quote]) in
      Some (buf)
    end.
Definition translated_quote_with := true.

(* PrintCtx.appendEscapedJSONString  (returns the buffer; None = panic / out of fuel) *)
   (* closure (declared): char := func(b byte) { s.pcAppendByte(b) } *)
   (* closure (declared): strz := func(str string) { s.pcAppendString(str) } *)
Definition json_escape (g_hex : bytes) (m_safeSet : list (Z * bool)) (val : bytes) (buf : bytes) : option bytes :=
  let start := 0 in
  let i := 0 in
  match go_loop (S (List.length val)) (fun st_ => let '(start, i, buf) := st_ in
        if (i <? (Z.of_nat (List.length val)))
        then match str_at val i with
        | None => LoopPanic
        | Some r1_ => let b := r1_ in
          if (b <? 128)
          then match arr_get 128 m_safeSet false b with
          | None => LoopPanic
          | Some r2_ => if r2_
            then let i := (i + 1) in
            LoopNext (start, i, buf)
            else if (start <? i)
            then match str_slice val start i with
            | None => LoopPanic
            | Some r3_ => let buf := buf ++ r3_ in
              let buf := buf ++ [zb 92] in
              if (b =? 92) || (b =? 34) then let buf := buf ++ [zb b] in
              let i := (i + 1) in
              let start := i in
              LoopNext (start, i, buf)
              else if (b =? 10) then let buf := buf ++ [zb 110] in
              let i := (i + 1) in
              let start := i in
              LoopNext (start, i, buf)
              else if (b =? 13) then let buf := buf ++ [zb 114] in
              let i := (i + 1) in
              let start := i in
              LoopNext (start, i, buf)
              else if (b =? 9) then let buf := buf ++ [zb 116] in
              let i := (i + 1) in
              let start := i in
              LoopNext (start, i, buf)
              else let buf := buf ++ [x75;x30;x30] in
              match str_at g_hex (Z.shiftr b 4) with
              | None => LoopPanic
              | Some r4_ => let buf := buf ++ [zb r4_] in
                match str_at g_hex (Z.land b 15) with
                | None => LoopPanic
                | Some r5_ => let buf := buf ++ [zb r5_] in
                  let i := (i + 1) in
                  let start := i in
                  LoopNext (start, i, buf)
                end
              end
            end
            else let buf := buf ++ [zb 92] in
            if (b =? 92) || (b =? 34) then let buf := buf ++ [zb b] in
            let i := (i + 1) in
            let start := i in
            LoopNext (start, i, buf)
            else if (b =? 10) then let buf := buf ++ [zb 110] in
            let i := (i + 1) in
            let start := i in
            LoopNext (start, i, buf)
            else if (b =? 13) then let buf := buf ++ [zb 114] in
            let i := (i + 1) in
            let start := i in
            LoopNext (start, i, buf)
            else if (b =? 9) then let buf := buf ++ [zb 116] in
            let i := (i + 1) in
            let start := i in
            LoopNext (start, i, buf)
            else let buf := buf ++ [x75;x30;x30] in
            match str_at g_hex (Z.shiftr b 4) with
            | None => LoopPanic
            | Some r6_ => let buf := buf ++ [zb r6_] in
              match str_at g_hex (Z.land b 15) with
              | None => LoopPanic
              | Some r7_ => let buf := buf ++ [zb r7_] in
                let i := (i + 1) in
                let start := i in
                LoopNext (start, i, buf)
              end
            end
          end
          else match str_suffix val i with
          | None => LoopPanic
          | Some r8_ => let '(c, size) := decode_rune_z r8_ in
            if ((c =? 65533) && (size =? 1))
            then if (start <? i)
            then match str_slice val start i with
            | None => LoopPanic
            | Some r9_ => let buf := buf ++ r9_ in
              let buf := buf ++ [x5c;x75;x66;x66;x66;x64] in
              let i := (i + size) in
              let start := i in
              LoopNext (start, i, buf)
            end
            else let buf := buf ++ [x5c;x75;x66;x66;x66;x64] in
            let i := (i + size) in
            let start := i in
            LoopNext (start, i, buf)
            else if ((c =? 8232) || (c =? 8233))
            then if (start <? i)
            then match str_slice val start i with
            | None => LoopPanic
            | Some r10_ => let buf := buf ++ r10_ in
              let buf := buf ++ [x5c;x75;x32;x30;x32] in
              match str_at g_hex (Z.land c 15) with
              | None => LoopPanic
              | Some r11_ => let buf := buf ++ [zb r11_] in
                let i := (i + size) in
                let start := i in
                LoopNext (start, i, buf)
              end
            end
            else let buf := buf ++ [x5c;x75;x32;x30;x32] in
            match str_at g_hex (Z.land c 15) with
            | None => LoopPanic
            | Some r12_ => let buf := buf ++ [zb r12_] in
              let i := (i + size) in
              let start := i in
              LoopNext (start, i, buf)
            end
            else let i := (i + size) in
            LoopNext (start, i, buf)
          end
        end
        else LoopDone (start, i, buf)) (start, i, buf) with
    | None => None
    | Some (start, i, buf) => if (start <? (Z.of_nat (List.length val)))
      then match str_suffix val start with
      | None => None
      | Some r13_ => let buf := buf ++ r13_ in
        Some (buf)
      end
      else Some (buf)
    end.
Definition translated_json_escape := true.

(* PrintCtx.appendQuotedString  (returns s.buf; None = panic / out of fuel) *)
   (* no tracked effect (declared): s.PreAlloc(len(str)*2 + 2) *)
Definition quoted_string (isprint f_isInGraphicList : Z -> bool) (g_hex : bytes) (m_safeSet : list (Z * bool)) (s_jsonMode : bool) (s_buf : bytes) (str : bytes) : option bytes :=
  if s_jsonMode
  then let s_buf := s_buf ++ [zb 34] in
  match json_escape g_hex m_safeSet str s_buf with
    | None => None
    | Some s_buf => let s_buf := s_buf ++ [zb 34] in
      Some (s_buf)
    end
  else match quote_with isprint f_isInGraphicList g_hex s_buf str 34 false false with
    | None => None
    | Some r1_ => let s_buf := r1_ in
      Some (s_buf)
    end.
Definition translated_quoted_string := true.

(* PrintCtx.pcAppendStringKey  (returns s.buf; None = panic / out of fuel) *)
   (* no tracked effect (declared): s.preCheck() *)
Definition string_key (g_hex : bytes) (m_safeSet : list (Z * bool)) (s_jsonMode : bool) (s_buf : bytes) (str : bytes) : option bytes :=
  if s_jsonMode
  then let s_buf := s_buf ++ [zb 34] in
  match json_escape g_hex m_safeSet str s_buf with
    | None => None
    | Some s_buf => let s_buf := s_buf ++ [zb 34] in
      Some (s_buf)
    end
  else let s_buf := s_buf ++ str in
  Some (s_buf).
Definition translated_string_key := true.

