(* GENERATED from /repo by /verif/extract - do not edit.
   Gallina translations of the decision functions (DESIGN.md appendix B).
   A site outside the fragment falls back on the reference definition and is flagged [translated_* = false]. *)
Require Import Verif.Model.Base Verif.Model.Decision Verif.Model.GoSem Verif.Model.LayoutRef.
Require Verif.Gen.Escapes Verif.Gen.Colors Verif.Gen.LevelNames.

(* PrintCtx.Begin  (returns s.buf; None = panic) *)
Definition pc_begin (s_jsonMode : bool) (s_buf : bytes) : option bytes :=
  if s_jsonMode
  then let s_buf := s_buf ++ [zb 123] in
  Some (s_buf)
  else Some (s_buf).
Definition translated_pc_begin := true.

(* PrintCtx.End  (returns s.buf; None = panic) *)
Definition pc_end (s_jsonMode : bool) (s_buf : bytes) (newline : bool) : option bytes :=
  let s_buf := if s_jsonMode
  then let s_buf := s_buf ++ [zb 125] in
  s_buf
  else s_buf in
  if newline
  then let s_buf := s_buf ++ [zb 10] in
  Some (s_buf)
  else Some (s_buf).
Definition translated_pc_end := true.

(* .checkedfuncname  (None = panic) *)
Definition checked_funcname (f_replace_all : bytes -> bytes -> bytes -> bytes) (g_flags : Z) (m_codeHostingProvidersMap : list (bytes * bytes)) (name : bytes) : option bytes :=
  if (negb (Z.land g_flags 256 =? 0))
  then let name := fold_left (fun name (kv_ : bytes * bytes) => let '(k, v) := kv_ in
    let name := (f_replace_all name k v) in
    name) m_codeHostingProvidersMap name in
  Some (name)
  else let pos := (str_last_index name [x2f]) in
  if (0 <=? pos)
  then match str_suffix name (pos + 1) with
    | None => None
    | Some r1_ => let name := r1_ in
      Some (name)
    end
  else Some (name).
Definition translated_checked_funcname := true.

(* .SetLevelOutputWidth  (returns levelOutputWidth) *)
Definition set_level_output_width (g_levelOutputWidth : Z) (width : Z) : Z :=
  if ((0 <=? width) && (width <=? 5))
  then let g_levelOutputWidth := width in
  g_levelOutputWidth
  else g_levelOutputWidth.
Definition translated_set_level_output_width := true.

(* .SetMessageMinimalWidth  (returns minimalMessageWidth) *)
Definition set_message_minimal_width (g_minimalMessageWidth : Z) (w : Z) : Z :=
  if (16 <=? w)
  then let g_minimalMessageWidth := w in
  g_minimalMessageWidth
  else g_minimalMessageWidth.
Definition translated_set_message_minimal_width := true.

(* .IsAnyBitsSet   *)
Definition is_any_bits_set (g_flags : Z) (f : Z) : bool :=
  (negb ((Z.land g_flags f) =? 0)).
Definition translated_is_any_bits_set := true.

(* .IsAllBitsSet   *)
Definition is_all_bits_set (g_flags : Z) (f : Z) : bool :=
  ((Z.land g_flags f) =? f).
Definition translated_is_all_bits_set := true.

(* .AddFlags  (returns flags) *)
   (* no tracked effect (declared): Verbose('add a flag', 'flag', f) *)
Definition add_flags (g_flags : Z) (flagsToAdd : list Z) : Z :=
  let g_flags := fold_left (fun g_flags (f : Z) => let g_flags := (Z.lor g_flags f) in
    g_flags) flagsToAdd g_flags in
  g_flags.
Definition translated_add_flags := true.

(* PrintCtx.pcAppendByte  (returns s.buf; None = panic) *)
Definition pc_append_byte (s_buf : bytes) (b : Z) : option bytes :=
  let s_buf := s_buf ++ [zb b] in
  Some (s_buf).
Definition translated_pc_append_byte := true.

(* PrintCtx.pcAppendStringValue  (returns s.buf; None = panic) *)
   (* no tracked effect (declared): s.preCheck() *)
Definition pc_append_string_value (s_buf : bytes) (str : bytes) : option bytes :=
  let s_buf := s_buf ++ str in
  Some (s_buf).
Definition translated_pc_append_string_value := true.

(* PrintCtx.pcAppendColon  (returns s.buf; None = panic) *)
   (* no tracked effect (declared): s.preCheck() *)
Definition pc_append_colon (s_jsonMode : bool) (s_buf : bytes) : option bytes :=
  if s_jsonMode
  then let s_buf := s_buf ++ [zb 58] in
  Some (s_buf)
  else let s_buf := s_buf ++ [zb 61] in
  Some (s_buf).
Definition translated_pc_append_colon := true.

(* PrintCtx.pcAppendComma  (returns s.buf; None = panic) *)
Definition pc_append_comma (s_jsonMode : bool) (s_buf : bytes) : option bytes :=
  if s_jsonMode
  then let s_buf := s_buf ++ [zb 44] in
  Some (s_buf)
  else let s_buf := s_buf ++ [zb 32] in
  Some (s_buf).
Definition translated_pc_append_comma := true.

(* Entry.printTimestamp  (returns pc.buf; None = panic) *)
   (* argument not kept by the model (declared): pc.now *)
   (* argument not kept by the model (declared): pc *)
Definition print_timestamp (f_ts : bytes -> bytes) (g_hex : bytes) (m_safeSet : list (Z * bool)) (pc : unit) (pc_noColor pc_jsonMode : bool) (pc_buf : bytes) : option bytes :=
  if pc_noColor
  then match Escapes.string_key g_hex m_safeSet pc_jsonMode pc_buf [x74;x69;x6d;x65] with
    | None => None
    | Some pc_buf => match pc_append_colon pc_jsonMode pc_buf with
      | None => None
      | Some pc_buf => let pc_buf := f_ts pc_buf in
        match pc_append_comma pc_jsonMode pc_buf with
        | None => None
        | Some pc_buf => Some (pc_buf)
        end
      end
    end
  else match Colors.echo_color pc_buf 32 with
    | None => None
    | Some pc_buf => let pc_buf := f_ts pc_buf in
      match pc_append_byte pc_buf 32 with
      | None => None
      | Some pc_buf => Some (pc_buf)
      end
    end.
Definition translated_print_timestamp := true.

(* Entry.printLoggerName  (returns pc.buf; None = panic) *)
   (* argument not kept by the model (declared): pc *)
Definition print_logger_name (f_add_string : bytes -> bytes -> bytes -> bytes) (f_wrap_to : bytes -> Z -> Z -> bytes -> bytes) (s_name : bytes) (pc : unit) (pc_noColor pc_jsonMode : bool) (pc_buf : bytes) : option bytes :=
  if (negb (bytes_eqb s_name []))
  then if pc_noColor
  then let pc_buf := f_add_string pc_buf [x6c;x6f;x67;x67;x65;x72] s_name in
  match pc_append_comma pc_jsonMode pc_buf with
    | None => None
    | Some pc_buf => Some (pc_buf)
    end
  else let pc_buf := f_wrap_to pc_buf 37 (-1) s_name in
  match pc_append_byte pc_buf 32 with
    | None => None
    | Some pc_buf => Some (pc_buf)
    end
  else Some (pc_buf).
Definition translated_print_logger_name := true.

(* Entry.printSeverity  (returns pc.buf; None = panic) *)
   (* argument not kept by the model (declared): pc *)
Definition print_severity (f_add_string : bytes -> bytes -> bytes -> bytes) (f_wrap_to : bytes -> Z -> Z -> bytes -> bytes) (f_wrap_rune : bytes -> Z -> Z -> bytes) (m_shortTagMap : list (Z * list (Z * bytes))) (m_levelToString : list (Z * bytes)) (g_levelOutputWidth : Z) (pc : unit) (pc_noColor pc_jsonMode : bool) (pc_lvl pc_clr pc_bg : Z) (pc_buf : bytes) : option bytes :=
  if pc_noColor
  then let pc_buf := f_add_string pc_buf [x6c;x65;x76;x65;x6c] (LevelNames.level_string m_levelToString pc_lvl) in
  match pc_append_comma pc_jsonMode pc_buf with
    | None => None
    | Some pc_buf => Some (pc_buf)
    end
  else match LevelNames.short_tag m_shortTagMap m_levelToString pc_lvl g_levelOutputWidth with
    | None => None
    | Some r1_ => let pc_buf := f_wrap_to pc_buf pc_clr pc_bg (f_wrap_rune r1_ 91 93) in
      match pc_append_byte pc_buf 32 with
      | None => None
      | Some pc_buf => Some (pc_buf)
      end
    end.
Definition translated_print_severity := true.

(* Entry.printPC  (returns pc.buf; None = panic) *)
   (* argument not kept by the model (declared): pc *)
Definition print_pc (f_add_string : bytes -> bytes -> bytes -> bytes) (f_add_int : bytes -> bytes -> Z -> bytes) (f_add_pstring : bytes -> bytes -> bytes -> bytes -> bytes) (f_add_pint : bytes -> bytes -> bytes -> Z -> bytes) (f_append_int : bytes -> Z -> bytes) (f_wrap_color_to : bytes -> Z -> bytes -> bytes) (f_replace_all : bytes -> bytes -> bytes -> bytes) (g_hex : bytes) (m_safeSet : list (Z * bool)) (g_flags : Z) (m_codeHostingProvidersMap : list (bytes * bytes)) (g_source : srcv) (pc : unit) (pc_noColor pc_jsonMode : bool) (pc_buf : bytes) : option bytes :=
  if pc_noColor
  then match pc_append_comma pc_jsonMode pc_buf with
    | None => None
    | Some pc_buf => let source_1 := (g_source) in
      if pc_jsonMode
      then match Escapes.string_key g_hex m_safeSet pc_jsonMode pc_buf [x63;x61;x6c;x6c;x65;x72] with
      | None => None
      | Some pc_buf => match pc_append_colon pc_jsonMode pc_buf with
        | None => None
        | Some pc_buf => match pc_append_byte pc_buf 123 with
          | None => None
          | Some pc_buf => let pc_buf := f_add_string pc_buf [x66;x69;x6c;x65] (src_file source_1) in
            match pc_append_comma pc_jsonMode pc_buf with
            | None => None
            | Some pc_buf => let pc_buf := f_add_int pc_buf [x6c;x69;x6e;x65] (src_line source_1) in
              match pc_append_comma pc_jsonMode pc_buf with
              | None => None
              | Some pc_buf => let pc_buf := f_add_string pc_buf [x66;x75;x6e;x63;x74;x69;x6f;x6e] (src_function source_1) in
                match pc_append_byte pc_buf 125 with
                | None => None
                | Some pc_buf => Some (pc_buf)
                end
              end
            end
          end
        end
      end
      else let pc_buf := f_add_pstring pc_buf [x63;x61;x6c;x6c;x65;x72] [x66;x69;x6c;x65] (src_file source_1) in
      match pc_append_comma pc_jsonMode pc_buf with
      | None => None
      | Some pc_buf => let pc_buf := f_add_pint pc_buf [x63;x61;x6c;x6c;x65;x72] [x6c;x69;x6e;x65] (src_line source_1) in
        match pc_append_comma pc_jsonMode pc_buf with
        | None => None
        | Some pc_buf => let pc_buf := f_add_pstring pc_buf [x63;x61;x6c;x6c;x65;x72] [x66;x75;x6e;x63;x74;x69;x6f;x6e] (src_function source_1) in
          Some (pc_buf)
        end
      end
    end
  else let source := (g_source) in
  match pc_append_byte pc_buf 32 with
    | None => None
    | Some pc_buf => let pc_buf := pc_buf ++ (src_file source) in
      match pc_append_byte pc_buf 58 with
      | None => None
      | Some pc_buf => let pc_buf := f_append_int pc_buf (src_line source) in
        match pc_append_byte pc_buf 32 with
        | None => None
        | Some pc_buf => match checked_funcname f_replace_all g_flags m_codeHostingProvidersMap (src_function source) with
          | None => None
          | Some r1_ => let pc_buf := f_wrap_color_to pc_buf 90 r1_ in
            match Colors.echo_reset pc_buf with
            | None => None
            | Some pc_buf => Some (pc_buf)
            end
          end
        end
      end
    end.
Definition translated_print_pc := true.

(* Entry.printImpl  (the statements after the blank-line rule; returns (deliveries, context); None = panic) *)
   (* argument not kept by the model (declared): pc.kvps *)
Definition print_impl {R E D : Type} (f_begin f_timestamp f_name f_severity f_msg f_first f_pc f_rest : pcs R -> pcs R) (f_attrs : pcs R -> E * pcs R) (f_errdump : pcs R -> E -> pcs R) (f_end : pcs R -> bool -> pcs R) (f_bytes : pcs R -> bytes) (d_printout : Z -> bytes -> D) (m_mLevelColors : list (Z * list Z)) (g_flags : Z) (pc : pcs R) (tr_ : list D) : option (list D * pcs R) :=
  let '(pc, tr_) := (f_begin pc, tr_) in
  if (pc_noColor pc)
  then let '(pc, tr_) := (f_timestamp pc, tr_) in
  let '(pc, tr_) := (f_name pc, tr_) in
  let '(pc, tr_) := (f_severity pc, tr_) in
  let '(pc, tr_) := (f_msg pc, tr_) in
  let '(holdErrorValue, pc, tr_) := (let '(h_, p_) := f_attrs pc in (h_, p_, tr_)) in
  let '(pc, tr_) := if (negb (Z.land g_flags 128 =? 0))
  then let '(pc, tr_) := (f_pc pc, tr_) in
  (pc, tr_)
  else (pc, tr_) in
  let '(pc, tr_) := (f_rest pc, tr_) in
  let '(pc, tr_) := (f_errdump pc holdErrorValue, tr_) in
  let '(pc, tr_) := (f_end pc true, tr_) in
  let msg := (f_bytes pc) in
  let tr_ := tr_ ++ [d_printout (pc_lvl pc) msg] in
  Some (tr_, pc)
  else match lookupZ m_mLevelColors (pc_lvl pc) with
    | Some aa => match list_at aa 0 with
      | None => None
      | Some r1_ => let pc := set_clr pc r1_ in
        if (1 <? (Z.of_nat (List.length aa)))
        then match list_at aa 1 with
        | None => None
        | Some r2_ => let pc := set_bg pc r2_ in
          let '(pc, tr_) := (f_timestamp pc, tr_) in
          let '(pc, tr_) := (f_name pc, tr_) in
          let '(pc, tr_) := (f_severity pc, tr_) in
          let '(pc, tr_) := (f_first pc, tr_) in
          let '(holdErrorValue, pc, tr_) := (let '(h_, p_) := f_attrs pc in (h_, p_, tr_)) in
          let '(pc, tr_) := if (negb (Z.land g_flags 128 =? 0))
          then let '(pc, tr_) := (f_pc pc, tr_) in
          (pc, tr_)
          else (pc, tr_) in
          let '(pc, tr_) := (f_rest pc, tr_) in
          let '(pc, tr_) := (f_errdump pc holdErrorValue, tr_) in
          let '(pc, tr_) := (f_end pc true, tr_) in
          let msg := (f_bytes pc) in
          let tr_ := tr_ ++ [d_printout (pc_lvl pc) msg] in
          Some (tr_, pc)
        end
        else let '(pc, tr_) := (f_timestamp pc, tr_) in
        let '(pc, tr_) := (f_name pc, tr_) in
        let '(pc, tr_) := (f_severity pc, tr_) in
        let '(pc, tr_) := (f_first pc, tr_) in
        let '(holdErrorValue, pc, tr_) := (let '(h_, p_) := f_attrs pc in (h_, p_, tr_)) in
        let '(pc, tr_) := if (negb (Z.land g_flags 128 =? 0))
        then let '(pc, tr_) := (f_pc pc, tr_) in
        (pc, tr_)
        else (pc, tr_) in
        let '(pc, tr_) := (f_rest pc, tr_) in
        let '(pc, tr_) := (f_errdump pc holdErrorValue, tr_) in
        let '(pc, tr_) := (f_end pc true, tr_) in
        let msg := (f_bytes pc) in
        let tr_ := tr_ ++ [d_printout (pc_lvl pc) msg] in
        Some (tr_, pc)
      end
    | None => let '(pc, tr_) := (f_timestamp pc, tr_) in
      let '(pc, tr_) := (f_name pc, tr_) in
      let '(pc, tr_) := (f_severity pc, tr_) in
      let '(pc, tr_) := (f_first pc, tr_) in
      let '(holdErrorValue, pc, tr_) := (let '(h_, p_) := f_attrs pc in (h_, p_, tr_)) in
      let '(pc, tr_) := if (negb (Z.land g_flags 128 =? 0))
      then let '(pc, tr_) := (f_pc pc, tr_) in
      (pc, tr_)
      else (pc, tr_) in
      let '(pc, tr_) := (f_rest pc, tr_) in
      let '(pc, tr_) := (f_errdump pc holdErrorValue, tr_) in
      let '(pc, tr_) := (f_end pc true, tr_) in
      let msg := (f_bytes pc) in
      let tr_ := tr_ ++ [d_printout (pc_lvl pc) msg] in
      Some (tr_, pc)
    end.
Definition translated_print_impl := true.

