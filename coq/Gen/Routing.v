(* GENERATED from /repo by /verif/extract - do not edit.
   Gallina translations of the decision functions (DESIGN.md appendix B).
   A site outside the fragment falls back on the reference definition and is flagged [translated_* = false]. *)
Require Import Verif.Model.Base Verif.Model.Decision Verif.Model.GoSem Verif.Model.Writers Verif.Model.GenRef.

(* dualWriter.Get  (routing of a severity; writer lists are lists of members, s.leveled is a nil-able map) *)
Definition route (m_mLevelUseErrorDevice : list (Z * bool)) (g_discardWriter s_Normal s_Error : list member) (s_leveled : gomap (list member)) (lvl : Z) : list member :=
  let w := (@nil member) in
  if (lvl =? 7)
  then g_discardWriter
  else if (negb (is_nil s_leveled))
  then match map_get s_leveled lvl with
    | Some ed => let ok := true in
      if (ok && (0 <? (Z.of_nat (List.length ed))))
      then ed
      else match lookupZ m_mLevelUseErrorDevice lvl with
      | Some _ => s_Error
      | None => s_Normal
      end
    | None => let ed := (@nil member) in
      let ok := false in
      if (ok && (0 <? (Z.of_nat (List.length ed))))
      then ed
      else match lookupZ m_mLevelUseErrorDevice lvl with
      | Some _ => s_Error
      | None => s_Normal
      end
    end
  else match lookupZ m_mLevelUseErrorDevice lvl with
    | Some _ => s_Error
    | None => s_Normal
    end.
Definition translated_route := true.

