(* GENERATED from /repo by /verif/extract - do not edit.
   Gallina translations of the decision functions (DESIGN.md appendix B).
   A site outside the fragment falls back on the reference definition and is flagged [translated_* = false]. *)
Require Import Verif.Model.Base Verif.Model.Decision Verif.Model.GoSem Verif.Model.Writers Verif.Model.GenRef.

(* untranslatable: dualWriter.Get: /repo/slog/writers.go:68:38: nil test on a value whose translation does not distinguish nil (list member): ed != nil *)
Definition route := GenRef.route_ref.
Definition translated_route := false.

