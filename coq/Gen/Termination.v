(* GENERATED from /repo by /verif/extract - do not edit.
   Gallina translations of the decision functions (DESIGN.md appendix B).
   A site outside the fragment falls back on the reference definition and is flagged [translated_* = false]. *)
Require Import Verif.Model.Base Verif.Model.Decision Verif.Model.GoSem Verif.Model.Terminate Verif.Model.TermRef.

(* Entry.logContext  (from s.print to the end: Some (how the call ends, trace) | None = a range panic) *)
   (* argument not kept by the model (declared): ctx *)
   (* argument not kept by the model (declared): now *)
   (* argument not kept by the model (declared): stackFrame *)
   (* argument not kept by the model (declared): msg *)
   (* argument not kept by the model (declared): kvps *)
   (* no tracked effect (declared): poolAttrs.Put(kvps) *)
Definition after_print (g_inTesting g_inBenching g_isDebugging g_isDebug : bool) (g_flags : Z) (lvl : Z) (msg : bytes) (kvps : gslice) (tr_ : list Z) : option (term * list Z) :=
  let tr_ := tr_ ++ [lvl] in
  match sl_to kvps 0 with
    | None => None
    | Some r1_ => let kvps := r1_ in
      if ((negb g_inTesting) || ((negb (Z.land g_flags 2097152 =? 0))))
      then if ((Z.land g_flags 1048576 =? 1048576))
      then Some (Continue, tr_)
      else if (lvl =? 0)
      then Some (DoPanic msg, tr_)
      else if (lvl =? 1)
      then (exit_end (-3) tr_)
      else Some (Continue, tr_)
      else Some (Continue, tr_)
    end.
Definition translated_after_print := true.

(* Entry.logContext  (the initialiser of var inTesting) *)
Definition in_testing_init (f_InTesting f_InBenchmark f_InDebugging f_DebugMode f_DebugBuild : bool) : bool :=
  (f_InTesting).
Definition translated_in_testing_init := true.

