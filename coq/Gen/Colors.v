(* GENERATED from /repo by /verif/extract - do not edit.
   Gallina translations of the decision functions (DESIGN.md appendix B).
   A site outside the fragment falls back on the reference definition and is flagged [translated_* = false]. *)
Require Import Verif.Model.Base Verif.Model.Decision Verif.Model.Dec Verif.Model.GoSem Verif.Model.ColorRef.

(* colorizeToolS.echoColor  (returns what out holds; None = panic) *)
Definition echo_color (out : bytes) (clr : Z) : option bytes :=
  if (negb (clr =? (-1)))
  then let out := out ++ [x1b;x5b] in
  let out := out ++ (dec_of_Z clr) in
  let out := out ++ [x6d] in
  Some (out)
  else Some (out).
Definition translated_echo_color := true.

(* colorizeToolS.echoBgColor  (returns what out holds; None = panic) *)
Definition echo_bg_color (out : bytes) (clr : Z) : option bytes :=
  if (negb (clr =? (-1)))
  then let out := out ++ [x1b;x5b] in
  let out := out ++ (dec_of_Z clr) in
  let out := out ++ [x6d] in
  Some (out)
  else Some (out).
Definition translated_echo_bg_color := true.

(* colorizeToolS.echoColorAndBg  (returns what out holds; None = panic) *)
Definition echo_color_bg (out : bytes) (clr bg : Z) : option bytes :=
  let out := if (negb (clr =? (-1)))
  then let out := out ++ [x1b;x5b] in
  let out := out ++ (dec_of_Z clr) in
  let out := out ++ [x6d] in
  out
  else out in
  if (negb (bg =? (-1)))
  then let out := out ++ [x1b;x5b] in
  let out := out ++ (dec_of_Z bg) in
  let out := out ++ [x6d] in
  Some (out)
  else Some (out).
Definition translated_echo_color_bg := true.

(* colorizeToolS.echoResetColor  (returns what out holds; None = panic) *)
Definition echo_reset (out : bytes) : option bytes :=
  let out := out ++ [x1b;x5b;x30;x6d] in
  Some (out).
Definition translated_echo_reset := true.

(* colorizeToolS.rightPad  (None = panic) *)
Definition right_pad (str padChar : bytes) (minw : Z) : option bytes :=
  let l := (minw - (Z.of_nat (List.length str))) in
  if (0 <? l)
  then match str_repeat padChar l with
    | None => None
    | Some r1_ => Some ((str ++ r1_))
    end
  else Some (str).
Definition translated_right_pad := true.

(* colorizeToolS.splitFirstAndRestLines  (returns (firstLine, restLines, eol); None = panic) *)
Definition split_first_rest (str : bytes) : option (bytes * bytes * bool) :=
  let firstLine := (@nil byte) in
  let restLines := (@nil byte) in
  let eol := false in
  if (negb (bytes_eqb str []))
  then match str_at str ((Z.of_nat (List.length str)) - 1) with
    | None => None
    | Some r1_ => let eol := (r1_ =? 10) in
      let str := if eol
      then let str := (str_trim_right str [x0a;x0d]) in
      str
      else str in
      let ix := (str_index_byte str 10) in
      if (0 <=? ix)
      then match str_prefix str ix with
      | None => None
      | Some r2_ => match str_suffix str (ix + 1) with
        | None => None
        | Some r3_ => let '(firstLine, restLines) := (r2_, r3_) in
          Some (firstLine, restLines, eol)
        end
      end
      else let firstLine := str in
      Some (firstLine, restLines, eol)
    end
  else Some (firstLine, restLines, eol).
Definition translated_split_first_rest := true.

