(* GENERATED from /repo by /verif/extract - do not edit.
   Gallina translations of the decision functions (DESIGN.md appendix B).
   A site outside the fragment falls back on the reference definition and is flagged [translated_* = false]. *)
Require Import Verif.Model.Base Verif.Model.Decision Verif.Model.GoSem Verif.Model.TreeRef Verif.Model.RouteRef.

(* Entry.Println  (the internal call the function ends in; RNone = none, RPanic = a run-time panic) *)
Definition println_route (as_string_of_any : garg -> option bytes) (f_sprint : garg -> bytes) (args : list garg) : route :=
  if ((Z.of_nat (List.length args)) =? 0)
  then (RLog1 8 [] [] )
  else match list_at args 0 with
    | None => RPanic
    | Some r1_ => let '(msg, ok) := match as_string_of_any r1_ with Some v_ => (v_, true) | None => ((@nil byte), false) end in
      if (negb ok)
      then match list_at args 0 with
      | None => RPanic
      | Some r2_ => let msg := (f_sprint r2_) in
        match list_from args 1 with
        | None => RPanic
        | Some r3_ => (RLog1 8 msg r3_ )
        end
      end
      else match list_from args 1 with
      | None => RPanic
      | Some r4_ => (RLog1 8 msg r4_ )
      end
    end.
Definition translated_println_route := true.

(* Entry.printImpl  (the first statement: what is delivered before formatting starts, and how) *)
Definition blank_line (f_trim : bytes -> bytes -> bytes) (f_findWriter : Z -> option Z) (pc_lvl : Z) (pc_msg : bytes) (tr_ : list deliv) : list deliv :=
  if ((pc_lvl =? 8) && (bytes_eqb (f_trim pc_msg [x0a;x0d;x20;x09]) []))
  then let tr_ := tr_ ++ [DPrintOut pc_lvl [10]] in
  tr_
  else tr_.
Definition translated_blank_line := true.

