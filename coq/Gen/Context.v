(* GENERATED from /repo by /verif/extract - do not edit.
   Gallina translations of the decision functions (DESIGN.md appendix B).
   A site outside the fragment falls back on the reference definition and is flagged [translated_* = false]. *)
Require Import Verif.Model.Base Verif.Model.Decision Verif.Model.GoSem Verif.Model.Attrs Verif.Model.PcRef.

(* PrintCtx.setentry  (returns every field of the context; None = panic) *)
Definition pc_setentry_full (s_buf : gslice) (s_off : Z) (s_lastRead : Z) (s_noQuoted : bool) (s_jsonMode : bool) (s_noColor : bool) (s_layout : bytes) (s_utcTime : Z) (s_dedupeAttrs : bool) (s_lvl : Z) (s_msg : bytes) (s_firstLine : bytes) (s_restLines : bytes) (s_eol : bool) (s_kvps : list attr) (s_clr : Z) (s_bg : Z) (s_now : Z) (s_stackFrame : Z) (s_cachedSource : bytes * Z * bytes) (s_prefix : bytes) (s_inGroupedMode : bool) (s_skipFirstSep : bool) (s_valueStringer : Z) (e_useJSON e_useColor : bool) (e_timeLayout : bytes) (e_modeUTC : Z) (e_valueStringer : Z) (e_level : Z) (e_attrs : list attr) (g_flags : Z) : option (gslice * Z * Z * bool * bool * bool * bytes * Z * bool * Z * bytes * bytes * bytes * bool * (list attr) * Z * Z * Z * Z * (bytes * Z * bytes) * bytes * bool * bool * Z) :=
  match sl_to s_buf 0 with
    | None => None
    | Some r1_ => let s_buf := r1_ in
      let s_off := 0 in
      let s_lastRead := 0 in
      let '(s_clr, s_bg) := (95, (-1)) in
      let s_prefix := [] in
      let s_inGroupedMode := false in
      let s_skipFirstSep := false in
      let '(s_firstLine, s_restLines, s_eol) := ([], [], false) in
      let s_jsonMode := e_useJSON in
      let useColor := e_useColor in
      let useColor := if (e_useJSON && useColor)
      then let useColor := false in
      useColor
      else useColor in
      let s_noColor := (negb useColor) in
      let s_layout := e_timeLayout in
      let s_utcTime := e_modeUTC in
      let s_valueStringer := e_valueStringer in
      let s_lvl := e_level in
      let s_kvps := e_attrs in
      Some (s_buf, s_off, s_lastRead, s_noQuoted, s_jsonMode, s_noColor, s_layout, s_utcTime, s_dedupeAttrs, s_lvl, s_msg, s_firstLine, s_restLines, s_eol, s_kvps, s_clr, s_bg, s_now, s_stackFrame, s_cachedSource, s_prefix, s_inGroupedMode, s_skipFirstSep, s_valueStringer)
    end.
Definition translated_pc_setentry_full := true.

(* PrintCtx.set  (returns every field of the context; None = panic) *)
Definition pc_set_full (s_buf : gslice) (s_off : Z) (s_lastRead : Z) (s_noQuoted : bool) (s_jsonMode : bool) (s_noColor : bool) (s_layout : bytes) (s_utcTime : Z) (s_dedupeAttrs : bool) (s_lvl : Z) (s_msg : bytes) (s_firstLine : bytes) (s_restLines : bytes) (s_eol : bool) (s_kvps : list attr) (s_clr : Z) (s_bg : Z) (s_now : Z) (s_stackFrame : Z) (s_cachedSource : bytes * Z * bytes) (s_prefix : bytes) (s_inGroupedMode : bool) (s_skipFirstSep : bool) (s_valueStringer : Z) (e_useJSON e_useColor : bool) (e_timeLayout : bytes) (e_modeUTC : Z) (e_valueStringer : Z) (e_level : Z) (e_attrs : list attr) (g_flags : Z) (e : Z) (lvl : Z) (timestamp : Z) (stackFrame : Z) (msg : bytes) (kvps : list attr) : option (gslice * Z * Z * bool * bool * bool * bytes * Z * bool * Z * bytes * bytes * bytes * bool * (list attr) * Z * Z * Z * Z * (bytes * Z * bytes) * bytes * bool * bool * Z) :=
  match pc_setentry_full s_buf s_off s_lastRead s_noQuoted s_jsonMode s_noColor s_layout s_utcTime s_dedupeAttrs s_lvl s_msg s_firstLine s_restLines s_eol s_kvps s_clr s_bg s_now s_stackFrame s_cachedSource s_prefix s_inGroupedMode s_skipFirstSep s_valueStringer e_useJSON e_useColor e_timeLayout e_modeUTC e_valueStringer e_level e_attrs g_flags with
    | None => None
    | Some (s_buf, s_off, s_lastRead, s_noQuoted, s_jsonMode, s_noColor, s_layout, s_utcTime, s_dedupeAttrs, s_lvl, s_msg, s_firstLine, s_restLines, s_eol, s_kvps, s_clr, s_bg, s_now, s_stackFrame, s_cachedSource, s_prefix, s_inGroupedMode, s_skipFirstSep, s_valueStringer) => let s_lvl := lvl in
      let s_now := timestamp in
      let s_stackFrame := stackFrame in
      let s_msg := msg in
      let s_kvps := kvps in
      Some (s_buf, s_off, s_lastRead, s_noQuoted, s_jsonMode, s_noColor, s_layout, s_utcTime, s_dedupeAttrs, s_lvl, s_msg, s_firstLine, s_restLines, s_eol, s_kvps, s_clr, s_bg, s_now, s_stackFrame, s_cachedSource, s_prefix, s_inGroupedMode, s_skipFirstSep, s_valueStringer)
    end.
Definition translated_pc_set_full := true.

