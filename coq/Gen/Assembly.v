(* GENERATED from /repo by /verif/extract - do not edit.
   Gallina translations of the decision functions (DESIGN.md appendix B).
   A site outside the fragment falls back on the reference definition and is flagged [translated_* = false]. *)
Require Import Verif.Model.Base Verif.Model.Decision Verif.Model.GoSem Verif.Model.Attrs Verif.Model.Collect Verif.Model.CollectRef.

(* Entry.walkParentAttrs  (returns *kvps) *)
Definition walk_parent_attrs (rec_ : list (list attr) -> list attr -> list attr) (g_flags : Z) (ctx : unit) (lvl : Z) (e : list (list attr)) (kvps : list attr) : list attr :=
  if (chain_is_nil e)
  then kvps
  else let roughlen := (Z.of_nat (List.length (chain_attrs e))) in
  if ((roughlen =? 0) && (negb (negb (Z.land g_flags 32 =? 0))))
  then kvps
  else let roughlen := if (roughlen <? 8)
  then let roughlen := 8 in
  roughlen
  else roughlen in
  let kvps := if (negb (Z.land g_flags 32 =? 0))
  then let p := (chain_owner e) in
  if (negb (chain_is_nil p))
  then let kvps := rec_ p kvps in
  kvps
  else kvps
  else kvps in
  let kvps := (kvps ++ (chain_attrs e)) in
  kvps.
Definition translated_walk_parent_attrs := true.

(* Entry.collectArgs  (returns *kvps; s is the logger's chain, s_attrs its own attributes) *)
Definition collect_args (f_fromCtx : unit -> list attr -> list attr) (f_walk : list (list attr) -> list attr -> list attr) (f_argsToAttrs : list attr -> list attr -> list attr) (g_flags : Z) (s_ctxKeysWanted : bool) (s : list (list attr)) (s_attrs : list attr) (ctx : unit) (kvps : list attr) (roughSize : Z) (lvl : Z) (args : list attr) : list attr :=
  let kvps := if (s_ctxKeysWanted)
  then let kvps := f_fromCtx ctx kvps in
  kvps
  else kvps in
  let kvps := if ((0 <? (Z.of_nat (List.length s_attrs))) || (negb (Z.land g_flags 32 =? 0)))
  then let kvps := f_walk s kvps in
  kvps
  else kvps in
  let kvps := if (0 <? (Z.of_nat (List.length args)))
  then let kvps := f_argsToAttrs kvps args in
  kvps
  else kvps in
  kvps.
Definition translated_collect_args := true.

