(* GENERATED from /repo by /verif/extract - do not edit.
   Gallina translations of the decision functions (DESIGN.md appendix B).
   A site outside the fragment falls back on the reference definition and is flagged [translated_* = false]. *)
Require Import Verif.Model.Base Verif.Model.Decision Verif.Model.Dec Verif.Model.GoSem Verif.Model.LevelRef.

(* Level.String   *)
Definition level_string (m_levelToString : list (Z * bytes)) (level : Z) : bytes :=
  match lookupZ m_levelToString level with
    | Some str => str
    | None => ([x4c;x23] ++ dec_of_Z level)
    end.
Definition translated_level_string := true.

(* Level.ShortTag  (None = the call panics) *)
Definition short_tag (m_shortTagMap : list (Z * list (Z * bytes))) (m_levelToString : list (Z * bytes)) (level : Z) (length_ : Z) : option bytes :=
  if ((length_ <=? 0) || (6 <=? length_))
  then None
  else match lookupZ m_shortTagMap length_ with
    | Some va => match lookupZ va level with
      | Some ix => Some (ix)
      | None => let t := (level_string m_levelToString level) in
        if (0 <? (Z.of_nat (List.length t)))
        then let l := (Z.of_nat (List.length t)) in
        if (l =? length_) then Some (t)
        else if (l <? length_) then match str_repeat [x20] length_ with
        | None => None
        | Some r1_ => let t := (t ++ r1_) in
          match str_prefix t length_ with
          | None => None
          | Some r2_ => Some (r2_)
          end
        end
        else match str_prefix t length_ with
        | None => None
        | Some r3_ => Some (r3_)
        end
        else match str_repeat [x3f] length_ with
        | None => None
        | Some r4_ => Some (r4_)
        end
      end
    | None => let t := (level_string m_levelToString level) in
      if (0 <? (Z.of_nat (List.length t)))
      then let l := (Z.of_nat (List.length t)) in
      if (l =? length_) then Some (t)
      else if (l <? length_) then match str_repeat [x20] length_ with
      | None => None
      | Some r5_ => let t := (t ++ r5_) in
        match str_prefix t length_ with
        | None => None
        | Some r6_ => Some (r6_)
        end
      end
      else match str_prefix t length_ with
      | None => None
      | Some r7_ => Some (r7_)
      end
      else match str_repeat [x3f] length_ with
      | None => None
      | Some r8_ => Some (r8_)
      end
    end.
Definition translated_short_tag := true.

(* .ParseLevel  (returns (level, err, trace)) *)
Definition parse_level (m_stringToLevel : list (bytes * Z)) (lvl : bytes) (tr_ : list lvl_event) : Z * option unit * list lvl_event :=
  match lookupB m_stringToLevel (to_lower lvl) with
    | Some l_1 => (l_1, None, tr_)
    | None => let tr_ := tr_ ++ [EvWarnUnknown lvl] in
      let l := 0 in
      (l, (Some tt), tr_)
    end.
Definition translated_parse_level := true.

(* Level.UnmarshalText  (returns (err, *level, trace)) *)
Definition unmarshal_text (m_stringToLevel : list (bytes * Z)) (level : Z) (text : bytes) (tr_ : list lvl_event) : option unit * Z * list lvl_event :=
  let '(l, err, level, tr_) := (let '(l_, e_, t_) := parse_level m_stringToLevel text tr_ in (l_, e_, level, t_)) in
  if (negb (is_nil err))
  then (err, level, tr_)
  else let level := l in
  (None, level, tr_).
Definition translated_unmarshal_text := true.

(* Level.MarshalText  (returns (text, err): the name in levelToString, an error for a level without one) *)
Definition marshal_text (m_levelToString : list (Z * bytes)) (level : Z) : bytes * option unit :=
  match lookupZ m_levelToString level with
    | Some str => (str, None)
    | None => ((@nil byte), (Some tt))
    end.
Definition translated_marshal_text := true.

