(* GENERATED from /repo by /verif/extract - do not edit.  Literal tables and constants. *)
Require Import Verif.Model.Base.

Definition c_AlwaysLevel : Z := 8.
Definition c_BADKEY : bytes := [x21;x42;x41;x44;x4b;x45;x59].
Definition c_DateTime : bytes := [x32;x30;x30;x36;x2d;x30;x31;x2d;x30;x32;x31;x35;x3a;x30;x34;x3a;x30;x35;x5a;x30;x37;x3a;x30;x30].
Definition c_DebugLevel : Z := 5.
Definition c_ErrorLevel : Z := 2.
Definition c_FailLevel : Z := 11.
Definition c_FatalLevel : Z := 1.
Definition c_InfoLevel : Z := 4.
Definition c_Lattrs : Z := 16.
Definition c_LattrsR : Z := 32.
Definition c_Lcaller : Z := 128.
Definition c_Lcallerpackagename : Z := 256.
Definition c_Ldate : Z := 1.
Definition c_Ldatetimeflags : Z := 7.
Definition c_Lempty : Z := 0.
Definition c_LevelFatal : Z := 16.
Definition c_LevelHint : Z := 3.
Definition c_LevelNotice : Z := 2.
Definition c_LevelPanic : Z := 17.
Definition c_LevelTrace : Z := (-8).
Definition c_LevelVerbose : Z := (-16).
Definition c_Linterruptalways : Z := 2097152.
Definition c_Llineno : Z := 64.
Definition c_LlocalTime : Z := 8.
Definition c_Lmicroseconds : Z := 4.
Definition c_LnoInterrupt : Z := 1048576.
Definition c_Lprivacypath : Z := 8192.
Definition c_Lprivacypathregexp : Z := 16384.
Definition c_LsmartJSONMode : Z := 524288.
Definition c_LstdFlags : Z := 24798.
Definition c_Ltime : Z := 2.
Definition c_MaxLengthShortTag : Z := 6.
Definition c_MaxLevel : Z := 12.
Definition c_MinRead : Z := 512.
Definition c_OKLevel : Z := 9.
Definition c_OffLevel : Z := 7.
Definition c_PanicLevel : Z := 0.
Definition c_RFC3339Nano : bytes := [x32;x30;x30;x36;x2d;x30;x31;x2d;x30;x32;x54;x31;x35;x3a;x30;x34;x3a;x30;x35;x2e;x30;x30;x30;x30;x30;x30;x5a;x30;x37;x3a;x30;x30].
Definition c_RFC3339NanoOrig : bytes := [x32;x30;x30;x36;x2d;x30;x31;x2d;x30;x32;x54;x31;x35;x3a;x30;x34;x3a;x30;x35;x2e;x39;x39;x39;x39;x39;x39;x39;x39;x39;x5a;x30;x37;x3a;x30;x30].
Definition c_SuccessLevel : Z := 10.
Definition c_TimeNano : bytes := [x31;x35;x3a;x30;x34;x3a;x30;x35;x2e;x30;x30;x30;x30;x30;x30;x5a;x30;x37;x3a;x30;x30].
Definition c_TimeNoNano : bytes := [x31;x35;x3a;x30;x34;x3a;x30;x35;x5a;x30;x37;x3a;x30;x30].
Definition c_TraceLevel : Z := 6.
Definition c_Version : bytes := [x76;x30;x2e;x38;x2e;x31;x33].
Definition c_WarnLevel : Z := 3.
Definition c_appName : bytes := [x6c;x6f;x67;x67;x2f;x73;x6c;x6f;x67].
Definition c_callerFieldName : bytes := [x63;x61;x6c;x6c;x65;x72].
Definition c_clrAttrKey : Z := 90.
Definition c_clrAttrKeyBg : Z := (-1).
Definition c_clrBasic : Z := 95.
Definition c_clrError : Z := 31.
Definition c_clrFuncName : Z := 90.
Definition c_clrLoggerName : Z := 37.
Definition c_clrLoggerNameBg : Z := (-1).
Definition c_clrNone : Z := (-1).
Definition c_clrTimestamp : Z := 32.
Definition c_cyan : Z := 36.
Definition c_darkGray : Z := 90.
Definition c_hiRed : Z := 91.
Definition c_l1 : Z := 512.
Definition c_l2 : Z := 1024.
Definition c_l3 : Z := 2048.
Definition c_l4 : Z := 4096.
Definition c_l5 : Z := 32768.
Definition c_l6 : Z := 65536.
Definition c_l7 : Z := 131072.
Definition c_l8 : Z := 262144.
Definition c_levelFieldName : bytes := [x6c;x65;x76;x65;x6c].
Definition c_lightGray : Z := 37.
Definition c_maxFixedSize : Z := 1024.
Definition c_maxInt : Z := 9223372036854775807.
Definition c_maxLogValues : Z := 100.
Definition c_messageFieldName : bytes := [x6d;x73;x67].
Definition c_red : Z := 31.
Definition c_smallBufferSize : Z := 64.
Definition c_timestampFieldName : bytes := [x74;x69;x6d;x65].
Definition c_version : bytes := [x76;x30;x2e;x38;x2e;x31;x33].
Definition c_yellow : Z := 33.

Definition t_allLevels : list Z :=
  [0; 1; 2; 3; 4; 5; 6; 7; 8; 9; 10; 11].
Definition t_levelToString : list (Z * bytes) :=
  [(11, [x66;x61;x69;x6c]); (10, [x73;x75;x63;x63;x65;x73;x73]); (9, [x6f;x6b]); (8, [x61;x6c;x77;x61;x79;x73]); (7, [x6f;x66;x66]); (6, [x74;x72;x61;x63;x65]); (5, [x64;x65;x62;x75;x67]); (4, [x69;x6e;x66;x6f]); (3, [x77;x61;x72;x6e;x69;x6e;x67]); (2, [x65;x72;x72;x6f;x72]); (1, [x66;x61;x74;x61;x6c]); (0, [x70;x61;x6e;x69;x63])].
Definition t_stringToLevel : list (bytes * Z) :=
  [([x66;x61;x69;x6c], 11); ([x73;x75;x63;x63;x65;x73;x73], 10); ([x6f;x6b], 9); ([x61;x6c;x77;x61;x79;x73], 8); ([x6f;x66;x66], 7); ([x6e;x6f], 7); ([x64;x69;x73;x61;x62;x6c;x65;x64], 7); ([x74;x72;x61;x63;x65], 6); ([x64;x65;x62;x75;x67], 5); ([x64;x65;x76;x65;x6c], 5); ([x64;x65;x76], 5); ([x64;x65;x76;x65;x6c;x6f;x70], 5); ([x69;x6e;x66;x6f], 4); ([x77;x61;x72;x6e], 3); ([x77;x61;x72;x6e;x69;x6e;x67], 3); ([x65;x72;x72;x6f;x72], 2); ([x66;x61;x74;x61;x6c], 1); ([x70;x61;x6e;x69;x63], 0)].
Definition t_shortTagMap : list (Z * list (Z * bytes)) :=
  [(0, []); (1, [(0, [x50]); (1, [x46]); (2, [x45]); (3, [x57]); (4, [x49]); (5, [x44]); (6, [x54]); (7, [x20]); (8, [x41]); (9, [x6f]); (10, [x73]); (11, [x66])]); (2, [(0, [x50;x43]); (1, [x46;x4c]); (2, [x45;x52]); (3, [x57;x4e]); (4, [x49;x46]); (5, [x44;x47]); (6, [x54;x43]); (7, [x20;x20]); (8, [x41;x41]); (9, [x4f;x4b]); (10, [x53;x55]); (11, [x46;x41])]); (3, [(0, [x50;x4e;x43]); (1, [x46;x54;x4c]); (2, [x45;x52;x52]); (3, [x57;x52;x4e]); (4, [x49;x4e;x46]); (5, [x44;x42;x47]); (6, [x54;x52;x43]); (7, [x20;x20;x20]); (8, [x20;x41;x20]); (9, [x20;x4f;x4b]); (10, [x53;x55;x43]); (11, [x46;x41;x49])]); (4, [(0, [x50;x4e;x49;x43]); (1, [x46;x54;x41;x4c]); (2, [x45;x52;x52;x4f]); (3, [x57;x41;x52;x4e]); (4, [x49;x4e;x46;x4f]); (5, [x44;x42;x55;x47]); (6, [x54;x52;x41;x43]); (7, [x20;x20;x20;x20]); (8, [x20;x41;x41;x20]); (9, [x20;x4f;x4b;x20]); (10, [x53;x55;x43;x43]); (11, [x46;x41;x49;x4c])]); (5, [(0, [x50;x41;x4e;x49;x43]); (1, [x46;x41;x54;x41;x4c]); (2, [x45;x52;x52;x4f;x52]); (3, [x57;x41;x52;x4e;x49]); (4, [x49;x4e;x46;x4f;x52]); (5, [x44;x45;x42;x55;x47]); (6, [x54;x52;x41;x43;x45]); (7, [x20;x20;x20;x20;x20]); (8, [x20;x20;x41;x20;x20]); (9, [x20;x20;x4f;x4b;x20]); (10, [x53;x55;x43;x43;x53]); (11, [x20;x46;x41;x49;x4c])])].
Definition t_mLevelIsEnabledAs : list (Z * Z) :=
  [(9, 4); (10, 4); (11, 2)].
Definition t_mLevelUseErrorDevice : list (Z * bool) :=
  [(0, true); (1, true); (2, true); (3, true); (11, true)].
Definition t_mLevelColors : list (Z * list Z) :=
  [(0, [91; (-1)]); (1, [91; (-1)]); (2, [31; (-1)]); (3, [33; (-1)]); (4, [36; (-1)]); (5, [35; (-1)]); (6, [33; 2]); (7, [30; 2]); (8, [37; 5]); (9, [96; 5]); (10, [32; 5]); (11, [31; 1])].
Definition t_mLevelToLogSlog : list (Z * Z) :=
  [(0, 8); (1, 8); (2, 8); (3, 4); (4, 0); (5, (-4)); (6, (-4)); (7, 0); (8, 0); (9, 0); (10, 0); (11, 0)].
Definition t_mLogSlogLevelToLevel : list (Z * Z) :=
  [((-4), 5); (0, 4); (4, 3); (8, 2)].
Definition t_defaultLayouts : list (Z * bytes) :=
  [(1, [x32;x30;x30;x36;x2d;x30;x31;x2d;x30;x32]); (2, [x31;x35;x3a;x30;x34;x3a;x30;x35;x5a;x30;x37;x3a;x30;x30]); (6, [x31;x35;x3a;x30;x34;x3a;x30;x35;x2e;x30;x30;x30;x30;x30;x30;x5a;x30;x37;x3a;x30;x30]); (3, [x32;x30;x30;x36;x2d;x30;x31;x2d;x30;x32;x31;x35;x3a;x30;x34;x3a;x30;x35;x5a;x30;x37;x3a;x30;x30]); (5, [x32;x30;x30;x36;x2d;x30;x31;x2d;x30;x32;x54;x31;x35;x3a;x30;x34;x3a;x30;x35;x2e;x30;x30;x30;x30;x30;x30;x5a;x30;x37;x3a;x30;x30]); (7, [x32;x30;x30;x36;x2d;x30;x31;x2d;x30;x32;x54;x31;x35;x3a;x30;x34;x3a;x30;x35;x2e;x30;x30;x30;x30;x30;x30;x5a;x30;x37;x3a;x30;x30])].
Definition t_flags : Z :=
  24798.
Definition t_minimalMessageWidth : Z :=
  36.
Definition t_levelOutputWidth : Z :=
  3.
Definition t_hex : bytes :=
  [x30;x31;x32;x33;x34;x35;x36;x37;x38;x39;x61;x62;x63;x64;x65;x66].
Definition t_safeSet : list (Z * bool) :=
  [(32, true); (33, true); (34, false); (35, true); (36, true); (37, true); (38, true); (39, true); (40, true); (41, true); (42, true); (43, true); (44, true); (45, true); (46, true); (47, true); (48, true); (49, true); (50, true); (51, true); (52, true); (53, true); (54, true); (55, true); (56, true); (57, true); (58, true); (59, true); (60, true); (61, true); (62, true); (63, true); (64, true); (65, true); (66, true); (67, true); (68, true); (69, true); (70, true); (71, true); (72, true); (73, true); (74, true); (75, true); (76, true); (77, true); (78, true); (79, true); (80, true); (81, true); (82, true); (83, true); (84, true); (85, true); (86, true); (87, true); (88, true); (89, true); (90, true); (91, true); (92, false); (93, true); (94, true); (95, true); (96, true); (97, true); (98, true); (99, true); (100, true); (101, true); (102, true); (103, true); (104, true); (105, true); (106, true); (107, true); (108, true); (109, true); (110, true); (111, true); (112, true); (113, true); (114, true); (115, true); (116, true); (117, true); (118, true); (119, true); (120, true); (121, true); (122, true); (123, true); (124, true); (125, true); (126, true); (127, true)].
Definition t_unitMap : list (bytes * Z) :=
  [([x6e;x73], 1); ([x75;x73], 1000); ([xc2;xb5;x73], 1000); ([xce;xbc;x73], 1000); ([x6d;x73], 1000000); ([x73], 1000000000); ([x6d], 60000000000); ([x68], 3600000000000); ([x64], 86400000000000)].
Definition t_shortDurBufSize : Z := 40.
