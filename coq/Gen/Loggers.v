(* GENERATED from /repo by /verif/extract - do not edit.
   Gallina translations of the decision functions (DESIGN.md appendix B).
   A site outside the fragment falls back on the reference definition and is flagged [translated_* = false]. *)
Require Import Verif.Model.Base Verif.Model.Decision Verif.Model.Dec Verif.Model.GoSem Verif.Model.TreeRef.

(* Entry.newChildLogger  (returns (child, s.items); None = panic) *)
Definition new_child (as_string_of_any : garg -> option bytes) (rnd_name : bytes) (f_newentry : eref -> list garg -> eref) (s : eref) (s_items : gomapB eref) (args : list garg) : option (eref * gomapB eref) :=
  let s_items := if (is_nil s_items)
  then let s_items := (Some (@nil (bytes * eref))) in
  s_items
  else s_items in
  let name := (@nil byte) in
  let ok := false in
  if ((Z.of_nat (List.length args)) =? 0)
  then let name := (rnd_name) in
  match mapB_get s_items name with
    | Some l => Some ((l, s_items))
    | None => match gomapB_set s_items name (f_newentry s args) with
      | None => None
      | Some r1_ => let s_items := r1_ in
        Some (((mapB_get_or s_items name eref_nil), s_items))
      end
    end
  else match list_at args 0 with
    | None => None
    | Some r2_ => let '(name, ok) := match as_string_of_any r2_ with Some v_ => (v_, true) | None => ((@nil byte), false) end in
      let name := if ((negb ok) || (bytes_eqb name []))
      then let name := (rnd_name) in
      name
      else name in
      match mapB_get s_items name with
      | Some l => Some ((l, s_items))
      | None => match gomapB_set s_items name (f_newentry s args) with
        | None => None
        | Some r3_ => let s_items := r3_ in
          Some (((mapB_get_or s_items name eref_nil), s_items))
        end
      end
    end.
Definition translated_new_child := true.

(* .newentry  (the first two statements: what a new logger starts with) *)
Definition child_defaults (p_present p_useJSON p_useColor : bool) (p_level g_deflevel : Z) : bool * bool * Z :=
  let '(js, color, level) := (false, true, g_deflevel) in
  if p_present
  then let '(js, color, level) := (p_useJSON, p_useColor, p_level) in
  (js, color, level)
  else (js, color, level).
Definition translated_child_defaults := true.

(* Entry.withSkip   *)
Definition with_skip (s : eref) (s_extraFrames : Z) (extraFrames : Z) : eref * Z :=
  let s_extraFrames := extraFrames in
  (s, s_extraFrames).
Definition translated_with_skip := true.

(* Entry.SetSkip   *)
Definition set_skip (s : eref) (s_extraFrames : Z) (extraFrames : Z) : Z :=
  let s_extraFrames := extraFrames in
  s_extraFrames.
Definition translated_set_skip := true.

(* Entry.WithSkip   *)
Definition with_skip_child (f_newChild : bytes -> eref) (f_withSkip : eref -> Z -> eref) (set_useJSON set_useColor : eref -> bool -> eref) (set_level set_extraFrames : eref -> Z -> eref) (s_name : bytes) (s_extraFrames s_level : Z) (s_useJSON s_useColor : bool) (s_items : gomapB eref) (extraFrames : Z) : eref :=
  (f_withSkip (f_newChild ([x63;x2f] ++ s_name ++ [x5b] ++ dec_of_Z extraFrames ++ [x5d])) extraFrames).
Definition translated_with_skip_child := true.

