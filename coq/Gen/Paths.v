(* GENERATED from /repo by /verif/extract - do not edit.
   Gallina translations of the decision functions (DESIGN.md appendix B).
   A site outside the fragment falls back on the reference definition and is flagged [translated_* = false]. *)
Require Import Verif.Model.Base Verif.Model.Decision Verif.Model.GoSem Verif.Model.Path Verif.Model.PathRef.

(* .underDir  (None = the call panics) *)
Definition under_dir (file dir : bytes) : option bool :=
  match (if ((negb (bytes_eqb dir [])) && (has_prefix file dir)) then match (if ((Z.of_nat (List.length file)) =? (Z.of_nat (List.length dir))) then Some true else match str_at file (Z.of_nat (List.length dir)) with None => None | Some r1_ => Some (r1_ =? 47) end) with None => None | Some r2_ => Some (r2_) end else Some false) with
    | None => None
    | Some r3_ => Some (r3_)
    end.
Definition translated_under_dir := true.

(* .checkpath  (None = the call panics) *)
Definition checkpath (f_rel : bytes -> bytes -> bytes) (g_flags : Z) (m_knownPathMap : list (bytes * bytes)) (g_knownPathRegexpMap : list rx) (g_cwd : bytes) (file : bytes) : option bytes :=
  let privfile := file in
  if (negb (Z.land g_flags 8192 =? 0))
  then match fold_left (fun ost_ (kv_ : bytes * bytes) => match ost_ with
        | None => None
        | Some privfile => let '(k, v) := kv_ in
          match under_dir privfile k with
          | None => None
          | Some r1_ => if r1_
            then match str_suffix privfile (Z.of_nat (List.length k)) with
            | None => None
            | Some r2_ => let privfile := (v ++ r2_) in
              Some privfile
            end
            else Some privfile
          end
        end) m_knownPathMap (Some privfile) with
    | None => None
    | Some privfile => if (negb (Z.land g_flags 16384 =? 0))
      then let privfile := fold_left (fun privfile (rpl : rx) => if (rx_matches (rx_expr rpl) file)
        then let privfile := (rx_replace (rx_expr rpl) privfile) in
        privfile
        else privfile) g_knownPathRegexpMap privfile in
      if (is_abs privfile)
      then let '(cwd, _) := (g_cwd, tt) in
      let '(relfile, _) := (f_rel cwd file, tt) in
      let l := (Z.of_nat (List.length relfile)) in
      if ((0 <? l) && (l <? (Z.of_nat (List.length privfile))))
      then Some (relfile)
      else Some (privfile)
      else Some (privfile)
      else if (has_prefix privfile [x2f;x56;x6f;x6c;x75;x6d;x65;x73;x2f])
      then match str_suffix privfile 9 with
      | None => None
      | Some r3_ => let pos := (str_index_byte r3_ 47) in
        if (0 <=? pos)
        then match str_suffix privfile (9 + pos) with
        | None => None
        | Some r4_ => let privfile := ([x7e] ++ r4_) in
          if (is_abs privfile)
          then let '(cwd, _) := (g_cwd, tt) in
          let '(relfile, _) := (f_rel cwd file, tt) in
          let l := (Z.of_nat (List.length relfile)) in
          if ((0 <? l) && (l <? (Z.of_nat (List.length privfile))))
          then Some (relfile)
          else Some (privfile)
          else Some (privfile)
        end
        else if (is_abs privfile)
        then let '(cwd, _) := (g_cwd, tt) in
        let '(relfile, _) := (f_rel cwd file, tt) in
        let l := (Z.of_nat (List.length relfile)) in
        if ((0 <? l) && (l <? (Z.of_nat (List.length privfile))))
        then Some (relfile)
        else Some (privfile)
        else Some (privfile)
      end
      else if (is_abs privfile)
      then let '(cwd, _) := (g_cwd, tt) in
      let '(relfile, _) := (f_rel cwd file, tt) in
      let l := (Z.of_nat (List.length relfile)) in
      if ((0 <? l) && (l <? (Z.of_nat (List.length privfile))))
      then Some (relfile)
      else Some (privfile)
      else Some (privfile)
    end
  else if (is_abs privfile)
  then let '(cwd, _) := (g_cwd, tt) in
  let '(relfile, _) := (f_rel cwd file, tt) in
  let l := (Z.of_nat (List.length relfile)) in
  if ((0 <? l) && (l <? (Z.of_nat (List.length privfile))))
  then Some (relfile)
  else Some (privfile)
  else Some (privfile).
Definition translated_checkpath := true.

