(* GENERATED from /repo by /verif/extract - do not edit.
   Gallina translations of the decision functions (DESIGN.md appendix B).
   A site outside the fragment falls back on the reference definition and is flagged [translated_* = false]. *)
Require Import Verif.Model.Base Verif.Model.Decision Verif.Model.GoSem Verif.Model.AdaptRef.

(* handler4LogSlog.with  (returns (the new handler, the heap); None = panic) *)
Definition handler_with (h_zero : hop) (f_growcap : nat -> nat) (s_Logger : lgr) (s_ops : hslice) (op : hop) (heap_ : heap hop) : option (hnd * heap hop) :=
  match h_make heap_ ((h_len s_ops) + 1) h_zero with
    | None => None
    | Some r1_ => let '(r2_, heap_) := r1_ in
      let ops := r2_ in
      let '(r3_, heap_) := h_copy heap_ ops (h_read heap_ s_ops) in
      match h_set heap_ ops (h_len s_ops) op with
      | None => None
      | Some r4_ => let heap_ := r4_ in
        Some (((s_Logger, ops), heap_))
      end
    end.
Definition translated_handler_with := true.

(* handler4LogSlog.nest  (returns (the attributes, the heap); None = panic / out of fuel) *)
Definition handler_nest (h_zero : acell) (f_growcap : nat -> nat) (f_group : bytes -> list acell -> acell) (s_ops : list (bytes * hslice)) (fields : hslice) (heap_ : heap acell) : option (hslice * heap acell) :=
  let i := ((Z.of_nat (List.length s_ops)) - 1) in
  match go_loop (S (List.length s_ops)) (fun st_ => let '(fields, i, heap_) := st_ in
        if (0 <=? i)
        then match list_at s_ops i with
        | None => LoopPanic
        | Some r1_ => let op := r1_ in
          if (bytes_eqb (fst op) []) then match h_make_cap heap_ 0 ((h_len (snd op)) + (h_len fields)) h_zero with
          | None => LoopPanic
          | Some r2_ => let '(r3_, heap_) := r2_ in
            let '(r4_, heap_) := h_append_all f_growcap heap_ r3_ (h_read heap_ (snd op)) in
            let '(r5_, heap_) := h_append_all f_growcap heap_ r4_ (h_read heap_ fields) in
            let fields := r5_ in
            let i := (i - 1) in
            LoopNext (fields, i, heap_)
          end
          else if (0 <? (h_len fields)) then let '(r6_, heap_) := h_lit heap_ [(f_group (fst op) (h_read heap_ fields))] in
          let fields := r6_ in
          let i := (i - 1) in
          LoopNext (fields, i, heap_)
          else let i := (i - 1) in
          LoopNext (fields, i, heap_)
        end
        else LoopDone (fields, i, heap_)) (fields, i, heap_) with
    | None => None
    | Some (fields, i, heap_) => Some ((fields, heap_))
    end.
Definition translated_handler_nest := true.

