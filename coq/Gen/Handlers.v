(* GENERATED from /repo by /verif/extract - do not edit.
   Gallina translations of the decision functions (DESIGN.md appendix B).
   A site outside the fragment falls back on the reference definition and is flagged [translated_* = false]. *)
Require Import Verif.Model.Base Verif.Model.Decision Verif.Model.GoSem Verif.Model.AdaptRef.

(* handler4LogSlog.with  (returns (the new handler, the heap); None = panic) *)
Definition handler_with (h_zero : hop) (f_growcap : nat -> nat) (s_Logger : lgr) (s_ops : hslice) (op : hop) (heap_ : heap hop) : option (hnd * heap hop) :=
  match h_make heap_ ((h_len s_ops) + 1) h_zero with
    | None => None
    | Some r1_ => let '(r2_, heap_) := r1_ in
      let ops := r2_ in
      let '(r3_, heap_) := h_copy heap_ ops (h_read heap_ s_ops) in
      match h_set heap_ ops (h_len s_ops) op with
      | None => None
      | Some r4_ => let heap_ := r4_ in
        Some (((s_Logger, ops), heap_))
      end
    end.
Definition translated_handler_with := true.

