(* GENERATED from /repo by /verif/extract - do not edit.
   Gallina translations of the decision functions (DESIGN.md appendix B).
   A site outside the fragment falls back on the reference definition and is flagged [translated_* = false]. *)
Require Import Verif.Model.Base Verif.Model.Decision Verif.Model.GoSem Verif.Model.BridgeRef.

(* .NewLogLogger  (the writer, prefix and flags given to log.New) *)
Definition new_log_logger (f_level : Z -> Z) (f_cEnabled : Z -> Z -> bool) (f_cSkip : Z -> Z) (g_flags g_deflevel : Z) (h : Z) (lvl : Z) : bridge :=
  (mk_bridge (h, lvl, true, 0) [] 0).
Definition translated_new_log_logger := true.

(* handlerWriter.Write  (returns (n, err, trace of WriteInternal calls)) *)
   (* argument not kept by the model (declared): context.Background() *)
Definition bridge_write (f_enabled : Z -> Z -> bool) (f_skip : Z -> Z) (f_getpc : Z -> Z -> Z) (as_LogLoggerAware_of_Logger : Z -> option Z) (w_n : Z) (w_e : option unit) (s_l s_lvl : Z) (s_capturePC : bool) (s_extraFrames : Z) (buf : bytes) (tr_ : list bwev) : Z * option unit * list bwev :=
  let n := 0 in
  let err := (@None unit) in
  let '(n, err, tr_) := if (f_enabled s_l s_lvl)
  then let pc := 0 in
  let pc := if s_capturePC
  then let pc := (f_getpc 4 (s_extraFrames + (f_skip s_l))) in
  pc
  else pc in
  match as_LogLoggerAware_of_Logger s_l with
    | Some h => let '(n, err) := (w_n, w_e) in
      let tr_ := tr_ ++ [BWInternal h s_lvl pc buf] in
      (n, err, tr_)
    | None => (n, err, tr_)
    end
  else (n, err, tr_) in
  (n, err, tr_).
Definition translated_bridge_write := true.

(* Entry.writeInternal  (returns (n, err, trace of print calls); None = a range panic) *)
   (* argument not kept by the model (declared): ctx *)
   (* argument not kept by the model (declared): nil *)
Definition write_internal (f_trimRight f_trimSuffix : bytes -> bytes -> bytes) (g_now : Z) (lvl stackFrame : Z) (buf : bytes) (tr_ : list bwev) : option (Z * option unit * list bwev) :=
  let n := 0 in
  let err := (@None unit) in
  let origLen := (Z.of_nat (List.length buf)) in
  match (if (0 <? (Z.of_nat (List.length buf))) then match str_at buf ((Z.of_nat (List.length buf)) - 1) with None => None | Some r1_ => Some (r1_ =? 10) end else Some false) with
    | None => None
    | Some r2_ => if r2_
      then match str_prefix buf ((Z.of_nat (List.length buf)) - 1) with
      | None => None
      | Some r3_ => let buf := r3_ in
        let n := origLen in
        let now := (g_now) in
        let tr_ := tr_ ++ [BWPrint lvl now stackFrame buf] in
        Some (n, err, tr_)
      end
      else let n := origLen in
      let now := (g_now) in
      let tr_ := tr_ ++ [BWPrint lvl now stackFrame buf] in
      Some (n, err, tr_)
    end.
Definition translated_write_internal := true.

