#!/bin/sh
# the repository's own test suite with the verif guard OFF (no tags, no overlay)
set -e
for m in . ./tests; do (cd /repo/$m && go test -vet=off -count=1 -timeout 25m ./...); done
