#!/usr/bin/env python3
"""Regenerates MANIFEST.json from the table below (keeps it valid at all times)."""
import json
NOTE = ("Trusted: Coq 8.16.1 kernel and vm_compute (no native_compute); no axioms (Print Assumptions: closed under the global context, re-printed on every run); "
        "the extractor /verif/extract (tables, entry points, decision translator), the harness with its direct oracle and Gallina printer, the driver's parsing of coqc output; "
        "the Go toolchain/standard library are unmodelled environment. The model is hand-written except coq/Gen (regenerated from /repo each run); it is tied to the code by the correspondence run of every check.")
P = {
 "C01": ("Admission rule proved for all of Z (registry, debug mode, levels) about the reference function, which is proved equal to the translation of Level.Enabled regenerated from the source; every row of the entry-point table regenerated from the source is proved to apply that rule (finite table, by computation); history lemmas for the debug side effect, SetLevel and registry stability. Correspondence: exhaustive grid logger level x severity x debug x every entry point (Entry methods by reflection) under registry samples + random histories, model evaluated by vm_compute, direct oracle = the statement's rule.",
         "Rocq/Coq proof + source-to-Gallina translation of Level.Enabled and the entry-point table + model/implementation correspondence (vm_compute)", "DESIGN.md §4 C01"),
 "C03": ("Refinement proved by induction over ANY sequence of the eleven writer operations: the code-level state (lazily created dualWriter, logwr cells, leveled map) denotes exactly the documented configuration (set replaces, add appends, remove deletes the first registration, reset restores defaults); routing of the code equals documented routing on that denotation; delivery writes once to each selected member in order, nothing to others, and tells a LevelSettable member immediately before its Write. Correspondence: random (and in thorough tier exhaustive length<=3) op sequences as methods and New options over a 6-writer pool, probes at 10 severities incl. registered ones and the stdout/stderr fall-back observed through redirected file descriptors; direct oracle = denotation re-implemented in Go.",
         "Rocq/Coq refinement proof (induction over op sequences) + model/implementation correspondence (vm_compute)", "DESIGN.md §4 C03"),
 "C10": ("Tree model (loggers by creation index; name index per parent; every Entry field) with theorems for New lookup/creation with inheritance of level and format only, With* creating a child of the receiver, WithSkip(n) keeping one child per n (idempotence), Set* returning the receiver, ISOLATION of every other logger for one step and for any history (induction), well-formedness (parent older than child => acyclic) of every reachable world, Root parentless, Each = the subtree exactly once with depths, package New detached/coloured/at the default level. Correspondence: random histories of 1..40 operations over all With/Set/New forms incl. writers and the default logger; after every op a per-op oracle (lookup, inheritance, fresh child, isolation of all others), at the end Parent/Root/Each/Sublogger against the creation history, and the model is evaluated on the same history (all fields of all loggers compared).",
         "Rocq/Coq proof (invariants and isolation by induction over histories) + model/implementation correspondence (vm_compute)", "DESIGN.md §4 C10"),
 "C17": ("For every registry reachable from the tables regenerated from the source (their consistency is checked by computation) by ANY list of RegisterLevel calls: name, text and JSON round trips for every level (invariant preserved by registration, induction over the call list; JSON for any string codec with its own round trip), refusal of a used value/title with all tables unchanged, effects of a successful registration (title, treated-as gating, error-device routing, given short tags), ShortTag(n) length n for levels without custom tags and for the built-in tags. Correspondence: built-ins + random registration histories with colliding/negative/large values, titles of any case, all options; model registry evaluated on the same calls and compared per level (String, ShortTag 1..5, ParseLevel, treated-as, error device); direct oracle = the statement.",
         "Rocq/Coq proof (registry invariant by induction over registrations; tables regenerated from source) + model/implementation correspondence (vm_compute)", "DESIGN.md §4 C17"),
 "C18": ("Model of checkpath over bytes with the mapping table as a LIST in iteration order; theorems hold for every permutation of the table (Go's map order): no protected prefix in the result for a path under a key (hypotheses: absolute keys, non-empty relative replacements - their necessity is shown by refutation witnesses), the prefix is replaced by its short form only (not inner occurrences), paths under no key are returned unchanged or as the shorter relative path, totality (both slice expressions in range), flag-off identity, table add/remove semantics. Correspondence: random Add/Remove/Reset/flag scenarios, 12-20 paths each in every class, 40-50 repetitions to sample map orders, Safety/SafetyFiles/caller field agreement; every observed result must be among the model's results over all permutations; direct oracle = the statement (P1-P3).",
         "Rocq/Coq proof (quantified over all permutations of the mapping table) + model/implementation correspondence (vm_compute)", "DESIGN.md §4 C18"),
 "C11": ("Three-state machine for every list of mode calls, mutual-exclusion invariant over every reachable logger tree, getter/shape agreement, locality - proved in Coq about Model/Mode.v and Model/Tree.v; correspondence: exhaustive short call sequences + random histories on the real loggers, evaluated by vm_compute; direct oracle = the statement's machine.",
         "Rocq/Coq proof (induction over call lists and histories) + model/implementation correspondence (vm_compute)", "DESIGN.md §4 C11"),
}
PARTIAL = {}
checks = []
for pid in sorted(P):
    text, tech, ref = P[pid]
    checks.append({"property_id": pid, "quick_cmd": "./check %s --tier quick" % pid, "thorough_cmd": "./check %s --tier thorough" % pid,
                   "evidence_file": "evidence/%s.json" % pid, "replay_cmd_template": "./check %s --replay {path}" % pid,
                   "engine": "coq-model+harness", "level_claimed": {"category": "proof", "text": text, "design_ref": ref},
                   "level_note": NOTE + PARTIAL.get(pid, ""), "technique": tech})
m = {"version": 1, "setup_cmd": "./setup.sh",
     "hooks": {"guard": "verif", "enable": "go build -tags verif -overlay /verif/harness/overlay.json (adds //go:build verif files to package slog; nothing in /repo is edited for instrumentation)",
               "baseline_off_cmd": "/verif/baseline.sh", "source_commits": [], "add_only": True},
     "engines": [{"name": "coq-model+harness", "path": "check", "serves_properties": sorted(P),
                  "kind_free_text": "Coq 8.16.1 development (coq/), Go extractor (extract/), Go harness (harness/), python driver (check)"}],
     "checks": checks,
     "not_applicable": [{"property_id": "C%02d" % i, "reason": "check under construction in this session (will be claimed; not a limit of the technique)"}
                        for i in range(1, 21) if "C%02d" % i not in P],
     "notes": "Every check: ./check <ID> [--tier quick|thorough] [--replay FILE]; known findings in known_findings.txt; design in DESIGN.md."}
json.dump(m, open("MANIFEST.json", "w"), indent=1)
print("claimed:", sorted(P))
