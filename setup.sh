#!/bin/sh
# One-time setup after a fresh restore (offline): build the Coq development and warm the Go caches.
set -e
cd "$(dirname "$0")"
export GOFLAGS=-mod=mod GOPROXY=off GOSUMDB=off GOTOOLCHAIN=local GOWORK=off
mkdir -p run/bin evidence replays
if ls extract/*.go >/dev/null 2>&1; then
  (cd extract && go build -o ../run/bin/extract . && ../run/bin/extract -repo /repo -out ../coq/Gen)
fi
(cd coq && ./mkproject.sh && timeout 3000 make -j16)
cp /repo/go.sum harness/go.sum
(cd harness && CGO_ENABLED=0 go build -tags verif -overlay overlay.json -o ../run/bin/harness .)
echo setup done
