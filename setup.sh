#!/bin/sh
# One-time setup after a fresh restore (offline): build the Coq development and warm the Go caches.
set -e
cd "$(dirname "$0")"
export GOFLAGS=-mod=mod GOPROXY=off GOSUMDB=off GOTOOLCHAIN=local GOWORK=off
mkdir -p run/bin evidence replays
if ls extract/*.go >/dev/null 2>&1; then
  (cd extract && go build -o ../run/bin/extract . && ../run/bin/extract -repo /repo -out ../coq/Gen -status ../run/extract_status.json)
fi
(cd coq && ./mkproject.sh && timeout 3000 make -j16)
./check --build-only
echo setup done
