package main

// Capture of the process's stdout/stderr (the package default writers of logg
// hold os.Stdout/os.Stderr): fds 1 and 2 are redirected to files in the run
// directory; diagnostics of the harness go to the saved original stderr.

import (
	"os"
	"path/filepath"
	"syscall"
)

var diag = os.Stderr // replaced by a dup of the original stderr once captured
var capOut, capErr *os.File
var capOutOff, capErrOff int64

func captureStd(dir string) {
	if capOut != nil {
		return
	}
	must(os.MkdirAll(dir, 0o755))
	fd, err := syscall.Dup(2)
	must(err)
	diag = os.NewFile(uintptr(fd), "diag")
	capOut, err = os.Create(filepath.Join(dir, "stdout.cap"))
	must(err)
	capErr, err = os.Create(filepath.Join(dir, "stderr.cap"))
	must(err)
	must(syscall.Dup3(int(capOut.Fd()), 1, 0))
	must(syscall.Dup3(int(capErr.Fd()), 2, 0))
}

// stdDelta returns what was written to stdout / stderr since the last call.
func stdDelta() (out, errb []byte) {
	read := func(f *os.File, off *int64) []byte {
		st, err := f.Stat()
		if err != nil || st.Size() <= *off {
			return nil
		}
		b := make([]byte, st.Size()-*off)
		n, _ := f.ReadAt(b, *off)
		*off += int64(n)
		return b[:n]
	}
	return read(capOut, &capOutOff), read(capErr, &capErrOff)
}
