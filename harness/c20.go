package main

// C20: duration text helpers are total, invertible and agree with the standard
// parser.  Three-way differential: logg's formatter/parser (through the overlay
// exports), Go's time.ParseDuration, and the Coq model (Corr/C20.v).
//
// Direct oracles (independent of the model):
//   (a) the formatter does not panic, for every int64 and both styles;
//   (b) ParseDuration(format(d, style)) == d;
//   (c) time.ParseDuration accepts s  =>  logg accepts s with the same value;
//       logg accepts s and no unit token of s is "d"  =>  time.ParseDuration
//       accepts s with the same value (hence: same accept/reject decision on
//       every string that does not use the day unit).

import (
	"encoding/hex"
	"fmt"
	"math"
	"strings"
	"time"

	"github.com/hedzr/logg/slog"
)

func init() { drivers["C20"] = runC20; replayers["C20"] = replayC20 }

type c20Case struct {
	Kind  string `json:"kind"` // fmt | parse
	D     int64  `json:"d,omitempty"`
	Frac  bool   `json:"frac,omitempty"`
	Text  string `json:"text,omitempty"` // formatter output (fmt) / the string, quoted (parse)
	SHex  string `json:"s_hex,omitempty"`
	Logg  string `json:"logg,omitempty"`
	Std   string `json:"std,omitempty"`
	Class string `json:"class,omitempty"`
}

// ---- the implementation under recover ----

func c20Format(d int64, frac bool) (text string, panicked bool, pv any) {
	defer func() {
		if e := recover(); e != nil {
			panicked, pv = true, e
		}
	}()
	return slog.VerifShortDur(time.Duration(d), frac), false, nil
}

func c20ParseLogg(s string) (d int64, ok bool, panicked bool) {
	defer func() {
		if e := recover(); e != nil {
			panicked = true
		}
	}()
	v, err := slog.VerifParseDuration(s)
	return int64(v), err == nil, false
}

// length of the compact text as the statement describes it (used only to name
// the failure class of a panic, never as an oracle)
func c20CompactLen(d int64) int {
	u := uint64(d)
	n := 0
	if d < 0 {
		u = -u
		n = 1
	}
	if u < 1e9 {
		return 0
	}
	parts := []struct {
		unit uint64
		name int
	}{{86400e9, 1}, {3600e9, 1}, {60e9, 1}, {1e9, 1}, {1e6, 2}, {1e3, 3}, {1, 2}}
	for _, p := range parts {
		v := u / p.unit
		u %= p.unit
		if v > 0 {
			n += len(fmt.Sprint(v)) + p.name
		}
	}
	return n
}

func c20ResZ(v int64, ok bool) string {
	if ok {
		return "(Ok " + cZ(v) + ")"
	}
	return "Err"
}

func c20ResStr(v int64, ok bool) string {
	if ok {
		return fmt.Sprint(v)
	}
	return "error"
}

// usesDayUnit: some maximal run of bytes other than digits and '.', after the
// optional sign, is exactly "d"
func c20UsesDay(s string) bool {
	if s != "" && (s[0] == '-' || s[0] == '+') {
		s = s[1:]
	}
	tok := ""
	for i := 0; i <= len(s); i++ {
		if i == len(s) || s[i] == '.' || (s[i] >= '0' && s[i] <= '9') {
			if tok == "d" {
				return true
			}
			tok = ""
			continue
		}
		tok += s[i : i+1]
	}
	return false
}

// one duration, one style: oracles (a) and (b); coq=true also records a correspondence case
func c20Fmt(r *Run, d int64, frac bool, class string, coq bool) {
	text, panicked, pv := c20Format(d, frac)
	c := c20Case{Kind: "fmt", D: d, Frac: frac, Text: text, Class: class}
	style := "compact"
	if frac {
		style = "frac"
	}
	abs := uint64(d)
	if d < 0 {
		abs = -abs
	}
	nontrivial := abs >= 1e9
	canon := fmt.Sprintf("F|%d|%v", d, frac)
	obs := ""
	if panicked {
		key := "C20/format-panic-" + style
		if !frac && c20CompactLen(d) > 32 {
			key = "C20/compact-buffer-overflow"
		}
		r.Fail(key, fmt.Sprintf("SmartDurationStringEx(%d, %v) panics: %v", d, frac, pv), c)
		r.Dist["fmt:panic"]++
		obs = "Panic"
	} else {
		obs = "(Ok " + cStr(text) + ")"
		got, ok, pp := c20ParseLogg(text)
		switch {
		case pp:
			r.Fail("C20/parse-panic", fmt.Sprintf("ParseDuration(%q) panics", text), c)
		case !ok:
			r.Fail("C20/roundtrip-"+style+"-rejected", fmt.Sprintf("SmartDurationStringEx(%d, %v) = %q, which ParseDuration rejects", d, frac, text), c)
		case got != d:
			r.Fail("C20/roundtrip-"+style+"-value", fmt.Sprintf("SmartDurationStringEx(%d, %v) = %q, which ParseDuration reads as %d", d, frac, text, got), c)
		}
		switch {
		case abs < 1e9:
			r.Dist["fmt:sub-second"]++
		default:
			r.Dist["fmt:"+style]++
		}
		if strings.Contains(text, ".") {
			r.Dist["fmt:with-fraction"]++
		}
		if strings.Contains(text, "d") {
			r.Dist["fmt:with-day"]++
		}
	}
	r.Dist["dur:"+class]++
	if coq {
		r.AddCase(fmt.Sprintf("Fmt %s %s %s", cZ(d), cBool(frac), obs), c, nontrivial, canon)
	} else {
		r.Count(nontrivial, canon)
	}
}

// one string: oracle (c)
func c20Parse(r *Run, s string, class string, coq bool) {
	sv, serr := time.ParseDuration(s)
	sok := serr == nil
	lv, lok, pp := c20ParseLogg(s)
	c := c20Case{Kind: "parse", Text: fmt.Sprintf("%q", s), SHex: hex.EncodeToString([]byte(s)), Class: class,
		Logg: c20ResStr(lv, lok), Std: c20ResStr(int64(sv), sok)}
	day := c20UsesDay(s)
	lobs := c20ResZ(lv, lok)
	switch {
	case pp:
		r.Fail("C20/parse-panic", fmt.Sprintf("ParseDuration(%q) panics", s), c)
		lobs = "Panic"
	case sok && !lok:
		r.Fail("C20/parse-rejects-std-accepted", fmt.Sprintf("time.ParseDuration(%q) = %d but logg's ParseDuration rejects it", s, int64(sv)), c)
	case sok && lok && int64(sv) != lv:
		r.Fail("C20/parse-value-differs", fmt.Sprintf("time.ParseDuration(%q) = %d, logg's ParseDuration = %d", s, int64(sv), lv), c)
	case !sok && lok && !day:
		r.Fail("C20/parse-accepts-std-rejected", fmt.Sprintf("logg's ParseDuration(%q) = %d, time.ParseDuration rejects it and no unit of it is d", s, lv), c)
	}
	switch {
	case sok && lok:
		r.Dist["parse:both-accept"]++
	case !sok && !lok:
		r.Dist["parse:both-reject"]++
	case lok:
		r.Dist["parse:logg-only"]++
	default:
		r.Dist["parse:std-only"]++
	}
	if day {
		r.Dist["parse:uses-day-unit"]++
	}
	r.Dist["str:"+class]++
	if lok {
		r.Dist["str:"+class+":accepted-by-logg"]++
	}
	nontrivial := strings.Contains(s, ".")
	canon := "P|" + c.SHex
	if coq {
		r.AddCase(fmt.Sprintf("Parse %s %s %s", cStr(s), lobs, c20ResZ(int64(sv), sok)), c, nontrivial, canon)
	} else {
		r.Count(nontrivial, canon)
	}
}

// ---- generators ----

func c20SpecialDurations() []int64 {
	var ds []int64
	seen := map[int64]bool{}
	add := func(v int64) {
		if !seen[v] {
			seen[v] = true
			ds = append(ds, v)
		}
	}
	both := func(v int64) { add(v); add(-v) }
	add(0)
	both(1)
	units := []int64{1, 1e3, 1e6, 1e9, 60e9, 3600e9, 86400e9}
	for _, u := range units {
		for _, k := range []int64{1, 2, 9, 10, 23, 24, 59, 60, 99, 100, 999, 1000, 100000, 106751} {
			if u > math.MaxInt64/k {
				continue
			}
			both(u*k - 1)
			both(u * k)
			if u*k < math.MaxInt64 {
				both(u*k + 1)
			}
		}
	}
	p := int64(1)
	for k := 0; k <= 18; k++ {
		both(p - 1)
		both(p)
		both(p + 1)
		if k < 18 {
			p *= 10
		}
	}
	for k := uint(1); k < 63; k++ {
		both(int64(1)<<k - 1)
		both(int64(1) << k)
	}
	add(math.MaxInt64)
	add(math.MaxInt64 - 1)
	add(math.MinInt64)
	add(math.MinInt64 + 1)
	add(math.MinInt64 + 2)
	// longest texts: every part with its maximal number of digits
	long := int64(100000*86400e9 + 10*3600e9 + 10*60e9 + 10*1e9 + 100*1e6 + 100*1e3 + 100)
	both(long)
	both(long - 1)
	both(long + 1)
	both(106751*86400e9 + 23*3600e9 + 47*60e9 + 16*1e9 + 854*1e6 + 775*1e3 + 807)
	// zero parts inside (frac style prints 0m), fraction edge cases
	both(3600e9 + 5e9)
	both(3600e9)
	both(3600e9 + 1)
	both(86400e9 + 1)
	both(11e9 + 13e3)
	both(1e9 + 500e6)
	both(1500000)
	both(999999999)
	both(999999)
	both(1001)
	both(1000001)
	both(100000000)
	both(37 * 3600e9)
	return ds
}

func c20RandomDuration(rg *Rng) (int64, string) {
	switch rg.Intn(4) {
	case 0:
		return int64(rg.U64()), "random-uniform"
	case 1: // random magnitude: every bit length equally likely
		bits := uint(rg.Intn(64))
		v := rg.U64() >> (63 - bits)
		d := int64(v >> 1)
		if rg.Bool() {
			d = -d
		}
		return d, "random-log"
	case 2: // structured: parts with their full digit ranges, some zero
		lim := []uint64{106751, 24, 60, 60, 1000, 1000, 1000}
		unit := []uint64{86400e9, 3600e9, 60e9, 1e9, 1e6, 1e3, 1}
		var u uint64
		for i := range lim {
			if rg.Chance(45) {
				continue
			}
			u += uint64(rg.Intn(int(lim[i]))) * unit[i]
		}
		d := int64(u)
		if d < 0 {
			d = math.MaxInt64
		}
		if rg.Bool() {
			d = -d
		}
		return d, "structured-parts"
	default: // near the 33-byte region and the extremes
		d := int64(math.MaxInt64) - int64(rg.U64()%uint64(700*86400e9))
		if rg.Chance(70) {
			d = -d - int64(rg.Intn(2))
		}
		return d, "random-large"
	}
}

var c20Units = []string{"ns", "us", "µs", "μs", "ms", "s", "m", "h", "d"}
var c20BadUnits = []string{"x", "D", "sec", "dd", "hd", "ds", "S", "µ", "μ", "n", "u", "da", "md", "\xb5s", "e", "E", "-", "+", " ", "d "}

func c20Digits(rg *Rng, n int) string {
	var sb strings.Builder
	for i := 0; i < n; i++ {
		sb.WriteByte(byte('0' + rg.Intn(10)))
	}
	return sb.String()
}

var c20LongInts = []string{"9223372036854775807", "9223372036854775808", "9223372036854775809", "922337203685477580", "922337203685477581",
	"18446744073709551615", "18446744073709551616", "2562047", "2562048", "106751", "106752", "153722867", "153722868", "9223372036", "9223372037",
	"9223372036854", "9223372036855", "9223372036854775", "9223372036854776", "00000000000000000000001", "99999999999999999999"}

func c20IntPart(rg *Rng) string {
	switch c := rg.Intn(40); {
	case c < 4:
		return ""
	case c < 26:
		return c20Digits(rg, 1+rg.Intn(3))
	case c < 36:
		return c20Digits(rg, 4+rg.Intn(4))
	case c < 37:
		return c20Digits(rg, 8+rg.Intn(6))
	case c < 39:
		return c20LongInts[rg.Intn(len(c20LongInts))]
	default:
		return c20Digits(rg, 17+rg.Intn(6))
	}
}

func c20FracPart(rg *Rng) string {
	switch c := rg.Intn(20); {
	case c < 8:
		return ""
	case c < 9:
		return "."
	case c < 15:
		return "." + c20Digits(rg, 1+rg.Intn(9))
	case c < 17:
		return "." + c20Digits(rg, 10+rg.Intn(10))
	case c < 18:
		return "." + c20LongInts[rg.Intn(len(c20LongInts))]
	default:
		return "." + c20Digits(rg, 20+rg.Intn(12))
	}
}

// [-+]?([0-9]*(\.[0-9]*)?unit)+
func c20ValidString(rg *Rng) string {
	var sb strings.Builder
	switch rg.Intn(5) {
	case 0:
		sb.WriteByte('-')
	case 1:
		sb.WriteByte('+')
	}
	n := 1 + rg.Intn(4)
	if rg.Chance(10) {
		n = 5 + rg.Intn(4)
	}
	for i := 0; i < n; i++ {
		sb.WriteString(c20IntPart(rg))
		sb.WriteString(c20FracPart(rg))
		if rg.Chance(2) {
			sb.WriteString(c20BadUnits[rg.Intn(len(c20BadUnits))])
		} else {
			sb.WriteString(c20Units[rg.Intn(len(c20Units))])
		}
	}
	return sb.String()
}

const c20Alphabet = "0123456789+-.nsuµμmhd"

func c20Malformed(rg *Rng) string {
	switch rg.Intn(4) {
	case 0: // arbitrary bytes
		b := make([]byte, rg.Intn(12))
		for i := range b {
			b[i] = byte(rg.Intn(256))
		}
		return string(b)
	case 1: // bytes over the duration alphabet
		n := rg.Intn(14)
		var sb strings.Builder
		al := []rune(c20Alphabet)
		for i := 0; i < n; i++ {
			sb.WriteRune(al[rg.Intn(len(al))])
		}
		return sb.String()
	default: // a valid string with one or two byte edits
		b := []byte(c20ValidString(rg))
		for k := 1 + rg.Intn(2); k > 0 && len(b) > 0; k-- {
			i := rg.Intn(len(b))
			switch rg.Intn(3) {
			case 0:
				b = append(b[:i], b[i+1:]...)
			case 1:
				b[i] = c20Alphabet[rg.Intn(len(c20Alphabet))]
			default:
				b = append(b[:i], append([]byte{byte(rg.Intn(256))}, b[i:]...)...)
			}
		}
		return string(b)
	}
}

var c20FixedValid = []string{
	"0", "+0", "-0", "0s", "1ns", "1us", "1µs", "1μs", "1ms", "1s", "1m", "1h", "1d", "3d7s", "1d1h1m1s1ms1µs1ns", "-1d", "+1d",
	"1.5d", ".5d", "1.d", "0.000000000001d", "1h1d", "1d1d", "106751d", "106752d", "106751d23h47m16s854ms775µs807ns", "106751d23h47m16s854ms775µs808ns",
	"-106751d23h47m16s854ms775µs808ns", "-106751d23h47m16s854ms775µs809ns", "106751d23h47m16.854775807s", "106751d23h47m16.854775808s",
	"-106751d23h47m16.854775808s", "-106751d23h47m16.854775809s",
	"9223372036854775807ns", "9223372036854775808ns", "-9223372036854775808ns", "-9223372036854775809ns", "9223372036854775809ns",
	"2562047h47m16.854775807s", "2562047h47m16.854775808s", "-2562047h47m16.854775808s", "-2562047h47m16.854775809s", "2562048h", "2562047.8h",
	"153722867m", "153722868m", "9223372036s", "9223372037s", "9223372036.854775807s", "9223372036.854775808s", "9223372036854ms", "9223372036855ms",
	"9223372036854775us", "9223372036854776us", "9223372036854775.807us", "9223372036854775.808us",
	"1.5ms", "999.999µs", "999.999999ms", "1.000000001s", "0.999999999s", "1.5h", "1.25m", "0.1s", "0.3s", "0.7s", "1.1h", "0.0000000000001h",
	"1.00000000000000000001s", "0.9223372036854775807s", "0.9223372036854775808s", "0.9223372036854775809s", "0.92233720368547758079s",
	"0.18446744073709551616h", "1.99999999999999999999999h", "0.33333333333333333333h", "0.1d", "0.33333333333333333333d", "2.7d",
	"1h0m5s", "1h0m0s", "0h0m0s", "0d", "0.0s", "00s", "0.s", ".0s", "1.s", ".1s", "1s1s", "1ns1ns", "5m5h", "1s2m3h4d",
	"4611686018427387904ns4611686018427387904ns", "4611686018427387904ns4611686018427387903ns", "-4611686018427387904ns4611686018427387904ns",
	"9223372036854775808ns0ns", "0ns9223372036854775808ns", "1h1h1h1h",
	// three and more terms whose exact sum passes 2^64 (the running sum must be checked term by term)
	"9223372036854775807ns9223372036854775807ns5ns", "2562047h2562047h2562047h", "106751d106751d106751d", "9223372036854775807ns9223372036854775807ns2ns",
	// one component worth between 2^63 and 2^64 ns in a unit other than ns (the product must be checked, not only the sum)
	"35m5124095h", "5124095.9h", "18446744073.8s", "42h213503d", "5124095h", "213503d", "18446744073s", "1ns5124094h", "307445734561m", "18446744073709ms1ms", "18446744073709551µs",
	// a part whose integer portion fits while integer + fraction does not, after earlier parts that fill the sum
	"9223372036854775808ns2562047.9h", "9223372036854775807ns2562047.99999h", "2562047h2562047.9h2562047.9h", "0ns2562047.9h", "1ns9223372036854775807.9ns", "9223372036854775807.9ns",
	"2562047h2562047h2562047h2562047h1h", "-9223372036854775807ns9223372036854775807ns9223372036854775807ns", "4611686018427387904ns4611686018427387904ns4611686018427387904ns4611686018427387904ns1ns", "100000d10h10m10s100ms100µs100ns", "-100000d10h10m10s100ms100µs100ns",
}

var c20FixedMalformed = []string{
	"1\u00bcs", "3h7\u03b5s", "1\u00b5", "1\u03bc", "2\u00b5\u00b5s", "1\u00c2s", "1\xc2s", "1\xb5s", "1\xce\xb5s", "1\xc2\xbcs",
	"", "+", "-", "--1s", "+-1s", "-+1s", "++1s", ".", "..", ".s", "-.s", "+.s", "1", "-1", "1.", "1.5", "s", "d", "-d", "1..s", "1.2.3s", "1s.", "1s1",
	"1d1", "1 s", " 1s", "1s ", "1e3s", "1E3s", "0x10s", "1_000s", "١s", "1ｓ", "1S", "1D", "1day", "1dd", "1hd", "1ds", "1sd", "1µ", "1μ", "1\xb5s",
	"1\xc2s", "1\xc2\xb5", "1\xce\xbcs", "1\xce\xbc", "\x00", "1\x00s", "1s\x00", "0 ", " 0", "00", "0.0", "+0s-", "1s-1s", "1s+1s", "1h-5m", "1d-1d",
	"9223372036854775808", "99999999999999999999s", "99999999999999999999d", "1.99999999999999999999", "3000000h", "200000d", "-200000d", "\xff\xfe", "d1", "d1s", "1d d",
}

func runC20(r *Run) {
	r.Coq("Require Import Verif.Model.Base Verif.Model.Dur Verif.Corr.C20.", "case", "ok")
	r.Rule = "durations: 0, +-1ns, every unit boundary (ns, us, ms, s, m, h, d) and power of ten and of two +-1, MinInt64/MaxInt64 and neighbours, the 33-byte texts, then random int64 (uniform, random bit length, structured parts with zero parts, near the extremes), each in the compact and the fractional style; strings: fixed edge cases (overflow guards, fractions with > 19 digits, day unit), a mostly-valid stream from [-+]?([0-9]*(.[0-9]*)?unit)+ with units incl. d, us and both micro signs, and a malformed stream (arbitrary bytes, alphabet soup, byte edits of valid strings), plus the formatter's own outputs; non-trivial = |d| >= 1s or a string with a fraction; distinct by (d, style) resp. the bytes of the string"
	r.ShardSize = 500
	// ---- durations ----
	nspecial := 0
	for _, d := range c20SpecialDurations() {
		for _, frac := range []bool{false, true} {
			c20Fmt(r, d, frac, "special", true)
			nspecial++
		}
	}
	nrand := r.N(2000, 200000)
	ncoq := r.N(2000, 10000) // random durations that are also evaluated by the model; the rest is oracle-only
	var outputs []string
	for i := 0; i < nrand; i++ {
		d, class := c20RandomDuration(r.R)
		for _, frac := range []bool{false, true} {
			c20Fmt(r, d, frac, class, i < ncoq)
		}
		if i < 200 {
			if t, p, _ := c20Format(d, i%2 == 0); !p {
				outputs = append(outputs, t)
			}
		}
	}
	// ---- strings ----
	for _, s := range c20FixedValid {
		c20Parse(r, s, "fixed-valid-grammar", true)
	}
	for _, s := range c20FixedMalformed {
		c20Parse(r, s, "fixed-malformed", true)
	}
	for _, s := range outputs {
		c20Parse(r, s, "formatter-output", true)
	}
	nvalid, nmal := r.N(1500, 150000), r.N(700, 60000)
	cvalid, cmal := r.N(1500, 8000), r.N(700, 4000)
	for i := 0; i < nvalid; i++ {
		c20Parse(r, c20ValidString(r.R), "mostly-valid", i < cvalid)
	}
	for i := 0; i < nmal; i++ {
		c20Parse(r, c20Malformed(r.R), "malformed", i < cmal)
	}
	r.Extra["special_durations_x_styles"] = nspecial
	r.Extra["random_durations"] = nrand
	r.Extra["random_durations_in_model_cases"] = ncoq
	r.Extra["strings_valid_stream"] = nvalid
	r.Extra["strings_malformed_stream"] = nmal
}

func replayC20(r *Run, file string) {
	var c c20Case
	loadReplay(file, &c)
	r.Coq("Require Import Verif.Model.Base Verif.Model.Dur Verif.Corr.C20.", "case", "ok")
	switch c.Kind {
	case "fmt":
		c20Fmt(r, c.D, c.Frac, "replay", true)
	case "parse":
		b, err := hex.DecodeString(c.SHex)
		must(err)
		c20Parse(r, string(b), "replay", true)
	default:
		fmt.Println("REPLAY: unknown case kind", c.Kind)
	}
	finishReplay(r)
}
