package main

// C15: the log/slog handler (NewSlogHandler, Enabled, Handle, WithAttrs,
// WithGroup), Entry.Log and the std-log bridge (NewLogLogger) preserve
// content, severity and gating.
//
// Direct oracle = the statement, written here without the model: what a
// record carries is compared with what the underlying logger wrote (recording
// writers, JSON mode, decoded by a tolerant scanner - logg's JSON is not valid
// JSON for every value kind, which is property C04's business).

import (
	"context"
	"encoding/json"
	"errors"
	"fmt"
	"log"
	logslog "log/slog"
	"math"
	"math/big"
	"reflect"
	"strconv"
	"strings"
	"syscall"
	"time"
	"unicode/utf8"

	"github.com/hedzr/is"
	"github.com/hedzr/logg/slog"
)

func init() { drivers["C15"] = runC15; replayers["C15"] = replayC15 }

const c15Header = "Require Import Verif.Model.Base Verif.Model.Level Verif.Model.Mode Verif.Model.Adapters Verif.Corr.C15."

// ---------------------------------------------------------------- source trees

// sv is a log/slog value as the handler sees it (read back from the real Value).
type sv struct {
	K     string `json:"k"` // bool time dur float int str uint group valuer any
	B     bool   `json:"b,omitempty"`
	I     int64  `json:"i,omitempty"` // int / dur (ns) / any (pool id)
	U     uint64 `json:"u,omitempty"`
	F     uint64 `json:"f,omitempty"` // float64 bits
	S     []byte `json:"s,omitempty"`
	Sec   int64  `json:"sec,omitempty"` // time: unix seconds, nanoseconds, zone offset (minutes)
	Nsec  int64  `json:"nsec,omitempty"`
	Zone  int    `json:"zone,omitempty"`
	Items []sa   `json:"items,omitempty"`
	V     *sv    `json:"v,omitempty"`
}
type sa struct {
	Key string `json:"key"`
	Val sv     `json:"val"`
}

type c15Valuer struct{ v logslog.Value }

func (x c15Valuer) LogValue() logslog.Value { return x.v }

type c15Struct struct {
	A int
	B string
}

var c15Err = errors.New("boom")
var c15Ptr = &c15Struct{7, "p"}

// values that stay KindAny
var c15AnyPool = []any{c15Struct{3, "x"}, map[string]int{"a": 1}, nil, c15Err, []int{1, 2}, c15Ptr, [2]bool{true, false}}

func mkTime(sec, nsec int64, zone int) time.Time {
	t := time.Unix(sec, nsec)
	if zone == 0 {
		return t.UTC()
	}
	return t.In(time.FixedZone("z", zone*60))
}

func timeID(t time.Time) *big.Int {
	x := new(big.Int).Mul(big.NewInt(t.Unix()), big.NewInt(1000000000))
	return x.Add(x, big.NewInt(int64(t.Nanosecond())))
}

func (v sv) toSlog() logslog.Value {
	switch v.K {
	case "bool":
		return logslog.BoolValue(v.B)
	case "time":
		return logslog.TimeValue(mkTime(v.Sec, v.Nsec, v.Zone))
	case "dur":
		return logslog.DurationValue(time.Duration(v.I))
	case "float":
		return logslog.Float64Value(math.Float64frombits(v.F))
	case "int":
		return logslog.Int64Value(v.I)
	case "str":
		return logslog.StringValue(string(v.S))
	case "uint":
		return logslog.Uint64Value(v.U)
	case "group":
		var as []logslog.Attr
		for _, it := range v.Items {
			as = append(as, logslog.Attr{Key: it.Key, Value: it.Val.toSlog()})
		}
		return logslog.GroupValue(as...)
	case "valuer":
		return logslog.AnyValue(c15Valuer{v.V.toSlog()})
	case "any":
		return logslog.AnyValue(c15AnyPool[v.I])
	}
	panic("bad sv kind " + v.K)
}

func anyID(x any) int64 {
	for i, p := range c15AnyPool {
		if p == nil || x == nil {
			if p == nil && x == nil {
				return int64(i)
			}
			continue
		}
		if reflect.TypeOf(p) == reflect.TypeOf(x) && reflect.DeepEqual(p, x) {
			if reflect.TypeOf(p).Kind() == reflect.Ptr && p != x {
				continue
			}
			return int64(i)
		}
	}
	return -1
}

// readBack describes a real log/slog value (log/slog itself drops empty groups
// on the way in, so the source tree is what the handler is handed).
func readBack(v logslog.Value) sv {
	switch v.Kind() {
	case logslog.KindBool:
		return sv{K: "bool", B: v.Bool()}
	case logslog.KindTime:
		t := v.Time()
		_, off := t.Zone()
		return sv{K: "time", Sec: t.Unix(), Nsec: int64(t.Nanosecond()), Zone: off / 60}
	case logslog.KindDuration:
		return sv{K: "dur", I: int64(v.Duration())}
	case logslog.KindFloat64:
		return sv{K: "float", F: math.Float64bits(v.Float64())}
	case logslog.KindInt64:
		return sv{K: "int", I: v.Int64()}
	case logslog.KindString:
		return sv{K: "str", S: []byte(v.String())}
	case logslog.KindUint64:
		return sv{K: "uint", U: v.Uint64()}
	case logslog.KindGroup:
		out := sv{K: "group"}
		for _, a := range v.Group() {
			out.Items = append(out.Items, sa{a.Key, readBack(a.Value)})
		}
		return out
	case logslog.KindLogValuer:
		inner := readBack(v.LogValuer().LogValue())
		return sv{K: "valuer", V: &inner}
	default:
		return sv{K: "any", I: anyID(v.Any())}
	}
}

func readBackAttrs(as []logslog.Attr) []sa {
	out := []sa{}
	for _, a := range as {
		out = append(out, sa{a.Key, readBack(a.Value)})
	}
	return out
}

func toSlogAttrs(as []sa) []logslog.Attr {
	var out []logslog.Attr
	for _, a := range as {
		out = append(out, logslog.Attr{Key: a.Key, Value: a.Val.toSlog()})
	}
	return out
}

func (v sv) coq() string {
	switch v.K {
	case "bool":
		return "(SBool " + cBool(v.B) + ")"
	case "time":
		id := timeID(mkTime(v.Sec, v.Nsec, v.Zone))
		return "(STime " + cBig(id) + ")"
	case "dur":
		return "(SDuration " + cZ(v.I) + ")"
	case "float":
		return "(SFloat " + new(big.Int).SetUint64(v.F).String() + ")"
	case "int":
		return "(SInt " + cZ(v.I) + ")"
	case "str":
		return "(SString " + cBytes(v.S) + ")"
	case "uint":
		return "(SUint " + new(big.Int).SetUint64(v.U).String() + ")"
	case "group":
		return "(SGroup " + saCoq(v.Items) + ")"
	case "valuer":
		return "(SValuer " + v.V.coq() + ")"
	}
	return "(SAny " + cZ(v.I) + ")"
}
func saCoq(as []sa) string {
	var it []string
	for _, a := range as {
		it = append(it, "("+cStr(a.Key)+", "+a.Val.coq()+")")
	}
	return cList(it)
}
func cBig(x *big.Int) string {
	if x.Sign() < 0 {
		return "(" + x.String() + ")"
	}
	return x.String()
}

// resolve looks through LogValuers (what "resolved" means in the statement)
func (v sv) resolve() sv {
	for v.K == "valuer" {
		v = *v.V
	}
	if v.K == "group" {
		out := sv{K: "group"}
		for _, it := range v.Items {
			out.Items = append(out.Items, sa{it.Key, it.Val.resolve()})
		}
		return out
	}
	return v
}
func resolveAttrs(as []sa) []sa {
	out := []sa{}
	for _, a := range as {
		out = append(out, sa{a.Key, a.Val.resolve()})
	}
	return out
}

func (v sv) depth() int {
	switch v.K {
	case "valuer":
		return v.V.depth()
	case "group":
		d := 0
		for _, it := range v.Items {
			if x := it.Val.depth(); x > d {
				d = x
			}
		}
		return d + 1
	}
	return 0
}

// ---- generator: keys are letter(depth) + a counter, so siblings never collide
type c15Gen struct {
	r     *Rng
	ctr   int
	noObj bool // no Any value that JSON mode writes as an object (an error): it would read back as a group
}

func (g *c15Gen) key(depth int) string {
	g.ctr++
	return fmt.Sprintf("%c%d", 'a'+depth, g.ctr)
}

var c15Strs = []string{"", "v", "x y", "plain-ascii_09", "q\"uote", "back\\slash", "comma,brace}", "é-utf8", "nl\nin", "\xff\xfeinvalid", "tab\tin", "<nil>"}

func (g *c15Gen) leaf() sv {
	r := g.r
	switch r.Intn(9) {
	case 0:
		return sv{K: "bool", B: r.Bool()}
	case 1:
		zones := []int{0, 0, 60, -330, 825}
		return sv{K: "time", Sec: int64(r.Intn(4000000000)) - 1000000000, Nsec: []int64{0, 1, 999999999, 123456789, 500000000}[r.Intn(5)], Zone: zones[r.Intn(len(zones))]}
	case 2:
		return sv{K: "dur", I: []int64{0, 1, 1500, int64(time.Second), int64(90 * time.Minute), -int64(time.Millisecond), math.MaxInt64, math.MinInt64}[r.Intn(8)]}
	case 3:
		fs := []float64{0, 1.5, -2.25, 1e21, 1e-7, math.Inf(1), math.NaN(), math.Copysign(0, -1), 3}
		return sv{K: "float", F: math.Float64bits(fs[r.Intn(len(fs))])}
	case 4:
		return sv{K: "int", I: []int64{0, 1, -1, 42, math.MaxInt64, math.MinInt64, int64(r.Intn(100000))}[r.Intn(7)]}
	case 5:
		return sv{K: "str", S: []byte(c15Strs[r.Intn(len(c15Strs))])}
	case 6:
		return sv{K: "uint", U: []uint64{0, 7, math.MaxUint64, 1 << 63, uint64(r.Intn(100000))}[r.Intn(5)]}
	case 7:
		id := int64(r.Intn(len(c15AnyPool)))
		if g.noObj && id == 3 {
			id = 2
		}
		return sv{K: "any", I: id}
	}
	return sv{K: "str", S: []byte(fmt.Sprintf("s%d", r.Intn(1000)))}
}

// val generates a value whose own members live at depth d+1
func (g *c15Gen) val(d, maxDepth int) sv {
	r := g.r
	c := r.Intn(100)
	switch {
	case c < 22 && d < maxDepth: // group
		n := []int{0, 1, 1, 2, 2, 3, 4}[r.Intn(7)]
		out := sv{K: "group"}
		for i := 0; i < n; i++ {
			out.Items = append(out.Items, sa{g.key(d + 1), g.val(d+1, maxDepth)})
		}
		return out
	case c < 34: // LogValuer, possibly nested, possibly resolving to a group
		inner := g.val(d, maxDepth)
		return sv{K: "valuer", V: &inner}
	}
	return g.leaf()
}

func (g *c15Gen) attrs(d, maxDepth, maxN int) []sa {
	n := g.r.Intn(maxN + 1)
	out := []sa{}
	for i := 0; i < n; i++ {
		out = append(out, sa{g.key(d), g.val(d, maxDepth)})
	}
	if maxDepth-d >= 2 && g.r.Chance(35) { // make sure deep nesting occurs: a chain of groups down to maxDepth
		out = append(out, sa{g.key(d), g.chain(d, maxDepth)})
	}
	return out
}

// chain: groups nested down to maxDepth, each with a few other members, some reached through a LogValuer
func (g *c15Gen) chain(d, maxDepth int) sv {
	if d >= maxDepth {
		return g.leaf()
	}
	out := sv{K: "group"}
	for i := g.r.Intn(3); i > 0; i-- {
		out.Items = append(out.Items, sa{g.key(d + 1), g.leaf()})
	}
	out.Items = append(out.Items, sa{g.key(d + 1), g.chain(d+1, maxDepth)})
	if g.r.Chance(30) {
		return sv{K: "valuer", V: &out}
	}
	return out
}

// ---------------------------------------------------------------- observed logg trees
type la struct {
	Key   string `json:"key"`
	K     string `json:"k"`
	B     bool   `json:"b,omitempty"`
	I     int64  `json:"i,omitempty"`
	U     uint64 `json:"u,omitempty"`
	F     uint64 `json:"f,omitempty"`
	S     []byte `json:"s,omitempty"`
	T     string `json:"t,omitempty"` // time id, decimal
	Items []la   `json:"items,omitempty"`
	Nils  int    `json:"nils,omitempty"` // nil place holders skipped among the members
}

func walkAttr(a slog.Attr) la {
	out := la{Key: a.Key()}
	switch x := a.Value().(type) {
	case slog.Attrs:
		out.K = "group"
		for _, m := range x {
			if m == nil || (reflect.ValueOf(m).Kind() == reflect.Ptr && reflect.ValueOf(m).IsNil()) {
				out.Nils++
				continue
			}
			out.Items = append(out.Items, walkAttr(m))
		}
	case bool:
		out.K, out.B = "bool", x
	case time.Time:
		out.K, out.T = "time", timeID(x).String()
	case time.Duration:
		out.K, out.I = "dur", int64(x)
	case float64:
		out.K, out.F = "float", math.Float64bits(x)
	case int64:
		out.K, out.I = "int", x
	case string:
		out.K, out.S = "str", []byte(x)
	case uint64:
		out.K, out.U = "uint", x
	default:
		out.K, out.I = "any", anyID(x)
	}
	return out
}

func (a la) coqVal() string {
	switch a.K {
	case "bool":
		return "(LBool " + cBool(a.B) + ")"
	case "time":
		if strings.HasPrefix(a.T, "-") {
			return "(LTime (" + a.T + "))"
		}
		return "(LTime " + a.T + ")"
	case "dur":
		return "(LDuration " + cZ(a.I) + ")"
	case "float":
		return "(LFloat " + new(big.Int).SetUint64(a.F).String() + ")"
	case "int":
		return "(LInt " + cZ(a.I) + ")"
	case "str":
		return "(LString " + cBytes(a.S) + ")"
	case "uint":
		return "(LUint " + new(big.Int).SetUint64(a.U).String() + ")"
	case "group":
		return "(LGroup " + laCoq(a.Items) + ")"
	}
	return "(LAny " + cZ(a.I) + ")"
}
func laCoq(as []la) string {
	var it []string
	for _, a := range as {
		it = append(it, "("+cStr(a.Key)+", "+a.coqVal()+")")
	}
	return cList(it)
}

// sameTree: the statement's "all its attributes (every value kind, groups
// nested, LogValuers resolved)" for one attribute
func sameTree(key string, s sv, o la) string {
	s = s.resolve()
	if key != o.Key {
		return fmt.Sprintf("key %q became %q", key, o.Key)
	}
	if s.K != o.K {
		return fmt.Sprintf("attribute %q of kind %s became kind %s", key, s.K, o.K)
	}
	switch s.K {
	case "bool":
		if s.B != o.B {
			return "bool value of " + key
		}
	case "time":
		if timeID(mkTime(s.Sec, s.Nsec, s.Zone)).String() != o.T {
			return "time value of " + key
		}
	case "dur", "int":
		if s.I != o.I {
			return "integer value of " + key
		}
	case "any":
		if s.I != o.I || o.I < 0 {
			return "Any value of " + key
		}
	case "float":
		if s.F != o.F {
			return "float value of " + key
		}
	case "str":
		if string(s.S) != string(o.S) {
			return "string value of " + key
		}
	case "uint":
		if s.U != o.U {
			return "uint value of " + key
		}
	case "group":
		if len(s.Items) != len(o.Items) {
			return fmt.Sprintf("group %q has %d members instead of %d", key, len(o.Items), len(s.Items))
		}
		for i := range s.Items {
			if d := sameTree(s.Items[i].Key, s.Items[i].Val, o.Items[i]); d != "" {
				return d
			}
		}
	}
	return ""
}

// ---------------------------------------------------------------- decoding an emitted record
// c15node is one member of a decoded JSON record, in the order of the text; a JSON object is a group
type c15node struct {
	Key   string    `json:"key"`
	Group bool      `json:"group,omitempty"`
	Raw   string    `json:"raw,omitempty"`
	Items []c15node `json:"items,omitempty"`
}

func decodeMembers(raw []byte) ([]c15node, error) {
	dec := json.NewDecoder(strings.NewReader(string(raw)))
	t, err := dec.Token()
	if err != nil {
		return nil, err
	}
	if d, ok := t.(json.Delim); !ok || d != '{' {
		return nil, fmt.Errorf("not an object")
	}
	out := []c15node{}
	for dec.More() {
		kt, err := dec.Token()
		if err != nil {
			return out, err
		}
		key, ok := kt.(string)
		if !ok {
			return out, fmt.Errorf("key expected")
		}
		var v json.RawMessage
		if err := dec.Decode(&v); err != nil {
			return out, err
		}
		n := c15node{Key: key, Raw: string(v)}
		if len(v) > 0 && v[0] == '{' {
			n.Group = true
			if n.Items, err = decodeMembers(v); err != nil {
				return out, err
			}
			n.Raw = ""
		}
		out = append(out, n)
	}
	if _, err := dec.Token(); err != nil {
		return out, err
	}
	if dec.More() {
		return out, fmt.Errorf("text after the record")
	}
	return out, nil
}

// what a JSON text can keep of a byte string: invalid UTF-8 becomes U+FFFD (per byte or per run)
func sameText(want []byte, got string) bool {
	if string(want) == got {
		return true
	}
	var sb strings.Builder
	for i := 0; i < len(want); {
		r, n := utf8.DecodeRune(want[i:])
		if r == utf8.RuneError && n == 1 {
			sb.WriteRune(utf8.RuneError)
		} else {
			sb.Write(want[i : i+n])
		}
		i += n
	}
	return sb.String() == got || strings.ToValidUTF8(string(want), "\uFFFD") == got
}

type emission struct {
	Dest    int       `json:"dest"`  // 1 = the logger's own writers, 0 = the package default writers
	Shape   string    `json:"shape"` // Blank ShJSON ShLogfmt ShColor ?
	Level   int       `json:"level"` // -99 unknown
	Time    string    `json:"time,omitempty"`
	Msg     string    `json:"msg"`
	MsgOK   bool      `json:"msg_ok"`
	Attrs   []c15node `json:"attrs"`
	Caller  bool      `json:"caller"`
	Payload []byte    `json:"payload,omitempty"`
}

func levelByName(name string) int {
	for _, l := range slog.AllLevels() {
		if l.String() == name {
			return int(l)
		}
	}
	return -99
}

func decodeEmission(dest int, p []byte) emission {
	e := emission{Dest: dest, Level: -99, Attrs: []c15node{}}
	if string(p) == "\n" {
		e.Shape = "Blank"
		return e
	}
	e.Shape = shapeOf(p)
	if len(p) > 600 {
		e.Payload = append([]byte(nil), p[:600]...)
	} else {
		e.Payload = append([]byte(nil), p...)
	}
	if e.Shape != "ShJSON" {
		return e
	}
	if len(p) == 0 || p[len(p)-1] != '\n' || strings.Count(string(p), "\n") != 1 {
		e.Shape = "?"
		return e
	}
	ms, err := decodeMembers(p)
	if err != nil {
		e.Shape = "?"
		return e
	}
	str := func(raw string) (string, bool) {
		var s string
		err := json.Unmarshal([]byte(raw), &s)
		return s, err == nil
	}
	attrs := false
	for i, m := range ms {
		if !attrs && !m.Group {
			switch m.Key {
			case "time":
				e.Time, _ = str(m.Raw)
				continue
			case "logger":
				continue
			case "level":
				if s, ok := str(m.Raw); ok {
					e.Level = levelByName(s)
				}
				continue
			case "msg":
				e.Msg, e.MsgOK = str(m.Raw)
				attrs = true
				continue
			}
		}
		if m.Key == "caller" && m.Group && i == len(ms)-1 {
			e.Caller = true
			continue
		}
		e.Attrs = append(e.Attrs, m)
	}
	return e
}

// collect turns what the recording writers and the redirected stdout/stderr got into emissions
func collectEmissions() []emission {
	out := []emission{}
	for _, ev := range events {
		if ev.Kind == "write" {
			out = append(out, decodeEmission(1, ev.Payload))
		}
	}
	so, se := stdDelta()
	for _, b := range [][]byte{so, se} {
		if len(b) > 0 {
			out = append(out, decodeEmission(0, b)) // writes to a file cannot be counted: any output = one emission
		}
	}
	events = nil
	return out
}

// attrsDiff compares what was to be written (source trees, LogValuers resolved)
// with the members of the decoded record, by key at every level of nesting
func attrsDiff(want []sa, got []c15node, path string) string {
	idx := map[string]*c15node{}
	for i := range got {
		if _, dup := idx[got[i].Key]; dup {
			return fmt.Sprintf("key %q occurs twice", path+got[i].Key)
		}
		idx[got[i].Key] = &got[i]
	}
	for _, a := range want {
		g, ok := idx[a.Key]
		if !ok {
			return fmt.Sprintf("attribute %q is missing from the record", path+a.Key)
		}
		delete(idx, a.Key)
		v := a.Val.resolve()
		if v.K == "group" {
			if !g.Group {
				return fmt.Sprintf("group %q was written as the value %s", path+a.Key, g.Raw)
			}
			if d := attrsDiff(v.Items, g.Items, path+a.Key+"."); d != "" {
				return d
			}
			continue
		}
		if g.Group && v.K != "any" {
			return fmt.Sprintf("attribute %q of kind %s was written as a group", path+a.Key, v.K)
		}
		bad := func(want string) string {
			return fmt.Sprintf("attribute %q carries %s instead of %s", path+a.Key, g.Raw, want)
		}
		switch v.K { // the renderings that can be compared as text without fixing a number format
		case "int":
			if g.Raw != strconv.FormatInt(v.I, 10) {
				return bad(strconv.FormatInt(v.I, 10))
			}
		case "bool":
			if g.Raw != strconv.FormatBool(v.B) {
				return bad(strconv.FormatBool(v.B))
			}
		case "uint":
			if g.Raw != strconv.FormatUint(v.U, 10) && g.Raw != `"`+strconv.FormatUint(v.U, 10)+`"` {
				return bad(strconv.FormatUint(v.U, 10))
			}
		case "str":
			var s string
			if json.Unmarshal([]byte(g.Raw), &s) != nil || !sameText(v.S, s) {
				return bad(fmt.Sprintf("%q", v.S))
			}
		case "time":
			var s string
			if json.Unmarshal([]byte(g.Raw), &s) == nil {
				if t, err := time.Parse(time.RFC3339Nano, s); err == nil && !t.Equal(mkTime(v.Sec, v.Nsec, v.Zone)) {
					return bad(mkTime(v.Sec, v.Nsec, v.Zone).UTC().Format(time.RFC3339Nano))
				}
			}
		}
	}
	for k := range idx {
		return fmt.Sprintf("unexpected key %q in the record", path+k)
	}
	return ""
}

func jnodesCoq(ns []c15node) string {
	var it []string
	for _, n := range ns {
		if n.Group {
			it = append(it, "OGroup "+cStr(n.Key)+" "+jnodesCoq(n.Items))
		} else {
			it = append(it, "OLeaf "+cStr(n.Key))
		}
	}
	return cList(it)
}

// ---------------------------------------------------------------- cases
type c15Deriv struct {
	Attrs []sa    `json:"attrs,omitempty"`
	Group *string `json:"group,omitempty"`
}

type c15Case struct {
	Kind string `json:"kind"` // conv back enabled tree log bridge handle
	// levels
	Z   int64 `json:"z,omitempty"`
	L   int   `json:"logger_level,omitempty"`
	Dbg bool  `json:"debug,omitempty"`
	Sev int   `json:"bridge_severity,omitempty"`
	// tree / handle
	Attrs []sa `json:"attrs,omitempty"`
	// bridge / log
	Msg      []byte `json:"msg,omitempty"`
	ViaPrint bool   `json:"via_print,omitempty"`
	// handle
	JSON0    bool       `json:"json0,omitempty"`
	Color0   bool       `json:"color0,omitempty"`
	DefLevel int        `json:"default_level,omitempty"`
	NilOpts  bool       `json:"nil_opts,omitempty"`
	NoColor  bool       `json:"nocolor,omitempty"`
	NoSource bool       `json:"nosource,omitempty"`
	JSON     bool       `json:"json,omitempty"`
	OptLevel int        `json:"opt_level,omitempty"`
	Ds       []c15Deriv `json:"derivations,omitempty"`
	Via      bool       `json:"via_slog_logger,omitempty"`
	Siblings bool       `json:"siblings,omitempty"` // after every derivation two more handlers are derived from the same parent and dropped
	Sec      int64      `json:"sec,omitempty"`
	Nsec     int64      `json:"nsec,omitempty"`
	Zone     int        `json:"zone,omitempty"`
	ZeroTime bool       `json:"zero_time,omitempty"`
	// observed
	Obs  any    `json:"observed,omitempty"`
	Note string `json:"note,omitempty"`
}

var c15Std = map[int64]int{-4: 5, 0: 4, 4: 3, 8: 2} // log/slog level -> namesake
var c15Listed = map[int64]bool{-4: true, 0: true, 4: true, 8: true, -16: true, -8: true, 2: true, 3: true, 16: true, 17: true}

func c15Prep(snap *slog.VerifRegistry) {
	resetProcess(snap)
	slog.AddFlags(slog.LnoInterrupt) // Entry.Log can reach Fatal: never leave the process
	stdDelta()
}

func c15Logger(L int) *slog.Entry {
	l := slog.VerifEntryOf(slog.New("c15"))
	l.SetWriter(pool[1]).SetErrorWriter(pool[2])
	l.SetTimeFormat(time.RFC3339Nano).SetUTCMode(true)
	l.SetLevel(slog.Level(L))
	return l
}

// ---- level conversions through the three functions
func c15Conv(r *Run, snap *slog.VerifRegistry, z int64) {
	c15Prep(snap)
	h := int(slog.VerifConvertLogSlogLevel(logslog.Level(z)))
	e := int(slog.VerifLogSlogLevel2Level(logslog.Level(z)))
	c := c15Case{Kind: "conv", Z: z, Obs: map[string]int{"handle": h, "entry_log": e}}
	if want, ok := c15Std[z]; ok {
		if h != want {
			r.Fail("C15/handler-level-namesake", fmt.Sprintf("the handler maps log/slog level %d to %v instead of its namesake %v", z, slog.Level(h), slog.Level(want)), c)
		}
		if e != want {
			r.Fail("C15/log-level-namesake", fmt.Sprintf("Entry.Log maps log/slog level %d to %v instead of its namesake %v", z, slog.Level(e), slog.Level(want)), c)
		}
	}
	if h == 0 || h == 1 {
		r.Fail("C15/handler-level-terminating", fmt.Sprintf("the handler maps log/slog level %d to the terminating severity %v", z, slog.Level(h)), c)
	}
	if (e == 1 && z != int64(slog.LevelFatal)) || (e == 0 && z != int64(slog.LevelPanic)) {
		key := "C15/log-level-terminating"
		if e == 1 && !c15Listed[z] {
			key = "C15/log-default-fatal"
		}
		r.Fail(key, fmt.Sprintf("Entry.Log maps log/slog level %d, which is not the explicit Fatal/Panic constant, to the terminating severity %v", z, slog.Level(e)), c)
	}
	r.Dist["conv"]++
	_, std := c15Std[z]
	r.AddCase(fmt.Sprintf("KConv %s %s %s", cZ(z), cZ(int64(h)), cZ(int64(e))), c, !std, fmt.Sprintf("conv %d", z))
}

func c15Back(r *Run, snap *slog.VerifRegistry, l int) {
	c15Prep(snap)
	s := int64(slog.VerifConvertLevelToLogSlog(slog.Level(l)))
	c := c15Case{Kind: "back", L: l, Obs: s}
	// the four namesakes go back to where they came from
	for z, lv := range c15Std {
		if lv == l && s != z {
			r.Fail("C15/reverse-level-namesake", fmt.Sprintf("%v is handed to log/slog as level %d instead of %d", slog.Level(l), s, z), c)
		}
	}
	r.Dist["back"]++
	r.AddCase(fmt.Sprintf("KBack %s %s", cZ(int64(l)), cZ(s)), c, false, fmt.Sprintf("back %d", l))
}

// ---- Enabled of a plain handler
func c15Enabled(r *Run, snap *slog.VerifRegistry, L int, dbg bool, zs []int64) {
	c15Prep(snap)
	l := c15Logger(L)
	is.SetDebugMode(dbg || L == 5)
	dbgNow := is.DebugMode()
	h := slog.NewSlogHandler(l, &slog.HandlerOptions{NoColor: true, JSON: true, NoSource: true})
	as := treatedAs()
	// history of the handler: it was asked before, while the process-wide debug mode was the OTHER way round (debug mode
	// changes without this logger being touched: another logger's SetLevel(Debug), the application's own switch)
	if L != 5 && len(zs) > 0 && (L+int(zs[0]))%2 == 0 {
		is.SetDebugMode(!dbgNow)
		for _, z := range zs {
			_ = h.Enabled(context.Background(), logslog.Level(z))
		}
		is.SetDebugMode(dbgNow)
	}
	for _, z := range zs {
		got := h.Enabled(context.Background(), logslog.Level(z))
		c := c15Case{Kind: "enabled", L: L, Dbg: dbgNow, Z: z, Obs: got}
		if lv, ok := c15Std[z]; ok {
			want := specAdmits(as, dbgNow, L, lv)
			if got != want || got != l.Enabled(slog.Level(lv)) {
				r.Fail("C15/enabled", fmt.Sprintf("handler.Enabled(%d) = %v on a logger at %v (debug mode %v) whose gating of %v is %v", z, got, slog.Level(L), dbgNow, slog.Level(lv), want), c)
			}
		}
		r.Dist["enabled"]++
		_, std := c15Std[z]
		r.AddCase(fmt.Sprintf("KEnabled %s %s %s %s", cZ(int64(L)), cBool(dbgNow), cZ(z), cBool(got)), c, !std, fmt.Sprintf("enabled %d %v %d", L, dbgNow, z))
	}
}

// ---- attribute conversion, structurally
func c15Tree(r *Run, snap *slog.VerifRegistry, attrs []sa, kind string) {
	c15Prep(snap)
	real := toSlogAttrs(attrs)
	src := readBackAttrs(real)
	c := c15Case{Kind: "tree", Attrs: src, Note: kind}
	var obs []la
	nils, maxDepth := 0, 0
	var countNils func(a la)
	countNils = func(a la) {
		nils += a.Nils
		for _, m := range a.Items {
			countNils(m)
		}
	}
	for i, a := range real {
		o := walkAttr(slog.VerifConvertAttr(a))
		obs = append(obs, o)
		countNils(o)
		if d := src[i].Val.depth(); d > maxDepth {
			maxDepth = d
		}
		if diff := sameTree(src[i].Key, src[i].Val, o); diff != "" {
			cc := c
			cc.Obs = obs
			r.Fail("C15/attributes", "convertAttrToField: "+diff, cc)
		}
	}
	c.Obs = obs
	r.Dist[fmt.Sprintf("tree_depth=%d", maxDepth)]++
	r.Dist["tree_nil_placeholders"] += nils
	r.AddCase(fmt.Sprintf("KTree %s %s", saCoq(src), laCoq(obs)), c, maxDepth >= 1, "tree "+saCoq(src))
}

// ---- Entry.Log
func c15Log(r *Run, snap *slog.VerifRegistry, L int, dbg bool, z int64, msg string) {
	c15Prep(snap)
	l := c15Logger(L)
	l.SetJSONMode(true)
	is.SetDebugMode(dbg || L == 5)
	dbgNow := is.DebugMode()
	events = nil
	l.Log(context.Background(), logslog.Level(z), msg)
	ems := collectEmissions()
	c := c15Case{Kind: "log", L: L, Dbg: dbgNow, Z: z, Msg: []byte(msg), Obs: ems}
	lvl := -99
	if len(ems) > 0 {
		lvl = ems[0].Level
	}
	if len(ems) > 1 {
		r.Fail("C15/log-count", fmt.Sprintf("Entry.Log(%d) wrote %d records", z, len(ems)), c)
	}
	if want, ok := c15Std[z]; ok {
		adm := specAdmits(treatedAs(), dbgNow, L, want)
		if adm != (len(ems) == 1) {
			r.Fail("C15/log-gating", fmt.Sprintf("Entry.Log(%d) on a logger at %v: written=%v, the logger's gating of %v says %v", z, slog.Level(L), len(ems) == 1, slog.Level(want), adm), c)
		} else if adm && lvl != want {
			r.Fail("C15/log-level-namesake", fmt.Sprintf("Entry.Log(%d) wrote a record at %v instead of %v", z, slog.Level(lvl), slog.Level(want)), c)
		}
	}
	if len(ems) == 1 && ((lvl == 1 && z != int64(slog.LevelFatal)) || (lvl == 0 && z != int64(slog.LevelPanic))) {
		key := "C15/log-level-terminating"
		if lvl == 1 && !c15Listed[z] {
			key = "C15/log-default-fatal"
		}
		r.Fail(key, fmt.Sprintf("Entry.Log with log/slog level %d wrote a record at the terminating severity %v (os.Exit/panic follow in a production process)", z, slog.Level(lvl)), c)
	}
	if len(ems) == 1 && ems[0].Shape == "ShJSON" && !sameText([]byte(msg), ems[0].Msg) {
		r.Fail("C15/message", fmt.Sprintf("Entry.Log: message %q written as %q", msg, ems[0].Msg), c)
	}
	r.Dist["log"]++
	_, std := c15Std[z]
	r.AddCase(fmt.Sprintf("KLog %s %s %s %s %s", cZ(int64(L)), cBool(dbgNow), cZ(z), cBool(len(ems) >= 1), cZ(int64(lvl))), c, !std,
		fmt.Sprintf("log %d %v %d", L, dbgNow, z))
}

// ---- the std-log bridge
func c15Bridge(r *Run, snap *slog.VerifRegistry, L, sev int, dbg bool, msg []byte, viaPrint bool) {
	c15Prep(snap)
	// half of the grid (a function of the cell): the bridge is made while the logger is at ANOTHER level,
	// the level under test is set afterwards - the bridge follows the logger, it does not remember
	late := (L+sev)%2 == 0
	l0 := L
	if late { // Off, Error or Trace at the time the bridge is made (whichever differs from the level under test, in turn)
		cands := []int{7, 2, 6}
		l0 = cands[(sev/2)%3]
		if l0 == L {
			l0 = cands[(sev/2+1)%3]
		}
	}
	l := c15Logger(l0)
	l.SetJSONMode(true)
	var lg *log.Logger
	if late {
		lg = slog.NewLogLogger(l, slog.Level(sev))
		l.SetLevel(slog.Level(L))
	}
	is.SetDebugMode(dbg || L == 5)
	dbgNow := is.DebugMode()
	if !late {
		lg = slog.NewLogLogger(l, slog.Level(sev))
	}
	// what log.Logger hands to its writer: the message, a line feed added unless it ends in one
	buf := append([]byte(nil), msg...)
	if len(buf) == 0 || buf[len(buf)-1] != '\n' {
		buf = append(buf, '\n')
	}
	want := buf[:len(buf)-1]
	events = nil
	var n int
	var err error
	if viaPrint {
		lg.Print(string(msg))
		n = -1
	} else {
		n, err = lg.Writer().Write(buf)
	}
	ems := collectEmissions()
	c := c15Case{Kind: "bridge", L: L, Sev: sev, Dbg: dbgNow, Msg: msg, ViaPrint: viaPrint,
		Obs: map[string]any{"n": n, "err": fmt.Sprint(err), "emissions": ems}}
	adm := specAdmits(treatedAs(), dbgNow, L, sev)
	written := len(ems) >= 1
	blankOK := sev == 8 && strings.Trim(string(want), "\n\r \t") == "" // Always + blank message: the blank line Print gives
	switch {
	case err != nil:
		r.Fail("C15/bridge-error", fmt.Sprintf("the bridge's Write returned %v", err), c)
	case len(ems) > 1:
		r.Fail("C15/bridge-count", fmt.Sprintf("one std-log message gave %d records", len(ems)), c)
	case adm != written:
		key := "C15/bridge-admission"
		if written == (sev >= L && sev != 7) {
			key = "C15/bridge-admission-inverted"
		}
		r.Fail(key, fmt.Sprintf("std log.Logger on a logger at %v with bridge severity %v (debug mode %v): record written=%v although the logger's gating says %v",
			slog.Level(L), slog.Level(sev), dbgNow, written, adm), c)
	case written && ems[0].Dest != 1:
		r.Fail("C15/bridge-destination", "the bridge wrote to the package default writers", c)
	case written && ems[0].Shape == "Blank":
		if !blankOK {
			r.Fail("C15/bridge-message", fmt.Sprintf("message %q at %v was written as a bare line feed", want, slog.Level(sev)), c)
		}
	case written && ems[0].Shape != "ShJSON":
		r.Fail("C15/bridge-format", "the record could not be decoded: "+string(ems[0].Payload), c)
	case written && ems[0].Level != sev:
		r.Fail("C15/bridge-level", fmt.Sprintf("bridge severity %v, record written at %v", slog.Level(sev), slog.Level(ems[0].Level)), c)
	case written && !sameText(want, ems[0].Msg):
		r.Fail("C15/bridge-message", fmt.Sprintf("std-log message %q written as %q (expected %q: one trailing line feed removed)", buf, ems[0].Msg, want), c)
	case written && len(ems[0].Attrs) != 0:
		r.Fail("C15/bridge-attributes", "the bridge's record carries attributes", c)
	}
	r.Dist["bridge"]++
	if viaPrint {
		r.Count(true, fmt.Sprintf("bridgeP %d %d %v %x", L, sev, dbgNow, msg))
		return
	}
	blank, lvl, m := false, -99, []byte{}
	if written {
		blank = ems[0].Shape == "Blank"
		lvl = ems[0].Level
		m = []byte(ems[0].Msg)
		if !blank && string(m) != string(want) && sameText(want, ems[0].Msg) {
			m = want // invalid UTF-8 cannot be kept by a JSON text (U+FFFD): the bytes given are reported
			r.Dist["bridge_msg_utf8_replaced"]++
		}
	}
	r.AddCase(fmt.Sprintf("KBridge %s %s %s %s %s %s %s %s %s", cZ(int64(L)), cZ(int64(sev)), cBool(dbgNow), cBytes(buf), cBool(written), cBool(blank),
		cZ(int64(lvl)), cBytes(m), cZ(int64(n))), c, true, fmt.Sprintf("bridge %d %d %v %x", L, sev, dbgNow, buf))
}

// ---- NewSlogHandler + derivations + one record
// expectedAttrs: what a chain of derivations adds, by the meaning log/slog gives
// to WithAttrs/WithGroup (written on the source trees, independently of the model)
func expectedAttrs(ds []c15Deriv, rec []sa) []sa {
	if len(ds) == 0 {
		return rec
	}
	inner := expectedAttrs(ds[1:], rec)
	d := ds[0]
	if d.Group == nil {
		return append(append([]sa{}, resolveAttrs(d.Attrs)...), inner...)
	}
	if *d.Group == "" || len(inner) == 0 {
		return inner
	}
	return []sa{{*d.Group, sv{K: "group", Items: inner}}}
}

// c15LastWins: a key that occurs twice among the attributes of one level (a derived handler's and the record's
// own): the later one - the record's - is the one printed (the rule of attribute assembly, property C07)
func c15LastWins(as []sa) []sa {
	last := map[string]int{}
	for i, a := range as {
		last[a.Key] = i
	}
	var out []sa
	for i, a := range as {
		if last[a.Key] == i {
			out = append(out, a)
		}
	}
	return out
}

var c15Msgs = []string{"hello", "two words", "", " ", "\t\n", "q\"uote \\ back", "multi\nline", "é ü 日本", "\xff\xfe", "x=1,y={2}", "trailing\n"}

type c15HandleObs struct {
	JSON     bool         `json:"json"`
	Color    bool         `json:"color"`
	Level    int          `json:"level"`
	Caller   bool         `json:"caller_flag"`
	Dbg      bool         `json:"debug_mode"`
	Enabled  map[int]bool `json:"enabled"`
	Ems      []emission   `json:"emissions"`
	RecAttrs []sa         `json:"record_attrs"`
}

var c15Probe = []int64{-4, 0, 4, 8, 1, -5, 12}

func c15Handle(r *Run, snap *slog.VerifRegistry, c c15Case) {
	c15Prep(snap)
	if c.Via { // log/slog.Logger keeps With() without arguments and WithGroup("") to itself: they never reach the handler
		var ds []c15Deriv
		for _, d := range c.Ds {
			if (d.Group != nil && *d.Group == "") || (d.Group == nil && len(d.Attrs) == 0) {
				continue
			}
			ds = append(ds, d)
		}
		c.Ds = ds
	}
	if c.DefLevel != int(slog.GetLevel()) {
		slog.SetLevel(slog.Level(c.DefLevel))
	}
	l := c15Logger(c.L)
	l.SetColorMode(c.Color0)
	if c.JSON0 {
		l.SetJSONMode(true)
	}
	json0, color0 := l.JSONMode(), l.ColorMode()
	dbg0 := is.DebugMode()
	var opts *slog.HandlerOptions
	if !c.NilOpts {
		opts = &slog.HandlerOptions{NoColor: c.NoColor, NoSource: c.NoSource, JSON: c.JSON, Level: slog.Level(c.OptLevel)}
	}
	base := slog.NewSlogHandler(l, opts)
	obs := c15HandleObs{JSON: l.JSONMode(), Color: l.ColorMode(), Level: int(l.Level()), Caller: slog.IsAnyBitsSet(slog.Lcaller), Dbg: is.DebugMode(), Enabled: map[int]bool{}}
	ctx := context.Background()

	// the derivations, on the handler or through log/slog.Logger.With / WithGroup
	h := base
	sl := logslog.New(base)
	for i := range c.Ds {
		d := &c.Ds[i]
		ph, psl := h, sl
		if d.Group != nil {
			if c.Via {
				sl = sl.WithGroup(*d.Group)
			} else {
				h = h.WithGroup(*d.Group)
			}
			c15Decoys(c, ph, psl)
			continue
		}
		real := toSlogAttrs(d.Attrs)
		d.Attrs = readBackAttrs(real)
		if c.Via {
			args := make([]any, len(real))
			for j := range real {
				args[j] = real[j]
			}
			sl = sl.With(args...)
		} else {
			h = h.WithAttrs(real)
		}
		c15Decoys(c, ph, psl)
	}
	if c.Siblings { // and two more from the handler that is going to be used
		c15Decoys(c, h, sl)
	}
	if c.Via {
		h = sl.Handler()
	}
	for _, z := range c15Probe {
		obs.Enabled[int(z)] = h.Enabled(ctx, logslog.Level(z))
	}

	historyPrelude(len(c.Msg)*3 + len(c.Ds)*11 + len(c.Attrs)*5 + int(c.Z&63))
	// an earlier record through the same handler (half of the cases with derivations): its attribute sorts
	// before every other key; nothing of it may stay behind in the handler
	if len(c.Ds) > 0 && (len(c.Msg)+len(c.Ds)+len(c.Attrs))%2 == 0 {
		pre := logslog.NewRecord(time.Unix(1, 0), logslog.Level(c.Z), "earlier record", 0)
		pre.AddAttrs(logslog.String("!earlier", "x"), logslog.Int("~earlier", 1))
		if c.Via {
			sl.LogAttrs(ctx, logslog.Level(c.Z), "earlier record", logslog.String("!earlier", "x"), logslog.Int("~earlier", 1))
		} else {
			_ = h.Handle(ctx, pre)
		}
	}
	// the record
	real := toSlogAttrs(c.Attrs)
	var recTime time.Time
	if !c.ZeroTime {
		recTime = mkTime(c.Sec, c.Nsec, c.Zone)
	}
	events = nil
	stdDelta()
	var t0, t1 time.Time
	var recAttrs []sa
	if c.Via {
		t0 = time.Now()
		sl.LogAttrs(ctx, logslog.Level(c.Z), string(c.Msg), real...)
		t1 = time.Now()
		rec := logslog.NewRecord(t0, logslog.Level(c.Z), string(c.Msg), 0)
		rec.AddAttrs(real...)
		rec.Attrs(func(a logslog.Attr) bool { recAttrs = append(recAttrs, sa{a.Key, readBack(a.Value)}); return true })
	} else {
		rec := logslog.NewRecord(recTime, logslog.Level(c.Z), string(c.Msg), 0)
		rec.AddAttrs(real...)
		rec.Attrs(func(a logslog.Attr) bool { recAttrs = append(recAttrs, sa{a.Key, readBack(a.Value)}); return true })
		if err := h.Handle(ctx, rec); err != nil {
			r.Fail("C15/handle-error", fmt.Sprintf("Handle returned %v", err), c)
		}
	}
	if recAttrs == nil {
		recAttrs = []sa{}
	}
	c.Attrs = recAttrs
	obs.RecAttrs = recAttrs
	obs.Ems = collectEmissions()
	c.Obs = obs

	// ---------------- direct oracle
	derived := len(c.Ds) > 0
	effective := 0 // derivations that must have an effect
	for _, d := range c.Ds {
		if (d.Group != nil && *d.Group != "") || (d.Group == nil && len(d.Attrs) > 0) {
			effective++
		}
	}
	as := treatedAs()
	lvlNow := int(l.Level())
	failed := false
	fail := func(key, desc string) {
		if !failed {
			failed = true
			r.Fail(key, desc, c)
		}
	}
	detached := false
	for _, e := range obs.Ems {
		if e.Dest == 0 {
			detached = true
		}
	}
	dkey := func(other string) string { // a derived handler that lost its logger
		if derived && (detached || len(obs.Ems) == 0) {
			return "C15/derived-handler-detached"
		}
		return other
	}
	// gating of the standard levels
	for z, lv := range c15Std {
		want := specAdmits(as, obs.Dbg, lvlNow, lv)
		if obs.Enabled[int(z)] != want {
			if derived {
				// is the answer the one of a detached logger at the package default level?
				key := "C15/derived-level"
				if obs.Enabled[int(z)] == specAdmits(as, obs.Dbg, int(slog.GetLevel()), lv) {
					key = "C15/derived-handler-detached"
				}
				fail(key, fmt.Sprintf("a handler derived by %s answers Enabled(%d) = %v; the logger (level %v, debug mode %v) gates %v as %v",
					c15DsText(c.Ds), z, obs.Enabled[int(z)], slog.Level(lvlNow), obs.Dbg, slog.Level(lv), want))
			} else {
				fail("C15/enabled", fmt.Sprintf("handler.Enabled(%d) = %v on a logger at %v (debug mode %v) whose gating of %v is %v",
					z, obs.Enabled[int(z)], slog.Level(lvlNow), obs.Dbg, slog.Level(lv), want))
			}
		}
	}
	// how many records
	wantN := 1
	if c.Via {
		if lv, std := c15Std[c.Z]; std {
			if !specAdmits(as, obs.Dbg, lvlNow, lv) {
				wantN = 0
			}
		} else if !h.Enabled(ctx, logslog.Level(c.Z)) { // nothing is said about the gating of other levels: what Enabled answers decides
			wantN = 0
		}
	}
	if len(obs.Ems) != wantN {
		fail(dkey("C15/emit-count"), fmt.Sprintf("a record at log/slog level %d (logger at %v) was written %d times, expected %d", c.Z, slog.Level(lvlNow), len(obs.Ems), wantN))
	}
	if len(obs.Ems) == 1 && wantN == 1 {
		e := obs.Ems[0]
		wantShape := "ShLogfmt"
		if obs.JSON {
			wantShape = "ShJSON"
		} else if obs.Color {
			wantShape = "ShColor"
		}
		_, std := c15Std[c.Z]
		wantAttrs := c15LastWins(expectedAttrs(c.Ds, resolveAttrs(recAttrs)))
		switch {
		case e.Dest != 1:
			fail(dkey("C15/destination"), "the record went to the package default writers (stdout/stderr) instead of the logger's writers: "+string(e.Payload))
		case e.Shape == "Blank":
			if !std && strings.Trim(string(c.Msg), "\n\r \t") == "" {
				fail("C15/blank-message-unlisted-level", fmt.Sprintf("a record at log/slog level %d with the blank message %q and %d attribute(s) was written as a bare line feed: time, level and attributes are lost",
					c.Z, c.Msg, len(wantAttrs)))
			} else {
				fail("C15/record-content", "the record was written as a bare line feed")
			}
		case e.Shape != wantShape:
			fail(dkey("C15/format"), fmt.Sprintf("the record was written as %s, the logger's format is %s", e.Shape, wantShape))
		case e.Shape == "ShJSON":
			if std && e.Level != c15Std[c.Z] {
				fail("C15/handler-level-namesake", fmt.Sprintf("a record at log/slog level %d was written at %v instead of %v", c.Z, slog.Level(e.Level), slog.Level(c15Std[c.Z])))
			}
			if e.Level == 0 || e.Level == 1 {
				fail("C15/handler-level-terminating", fmt.Sprintf("a record at log/slog level %d was written at the terminating severity %v", c.Z, slog.Level(e.Level)))
			}
			if !sameText(c.Msg, e.Msg) {
				fail("C15/message", fmt.Sprintf("message %q written as %q", c.Msg, e.Msg))
			}
			tt, perr := time.Parse(time.RFC3339Nano, e.Time)
			switch {
			case perr != nil:
				fail("C15/time", fmt.Sprintf("the record's time %q does not parse", e.Time))
			case c.Via && (tt.Before(t0.Add(-time.Microsecond)) || tt.After(t1.Add(time.Microsecond))):
				fail("C15/time", fmt.Sprintf("the record's time %v is not the time of the call (%v .. %v)", tt, t0, t1))
			case !c.Via && !tt.Equal(recTime):
				fail("C15/time", fmt.Sprintf("the record's own time %v was written as %v", recTime.UTC().Format(time.RFC3339Nano), e.Time))
			}
			if diff := attrsDiff(wantAttrs, e.Attrs, ""); diff != "" {
				key := "C15/attributes"
				if derived {
					key = "C15/derived-attrs"
				}
				fail(key, diff+" (record: "+string(e.Payload)+")")
			}
		}
	}

	// ---------------- correspondence case
	var ds []string
	for _, d := range c.Ds {
		if d.Group != nil {
			ds = append(ds, "DGroup "+cStr(*d.Group))
		} else {
			ds = append(ds, "DAttrs "+saCoq(d.Attrs))
		}
	}
	var en []string
	for _, z := range c15Probe {
		en = append(en, fmt.Sprintf("(%s, %s)", cZ(z), cBool(obs.Enabled[int(z)])))
	}
	tid := "0"
	if !c.Via {
		tid = cBig(timeID(recTime))
	}
	var ems []string
	for _, e := range obs.Ems {
		switch e.Shape {
		case "Blank":
			ems = append(ems, fmt.Sprintf("EmBlank %d", e.Dest))
		case "ShJSON":
			et := "(-1)"
			if tt, err := time.Parse(time.RFC3339Nano, e.Time); err == nil {
				if c.Via {
					if !tt.Before(t0.Add(-time.Microsecond)) && !tt.After(t1.Add(time.Microsecond)) {
						et = "0"
					}
				} else {
					et = cBig(timeID(tt))
				}
			}
			msg := []byte(e.Msg)
			if string(msg) != string(c.Msg) && sameText(c.Msg, e.Msg) {
				msg = c.Msg // invalid UTF-8 cannot be kept by a JSON text (U+FFFD): the bytes given are reported
				r.Dist["handle_msg_utf8_replaced"]++
			}
			ems = append(ems, fmt.Sprintf("EmJSON %d %s %s %s %s", e.Dest, cZ(int64(e.Level)), et, cBytes(msg), jnodesCoq(e.Attrs)))
		case "ShLogfmt", "ShColor":
			ems = append(ems, fmt.Sprintf("EmOther %d %s", e.Dest, e.Shape))
		default:
			ems = append(ems, fmt.Sprintf("EmOther %d ShJSON", e.Dest)) // undecodable: will not match a JSON expectation
		}
	}
	term := fmt.Sprintf("KHandle (Build_lcfg 1 %s %s %s []) %s %s (Build_hopts %s %s %s %s) %s %s (Build_srecord %s %s %s %s) %s %s %s %s %s %s %s",
		cBool(json0), cBool(color0), cZ(int64(c.L)), cBool(dbg0), cZ(int64(c.DefLevel)),
		cBool(!c.NilOpts && c.NoColor), cBool(!c.NilOpts && c.NoSource), cBool(!c.NilOpts && c.JSON), cZ(int64(optLevel(c))),
		cList(ds), cBool(c.Via), cZ(c.Z), tid, cBytes(c.Msg), saCoq(recAttrs),
		cBool(obs.JSON), cBool(obs.Color), cZ(int64(obs.Level)), cBool(obs.Caller), cBool(obs.Dbg), cList(en), cList(ems))
	_, std := c15Std[c.Z]
	r.Dist[fmt.Sprintf("handle_derivations=%d", len(c.Ds))]++
	r.Dist[fmt.Sprintf("handle_effective_derivations=%d", effective)]++
	if std {
		r.Dist["handle_level=standard"]++
	} else {
		r.Dist["handle_level=other"]++
	}
	maxd := 0
	for _, a := range recAttrs {
		if d := a.Val.depth(); d > maxd {
			maxd = d
		}
	}
	r.Dist[fmt.Sprintf("handle_record_depth=%d", maxd)]++
	b, _ := json.Marshal(struct {
		A c15Case
		O any
	}{c15Case{Kind: c.Kind, Z: c.Z, L: c.L, Attrs: c.Attrs, Msg: c.Msg, JSON0: c.JSON0, Color0: c.Color0, DefLevel: c.DefLevel, NilOpts: c.NilOpts,
		NoColor: c.NoColor, NoSource: c.NoSource, JSON: c.JSON, OptLevel: c.OptLevel, Ds: c.Ds, Via: c.Via, Sec: c.Sec, Nsec: c.Nsec, Zone: c.Zone, ZeroTime: c.ZeroTime}, nil})
	if all := expectedAttrs(c.Ds, resolveAttrs(recAttrs)); len(c15LastWins(all)) != len(all) {
		// a key of a derived handler repeated by the record: judged by the direct oracle only (the correspondence
		// model of C15 compares sibling sets with unique keys; duplicate keys are property C07's business)
		r.Dist["handle_duplicate_key_handler_vs_record"]++
		r.Count(true, string(b))
		return
	}
	r.AddCase(term, c, derived || !std, string(b))
}

// c15Decoys derives two more handlers from a parent that already has a derived handler in use: a handler
// derived earlier must keep what it was given
func c15Decoys(c c15Case, h logslog.Handler, sl *logslog.Logger) {
	if !c.Siblings {
		return
	}
	if c.Via {
		_ = sl.With("decoy-sibling", "x")
		_ = sl.WithGroup("decoy-group")
	} else {
		_ = h.WithAttrs([]logslog.Attr{logslog.String("decoy-sibling", "x")})
		_ = h.WithGroup("decoy-group")
	}
}

func optLevel(c c15Case) int {
	if c.NilOpts {
		return 0
	}
	return c.OptLevel
}

func c15DsText(ds []c15Deriv) string {
	var it []string
	for _, d := range ds {
		if d.Group != nil {
			it = append(it, fmt.Sprintf("WithGroup(%q)", *d.Group))
		} else {
			it = append(it, fmt.Sprintf("WithAttrs(%d attrs)", len(d.Attrs)))
		}
	}
	return strings.Join(it, ".")
}

var c15Levels = []int64{-20, -19, -18, -17, -16, -15, -14, -13, -12, -11, -10, -9, -8, -7, -6, -5, -4, -3, -2, -1, 0, 1, 2, 3, 4, 5, 6, 7, 8, 9, 10, 11, 12, 13, 14, 15, 16, 17, 18, 19, 20,
	math.MinInt64, math.MinInt32, -1000, 1000, math.MaxInt32, math.MaxInt64}

func genHandleCase(r *Run, maxDepth int) c15Case {
	rg := r.R
	g := &c15Gen{r: rg, noObj: true}
	c := c15Case{Kind: "handle"}
	c.L = rg.Intn(12)
	c.DefLevel = 3
	if rg.Chance(25) {
		c.DefLevel = []int{2, 4, 6, 8}[rg.Intn(4)]
	}
	c.JSON0, c.Color0 = rg.Chance(30), rg.Bool()
	c.NilOpts = rg.Chance(8)
	c.NoColor, c.NoSource, c.JSON = rg.Bool(), rg.Chance(70), rg.Chance(75)
	c.OptLevel = []int{0, 0, 0, 2, 3, 4, 5, 6, 8, 7}[rg.Intn(10)]
	if rg.Chance(45) {
		c.Z = []int64{-4, 0, 4, 8}[rg.Intn(4)]
	} else {
		c.Z = c15Levels[rg.Intn(len(c15Levels))]
	}
	c.Msg = []byte(c15Msgs[rg.Intn(len(c15Msgs))])
	if rg.Chance(30) {
		c.Msg = []byte(fmt.Sprintf("m%d", rg.Intn(100000)))
	}
	c.Via = rg.Chance(40)
	c.ZeroTime = rg.Chance(5)
	c.Sec, c.Nsec, c.Zone = int64(rg.Intn(4000000000))-1000000000, []int64{0, 1, 999999999, 123456789, 120000000}[rg.Intn(5)], []int{0, 0, 60, -330}[rg.Intn(4)]
	depth := 0
	if rg.Chance(55) {
		n := 1 + rg.Intn(4)
		if rg.Chance(20) {
			n = 5 + rg.Intn(5)
		}
		c.Siblings = rg.Bool()
		for i := 0; i < n; i++ {
			if rg.Chance(40) {
				name := g.key(depth)
				if rg.Chance(8) {
					name = ""
				} else {
					depth++
				}
				c.Ds = append(c.Ds, c15Deriv{Group: &name})
			} else {
				na := 3
				if rg.Chance(30) {
					na = 7
				}
				c.Ds = append(c.Ds, c15Deriv{Attrs: g.attrs(depth, depth+maxDepth-1, na)})
			}
		}
	}
	c.Attrs = g.attrs(depth, depth+maxDepth, 5)
	// every fifth case with derivations and no group among them: the record's first leaf attribute takes the key
	// of a leaf attribute of the first WithAttrs (the record's own value is the one that must be printed)
	if len(c.Ds) > 0 && len(c.Attrs) > 0 && rg.Chance(20) {
		noGroup := true
		for _, d := range c.Ds {
			if d.Group != nil {
				noGroup = false
			}
		}
		if noGroup && len(c.Ds[0].Attrs) > 0 && c.Ds[0].Attrs[0].Val.K != "group" && c.Attrs[0].Val.K != "group" {
			dup := false
			for _, a := range c.Attrs[1:] {
				if a.Key == c.Ds[0].Attrs[0].Key {
					dup = true
				}
			}
			if !dup {
				c.Attrs[0].Key = c.Ds[0].Attrs[0].Key
			}
		}
	}
	return c
}

func runC15(r *Run) {
	snap := slog.VerifSnapshot()
	captureStd(r.Out)
	r.ShardSize = 300
	r.Coq(c15Header, "case", "ok")
	r.Rule = "level conversions of all three functions on -20..20 and extremes (int64/int32 bounds), every built-in Level back to log/slog; Enabled for 12 logger levels x debug mode x 4 standard + other levels; " +
		"random attribute trees (every log/slog Value kind, groups nested <= 4, empty groups, LogValuers incl. nested ones and ones resolving to groups, Any of struct/map/nil/error/slice/pointer/array) converted one by one and compared structurally; " +
		"Entry.Log on 12 logger levels x the level grid; the std-log bridge for ALL (logger level, bridge severity) pairs of the 12 built-in levels x debug mode x messages (empty, with/without trailing newline, several newlines, bytes >= 0x80); " +
		"NewSlogHandler under random option combinations (incl. nil options) on loggers in every format, chains of 0..9 WithAttrs/WithGroup (half of them with two further handlers derived from every parent on the way and dropped) (on the handler or through log/slog.Logger.With/WithGroup), one record through Handle (own time) or log/slog.Logger (time of the call): " +
		"number of writes, destination, format, and in JSON mode level, message, time and the sequence of keys (siblings sorted by key, a group before its members) with the values of int/uint/bool/plain strings; " +
		"non-trivial = a derived handler or a non-standard level; distinct by canonical input"
	r.Exhaust = true
	r.Extra["exhaustive"] = "all 12x12 (logger level, bridge severity) pairs x debug mode; all 12 logger levels x debug x probe levels for Enabled; all 12 levels back to log/slog"

	for _, z := range c15Levels {
		c15Conv(r, snap, z)
	}
	for i := r.N(100, 5000); i > 0; i-- {
		c15Conv(r, snap, int64(r.R.U64()))
	}
	for l := -1; l <= 13; l++ {
		c15Back(r, snap, l)
	}
	enz := []int64{-4, 0, 4, 8, -8, -5, -3, 1, 2, 3, 5, 9, 12, 16, 17, math.MinInt64, math.MaxInt64}
	for L := 0; L < 12; L++ {
		for _, dbg := range []bool{false, true} {
			c15Enabled(r, snap, L, dbg, enz)
		}
	}
	// attribute trees
	for i := r.N(1200, 20000); i > 0; i-- {
		g := &c15Gen{r: r.R}
		md := 1 + r.R.Intn(4)
		c15Tree(r, snap, g.attrs(0, md, 5), "random")
	}
	// Entry.Log
	for L := 0; L < 12; L++ {
		zs := c15Levels
		if !r.Thorough() {
			zs = nil
			for _, z := range c15Levels {
				if (z >= -9 && z <= 9) || z == 16 || z == 17 || z == -16 || z < -100 || z > 100 {
					zs = append(zs, z)
				}
			}
		}
		for _, z := range zs {
			c15Log(r, snap, L, L == 8 && z%2 == 0, z, fmt.Sprintf("m%d", z))
		}
	}
	// the bridge
	msgs := [][]byte{[]byte("m1"), []byte("m2\n"), {}, []byte("\n"), []byte("a\n\n"), []byte("progress 50%\r"), []byte("dos line\r\n"), []byte("\r"), []byte("table:\n\n\n"), []byte("x\xff\x80y\n"), []byte("two\nlines"), []byte(" \t"), []byte("é\n"),
		// white space other than LF, CR, blank and TAB is a message like any other (also at the Always severity)
		[]byte("\f"), []byte("\v\n"), []byte("\u00a0"), []byte("\u2003\u2003\n"), []byte("\u0085")}
	for L := 0; L < 12; L++ {
		for sev := 0; sev < 12; sev++ {
			for _, dbg := range []bool{false, true} {
				k := r.N(3, len(msgs))
				for j := 0; j < k; j++ {
					m := msgs[(L*7+sev*3+j)%len(msgs)]
					if r.Thorough() {
						m = msgs[j]
					}
					c15Bridge(r, snap, L, sev, dbg, m, false)
				}
				c15Bridge(r, snap, L, sev, dbg, msgs[(L+sev)%len(msgs)], true)
			}
		}
	}
	for i, m := range msgs[len(msgs)-5:] {
		for _, L := range []int{8, 6, 4} {
			c15Bridge(r, snap, L, 8, false, m, i%2 == 0)
			c15Log(r, snap, L, false, 1, string(m)) // log/slog level INFO+1 is not one of the four standard ones: Always
		}
	}
	// handlers
	for i := r.N(2000, 40000); i > 0; i-- {
		c15Handle(r, snap, genHandleCase(r, 1+r.R.Intn(4)))
	}
	// the witnesses of Props/C15.v on the implementation
	one := "w"
	c15Handle(r, snap, c15Case{Kind: "handle", L: 5, DefLevel: 3, NoColor: true, NoSource: true, JSON: true, Z: 0, Msg: []byte("m"),
		Ds: []c15Deriv{{Attrs: []sa{{"w", sv{K: "int", I: 1}}}}}, Attrs: []sa{{"k", sv{K: "int", I: 2}}}, Sec: 7})
	c15Handle(r, snap, c15Case{Kind: "handle", L: 5, DefLevel: 3, NoColor: true, NoSource: true, JSON: true, Z: 0, Msg: []byte("m"),
		Ds: []c15Deriv{{Group: &one}}, Attrs: []sa{{"k", sv{K: "int", I: 2}}}, Sec: 7})
	c15Handle(r, snap, c15Case{Kind: "handle", L: 3, DefLevel: 3, NoColor: true, NoSource: true, JSON: true, Z: 1, Msg: []byte(" "),
		Attrs: []sa{{"k", sv{K: "int", I: 1}}}, Sec: 7})
	c15Log(r, snap, 8, false, 1, "m")
	c15Bridge(r, snap, 4, 2, false, []byte("m\n"), false)
	c15Bridge(r, snap, 2, 5, false, []byte("m\n"), false)
	c15BadValuers(r, snap)
	resetProcess(snap)
}

func replayC15(r *Run, file string) {
	var c c15Case
	loadReplay(file, &c)
	snap := slog.VerifSnapshot()
	saved, err := syscall.Dup(1) // the verdict of the replay goes to the real stdout
	must(err)
	captureStd(r.Out)
	r.Coq(c15Header, "case", "ok")
	switch c.Kind {
	case "bad-valuer":
		c15BadValuers(r, snap)
	case "conv":
		c15Conv(r, snap, c.Z)
	case "back":
		c15Back(r, snap, c.L)
	case "enabled":
		c15Enabled(r, snap, c.L, c.Dbg, []int64{c.Z})
	case "tree":
		c15Tree(r, snap, c.Attrs, "replay")
	case "log":
		c15Log(r, snap, c.L, c.Dbg, c.Z, string(c.Msg))
	case "bridge":
		c15Bridge(r, snap, c.L, c.Sev, c.Dbg, c.Msg, c.ViaPrint)
	case "handle":
		c.Obs = nil
		c15Handle(r, snap, c)
	default:
		fmt.Println("unknown case kind", c.Kind)
	}
	resetProcess(snap)
	must(syscall.Dup3(saved, 1, 0))
	finishReplay(r)
}

var _ = log.Ldate
