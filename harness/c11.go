package main

// C11: output format is a per-logger three-state machine.

import (
	"bytes"
	"encoding/json"
	"fmt"
	"time"

	"github.com/hedzr/logg/slog"
)

func init() { drivers["C11"] = runC11; replayers["C11"] = replayTree("C11") }

type c11Replay struct {
	Kind string `json:"kind"`
	Lvl0 int    `json:"lvl0"`
	Ops  []Op   `json:"ops"`
	Rets []int  `json:"rets,omitempty"`
	Obs  any    `json:"observed,omitempty"`
	Exp  any    `json:"expected,omitempty"`
}

// the statement's machine, written out independently of the model
func specModeStep(m string, kind string, b []bool) string {
	last := true
	for _, x := range b {
		last = x
	}
	if kind == "SJSON" {
		if last {
			return "J"
		}
		if m == "J" {
			return "L"
		}
		return m
	}
	if last {
		return "C"
	}
	return "L"
}

// specModes replays the ops on the spec: per logger its mode; With/New create a
// child that starts in the parent's mode.  rets tells which logger each op returned
// (needed only to know whether New created one).
func specModes(ops []Op, rets []int) []string {
	modes := []string{"C"} // default logger: coloured
	for i, o := range ops {
		switch o.Kind {
		case "ONewPkg", "ONew", "OWith", "OWithSkip":
			if rets[i] == len(modes) { // a logger was created
				m := "C"
				if o.Kind != "ONewPkg" {
					m = modes[o.P]
				}
				for _, s := range o.Opts {
					if s.Kind == "SJSON" || s.Kind == "SColor" {
						m = specModeStep(m, s.Kind, s.B)
					}
				}
				if o.S != nil && (o.S.Kind == "SJSON" || o.S.Kind == "SColor") {
					m = specModeStep(m, o.S.Kind, o.S.B)
				}
				modes = append(modes, m)
			}
		case "OSet":
			if o.S.Kind == "SJSON" || o.S.Kind == "SColor" {
				modes[o.P] = specModeStep(modes[o.P], o.S.Kind, o.S.B)
			}
		}
	}
	return modes
}

type c11Flipper struct {
	e    *slog.Entry
	from string // J C L: the format the logger is in; String() moves it on to the next one (J -> C -> L -> C)
	done *bool
}

func (f c11Flipper) String() string {
	if !*f.done {
		*f.done = true
		switch f.from {
		case "J":
			f.e.SetJSONMode(false)
			f.e.SetColorMode(true)
		case "C":
			f.e.SetColorMode(false)
		default:
			f.e.SetColorMode(true)
		}
	}
	return "flipped"
}

func c11One(r *Run, snap *slog.VerifRegistry, ops []Op, kind string) {
	t := NewTreeExec(snap)
	// LsmartJSONMode is a flag of the package nothing in the statement depends on (the format is the logger's own
	// three-state machine): every fourth case runs with it set, while loggers are made and while they print
	if len(ops)%4 == 3 {
		slog.AddFlags(slog.LsmartJSONMode)
		defer slog.RemoveFlags(slog.LsmartJSONMode)
	}
	lvl0 := int(slog.GetLevel())
	rets := t.RunOps(ops)
	// installing a logger as the package's default logger is no mode call: its format stays (every fifth case)
	if len(ops)%5 == 2 && len(t.loggers) > 1 {
		slog.SetDefault(t.loggers[len(t.loggers)-1])
	}
	type ob struct {
		J, C  bool
		Shape string
	}
	var obs []ob
	for _, e := range t.loggers {
		obs = append(obs, ob{J: e.JSONMode(), C: e.ColorMode()})
	}
	// probe every logger (after the getters were read)
	for i, e := range t.loggers {
		events = nil
		e.SetWriter(pool[1])
		e.SetErrorWriter(pool[1])
		// (several lines: a coloured record leaves its continuation lines in the context; values of several kinds:
		// whatever a format does to mark a value up belongs to that format only)
		e.Print("probe\nwith a second line", "err", fmt.Errorf("boom %d", i), "n", i, "s", "text with blanks", "b", true,
			slog.Group("g", slog.String("k", "v"), slog.NewAttr("inner", fmt.Errorf("inner error"))), "d", time.Duration(1500)*time.Millisecond)
		sh := "?"
		if len(events) > 0 {
			sh = shapeOf(events[len(events)-1].Payload)
		}
		obs[i].Shape = sh
	}
	// direct oracle
	spec := specModes(ops, rets)
	rep := c11Replay{Kind: kind, Lvl0: lvl0, Ops: ops, Rets: rets}
	// one record, one format: a value whose String() switches the logger's format WHILE the record is being written
	// (a lazily rendered value that reconfigures logging) - the whole record is in the format of the moment of the call
	for i, e := range t.loggers {
		if (i+len(ops))%2 != 0 {
			continue
		}
		done := false
		events = nil
		e.Print("probe in flight", "a", 1, "flip", c11Flipper{e, spec[i], &done}, "z", 2)
		sh := "?"
		if len(events) > 0 {
			sh = shapeOf(events[len(events)-1].Payload)
		}
		want := map[string]string{"J": "ShJSON", "C": "ShColor", "L": "ShLogfmt"}[spec[i]]
		if sh == "ShJSON" && !json.Valid(bytes.TrimSpace(events[len(events)-1].Payload)) {
			sh = "?"
		}
		if done && sh != want {
			rep.Obs, rep.Exp = map[string]any{"logger": i, "shape_of_record_in_flight": sh, "payload": string(events[len(events)-1].Payload)}, spec
			r.Fail("C11/shape-in-flight", fmt.Sprintf("logger %d (%s): its format was switched by a value's String() while the record was being written; the record reads as %s, neither wholly the format of the call (%s)", i, spec[i], sh, want), rep)
			break
		}
	}
	for i := range t.loggers {
		exp := map[string]ob{"J": {true, false, "ShJSON"}, "C": {false, true, "ShColor"}, "L": {false, false, "ShLogfmt"}}[spec[i]]
		if obs[i] != exp {
			rep.Obs, rep.Exp = obs, spec
			key := "C11/getter"
			if obs[i].J == exp.J && obs[i].C == exp.C {
				key = "C11/shape"
			}
			r.Fail(key, fmt.Sprintf("logger %d: observed %+v, the machine says %s", i, obs[i], spec[i]), rep)
			break
		}
	}
	var ro, oo []string
	for _, x := range rets {
		if x < 0 {
			ro = append(ro, "None")
		} else {
			ro = append(ro, cSome(cNat(x)))
		}
	}
	for _, o := range obs {
		sh := o.Shape
		if sh == "?" {
			sh = "ShLogfmt" // never equal to a coloured/JSON expectation by accident: flagged by the oracle above
		}
		oo = append(oo, fmt.Sprintf("(%s, %s, %s)", cBool(o.J), cBool(o.C), sh))
	}
	term := fmt.Sprintf("mk %s %s %s %s", cZ(int64(lvl0)), opsCoq(ops), cList(ro), cList(oo))
	touched := map[int]bool{}
	for _, o := range ops {
		touched[o.P] = true
	}
	r.AddCase(term, rep, len(touched) >= 2, opsCoq(ops))
	r.Dist[fmt.Sprintf("len=%d", len(ops))]++
	r.Dist["kind="+kind]++
}

func runC11(r *Run) {
	snap := slog.VerifSnapshot()
	r.Coq("Require Import Verif.Model.Base Verif.Model.Mode Verif.Model.Writers Verif.Model.Tree Verif.Corr.C11.", "case", "ok")
	r.Rule = "exhaustive sequences over {Set,With}x{JSON,Color}x{(),(t),(f),(t,f),(f,t)} x 3 targets on a 3-logger chain, plus random histories incl. New(...) options; non-trivial = touches >= 2 loggers; distinct by op list"
	var variants []SetOp
	for _, k := range []string{"SJSON", "SColor"} {
		for _, b := range [][]bool{nil, {true}, {false}, {true, false}, {false, true}} {
			variants = append(variants, SetOp{Kind: k, B: b})
		}
	}
	n1, n2 := 1, 2
	base := []Op{{Kind: "ONew", P: 0, Name: &n1}, {Kind: "ONew", P: 1, Name: &n2}}
	var calls []Op
	for tgt := 0; tgt < 3; tgt++ {
		for i := range variants {
			v := variants[i]
			calls = append(calls, Op{Kind: "OSet", P: tgt, S: &v}, Op{Kind: "OWith", P: tgt, S: &v})
		}
	}
	depth := r.N(2, 2)
	var rec func(prefix []Op, d int)
	rec = func(prefix []Op, d int) {
		if d > 0 {
			ops := append(append([]Op{}, base...), prefix...)
			c11One(r, snap, ops, "exhaustive")
		}
		if d == depth {
			return
		}
		for _, c := range calls {
			rec(append(append([]Op{}, prefix...), c), d+1)
		}
	}
	rec(nil, 0)
	if r.Thorough() { // all length-3 sequences over the 20 Set/With variants on rotating targets
		var c20 []Op
		for i := range variants {
			v := variants[i]
			c20 = append(c20, Op{Kind: "OSet", S: &v}, Op{Kind: "OWith", S: &v})
		}
		for a := range c20 {
			for b := range c20 {
				for c := range c20 {
					x, y, z := c20[a], c20[b], c20[c]
					x.P, y.P, z.P = a%3, (a+b)%3, (b+c)%3
					c11One(r, snap, append(append([]Op{}, base...), x, y, z), "exhaustive3")
				}
			}
		}
	}
	// the child WithSkip(n) hands out is one logger per n: asked for again - after its own format was set, after the
	// parent's format changed - it is the same logger in the format it was left in
	for pi := 0; pi < 3; pi++ {
		for i := range variants {
			for j := range variants {
				if (i+j+pi)%3 != 0 && !r.Thorough() {
					continue
				}
				v, w := variants[i], variants[j]
				ops := append(append([]Op{}, base...), Op{Kind: "OWithSkip", P: pi, N: 1}, Op{Kind: "OSet", P: 3, S: &v},
					Op{Kind: "OWithSkip", P: pi, N: 1}, Op{Kind: "OSet", P: pi, S: &w}, Op{Kind: "OWithSkip", P: pi, N: 1}, Op{Kind: "OWithSkip", P: pi, N: 2})
				c11One(r, snap, ops, "withskip-again")
			}
		}
	}
	r.Exhaust = true
	r.Extra["exhaustive_space"] = fmt.Sprintf("all sequences of length 1..%d over %d call variants (3 targets)", depth, len(calls))
	for i := r.N(300, 5000); i > 0; i-- {
		ops := genTreeOps(r.R, TreeProfile{ModeOnly: true, MaxOps: 12})
		c11One(r, snap, ops, "random")
	}
	resetProcess(snap)
}
