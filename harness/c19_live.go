package main

// C19 on the LIVE encoder: the PrintCtx handed to a user marshaller while a record is being written.  Marshallers
// may read, reset and write it; whatever they did, the next marshaller of the same record is handed something that
// still behaves like a bytes.Buffer holding enc.String(): a non-negative Len equal to len(Bytes()), and the same
// answers as such a buffer to a short sequence of reads, unreads and writes.  Three marshallers per record: one
// before a group, one inside it, one after it; three formats; direct oracle only.

import (
	"bytes"
	"fmt"

	"github.com/hedzr/logg/slog"
)

type c19Actor struct {
	what string // none | consume | shrink | readsome | write
}

func (a c19Actor) MarshalSlogObject(enc *slog.PrintCtx) error {
	switch a.what {
	case "consume":
		_ = enc.Next(enc.Len())
	case "shrink":
		enc.Reset()
		_, _ = enc.WriteString("x")
	case "readsome":
		_, _ = enc.ReadByte()
		_, _, _ = enc.ReadRune()
		_ = enc.Next(3)
	case "write":
		_, _ = enc.WriteString("written by a marshaller")
	}
	return nil
}

type c19Observer struct {
	where string
	fails *[]string
	ran   *int
}

func (o c19Observer) MarshalSlogObject(enc *slog.PrintCtx) error {
	*o.ran++
	note := func(f string, a ...any) { *o.fails = append(*o.fails, o.where+": "+fmt.Sprintf(f, a...)) }
	st := c19State(enc)
	if st.Panic != "" {
		note("Len/String of the encoder handed over panics: %s", st.Panic)
		return nil
	}
	func() {
		defer func() {
			if v := recover(); v != nil {
				note("Bytes() panics: %v", v)
			}
		}()
		if n, m := enc.Len(), len(enc.Bytes()); n < 0 || n != m {
			note("Len() = %d, len(Bytes()) = %d", n, m)
		}
	}()
	ref := bytes.NewBuffer(append([]byte(nil), st.Str...))
	for i, op := range []bOp{{K: "ReadByte"}, {K: "UnreadByte"}, {K: "ReadRune"}, {K: "UnreadRune"}, {K: "WriteString", B: []byte("tail")}, {K: "Next", N: 2},
		{K: "ReadBytes", B: []byte{'='}}, {K: "WriteByte", B: []byte{'!'}}, {K: "UnreadByte"}, {K: "Len"}, {K: "String"}} {
		a, b := c19Apply(enc, op), c19Apply(ref, op)
		sa, sb := c19State(enc), c19State(ref)
		if !c19OutEq(a, b) || sa.Panic != sb.Panic || sa.Len != sb.Len || !bytes.Equal(sa.Str, sb.Str) {
			note("step %d %s: encoder %+v Len %d String %q, bytes.Buffer %+v Len %d String %q", i, op.K, a, sa.Len, clip(string(sa.Str), 60), b, sb.Len, clip(string(sb.Str), 60))
			break
		}
	}
	return nil
}

func c19LiveEncoder(r *Run) {
	snap := slog.VerifSnapshot()
	defer resetProcess(snap)
	acts := []string{"none", "consume", "shrink", "readsome", "write"}
	for _, mode := range []string{"json", "logfmt", "color"} {
		for _, before := range acts {
			for _, inside := range acts {
				resetProcess(snap)
				slog.AddFlags(slog.LnoInterrupt)
				l := slog.VerifEntryOf(slog.New("c19live"))
				switch mode {
				case "json":
					l.SetJSONMode(true)
				case "logfmt":
					l.SetColorMode(false)
				default:
					l.SetColorMode(true)
				}
				l.SetWriter(pool[1]).SetErrorWriter(pool[1]).SetLevel(slog.AlwaysLevel)
				var fails []string
				ran := 0
				var pan any
				func() {
					defer func() { pan = recover() }()
					l.Info("live encoder", "a", c19Actor{before}, "b", c19Observer{"after the first marshaller", &fails, &ran},
						slog.Group("g", "m", c19Actor{inside}, "n", c19Observer{"inside the group", &fails, &ran}),
						"z", c19Observer{"after the group", &fails, &ran})
				}()
				r.Count(true, fmt.Sprintf("live-encoder %s %s %s", mode, before, inside))
				r.Dist["live-encoder"]++
				rep := map[string]any{"kind": "live-encoder", "mode": mode, "first_marshaller": before, "marshaller_in_group": inside}
				switch {
				case pan != nil:
					rep["panic"] = fmt.Sprint(pan)
					r.Fail("C19/live-encoder", fmt.Sprintf("%s record with marshallers (%s first, %s inside a group): the logging call panicked: %v", mode, before, inside, pan), rep)
				case len(fails) > 0:
					rep["observations"] = fails
					r.Fail("C19/live-encoder", fmt.Sprintf("%s record with marshallers (%s first, %s inside a group): %s", mode, before, inside, fails[0]), rep)
				case ran == 0:
					rep["observations"] = "no observer was called"
					r.Fail("C19/live-encoder", fmt.Sprintf("%s record: none of the three observing marshallers was called", mode), rep)
				}
			}
		}
	}
}
