package main

// The `go test -c` binary of the harness package is the "testing mode" process of
// C12: hedzr/is.InTesting() is true when argv[0] ends in .test and a -test.*
// argument is present.  It is run as
//     harness.test -test.run=^$ c12child <cell>
// and dispatches to the same child code as the production binary.

import (
	"os"
	"testing"
)

func TestMain(m *testing.M) {
	for i, a := range os.Args {
		if fn, ok := childModes[a]; ok && i > 0 {
			fn(os.Args[i+1:])
			os.Exit(0)
		}
	}
	os.Exit(m.Run())
}
