package main

// C08 (ii): stress rounds, their sequential twin and the oracle.  See c08.go.

import (
	"bytes"
	"context"
	"encoding/json"
	"fmt"
	logslog "log/slog"
	"regexp"
	"sort"
	"strconv"
	"strings"
	"sync"
	"sync/atomic"

	"github.com/hedzr/logg/slog"
)

type c08LoggerDesc struct {
	Name   string  `json:"name"`
	Parent int     `json:"parent"` // -1: a detached root
	Mode   string  `json:"mode"`
	Level  int     `json:"level"`
	Attrs  []GAttr `json:"attrs,omitempty"`
	W      []int   `json:"w"` // destinations of the normal device
	E      []int   `json:"e"` // destinations of the error device
}

type c08CallDesc struct {
	ID     int     `json:"id"`
	L      int     `json:"l"`
	EP     string  `json:"ep"`
	Msg    string  `json:"msg"`
	Args   []GAttr `json:"args,omitempty"`
	Form   int     `json:"form"`
	Shared []int   `json:"shared,omitempty"` // indices of the round's shared attribute values
}

type c08Round struct {
	Mode       string          `json:"mode"` // stress
	Idx        int             `json:"round"`
	Loggers    []c08LoggerDesc `json:"loggers"`
	Shared     []GAttr         `json:"shared,omitempty"`
	NW         int             `json:"nw"`
	G          int             `json:"g"`
	N          int             `json:"n"`
	Calls      [][]c08CallDesc `json:"-"`
	Caller     bool            `json:"caller"`
	AttrsR     bool            `json:"attrs_r"`
	SharedSafe bool            `json:"shared_safe"`
	Blanks     int             `json:"blank_calls"` // blank-line calls (Println() / Print("")) on one more logger before the goroutines start
}

// every level sorted by key, one attribute per key, no nil entries, no pre-filled
// constructors: the in-place sort of the code as it is then rewrites every element
// with itself, so that sharing such a value cannot change what is printed
func c08Normalise(as []GAttr) []GAttr {
	out := sortDedupe(as)
	for i := range out {
		if out[i].Val.Kind == "group" {
			out[i].Val.Items = c08Normalise(out[i].Val.Items)
			out[i].Val.Ctor = []int{0, 2, 3}[out[i].Val.Ctor%3]
		}
	}
	return out
}

var c08Texts = []string{"long continuation lines\n" + strings.Repeat("c", 700) + "\n" + strings.Repeat("d", 700), "plain message", "two\nlines", "three\nlines\nhere", "tab\tand \"quotes\"", "trailing newline\n", "unicode é世界", ""}

func c08GenRound(seed uint64, tier string, idx int, sharedSafe bool) *c08Round {
	r := &Rng{seed*0x9e3779b97f4a7c15 + uint64(idx)*0xbf58476d1ce4e5b9 + 0xc08}
	thorough := tier == "thorough"
	rd := &c08Round{Mode: "stress", Idx: idx, SharedSafe: sharedSafe, Caller: r.Chance(40), AttrsR: r.Chance(40)}
	maxG := 16
	if thorough {
		maxG = 64
	}
	rd.G = 2 + r.Intn(maxG-1)
	if r.Chance(25) {
		rd.G = maxG
	}
	rd.N = 1 + r.Intn(8)
	if thorough && r.Chance(30) {
		rd.N = 8 + r.Intn(9)
	}
	nl := 1 + r.Intn(8)
	rd.NW = 1 + r.Intn(4)
	modes := []string{"json", "logfmt", "color"}
	levels := []int{int(slog.TraceLevel), int(slog.DebugLevel), int(slog.InfoLevel), int(slog.InfoLevel), int(slog.WarnLevel)}
	pick := func() []int {
		ws := []int{r.Intn(rd.NW)}
		if r.Chance(35) {
			ws = append(ws, r.Intn(rd.NW))
		}
		return ws
	}
	for i := 0; i < nl; i++ {
		ld := c08LoggerDesc{Name: fmt.Sprintf("lg%d", i), Parent: -1, Mode: modes[r.Intn(3)], Level: levels[r.Intn(len(levels))], W: pick()}
		if i > 0 && r.Chance(65) {
			ld.Parent = r.Intn(i)
		}
		ld.E = ld.W
		if r.Chance(40) {
			ld.E = pick()
		}
		if r.Chance(70) {
			ld.Attrs = c08DropNils(c08GenAttrs(r, 0, 2, 3, false, 30))
			for j := range ld.Attrs { // logger attributes must not hide the markers
				ld.Attrs[j].Key = "l" + ld.Attrs[j].Key
			}
			if sharedSafe {
				ld.Attrs = c08Normalise(ld.Attrs)
			}
		}
		rd.Loggers = append(rd.Loggers, ld)
	}
	ns := r.Intn(5)
	for i := 0; i < ns; i++ {
		a := GAttr{Key: fmt.Sprintf("s%d", i)}
		if r.Chance(60) {
			a.Val = GVal{Kind: "group", Items: c08GenAttrs(r, 1, 2, 6, !sharedSafe, 30), Ctor: r.Intn(5)}
		} else {
			a.Val = genLeaf(r, EncProfile{}, c08LeafKinds[r.Intn(len(c08LeafKinds))])
		}
		rd.Shared = append(rd.Shared, a)
	}
	if sharedSafe {
		rd.Shared = c08Normalise(rd.Shared)
	}
	if r.Chance(50) {
		rd.Blanks = 1 + r.Intn(3)
	}
	slogStart := r.Chance(25) // every goroutine starts with a record through the derived log/slog logger of logger 0
	id := 0
	for g := 0; g < rd.G; g++ {
		var cs []c08CallDesc
		for i := 0; i < rd.N; i++ {
			cd := c08CallDesc{ID: id, L: r.Intn(nl), EP: c08EPs[r.Intn(len(c08EPs))], Form: r.Intn(4)}
			if r.Chance(50) { // many goroutines on one logger
				cd.L = 0
			}
			if r.Chance(12) { // through a log/slog logger derived from the logger with With(...): no attributes of its own
				cd.EP = "SlogNoAttrs"
			}
			if slogStart && i == 0 {
				cd.EP, cd.L = "SlogNoAttrs", 0
			}
			cd.Msg = fmt.Sprintf("C08M%d; %s", id, c08Texts[r.Intn(len(c08Texts))])
			cd.Args = c08DropNils(c08GenAttrs(r, 0, 1, 3, false, 25))
			if r.Chance(30) {
				cd.Args = append(cd.Args, GAttr{Key: "err", Val: GVal{Kind: "error", S: fmt.Sprintf("failure %d", id)}})
			}
			for j := range rd.Shared {
				if r.Chance(45) {
					cd.Shared = append(cd.Shared, j)
				}
			}
			cs = append(cs, cd)
			id++
		}
		rd.Calls = append(rd.Calls, cs)
	}
	return rd
}

// ---- the real objects of a round ----
// the attributes given to With: 24 keys in descending order (the first record through the handler has something to sort)
var c08SlogWith = func() []any {
	out := []any{"zz", 1, "c08slog", 1}
	for i := 23; i >= 0; i-- {
		out = append(out, fmt.Sprintf("w%02d", i), i)
	}
	return out
}()

// c08Slog: the log/slog logger derived from each logger of the round (entry point "SlogNoAttrs")
var c08Slog = map[*slog.Entry]*logslog.Logger{}
var c08SlogMu sync.Mutex

type c08RT struct {
	ents   []*slog.Entry
	ws     []*c08W
	shared []slog.Attr
}

func (rd *c08Round) build() *c08RT {
	rt := &c08RT{}
	for i := 0; i < rd.NW; i++ {
		rt.ws = append(rt.ws, &c08W{id: i})
	}
	for _, ld := range rd.Loggers {
		var e *slog.Entry
		if ld.Parent < 0 {
			e = slog.VerifEntryOf(slog.New(ld.Name))
		} else {
			e = rt.ents[ld.Parent].New(ld.Name)
		}
		e.SetLevel(slog.Level(ld.Level))
		c08SetMode(e, ld.Mode)
		for k, w := range ld.W {
			if k == 0 {
				e.SetWriter(rt.ws[w])
			} else {
				e.AddWriter(rt.ws[w])
			}
		}
		for k, w := range ld.E {
			if k == 0 {
				e.SetErrorWriter(rt.ws[w])
			} else {
				e.AddErrorWriter(rt.ws[w])
			}
		}
		if la := c08Build(ld.Attrs); len(la) > 0 {
			e.SetAttrs(la...)
		}
		e.SetContextKeys(c08CtxKey)
		rt.ents = append(rt.ents, e)
		// (handler attributes deliberately not in key order; c08slog marks the records of this entry point)
		sl := logslog.New(slog.NewSlogHandler(e, &slog.HandlerOptions{NoColor: ld.Mode != "color", JSON: ld.Mode == "json", Level: slog.Level(ld.Level)})).
			With(c08SlogWith...)
		c08SlogMu.Lock()
		c08Slog[e] = sl
		c08SlogMu.Unlock()
	}
	rt.shared = c08Build(rd.Shared)
	return rt
}

// the arguments of one call: its own fresh attributes, the shared values, its marker
func (rd *c08Round) args(rt *c08RT, cd c08CallDesc) []any {
	desc := append([]GAttr{}, cd.Args...)
	attrs := c08Build(cd.Args)
	for _, j := range cd.Shared {
		desc = append(desc, rd.Shared[j])
		attrs = append(attrs, rt.shared[j])
	}
	mk := GAttr{Key: fmt.Sprintf("UQ%dX", cd.ID), Val: GVal{Kind: "int", I: int64(cd.ID)}}
	desc = append(desc, mk)
	attrs = append(attrs, slog.NewAttr(mk.Key, int(mk.Val.I)))
	return c08Args(desc, attrs, cd.Form)
}

type c08Rec struct {
	W  int
	ID int // the call the payload belongs to (-1: none / not exactly one)
	P  string
}

var c08TimeRx = regexp.MustCompile(`\d{2}:\d{2}:\d{2}\.\d{6}(Z|[+-]\d{2}:\d{2})`)
var c08MsgRx = regexp.MustCompile(`C08M(\d+);`)
var c08AttrRx = regexp.MustCompile(`UQ(\d+)X`)

func c08Mask(p []byte) string {
	loc := c08TimeRx.FindIndex(p)
	if loc == nil {
		return string(p)
	}
	return string(p[:loc[0]]) + "<TS>" + string(p[loc[1]:])
}

// the call whose record p is: exactly one message marker and one attribute marker, of the same call
func c08Owner(p []byte) (int, string) {
	ms := c08MsgRx.FindAllSubmatch(p, -1)
	as := c08AttrRx.FindAllSubmatch(p, -1)
	if len(ms) == 1 && len(as) == 0 && bytes.Count(p, []byte("c08slog")) == 1 { // a record of the SlogNoAttrs entry point: no attribute marker
		m, _ := strconv.Atoi(string(ms[0][1]))
		return m, ""
	}
	if len(ms) != 1 || len(as) != 1 {
		return -1, fmt.Sprintf("%d message markers and %d attribute markers in one payload", len(ms), len(as))
	}
	m, _ := strconv.Atoi(string(ms[0][1]))
	a, _ := strconv.Atoi(string(as[0][1]))
	if m != a {
		return -1, fmt.Sprintf("message of call %d with the attributes of call %d", m, a)
	}
	return m, ""
}

func c08Shape(mode string, p []byte) string {
	if len(p) == 0 || p[len(p)-1] != '\n' {
		return "does not end with a line feed"
	}
	switch mode {
	case "json":
		if p[0] != '{' || !bytes.HasSuffix(p, []byte("}\n")) || bytes.Count(p, []byte("\n")) != 1 {
			return "is not one JSON object on one line"
		}
	case "logfmt":
		if !bytes.HasPrefix(p, []byte("time=")) || bytes.Count(p, []byte("\n")) != 1 {
			return "is not one logfmt line starting with time="
		}
	default:
		if !bytes.HasPrefix(p, []byte("\x1b[")) {
			return "does not start with the colour of the timestamp"
		}
	}
	if c08TimeRx.Find(p) == nil {
		return "has no timestamp"
	}
	return ""
}

type c08Stats struct {
	Calls, Admitted, Payloads, Goroutines, Rounds int
}

func c08clip(s string, n int) string {
	if len(s) > n {
		return s[:n] + "..."
	}
	return s
}

// runs one round: sequential twin, then the concurrent run, then the oracle.
// Returns the (writer, call) pairs observed concurrently and per call (admitted, destinations of the twin).
func c08RunRound(r *Run, rd *c08Round, st *c08Stats) (obs [][2]int, admitted []bool, dests [][]int) {
	c08Flags(rd.Caller, rd.AttrsR, rd.Caller && rd.Idx%2 == 0)
	rp := map[string]any{"mode": "stress", "seed": r.Seed, "tier": r.Tier, "round": rd.Idx, "shared_safe": rd.SharedSafe, "g": rd.G, "n": rd.N, "loggers": rd.Loggers, "shared": rd.Shared, "blank_calls": rd.Blanks}
	total := rd.G * rd.N
	callOf := make([]c08CallDesc, total)
	for _, cs := range rd.Calls {
		for _, cd := range cs {
			callOf[cd.ID] = cd
		}
	}
	fail := func(key, desc string, cd *c08CallDesc) {
		x := map[string]any{}
		for k, v := range rp {
			x[k] = v
		}
		if cd != nil {
			x["call"] = cd
		}
		r.Fail(key, desc, x)
	}

	// --- sequential twin ---
	tw := rd.build()
	expected := make([]map[int][]string, total) // call -> writer -> masked payloads
	admitted = make([]bool, total)
	dests = make([][]int, total)
	lens := make([]int, rd.NW)
	for _, cs := range rd.Calls {
		for _, cd := range cs {
			e := tw.ents[cd.L]
			admitted[cd.ID] = e.Enabled(c08Level(cd.EP))
			c08Call(e, cd.EP, cd.Msg, rd.args(tw, cd))
			expected[cd.ID] = map[int][]string{}
			for wi, w := range tw.ws {
				for _, p := range w.recs[lens[wi]:] {
					expected[cd.ID][wi] = append(expected[cd.ID][wi], c08Mask(p))
					dests[cd.ID] = append(dests[cd.ID], wi)
					// the twin itself is checked: one complete record of this call
					if id, why := c08Owner(p); id != cd.ID {
						fail("C08/torn-record", fmt.Sprintf("sequential call %d: the payload is not the record of exactly that call (%s): %q", cd.ID, why, c08clip(string(p), 300)), &cd)
					} else if why := c08Shape(rd.Loggers[cd.L].Mode, p); why != "" {
						fail("C08/torn-record", fmt.Sprintf("sequential call %d (%s): the payload %s: %q", cd.ID, rd.Loggers[cd.L].Mode, why, c08clip(string(p), 300)), &cd)
					}
				}
				lens[wi] = len(w.recs)
			}
			if admitted[cd.ID] && len(dests[cd.ID]) == 0 {
				fail("C08/lost-record", fmt.Sprintf("sequential call %d (%s on a logger that admits it) delivered nothing", cd.ID, cd.EP), &cd)
			}
			if !admitted[cd.ID] && len(dests[cd.ID]) != 0 {
				fail("C08/duplicated-record", fmt.Sprintf("sequential call %d (%s, not admitted) delivered %d payloads", cd.ID, cd.EP, len(dests[cd.ID])), &cd)
			}
		}
	}

	// (set-up calls between the two runs, as a program makes them before it starts its goroutines: a path rule is
	// registered and withdrawn again - whatever the library derives from its rule tables starts from scratch)
	slog.AddKnownPathMapping("/nonexistent-c08-dir", "~c08")
	slog.RemoveKnownPathMapping("/nonexistent-c08-dir")
	slog.AddKnownPathRegexpMapping("^/nonexistent-c08/(.+)", "~$1")
	slog.RemoveKnownPathRegexpMapping("^/nonexistent-c08/(.+)")

	// --- concurrent run on an identically built tree ---
	rt := rd.build()
	slog.VerifPoolsFresh() // the goroutines start on fresh pooled contexts (1 KiB buffers)
	if rd.Blanks > 0 {     // earlier blank-line calls of the program, on a logger of their own
		be := slog.VerifEntryOf(slog.New("c08blank"))
		sink := &c08W{id: -1}
		be.SetWriter(sink).SetErrorWriter(sink)
		for i := 0; i < rd.Blanks; i++ {
			if i%2 == 0 {
				be.Println()
			} else {
				be.Print("")
			}
		}
	}
	argv := make([][]any, total)
	for _, cs := range rd.Calls {
		for _, cd := range cs {
			argv[cd.ID] = rd.args(rt, cd)
		}
	}
	var wg sync.WaitGroup
	start := make(chan struct{})
	var pmu sync.Mutex
	var panics []string
	for g := 0; g < rd.G; g++ {
		wg.Add(1)
		go func(cs []c08CallDesc) {
			defer wg.Done()
			defer func() {
				if x := recover(); x != nil {
					pmu.Lock()
					panics = append(panics, fmt.Sprint(x))
					pmu.Unlock()
				}
			}()
			<-start
			for _, cd := range cs {
				c08Call(rt.ents[cd.L], cd.EP, cd.Msg, argv[cd.ID])
			}
		}(rd.Calls[g])
	}
	close(start)
	wg.Wait()
	for _, p := range panics {
		fail("C08/panic-under-concurrency", "a log call panicked while other goroutines were logging: "+c08clip(p, 300), nil)
	}
	if why := c08FreshLevels(rd); why != "" {
		fail("C08/fresh-levels", why, nil)
	}

	// --- oracle ---
	got := make([]map[int]int, total)
	for i := range got {
		got[i] = map[int]int{}
	}
	for wi, w := range rt.ws {
		for _, p := range w.recs {
			st.Payloads++
			id, why := c08Owner(p)
			if id < 0 || id >= total {
				obs = append(obs, [2]int{wi, -1})
				fail("C08/torn-record", fmt.Sprintf("destination %d observed a payload that is not the record of exactly one call (%s): %q", wi, why, c08clip(string(p), 400)), nil)
				continue
			}
			cd := callOf[id]
			obs = append(obs, [2]int{wi, id})
			if why := c08Shape(rd.Loggers[cd.L].Mode, p); why != "" {
				fail("C08/torn-record", fmt.Sprintf("destination %d: the payload of call %d (%s) %s: %q", wi, id, rd.Loggers[cd.L].Mode, why, c08clip(string(p), 400)), &cd)
				continue
			}
			m := c08Mask(p)
			ok := false
			for _, x := range expected[id][wi] {
				if x == m {
					ok = true
				}
			}
			if !ok && len(expected[id][wi]) > 0 {
				fail("C08/torn-record", fmt.Sprintf("destination %d: the payload of call %d differs from the record the same call produces sequentially:\n concurrent %q\n sequential %q", wi, id, c08clip(m, 500), c08clip(expected[id][wi][0], 500)), &cd)
				continue
			}
			got[id][wi]++
		}
	}
	for id := 0; id < total; id++ {
		cd := callOf[id]
		ws := map[int]bool{}
		for w := range expected[id] {
			ws[w] = true
		}
		for w := range got[id] {
			ws[w] = true
		}
		for w := range ws {
			e, g := len(expected[id][w]), got[id][w]
			if g < e {
				fail("C08/lost-record", fmt.Sprintf("call %d: destination %d observed %d of its %d record(s)", id, w, g, e), &cd)
			} else if g > e {
				fail("C08/duplicated-record", fmt.Sprintf("call %d: destination %d observed its record %d times instead of %d", id, w, g, e), &cd)
			}
		}
		if admitted[id] {
			st.Admitted++
		}
	}
	st.Calls += total
	st.Goroutines += rd.G
	st.Rounds++
	return
}

// a legal interleaving of the model's steps for the round (goroutine order kept)
func c08Schedule(r *Rng, rd *c08Round, admitted []bool) [][2]int {
	type pos struct{ call, step int }
	ps := make([]pos, rd.G)
	live := []int{}
	for g := 0; g < rd.G; g++ {
		live = append(live, g)
	}
	var out [][2]int
	for len(live) > 0 {
		k := r.Intn(len(live))
		g := live[k]
		p := &ps[g]
		id := rd.Calls[g][p.call].ID
		need := 8
		if !admitted[id] {
			need = 1 // one idle entry: the model's step of a finished call is a no-op
		}
		out = append(out, [2]int{id, r.Intn(4)})
		p.step++
		if p.step >= need {
			p.call++
			p.step = 0
			if p.call >= len(rd.Calls[g]) {
				live = append(live[:k], live[k+1:]...)
			}
		}
	}
	return out
}

func c08RunCoq(rd *c08Round, admitted []bool, dests [][]int, sched [][2]int, obs [][2]int) string {
	var lat, cs, sc, ob []string
	for li, ld := range rd.Loggers {
		var ids []int64
		for j := range ld.Attrs {
			ids = append(ids, int64(li*1000+j))
		}
		lat = append(lat, cZs(ids))
	}
	for _, g := range rd.Calls {
		_ = g
	}
	total := rd.G * rd.N
	callOf := make([]c08CallDesc, total)
	for _, g := range rd.Calls {
		for _, cd := range g {
			callOf[cd.ID] = cd
		}
	}
	for id := 0; id < total; id++ {
		cd := callOf[id]
		var args, ds []int64
		for j := range cd.Args {
			args = append(args, int64(100000+id*100+j))
		}
		for _, j := range cd.Shared {
			args = append(args, int64(50000+j))
		}
		for _, d := range dests[id] {
			ds = append(ds, int64(d))
		}
		cs = append(cs, fmt.Sprintf("(%s, %d, %s, %s)", cBool(admitted[id]), cd.L, cZs(args), cZs(ds)))
	}
	for _, s := range sched {
		sc = append(sc, fmt.Sprintf("(%d,%d)", s[0], s[1]))
	}
	sorted := append([][2]int{}, obs...)
	sort.Slice(sorted, func(i, j int) bool {
		if sorted[i][0] != sorted[j][0] {
			return sorted[i][0] < sorted[j][0]
		}
		return sorted[i][1] < sorted[j][1]
	})
	for _, o := range sorted {
		ob = append(ob, fmt.Sprintf("(%d,%s)", o[0], cZ(int64(o[1]))))
	}
	return fmt.Sprintf("KRun %s %s %s %s", cList(lat), cList(cs), cList(sc), cList(ob))
}

func (rd *c08Round) canon() string {
	js, _ := json.Marshal(rd)
	var sb strings.Builder
	sb.Write(js)
	for _, g := range rd.Calls {
		for _, cd := range g {
			fmt.Fprintf(&sb, "|%d %s %d %v %d", cd.L, cd.EP, cd.Form, cd.Shared, len(cd.Args))
		}
	}
	return sb.String()
}

// a round is non-trivial when at least two goroutines share a value: a logger, or a shared attribute
func (rd *c08Round) sharing() (bool, string) {
	byL := map[int]map[int]bool{}
	byS := map[int]map[int]bool{}
	for g, cs := range rd.Calls {
		for _, cd := range cs {
			if byL[cd.L] == nil {
				byL[cd.L] = map[int]bool{}
			}
			byL[cd.L][g] = true
			for _, j := range cd.Shared {
				if byS[j] == nil {
					byS[j] = map[int]bool{}
				}
				byS[j][g] = true
			}
		}
	}
	kind := ""
	for _, gs := range byL {
		if len(gs) >= 2 {
			kind = "logger"
		}
	}
	for j, gs := range byS {
		if len(gs) >= 2 {
			if rd.Shared[j].Val.Kind == "group" {
				return true, "shared group"
			}
			kind = "shared value"
		}
	}
	return kind != "", kind
}

// c08FreshLevels: a burst of records at severities this process has never used (unregistered, negative: every logger
// but an Off one admits them) from several goroutines at once - whatever the library derives per severity on first
// use (names, tags) is derived concurrently.  Every call delivers exactly one record carrying its own marker.
var c08FreshLevel atomic.Int64

func c08FreshLevels(rd *c08Round) string {
	w := &c08W{id: 999}
	e := slog.VerifEntryOf(slog.New(fmt.Sprintf("c08fresh%d", rd.Idx)))
	e.SetLevel(slog.InfoLevel)
	c08SetMode(e, []string{"json", "logfmt", "color"}[rd.Idx%3])
	e.SetWriter(w).SetErrorWriter(w)
	const G, N = 6, 12
	var wg sync.WaitGroup
	var pmu sync.Mutex
	var panics []string
	start := make(chan struct{})
	base := c08FreshLevel.Add(G * N)
	for g := 0; g < G; g++ {
		wg.Add(1)
		go func(g int) {
			defer wg.Done()
			defer func() {
				if x := recover(); x != nil {
					pmu.Lock()
					panics = append(panics, fmt.Sprint(x))
					pmu.Unlock()
				}
			}()
			<-start
			for i := 0; i < N; i++ {
				k := g*N + i
				lvl := slog.Level(-1000 - (base - int64(k)))
				e.Logit(context.Background(), lvl, fmt.Sprintf("C08F%d;", k), fmt.Sprintf("FQ%dX", k), k)
			}
		}(g)
	}
	close(start)
	wg.Wait()
	if len(panics) > 0 {
		return "a log call at a severity used for the first time panicked while other goroutines were logging: " + c08clip(panics[0], 300)
	}
	seen := map[int]int{}
	for _, p := range w.recs {
		var m, a int
		if _, err := fmt.Sscanf(string(p[bytes.Index(p, []byte("C08F")):]), "C08F%d;", &m); err != nil || bytes.Count(p, []byte("C08F")) != 1 {
			return fmt.Sprintf("a payload of the fresh-severity burst is not the record of one call: %q", c08clip(string(p), 300))
		}
		if i := bytes.Index(p, []byte("FQ")); i < 0 {
			return fmt.Sprintf("record %d of the fresh-severity burst lost its attribute: %q", m, c08clip(string(p), 300))
		} else if _, err := fmt.Sscanf(string(p[i:]), "FQ%dX", &a); err != nil || a != m {
			return fmt.Sprintf("record %d of the fresh-severity burst carries the attribute of call %d: %q", m, a, c08clip(string(p), 300))
		}
		seen[m]++
	}
	for k := 0; k < G*N; k++ {
		if seen[k] != 1 {
			return fmt.Sprintf("call %d of the fresh-severity burst was delivered %d times", k, seen[k])
		}
	}
	return ""
}
