package main

// C13, loggers WITHOUT writers of their own: a logger that was never given a writer (slog.New without
// writer options, any child of it, the package-level functions) prints to the package's default
// destinations, standard output and standard error.  The enumeration in c13.go configures every logger it
// drives; here the failing destination is the process's standard output itself (closed, as under a
// supervisor that went away), in a child process of its own:
//
//   - every logging call returns normally,
//   - a record for the error device (standard error still works) is delivered complete, exactly once,
//   - a record whose destination fails produces at most one diagnostic warning (on standard error).
//
// The child reports on a duplicate of its original standard output; its standard error is a file.

import (
	"bytes"
	"encoding/json"
	"fmt"
	"os"
	"os/exec"
	"path/filepath"
	"strings"
	"syscall"
	"time"

	"github.com/hedzr/logg/slog"
)

func init() { childModes["C13-default"] = c13DefaultChild }

type c13DefCall struct {
	Logger      string `json:"logger"`
	Mode        string `json:"mode"`
	Call        string `json:"call"`
	Token       string `json:"token"`
	Panic       string `json:"panic,omitempty"`
	Diagnostics int    `json:"diagnostics_on_stderr"`
	Delivered   int    `json:"records_with_token_on_stderr"`
	Stderr      string `json:"stderr_delta,omitempty"`
}

const c13DiagText = "slog print log failed"

func c13DefaultChild(args []string) {
	dir := args[0]
	saved, err := syscall.Dup(1)
	must(err)
	res := os.NewFile(uintptr(saved), "result")
	ef, err := os.Create(filepath.Join(dir, "stderr.txt"))
	must(err)
	must(syscall.Dup2(int(ef.Fd()), 2))
	must(os.Stdout.Close()) // every Write to standard output now fails
	slog.AddFlags(slog.LnoInterrupt)
	slog.SetLevel(slog.InfoLevel)
	size := func() int64 {
		st, err := os.Stat(filepath.Join(dir, "stderr.txt"))
		must(err)
		return st.Size()
	}
	var out []c13DefCall
	type lg struct {
		name string
		mk   func() slog.Logger // nil: the package-level functions
	}
	loggers := []lg{
		{"slog.New(name)", func() slog.Logger { return slog.New("c13-default") }},
		{"child of a logger without writers", func() slog.Logger { return slog.New("c13-parent").New("kid") }},
		{"slog.New(name).WithAttrs", func() slog.Logger { return slog.New("c13-attrs").WithAttrs(slog.String("svc", "x")) }},
		{"package-level functions", nil},
	}
	n := 0
	for li, l := range loggers {
		for mi, mode := range []string{"color", "logfmt", "json"} {
			var e slog.Logger
			if l.mk != nil {
				e = l.mk()
				switch mode {
				case "json":
					slog.VerifEntryOf(e).SetJSONMode(true)
				case "logfmt":
					slog.VerifEntryOf(e).SetColorMode(false)
				default:
					slog.VerifEntryOf(e).SetColorMode(true)
				}
				slog.VerifEntryOf(e).SetLevel(slog.InfoLevel)
			} else if mi > 0 {
				continue
			}
			for _, call := range []string{"Info", "Print", "Error", "Info", "Warn", "Error"} {
				n++
				c := c13DefCall{Logger: l.name, Mode: mode, Call: call, Token: fmt.Sprintf("c13default-%d-%d-%d", li, mi, n)}
				before := size()
				func() {
					defer func() {
						if p := recover(); p != nil {
							c.Panic = fmt.Sprint(p)
						}
					}()
					if e == nil {
						map[string]func(string, ...any){"Info": slog.Info, "Print": slog.Print, "Error": slog.Error, "Warn": slog.Warn}[call](c.Token, "k", 1)
					} else {
						map[string]func(string, ...any){"Info": e.Info, "Print": e.Print, "Error": e.Error, "Warn": e.Warn}[call](c.Token, "k", 1)
					}
				}()
				b, err := os.ReadFile(filepath.Join(dir, "stderr.txt"))
				must(err)
				delta := string(b[before:])
				c.Diagnostics = strings.Count(delta, c13DiagText)
				c.Delivered = strings.Count(delta, c.Token)
				if len(delta) < 2000 {
					c.Stderr = delta
				} else {
					c.Stderr = delta[:2000] + "..."
				}
				out = append(out, c)
			}
		}
	}
	b, _ := json.Marshal(out)
	res.Write(b)
}

// c13CloseThenLog: closing a logger's writers through the library closes what can be closed; a destination without a
// Close method (a plain io.Writer the program owns and keeps using) goes on receiving records afterwards - no sticky
// failure, no diagnostic (direct oracle, in this process)
func c13CloseThenLog(r *Run) {
	snap := slog.VerifSnapshot()
	defer resetProcess(snap)
	for _, how := range []string{"GetWriter().Close()", "GetWriterBy(Error).Close()", "GetWriter().Close() twice"} {
		for _, mode := range []string{"logfmt", "json"} {
			resetProcess(snap)
			slog.AddFlags(slog.LnoInterrupt)
			l := slog.VerifEntryOf(slog.New("c13close"))
			l.SetWriter(pool[1]).SetErrorWriter(pool[2]).SetLevel(slog.InfoLevel)
			if mode == "json" {
				l.SetJSONMode(true)
			} else {
				l.SetColorMode(false)
			}
			count := func() (n1, n2, diag int) {
				for _, ev := range events {
					if ev.Kind == "write" {
						if bytes.Contains(ev.Payload, []byte(c13DiagText)) {
							diag++
						} else if ev.W == 1 {
							n1++
						} else if ev.W == 2 {
							n2++
						}
					}
				}
				return
			}
			events = nil
			l.Info("before close")
			l.Error("before close")
			var cerr any
			func() {
				defer func() {
					if p := recover(); p != nil {
						cerr = p
					}
				}()
				switch how {
				case "GetWriterBy(Error).Close()":
					_ = l.GetWriterBy(slog.ErrorLevel).Close()
				case "GetWriter().Close() twice":
					_ = l.GetWriter().Close()
					_ = l.GetWriter().Close()
				default:
					_ = l.GetWriter().Close()
				}
			}()
			a1, a2, _ := count()
			events = nil
			l.Info("after close")
			l.Error("after close")
			l.Info("after close, again")
			b1, b2, diag := count()
			events = nil
			r.Count(true, "close-then-log "+how+" "+mode)
			r.Dist["close-then-log"]++
			rep := map[string]any{"mode": "close-then-log", "how": how, "format": mode, "before": []int{a1, a2}, "after": []int{b1, b2}, "diagnostics": diag, "close_panic": fmt.Sprint(cerr)}
			switch {
			case cerr != nil:
				r.Fail("C13/close-then-log", fmt.Sprintf("%s panicked: %v", how, cerr), rep)
			case a1 != 1 || a2 != 1:
				r.Fail("C13/close-then-log", fmt.Sprintf("before the close: %d / %d records on the normal / error destination, one each expected", a1, a2), rep)
			case b1 != 2 || b2 != 1 || diag != 0:
				r.Fail("C13/close-then-log", fmt.Sprintf("after %s (destinations without a Close method, still working): %d / %d records on the normal / error destination (2 / 1 expected), %d diagnostics", how, b1, b2, diag), rep)
			}
		}
	}
}

func c13DefaultCheck(r *Run) {
	exe, err := os.Executable()
	must(err)
	dir := filepath.Join(r.Out, "c13-default")
	must(os.MkdirAll(dir, 0o755))
	defer os.RemoveAll(dir)
	cmd := exec.Command(exe, "C13-default", dir)
	var so, se bytes.Buffer
	cmd.Stdout, cmd.Stderr = &so, &se
	t := time.AfterFunc(60*time.Second, func() { _ = cmd.Process.Kill() })
	err = cmd.Run()
	t.Stop()
	var calls []c13DefCall
	if err != nil || json.Unmarshal(so.Bytes(), &calls) != nil || len(calls) == 0 {
		tail, _ := os.ReadFile(filepath.Join(dir, "stderr.txt"))
		if len(tail) > 1500 {
			tail = tail[len(tail)-1500:]
		}
		r.Fail("C13/default-destination/crash", fmt.Sprintf("a process whose standard output is closed and that logs through loggers without writers of their own died: %v; the end of its standard error: %q", err, string(tail)),
			map[string]any{"mode": "default-destination", "error": fmt.Sprint(err), "stderr_tail": string(tail)})
		r.Count(true, "default-destination")
		return
	}
	for _, c := range calls {
		r.Count(true, fmt.Sprintf("default-destination %+v", c))
		r.Dist["default-destination:"+c.Call]++
		toStdout := c.Call == "Info" || c.Call == "Print"
		switch {
		case c.Panic != "":
			r.Fail("C13/default-destination/panic", fmt.Sprintf("%s of %s (%s), standard output closed: the call panicked: %s", c.Call, c.Logger, c.Mode, c.Panic), c)
		case c.Diagnostics > 1:
			r.Fail("C13/default-destination/cascade", fmt.Sprintf("%s of %s (%s), standard output closed: %d diagnostic warnings for one record", c.Call, c.Logger, c.Mode, c.Diagnostics), c)
		case !toStdout && (c.Delivered != 1 || c.Diagnostics != 0):
			r.Fail("C13/default-destination/error-device", fmt.Sprintf("%s of %s (%s) goes to standard error, which works: the record was delivered %d time(s) with %d diagnostic(s)", c.Call, c.Logger, c.Mode, c.Delivered, c.Diagnostics), c)
		}
	}
}
