package main

// C05: logfmt mode - one line of key=value pairs that parses back to what was logged.

import (
	"bytes"
	"fmt"
	"github.com/hedzr/logg/slog"
	"strconv"
	"strings"
	"time"
)

func init() { drivers["C05"] = runC05; replayers["C05"] = replayEnc("C05") }

type lfPair struct {
	Key string
	Raw string // value as printed
}

// independent logfmt tokenizer: pairs separated by blanks outside quotes and brackets
func tokenizeLogfmt(line string) ([]lfPair, error) {
	var out []lfPair
	i := 0
	for i < len(line) {
		if line[i] == ' ' {
			i++
			continue
		}
		ks := i
		for i < len(line) && line[i] != '=' && line[i] != ' ' {
			i++
		}
		if i >= len(line) || line[i] != '=' {
			return out, fmt.Errorf("token %q at %d has no '='", line[ks:i], ks)
		}
		key := line[ks:i]
		i++
		vs := i
		scanQuoted := func() error {
			i++ // opening quote
			for i < len(line) {
				switch line[i] {
				case '\\':
					i += 2
					continue
				case '"':
					i++
					return nil
				}
				i++
			}
			return fmt.Errorf("unterminated quote in value of %q", key)
		}
		switch {
		case i < len(line) && line[i] == '"':
			if err := scanQuoted(); err != nil {
				return out, err
			}
		case i < len(line) && line[i] == '[':
			depth := 0
			for i < len(line) {
				c := line[i]
				if c == '"' {
					if err := scanQuoted(); err != nil {
						return out, err
					}
					continue
				}
				if c == '[' {
					depth++
				}
				if c == ']' {
					depth--
					if depth == 0 {
						i++
						break
					}
				}
				i++
			}
			if depth != 0 {
				return out, fmt.Errorf("unterminated list in value of %q", key)
			}
		default:
			for i < len(line) && line[i] != ' ' {
				i++
			}
		}
		if i < len(line) && line[i] != ' ' {
			return out, fmt.Errorf("garbage after the value of %q", key)
		}
		out = append(out, lfPair{key, line[vs:i]})
	}
	return out, nil
}

func unq(raw string) (string, bool) {
	s, err := strconv.Unquote(raw)
	return s, err == nil && len(raw) >= 2 && raw[0] == '"'
}

// split a printed list "[a,b,"c,d"]" into its elements (quote aware)
func splitList(raw string) ([]string, bool) {
	if len(raw) < 2 || raw[0] != '[' || raw[len(raw)-1] != ']' {
		return nil, false
	}
	body := raw[1 : len(raw)-1]
	if body == "" {
		return nil, true
	}
	var out []string
	start, i := 0, 0
	for i < len(body) {
		switch body[i] {
		case '"':
			i++
			for i < len(body) && body[i] != '"' {
				if body[i] == '\\' {
					i++
				}
				i++
			}
			i++
		case ',':
			out = append(out, body[start:i])
			i++
			start = i
		default:
			i++
		}
	}
	out = append(out, body[start:])
	return out, true
}

// matchLogfmtLeaf: does the printed value carry exactly the logged value?
func matchLogfmtLeaf(v GVal, raw string) string {
	bad := func(what string) string { return fmt.Sprintf("kind %s: %s (printed %q)", v.Kind, what, raw) }
	quoted := func(want string) string {
		if s, ok := unq(raw); !ok || s != want {
			return bad(fmt.Sprintf("does not unquote to the logged text %q", want))
		}
		return ""
	}
	list := func(k int, f func(i int, e string) bool) string {
		el, ok := splitList(raw)
		if !ok || len(el) != k {
			return bad("not a list of the right length")
		}
		for i, e := range el {
			if !f(i, e) {
				return bad(fmt.Sprintf("element %d differs", i))
			}
		}
		return ""
	}
	switch v.Kind {
	case "holder":
		if raw != "" {
			return bad("the key of a list given as a value carries a value of its own")
		}
	case "nil":
		if raw != "<nil>" && raw != "null" {
			return bad("nil placeholder")
		}
	case "string", "stringer", "tostring", "error", "stackerr", "bytes", "textm":
		return quoted(v.S)
	case "level":
		return quoted(levelName(v.I))
	case "bool":
		if raw != strconv.FormatBool(v.B) {
			return bad("bool differs")
		}
	case "int", "int8", "int16", "int32", "int64":
		if raw != strconv.FormatInt(v.Go2Int(), 10) {
			return bad("integer differs")
		}
	case "uint", "uint8", "uint16", "uint32", "uint64":
		if raw != strconv.FormatUint(v.Go2Uint(), 10) {
			return bad("unsigned differs")
		}
	case "float32":
		if raw != ftxt(float64(float32(v.F))) {
			return bad("float differs")
		}
	case "float64":
		if raw != ftxt(v.F) {
			return bad("float differs")
		}
	case "complex64":
		if raw != strconv.FormatComplex(complex128(complex64(complex(v.C[0], v.C[1]))), 'f', -1, 128) {
			return bad("complex differs")
		}
	case "complex128":
		if raw != strconv.FormatComplex(complex(v.C[0], v.C[1]), 'f', -1, 128) {
			return bad("complex differs")
		}
	case "duration":
		return quoted(time.Duration(v.I).String())
	case "time":
		return quoted(fixedTime.Add(time.Duration(v.I)).Format(time.RFC3339Nano))
	case "struct", "map", "nilptr":
		return quoted(fmt.Sprintf("{{%v}}", v.Go()))
	case "strs":
		return list(len(v.Strs), func(i int, e string) bool { s, ok := unq(e); return ok && s == v.Strs[i] })
	case "bools":
		return list(len(v.Bools), func(i int, e string) bool { return e == strconv.FormatBool(v.Bools[i]) })
	case "ints", "int64s", "int8s", "int16s", "int32s":
		return list(len(v.Ints), func(i int, e string) bool { return e == strconv.FormatInt(v.Ints[i], 10) })
	case "uint64s", "uint16s", "uints", "uint32s":
		return list(len(v.Uints), func(i int, e string) bool {
			u := v.Uints[i]
			if v.Kind == "uint16s" {
				u = uint64(uint16(u))
			}
			return e == strconv.FormatUint(u, 10)
		})
	case "float64s":
		return list(len(v.Fs), func(i int, e string) bool { return e == ftxt(v.Fs[i]) })
	case "durs":
		d := v.durs()
		return list(len(d), func(i int, e string) bool { s, ok := unq(e); return ok && s == d[i].String() })
	case "times":
		t := v.times()
		return list(len(t), func(i int, e string) bool { s, ok := unq(e); return ok && s == t[i].Format(time.RFC3339Nano) })
	}
	return ""
}

type lfExpect struct {
	Key string
	Val GVal
}

func flattenLogfmt(prefix string, as []GAttr, out *[]lfExpect) {
	for _, a := range sortDedupe(as) {
		k := a.Key
		if prefix != "" {
			k = prefix + "." + a.Key
		}
		if a.Val.Kind == "group" {
			flattenLogfmt(k, a.Val.Items, out)
			continue
		}
		// a list / a group given as the VALUE of a key (direct-oracle corpus only): the key itself with an empty value, then
		// the members under its dotted name (the group's own name in between)
		if a.Val.Kind == "attrsval" {
			*out = append(*out, lfExpect{k, GVal{Kind: "holder"}})
			flattenLogfmt(k, a.Val.Items, out)
			continue
		}
		if a.Val.Kind == "groupval" {
			*out = append(*out, lfExpect{k, GVal{Kind: "holder"}})
			flattenLogfmt(k+"."+a.Val.S, a.Val.Items, out)
			continue
		}
		*out = append(*out, lfExpect{k, a.Val})
	}
}

func oracleLogfmt(rec EncRec, payloads [][]byte) string {
	if len(payloads) != 1 {
		return fmt.Sprintf("%d payloads for one record", len(payloads))
	}
	if rec.Cfg.Level == 8 && strings.Trim(rec.Msg, "\n\r \t") == "" { // blank Print: exactly one newline (property C02)
		if string(payloads[0]) != "\n" {
			return "blank Print is not delivered as one newline byte"
		}
		return ""
	}
	line := payloads[0]
	if bytes.Count(line, []byte("\n")) != 1 || !bytes.HasSuffix(line, []byte("\n")) {
		return "framing: the record is not exactly one line"
	}
	for _, c := range line[:len(line)-1] {
		if c < 0x20 || c == 0x7f {
			return "framing: raw control byte inside the line"
		}
	}
	pairs, err := tokenizeLogfmt(string(line[:len(line)-1]))
	if err != nil {
		return "does not tokenize: " + err.Error()
	}
	next := func(key string) (string, bool) {
		if len(pairs) == 0 || pairs[0].Key != key {
			return "", false
		}
		v := pairs[0].Raw
		pairs = pairs[1:]
		return v, true
	}
	if v, ok := next("time"); !ok || v != strconv.Quote(tsText) {
		return "time pair missing or wrong"
	}
	if rec.Cfg.Name != "" {
		if v, ok := next("logger"); !ok {
			return "logger pair missing"
		} else if s, ok := unq(v); !ok || s != rec.Cfg.Name {
			return "logger pair wrong"
		}
	}
	if v, ok := next("level"); !ok {
		return "level pair missing"
	} else if s, ok := unq(v); !ok || s != levelName(int64(rec.Cfg.Level)) {
		return "level pair wrong"
	}
	if v, ok := next("msg"); !ok {
		return "msg pair missing"
	} else if s, ok := unq(v); !ok || s != rec.Msg {
		return fmt.Sprintf("msg does not unquote to the logged message (printed %q)", v)
	}
	var exp []lfExpect
	flattenLogfmt("", rec.Attrs, &exp)
	if rec.Cfg.Caller {
		if len(pairs) < 3 {
			return "caller pairs missing"
		}
		cp := pairs[len(pairs)-3:]
		pairs = pairs[:len(pairs)-3]
		f, ok1 := unq(cp[0].Raw)
		fn, ok3 := unq(cp[2].Raw)
		if cp[0].Key != "caller.file" || cp[1].Key != "caller.line" || cp[2].Key != "caller.function" || !ok1 || !ok3 ||
			f != encCaller.File || cp[1].Raw != strconv.Itoa(encCaller.Line) || fn != encCaller.Func {
			return "caller pairs wrong"
		}
	}
	if len(pairs) != len(exp) {
		return fmt.Sprintf("attributes: %d pairs printed, %d leaf attributes logged", len(pairs), len(exp))
	}
	for i, e := range exp {
		if pairs[i].Key != e.Key {
			return fmt.Sprintf("attributes: pair %d has key %q, expected %q", i, pairs[i].Key, e.Key)
		}
		if why := matchLogfmtLeaf(e.Val, pairs[i].Raw); why != "" {
			return fmt.Sprintf("attributes: key %q: %s", e.Key, why)
		}
	}
	return ""
}

// ---- the domain predicate of the C05 theorems (coq/Model/Logfmt.v lf_domain), evaluated in Go on
// every record the harness feeds; Corr/C05.v requires the same of the Gallina form of the record ----
func lfLegalKey(k string) bool {
	if k == "" || reservedKeys[k] {
		return false
	}
	for i := 0; i < len(k); i++ {
		if c := k[i]; c <= ' ' || c == 0x7f || c == '=' || c == '"' {
			return false
		}
	}
	return true
}
func lfQTextOK(t string) bool { // Time.AppendFormat output, printed between raw quotes
	for i := 0; i < len(t); i++ {
		if c := t[i]; c < 0x20 || c >= 0x7f || c == '"' || c == '\\' {
			return false
		}
	}
	return true
}
func lfBareOK(t string) bool { // strconv float/complex text, printed bare
	for i := 0; i < len(t); i++ {
		if c := t[i]; c <= 0x20 || c >= 0x7f {
			return false
		}
	}
	return t == "" || (t[0] != '"' && t[0] != '[')
}
func lfElemOK(t string) bool { // bare list element
	for i := 0; i < len(t); i++ {
		if c := t[i]; c <= 0x20 || c >= 0x7f || c == '"' || c == ',' || c == ']' {
			return false
		}
	}
	return t != ""
}
func lfDomAttrs(as []GAttr) bool {
	for _, a := range as {
		if a.Nil {
			continue
		}
		if !lfLegalKey(a.Key) {
			return false
		}
		v := a.Val
		switch v.Kind {
		case "group":
			if !lfDomAttrs(v.Items) {
				return false
			}
		case "float32":
			if !lfBareOK(ftxt(float64(float32(v.F)))) {
				return false
			}
		case "float64":
			if !lfBareOK(ftxt(v.F)) {
				return false
			}
		case "complex64":
			if !lfBareOK(strconv.FormatComplex(complex128(complex64(complex(v.C[0], v.C[1]))), 'f', -1, 128)) {
				return false
			}
		case "complex128":
			if !lfBareOK(strconv.FormatComplex(complex(v.C[0], v.C[1]), 'f', -1, 128)) {
				return false
			}
		case "time":
			if !lfQTextOK(fixedTime.Add(time.Duration(v.I)).Format(time.RFC3339Nano)) {
				return false
			}
		case "float64s":
			for _, f := range v.Fs {
				if !lfElemOK(ftxt(f)) {
					return false
				}
			}
		case "times":
			for _, t := range v.times() {
				if !lfQTextOK(t.Format(time.RFC3339Nano)) {
					return false
				}
			}
		}
	}
	return true
}
func lfBlankPrint(rec EncRec) bool {
	return rec.Cfg.Level == 8 && strings.Trim(rec.Msg, "\n\r \t") == ""
}
func lfDomain(rec EncRec) bool {
	return !lfBlankPrint(rec) && lfQTextOK(tsText) && lfDomAttrs(rec.Attrs)
}

func runC05(r *Run) {
	seen := map[string]bool{}
	inDom, blank, outside := 0, 0, 0
	oracle := func(rec EncRec, payloads [][]byte) string {
		if k := fmt.Sprintf("%+v", rec); !seen[k] {
			seen[k] = true
			switch {
			case lfBlankPrint(rec):
				blank++
			case lfDomain(rec):
				inDom++
			default:
				outside++
			}
		}
		return oracleLogfmt(rec, payloads)
	}
	r.Rule = "as C04 with logfmt-legal keys (non-empty, no blank/=/quote/control, not a reserved name); groups at every position among the attributes; " +
		"Corr/C05.ok per record: (1) byte-exact comparison encoder model vs implementation, (2) the record satisfies lf_domain (the hypothesis of the C05 theorems) or is a blank Print, " +
		"(3) the Coq specification tokenizer/decoder applied to the OBSERVED line returns the printed forms of fields_of and fields_of itself; " +
		"direct oracle (Go, independent of the model) = tokenizer + strconv.Unquote against the flattened dotted-key expectation + one-line framing; " +
		"production mode (harness binary, not go test, DEBUG unset); non-trivial = a byte needing escape or a group; distinct by record"
	runEncoder(r, "C05", "logfmt", "Verif.Corr.C05", EncProfile{KeyClass: 1, TextClass: 2, MaxDepth: 4, MaxAttrs: 8, LegalKeys: true}, oracle, 500, 12000)
	r.Extra["records_in_lf_domain"] = inDom
	r.Extra["records_blank_print"] = blank
	r.Extra["records_outside_domain"] = outside
	// the same kind of record in a production process started with DEBUG=1 (see c06DebugEnv): still one line
	var withErr []EncRec
	for _, rec := range c06TestingCorpus() {
		if rec.Cfg.Mode == "logfmt" {
			withErr = append(withErr, rec)
		}
	}
	snap := slog.VerifSnapshot()
	encSetup(snap)
	c06DebugEnv(r, "C05", withErr)
	resetProcess(snap)
}
