package main

// C14: caller attribution points at the user's call site for every entry point.
//
// Every public entry point is called DIRECTLY (c14_sites.go: one closure per
// entry point, one source line each), under 0..4 wrapper functions, on loggers
// configured with skip 0..4 through SetSkip and WithSkip, in the three
// formats, on root loggers, children and the default logger.  The same grid is
// run by this binary (normal build: the wrappers and the small logg verbs are
// inlined) and by harness-noinline (-gcflags=all=-l) as a child process.
//
// Direct oracle (independent of the model): the file, line and function decoded
// from the record must be those of the call statement n frames above the
// issuing statement, n being the skip count; these positions are taken with the
// runtime's own runtime.Callers/CallersFrames at the statement itself (x.at(),
// same source line) and, for the wrappers, by a calibration walk through the
// same wrapper chain.  The calibration of the two builds must agree.

import (
	"context"
	"encoding/json"
	"fmt"
	"log"
	logslog "log/slog"
	"os"
	"os/exec"
	"path/filepath"
	"regexp"
	"runtime"
	"sort"
	"strconv"
	"strings"

	"github.com/hedzr/logg/slog"
	errorsv3 "gopkg.in/hedzr/errors.v3"
)

func init() {
	drivers["C14"] = runC14
	replayers["C14"] = replayC14
	childModes["C14-grid"] = c14Child
}

type c14site struct {
	File string `json:"file"`
	Line int    `json:"line"`
	Func string `json:"function"`
}

type c14call struct {
	Recv, Name, Via string // Via: static (*Entry receiver) | iface (slog.Logger receiver) | func
	F               func(x *c14x)
}

// c14x is what a call site needs: the receivers and the place where at() leaves the position
type c14x struct {
	e   *slog.Entry
	l   slog.Logger
	sl  *logslog.Logger
	ll  *log.Logger
	ctx context.Context
	v   any       // the attribute value the call sites pass: 1, or an error value that carries a stack
	u0  c14site   // position of the issuing statement
	cal []c14site // calibration: the frames from the closure upwards

	flagsLate *slog.Flags // SetSkipLate: the flags to go back to once the handler and the bridge exist
}

// frameAt: the logical frame `skip` levels above the caller of frameAt (0 = the caller itself)
func frameAt(skip int) (c14site, bool) {
	var pcs [1]uintptr
	if runtime.Callers(skip+2, pcs[:]) == 0 {
		return c14site{}, false
	}
	fr, _ := runtime.CallersFrames(pcs[:]).Next()
	return c14site{fr.File, fr.Line, fr.Function}, fr.Func == nil
}

// at records the position of the statement it is called from (the closure's single line)
func (x *c14x) at() { x.u0, _ = frameAt(1) }

// ---- wrappers: w1 calls the closure, w2 calls w1, ...; small enough to be inlined in the normal build ----
func c14w1(x *c14x, f func(*c14x)) { f(x) }
func c14w2(x *c14x, f func(*c14x)) { c14w1(x, f) }
func c14w3(x *c14x, f func(*c14x)) { c14w2(x, f) }
func c14w4(x *c14x, f func(*c14x)) { c14w3(x, f) }

//go:noinline
func c14drive(d int, x *c14x, f func(*c14x)) {
	switch d {
	case 0:
		f(x)
	case 1:
		c14w1(x, f)
	case 2:
		c14w2(x, f)
	case 3:
		c14w3(x, f)
	case 4:
		c14w4(x, f)
	}
}

const c14MaxDepth = 4

var c14Inlined int // wrapper frames seen as inlined by the calibration

// c14Calibrate: for every depth d the frames above the closure: [1..d] the wrappers' call statements, [d+1] the driver's
func c14Calibrate() [][]c14site {
	cal := make([][]c14site, c14MaxDepth+1)
	c14Inlined = 0
	for d := 0; d <= c14MaxDepth; d++ {
		x := &c14x{}
		c14drive(d, x, func(x *c14x) {
			for k := 0; k <= d+1; k++ {
				s, inl := frameAt(k)
				x.cal = append(x.cal, s)
				if inl && k >= 1 && k <= d {
					c14Inlined++
				}
			}
		})
		cal[d] = x.cal
	}
	return cal
}

type c14Case struct {
	Build    string  `json:"build"` // inline | noinline
	Recv     string  `json:"recv"`
	Name     string  `json:"name"`
	Via      string  `json:"via"`
	Format   string  `json:"format"`  // json | logfmt | color
	Kind     string  `json:"kind"`    // root | child | default
	API      string  `json:"skipapi"` // none | SetSkip | WithSkip
	Skip     int     `json:"skip"`
	Depth    int     `json:"wrappers"`
	History  string  `json:"history,omitempty"` // "" first record of the statement | error-attr: same statement again, the attribute is a stack-carrying error | after-error-attr: same statement once more
	Observed int     `json:"observed_offset"`   // k: k frames above the issuing statement; -1 elsewhere; -2 no record
	Got      c14site `json:"got"`
	Want     c14site `json:"want"` // file already passed through slog.Safety; function shortened in colour mode
	Bad      string  `json:"bad,omitempty"`
	Raw      string  `json:"raw,omitempty"`
}

type c14Result struct {
	Build   string      `json:"build"`
	Cal     [][]c14site `json:"calibration"`
	Inlined int         `json:"inlined_wrapper_frames"`
	Cases   []c14Case   `json:"cases"`
}

var (
	c14AnsiRe   = regexp.MustCompile("\x1b\\[[0-9;]*m")
	c14JSONRe   = regexp.MustCompile(`"caller":\{"file":"((?:[^"\\]|\\.)*)","line":(-?\d+),"function":"((?:[^"\\]|\\.)*)"\}`)
	c14LogfmtRe = regexp.MustCompile(`caller\.file="((?:[^"\\]|\\.)*)" caller\.line=(-?\d+) caller\.function="((?:[^"\\]|\\.)*)"`)
	c14ColorRe  = regexp.MustCompile(`(\S+):(\d+) (\S+)\s*$`)
)

// c14Decode extracts the caller of one record in the given format
func c14Decode(format string, payload []byte) (c14site, bool) {
	line := strings.TrimRight(string(payload), "\n")
	switch format {
	case "json":
		var rec struct {
			Caller *struct {
				File     string `json:"file"`
				Line     int    `json:"line"`
				Function string `json:"function"`
			} `json:"caller"`
		}
		if err := json.Unmarshal([]byte(line), &rec); err == nil && rec.Caller != nil {
			return c14site{rec.Caller.File, rec.Caller.Line, rec.Caller.Function}, true
		}
		if m := c14JSONRe.FindStringSubmatch(line); m != nil { // the line as a whole is not valid JSON (C04's business)
			n, _ := strconv.Atoi(m[2])
			return c14site{m[1], n, m[3]}, true
		}
	case "logfmt":
		if m := c14LogfmtRe.FindStringSubmatch(line); m != nil {
			n, _ := strconv.Atoi(m[2])
			return c14site{m[1], n, m[3]}, true
		}
	case "color":
		first := strings.SplitN(c14AnsiRe.ReplaceAllString(line, ""), "\n", 2)[0]
		if m := c14ColorRe.FindStringSubmatch(first); m != nil {
			n, _ := strconv.Atoi(m[2])
			return c14site{m[1], n, m[3]}, true
		}
	}
	return c14site{}, false
}

// the colour format prints the function without the leading package path (checkedfuncname, default flags)
func c14ShortFunc(name string) string {
	if p := strings.LastIndex(name, "/"); p >= 0 {
		return name[p+1:]
	}
	return name
}

func c14Rendered(format string, s c14site) c14site {
	s.File = slog.Safety(s.File)
	if format == "color" {
		s.Func = c14ShortFunc(s.Func)
	}
	return s
}

func c14SetFormat(e *slog.Entry, format string) {
	switch format {
	case "json":
		e.SetJSONMode(true)
	case "logfmt":
		e.SetColorMode(false)
	case "color":
		e.SetColorMode(true)
	}
}

const c14BridgeLevel = slog.InfoLevel

// c14Cell runs one configuration (logger kind, format, skip api, skip) over every applicable call site
func c14Cell(res *c14Result, snap *slog.VerifRegistry, cal [][]c14site, kind, format, api string, skip int, depths []int, only *c14Case) {
	resetProcess(snap)
	slog.AddFlags(slog.LnoInterrupt)
	x := &c14x{ctx: context.Background()}
	var e *slog.Entry
	switch kind {
	case "root", "child":
		root := slog.New("c14root")
		e = slog.VerifEntryOf(root)
		x.l = root
		if kind == "child" {
			e = e.New("c")
			x.l = e
		}
		switch api {
		case "SetSkip":
			x.l.SetSkip(skip)
		case "SetSkipBack": // a larger count first, then the one under test (back to 0 included)
			x.l.SetSkip(skip + 2)
			x.l.SetSkip(skip)
		case "SetSkipLate": // set after the log/slog handler and the std-log bridge exist (below)
		case "WithSkip":
			e = x.l.WithSkip(skip)
			x.l = e
		case "WithSkipSiblings": // one parent hands out a logger for every wrapper depth, all stay in use
			p := x.l
			for s := 0; s <= c14MaxDepth; s++ {
				if c := p.WithSkip(s); s == skip {
					e, x.l = c, c
				}
			}
		}
	case "default":
		switch api {
		case "SetSkip":
			slog.SetSkip(skip)
		case "SetSkipBack":
			slog.SetSkip(skip + 2)
			slog.SetSkip(skip)
		case "WithSkip":
			slog.SetDefault(slog.WithSkip(skip)) // the default logger is now an *Entry (second arm of logctxctx)
		case "WithSkipSiblings":
			var mine *slog.Entry
			for s := 0; s <= c14MaxDepth; s++ {
				if c := slog.WithSkip(s); s == skip {
					mine = c
				}
			}
			slog.SetDefault(mine)
		}
		e = slog.VerifEntryOf(slog.Default())
		x.l = slog.Default()
	}
	x.e = e
	e.SetWriter(pool[1]).SetErrorWriter(pool[1]).SetLevel(slog.AlwaysLevel)
	c14SetFormat(e, format)
	if kind != "default" {
		if api == "SetSkipLate" { // ... and while caller information is still switched off: it is switched on afterwards
			f0 := slog.GetFlags()
			slog.RemoveFlags(slog.Lcaller | slog.Llineno)
			x.flagsLate = &f0
		}
		x.ll = slog.NewLogLogger(x.l, c14BridgeLevel) // (first: making a handler with options changes the flags)
		x.sl = logslog.New(slog.NewSlogHandler(x.l, &slog.HandlerOptions{NoColor: format != "color", JSON: format == "json", Level: slog.AlwaysLevel}))
	}
	if x.flagsLate != nil {
		slog.SetFlags(*x.flagsLate)
	}
	if api == "SetSkipLate" {
		x.l.SetSkip(skip)
	}
	for _, c := range c14calls {
		if (kind == "default") != (c.Recv == "pkg") {
			continue
		}
		if only != nil && (only.Recv != c.Recv || only.Name != c.Name || only.Via != c.Via) {
			continue
		}
		if c.Recv == "bridge" {
			e.SetLevel(c14BridgeLevel) // admitted whichever way the bridge compares its level with the logger's
		}
		for _, d := range depths {
			if d < skip {
				continue
			}
			// the statement is executed three times on the same (pooled) print context: plain, with an error
			// value that carries its own stack (the formatter resolves that frame too), and plain again
			for _, h := range []string{"", "error-attr", "after-error-attr"} {
				x.v = 1
				if h == "error-attr" {
					x.v = c14StackErr
				}
				cs := c14Observe(res, x, cal, c, format, kind, api, skip, d, h)
				if h != "" && cs.Observed == -2 {
					continue
				}
				res.Cases = append(res.Cases, cs)
			}
		}
		if c.Recv == "bridge" {
			e.SetLevel(slog.AlwaysLevel)
		}
	}
}

// an error value that carries the stack of the place it was created at (this line)
var c14StackErr = errorsv3.New("c14 stack-carrying error")

// c14Observe issues one call through d wrappers and decodes the caller of the record
func c14Observe(res *c14Result, x *c14x, cal [][]c14site, c c14call, format, kind, api string, skip, d int, hist string) c14Case {
	events, x.u0 = nil, c14site{}
	c14drive(d, x, c.F)
	cs := c14Case{Build: res.Build, Recv: c.Recv, Name: c.Name, Via: c.Via, Format: format, Kind: kind, API: api, Skip: skip, Depth: d, History: hist}
	// the frames the harness knows: 0 = the issuing statement, 1..d the wrappers, d+1 the driver
	known := append([]c14site{x.u0}, cal[d][1:]...)
	cs.Want = c14Rendered(format, known[skip])
	var writes [][]byte
	for _, ev := range events {
		if ev.Kind == "write" {
			writes = append(writes, ev.Payload)
		}
	}
	switch {
	case len(writes) == 0:
		cs.Observed, cs.Bad = -2, "no record was written"
	default:
		got, ok := c14Decode(format, writes[0])
		cs.Got, cs.Observed = got, -1
		for k, s := range known {
			if got == c14Rendered(format, s) {
				cs.Observed = k
				break
			}
		}
		switch {
		case !ok:
			cs.Bad = "the record carries no decodable caller"
		case got != cs.Want:
			cs.Bad = fmt.Sprintf("caller is %s:%d %s, the call statement %d frame(s) above the issuing statement is %s:%d %s",
				got.File, got.Line, got.Func, skip, cs.Want.File, cs.Want.Line, cs.Want.Func)
		case len(writes) > 1:
			cs.Bad = fmt.Sprintf("%d records for one call", len(writes))
		}
		if cs.Bad != "" {
			cs.Raw = string(writes[0])
		}
	}
	if strings.HasPrefix(c.Name, "Verbose") && cs.Observed == -2 {
		cs.Bad = "" // empty bodies in a default build: nothing to attribute
	}
	return cs
}

var c14Formats = []string{"json", "logfmt", "color"}
var c14Kinds = []string{"root", "child", "default"}

// c14Grid enumerates the whole (finite) grid in this process
func c14Grid(build, tier string, only *c14Case) *c14Result {
	snap := slog.VerifSnapshot()
	res := &c14Result{Build: build}
	res.Cal = c14Calibrate()
	res.Inlined = c14Inlined
	for _, kind := range c14Kinds {
		for _, format := range c14Formats {
			for _, api := range []string{"none", "SetSkip", "SetSkipBack", "SetSkipLate", "WithSkip", "WithSkipSiblings"} {
				for skip := 0; skip <= c14MaxDepth; skip++ {
					if (api == "none" && skip > 0) || (api == "SetSkipLate" && kind == "default") {
						continue
					}
					if only != nil && (only.Kind != kind || only.Format != format || only.API != api || only.Skip != skip) {
						continue
					}
					depths := []int{skip} // wrapper chain of matching depth
					if tier == "thorough" {
						depths = nil
						for d := skip; d <= c14MaxDepth; d++ {
							depths = append(depths, d)
						}
					}
					if only != nil {
						depths = []int{only.Depth}
					}
					c14Cell(res, snap, res.Cal, kind, format, api, skip, depths, only)
				}
			}
		}
	}
	resetProcess(snap)
	return res
}

// child mode: harness(-noinline) C14-grid <out.json> <tier> [filter.json]
func c14Child(args []string) {
	if len(args) < 2 {
		fmt.Fprintln(os.Stderr, "usage: harness C14-grid <out.json> <tier> [filter.json]")
		os.Exit(2)
	}
	var only *c14Case
	if len(args) > 2 {
		b, err := os.ReadFile(args[2])
		must(err)
		only = &c14Case{}
		must(json.Unmarshal(b, only))
	}
	res := c14Grid(c14BuildName(), args[1], only)
	b, err := json.Marshal(res)
	must(err)
	must(os.WriteFile(args[0], b, 0o644))
}

func c14BuildName() string {
	exe, _ := os.Executable()
	if strings.HasSuffix(exe, "-noinline") {
		return "noinline"
	}
	return "inline"
}

func c14RunNoinline(r *Run, only *c14Case) *c14Result {
	exe, err := os.Executable()
	must(err)
	bin := filepath.Join(filepath.Dir(exe), "harness-noinline")
	if _, err := os.Stat(bin); err != nil {
		fmt.Fprintln(os.Stderr, "harness: C14 needs", bin, "(go build -gcflags=all=-l; built by ./check C14)")
		os.Exit(3)
	}
	must(os.MkdirAll(r.Out, 0o755))
	out := filepath.Join(r.Out, "noinline.json")
	os.Remove(out)
	args := []string{"C14-grid", out, r.Tier}
	if only != nil {
		fl := filepath.Join(r.Out, "noinline_filter.json")
		b, _ := json.Marshal(only)
		must(os.WriteFile(fl, b, 0o644))
		args = append(args, fl)
	}
	cmd := exec.Command(bin, args...)
	cmd.Stdout, cmd.Stderr = os.Stderr, os.Stderr
	must(cmd.Run())
	b, err := os.ReadFile(out)
	must(err)
	res := &c14Result{}
	must(json.Unmarshal(b, res))
	return res
}

func c14Header(r *Run) {
	r.Coq("Require Import Verif.Model.Base Verif.Model.EntryPoint Verif.Model.Caller Verif.Corr.C14.", "case", "ok")
	r.ShardSize = 1000
}

// c14Register turns the observations of both builds into correspondence cases and oracle verdicts
func c14Register(r *Run, results []*c14Result) {
	type epFail struct {
		base  bool
		cases []c14Case
	}
	fails := map[string]*epFail{}
	var order []string
	for _, res := range results {
		for _, cs := range res.Cases {
			term := fmt.Sprintf("Case %s %s %s %s %s", cStr(cs.Recv), cStr(cs.Name), cZ(int64(cs.Skip)), cZ(int64(cs.Depth+1)), cZ(int64(cs.Observed)))
			canon := fmt.Sprintf("%s.%s|%s|%d|%s|%s|%s", cs.Recv, cs.Name, cs.Format, cs.Skip, cs.Kind, cs.Build, cs.History)
			r.AddCase(term, cs, cs.Skip > 0 || cs.Recv != "Entry", canon)
			r.Dist["build="+cs.Build]++
			r.Dist["format="+cs.Format]++
			r.Dist["kind="+cs.Kind]++
			r.Dist["recv="+cs.Recv+"/"+cs.Via]++
			r.Dist[fmt.Sprintf("skip=%d", cs.Skip)]++
			r.Dist["skipapi="+cs.API]++
			if cs.Bad != "" {
				k := cs.Recv + "." + cs.Name
				if fails[k] == nil {
					fails[k] = &epFail{}
					order = append(order, k)
				}
				fails[k].cases = append(fails[k].cases, cs)
				if cs.Skip == 0 {
					fails[k].base = true
				}
			}
		}
	}
	sort.Strings(order)
	for _, k := range order {
		f := fails[k]
		key := "C14/" + k
		if !f.base {
			key += "/skip" // attribution is right without a skip count, wrong only with one
		}
		for _, cs := range f.cases {
			hist := ""
			switch cs.History {
			case "error-attr":
				hist = ", second record of the statement, carrying an error value with its own stack"
			case "after-error-attr":
				hist = ", third record of the statement, after one that carried an error value with its own stack"
			}
			r.Fail(key, fmt.Sprintf("%s.%s (%s call) on a %s logger, %s format, skip %d by %s under %d wrapper(s), %s build%s: %s",
				cs.Recv, cs.Name, cs.Via, cs.Kind, cs.Format, cs.Skip, cs.API, cs.Depth, cs.Build, hist, cs.Bad), cs)
		}
	}
}

func runC14(r *Run) {
	c14Header(r)
	r.Rule = "finite grid, fully enumerated: every public entry point called directly (Entry methods through a static *Entry receiver and through the slog.Logger interface, package-level functions, log/slog adapter Info/Debug/Warn/Error/Log, std log bridge Println/Printf/Print) x 3 formats x skip 0..4 given by SetSkip (before and after the adapters are made, and after a larger count was set first), by WithSkip and by WithSkip on a parent that hands out a logger for every depth 0..4 (plus no skip call), every statement executed three times (plain attribute; an errors.v3 error value carrying its own stack; plain again) under a wrapper chain of matching depth (thorough: every depth skip..4) x {root, child, default logger} x {normal build, -gcflags=all=-l}; non-trivial = skip > 0 or not an Entry method; distinct by (entry point, format, skip, logger kind, build, position in the statement's history)"
	inl := c14Grid("inline", r.Tier, nil)
	noinl := c14RunNoinline(r, nil)
	// the positions of the wrappers' call statements must not depend on the build
	calJ, _ := json.Marshal(inl.Cal)
	calN, _ := json.Marshal(noinl.Cal)
	if string(calJ) != string(calN) {
		fmt.Fprintf(os.Stderr, "harness: C14 calibration differs between the builds:\n%s\n%s\n", calJ, calN)
		os.Exit(3)
	}
	if noinl.Build != "noinline" || noinl.Inlined != 0 {
		fmt.Fprintf(os.Stderr, "harness: harness-noinline has inlined wrapper frames (%d)\n", noinl.Inlined)
		os.Exit(3)
	}
	c14Register(r, []*c14Result{inl, noinl})
	r.Exhaust = true
	r.Extra["exhaustive_space"] = "all (call site, format, logger kind, skip api, skip 0..4, wrapper depth) cells in both builds"
	r.Extra["call_sites"] = len(c14calls)
	r.Extra["inlined_wrapper_frames_normal_build"] = inl.Inlined
	r.Extra["inlined_wrapper_frames_noinline_build"] = noinl.Inlined
	r.Extra["calibration"] = inl.Cal
	// entry points found by reflection / listed for C01 that have no direct call site here
	have := map[string]bool{}
	for _, c := range c14calls {
		have[c.Recv+"."+c.Name] = true
	}
	var uncovered []string
	for _, ep := range append(entryMethods(), pkgEntryPoints()...) {
		if !have[ep.Recv+"."+ep.Name] {
			uncovered = append(uncovered, ep.Recv+"."+ep.Name)
		}
	}
	r.Extra["entry_points_without_direct_call_site"] = uncovered
	if len(uncovered) > 0 {
		fmt.Fprintln(os.Stderr, "harness: C14: no direct call site for", uncovered, "- run harness/gen_c14_sites.py after adding them")
	}
}

func replayC14(r *Run, file string) {
	var cs c14Case
	loadReplay(file, &cs)
	c14Header(r)
	var res *c14Result
	if cs.Build == "noinline" {
		res = c14RunNoinline(r, &cs)
	} else {
		res = c14Grid("inline", r.Tier, &cs)
	}
	for _, c := range res.Cases {
		fmt.Printf("REPLAY: %s.%s (%s) %s %s skip=%d(%s) wrappers=%d build=%s: caller %s:%d %s, expected %s:%d %s\n", c.Recv, c.Name, c.Via, c.Kind, c.Format,
			c.Skip, c.API, c.Depth, c.Build, c.Got.File, c.Got.Line, c.Got.Func, c.Want.File, c.Want.Line, c.Want.Func)
	}
	c14Register(r, []*c14Result{res})
	finishReplay(r)
}
