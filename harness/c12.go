package main

// C12: Panic and Fatal - the record is written first, then the documented
// termination.  One child process per cell: the harness binary itself
// (production mode) or the `go test -c` binary of this package run with a
// -test.* argument (testing mode: argv[0] ends in .test, which is what
// hedzr/is looks at).  The parent observes the exit status, the journal the
// child keeps (ready / write / recovered / returned) and the destination files.

import (
	"bytes"
	"context"
	"encoding/hex"
	"encoding/json"
	"fmt"
	"io"
	logslog "log/slog"
	"os"
	"os/exec"
	"path/filepath"
	"reflect"
	"strconv"
	"strings"
	"sync"
	"time"

	"github.com/hedzr/is"
	"github.com/hedzr/logg/slog"
)

func init() {
	drivers["C12"] = runC12
	replayers["C12"] = replayC12
	childModes["c12child"] = c12Child
}

// ---------------------------------------------------------------- the cell

type c12Custom struct {
	V     int `json:"v"`
	Treat int `json:"treat"` // -1: no treated-as
}

type c12Spec struct {
	Recv      string     `json:"recv"`
	Name      string     `json:"name"`
	Kind      string     `json:"kind"`
	Sev       int        `json:"severity"`
	Level     int        `json:"logger_level"`
	NoInt     bool       `json:"no_interrupt"`
	IntAlways bool       `json:"interrupt_always"`
	Format    string     `json:"format"` // json | logfmt | color
	Dests     int        `json:"destinations"`
	Msg       string     `json:"msg"`
	Custom    *c12Custom `json:"custom,omitempty"`
	Mode      string     `json:"mode"`                   // production | testing
	Prior     int        `json:"prior_panics,omitempty"` // Panic calls issued (and recovered) on the same logger before the call of the cell
	Argv      string     `json:"extra_argv,omitempty"`   // one more command-line argument of the process (an application flag that merely looks like a test flag)
	FlipInW   bool       `json:"noint_set_inside_write,omitempty"` // the call starts under the opposite LnoInterrupt; a destination's Write sets the cell's value
	Silenced  bool       `json:"silenced,omitempty"` // the logger's writers are io.Discard (a library user silencing one logger): nothing is delivered, the termination is due all the same
	ViaScope  bool       `json:"flags_via_scope,omitempty"` // the two flags reach the cell's values through a SaveFlagsAndMod scope that set the opposite and was left again
	NArgs     int        `json:"more_pairs,omitempty"`   // further key/value pairs of the call (0: the one pair every cell has); more than the pooled slices hold when large
	Dir       string     `json:"dir,omitempty"`
}

func (s c12Spec) canon() string {
	c := ""
	if s.Custom != nil {
		c = fmt.Sprintf("%d/%d", s.Custom.V, s.Custom.Treat)
	}
	return fmt.Sprintf("%s.%s sev=%d L=%d ni=%v ia=%v %s d=%d %s c=%s p=%d", s.Recv, s.Name, s.Sev, s.Level, s.NoInt, s.IntAlways, s.Format, s.Dests, s.Mode, c, s.Prior) + " " + s.Argv + fmt.Sprintf(" n=%d scope=%v silenced=%v flipinwrite=%v", s.NArgs, s.ViaScope, s.Silenced, s.FlipInW)
}

// what the parent saw
type c12Obs struct {
	Spec       c12Spec  `json:"cell"`
	Exit       int      `json:"exit_status"` // -1: killed / no status
	TimedOut   bool     `json:"timed_out,omitempty"`
	Ready      bool     `json:"ready"`
	InTesting  bool     `json:"in_testing"`
	Flags      int64    `json:"flags"`
	Debug      bool     `json:"debug"`
	Journal    []string `json:"journal"`
	Ended      string   `json:"ended"` // returned | recovered | exit | killed
	PanicType  string   `json:"panic_type,omitempty"`
	PanicValue string   `json:"panic_value,omitempty"`
	AtRecover  []int64  `json:"sizes_at_recover,omitempty"` // destination file sizes when the panic was recovered
	Records    []string `json:"records"`                    // content of each destination file
	Complete   int      `json:"complete_records"`
	Stderr     string   `json:"stderr,omitempty"`
}

// ---------------------------------------------------------------- the child

// journalW writes the record to its destination file first and notes that in the journal afterwards.
type journalW struct {
	id      int
	f       *os.File
	journal *os.File
}

// c12FlipInWrite: when set, the first Write of the cell brings LnoInterrupt to this value (the call started under the
// opposite one): the decision to terminate is made after the record is written, with the flags as they are then
var c12FlipInWrite *bool

func (w *journalW) Write(p []byte) (int, error) {
	if c12FlipInWrite != nil {
		if *c12FlipInWrite {
			slog.AddFlags(slog.LnoInterrupt)
		} else {
			slog.RemoveFlags(slog.LnoInterrupt)
		}
		c12FlipInWrite = nil
	}
	n, err := w.f.Write(p)
	fmt.Fprintf(w.journal, "write %d %d\n", w.id, n)
	return n, err
}

func c12Call(sp c12Spec, e *slog.Entry) {
	ctx := context.Background()
	kv := []any{"k", 1}
	for i := 0; i < sp.NArgs; i++ {
		kv = append(kv, fmt.Sprintf("k%04d", i), i)
	}
	if sp.Recv == "pkg" {
		switch sp.Kind {
		case "verb":
			pkgVerbs[sp.Name](sp.Msg, kv...)
		case "ctxverb":
			pkgCtxVerbs[sp.Name](ctx, sp.Msg, kv...)
		case "println":
			slog.Println(append([]any{sp.Msg}, kv...)...)
		}
		return
	}
	m := reflect.ValueOf(e).MethodByName(sp.Name)
	v := reflect.ValueOf
	var rest []reflect.Value
	for _, x := range kv {
		rest = append(rest, v(x))
	}
	switch sp.Kind {
	case "verb", "println":
		m.Call(append([]reflect.Value{v(sp.Msg)}, rest...))
	case "printf":
		m.Call([]reflect.Value{v("%s"), v(sp.Msg)})
	case "ctxverb":
		m.Call(append([]reflect.Value{v(ctx), v(sp.Msg)}, rest...))
	case "level":
		m.Call(append([]reflect.Value{v(ctx), v(slog.Level(sp.Sev)), v(sp.Msg)}, rest...))
	case "sloglevel":
		m.Call(append([]reflect.Value{v(ctx), v(c12SlogLevel[sp.Sev]), v(sp.Msg)}, rest...))
	}
}

// log/slog levels that Entry.Log converts to the given severity (logsloglevel2Level)
var c12SlogLevel = map[int]logslog.Level{0: 17, 1: 16, 2: logslog.LevelError, 3: logslog.LevelWarn, 4: logslog.LevelInfo,
	5: logslog.LevelDebug, 6: -8}

func c12Child(args []string) {
	if len(args) < 1 {
		fmt.Fprintln(os.Stderr, "c12child: missing cell")
		os.Exit(90)
	}
	var sp c12Spec
	if err := json.Unmarshal([]byte(args[0]), &sp); err != nil {
		fmt.Fprintln(os.Stderr, "c12child:", err)
		os.Exit(90)
	}
	journal, err := os.OpenFile(filepath.Join(sp.Dir, "journal"), os.O_CREATE|os.O_WRONLY|os.O_APPEND, 0o644)
	if err != nil {
		fmt.Fprintln(os.Stderr, "c12child:", err)
		os.Exit(90)
	}
	if sp.Custom != nil {
		var opts []slog.RegOpt
		if sp.Custom.Treat >= 0 {
			opts = append(opts, slog.RegWithTreatedAsLevel(slog.Level(sp.Custom.Treat)))
		}
		if err := slog.RegisterLevel(slog.Level(sp.Custom.V), "c12custom", opts...); err != nil {
			fmt.Fprintln(os.Stderr, "c12child:", err)
			os.Exit(90)
		}
	}
	slog.RemoveFlags(slog.LnoInterrupt, slog.Linterruptalways)
	if sp.NoInt {
		slog.AddFlags(slog.LnoInterrupt)
	}
	if sp.IntAlways {
		slog.AddFlags(slog.Linterruptalways)
	}
	if sp.ViaScope {
		// a scope that had the opposite of both flags (SaveFlagsAndMod), left through the function it returned: the flags
		// are the cell's again, whatever was derived from them in between
		var add, rem slog.Flags
		if sp.NoInt {
			rem |= slog.LnoInterrupt
		} else {
			add |= slog.LnoInterrupt
		}
		if sp.IntAlways {
			rem |= slog.Linterruptalways
		} else {
			add |= slog.Linterruptalways
		}
		restore := slog.SaveFlagsAndMod(add, rem)
		restore()
	}
	var e *slog.Entry
	if sp.Recv == "pkg" {
		e = slog.VerifEntryOf(slog.Default())
	} else {
		e = slog.VerifEntryOf(slog.New("c12"))
	}
	e.SetLevel(slog.Level(sp.Level))
	switch sp.Format {
	case "json":
		e.SetJSONMode(true)
	case "logfmt":
		e.SetColorMode(false)
	default:
		e.SetColorMode(true)
	}
	// the history of the logger: earlier Panic calls that the program recovered from (into a discarding
	// destination; the destinations of the cell are attached afterwards)
	if sp.Prior > 0 {
		e.SetWriter(io.Discard).SetErrorWriter(io.Discard)
		for i := 0; i < sp.Prior; i++ {
			func() {
				defer func() { fmt.Fprintf(journal, "prior %d recovered=%v\n", i, recover() != nil) }()
				if sp.Recv == "pkg" {
					slog.Panic("an earlier panic", "k", i)
				} else {
					e.Panic("an earlier panic", "k", i)
				}
			}()
		}
	}
	var files []*os.File
	for i := 0; i < sp.Dests; i++ {
		f, err := os.OpenFile(filepath.Join(sp.Dir, fmt.Sprintf("dest%d", i)), os.O_CREATE|os.O_WRONLY|os.O_APPEND, 0o644)
		if err != nil {
			fmt.Fprintln(os.Stderr, "c12child:", err)
			os.Exit(90)
		}
		files = append(files, f)
		w := &journalW{i, f, journal}
		if i == 0 {
			e.SetWriter(w).SetErrorWriter(w)
		} else {
			e.AddWriter(w).AddErrorWriter(w)
		}
	}
	if sp.Silenced {
		e.SetWriter(io.Discard).SetErrorWriter(io.Discard)
	}
	if sp.FlipInW && !sp.Silenced && e.Enabled(slog.Level(sp.Sev)) {
		want := sp.NoInt
		c12FlipInWrite = &want
		if want {
			slog.RemoveFlags(slog.LnoInterrupt)
		} else {
			slog.AddFlags(slog.LnoInterrupt)
		}
	}
	fmt.Fprintf(journal, "ready intesting=%v flags=%d debug=%v level=%d\n", slog.VerifInTesting(), int64(slog.GetFlags()), is.DebugMode(), int(e.Level()))
	defer func() {
		if v := recover(); v != nil {
			var sizes []string
			for _, f := range files {
				st, err := f.Stat()
				if err != nil {
					sizes = append(sizes, "-1")
				} else {
					sizes = append(sizes, strconv.FormatInt(st.Size(), 10))
				}
			}
			fmt.Fprintf(journal, "recovered type=%T value=%s sizes=%s\n", v, hex.EncodeToString([]byte(fmt.Sprint(v))), strings.Join(sizes, ","))
			os.Exit(0)
		}
	}()
	c12Call(sp, e)
	fmt.Fprintln(journal, "returned")
	os.Exit(0)
}

// ---------------------------------------------------------------- the parent

type c12Bins struct{ prod, test string }

func c12FindBins() c12Bins {
	exe, err := os.Executable()
	must(err)
	b := c12Bins{prod: exe, test: filepath.Join(filepath.Dir(exe), "harness.test")}
	if _, err := os.Stat(b.test); err != nil {
		fmt.Fprintln(os.Stderr, "harness: C12 needs the test binary", b.test, "(built by ./check: go test -c)")
		os.Exit(3)
	}
	return b
}

func c12RunCell(bins c12Bins, sp c12Spec) c12Obs {
	must(os.RemoveAll(sp.Dir))
	must(os.MkdirAll(sp.Dir, 0o755))
	js, _ := json.Marshal(sp)
	ctx, cancel := context.WithTimeout(context.Background(), 10*time.Second)
	defer cancel()
	var cmd *exec.Cmd
	if sp.Mode == "testing" {
		cmd = exec.CommandContext(ctx, bins.test, "-test.run=^$", "c12child", string(js))
	} else {
		cmd = exec.CommandContext(ctx, bins.prod, "c12child", string(js))
	}
	if sp.Argv != "" {
		cmd.Args = append(cmd.Args, sp.Argv)
	}
	var stderr bytes.Buffer
	cmd.Stderr = &stderr
	cmd.Stdout = &stderr
	cmd.Dir = sp.Dir
	err := cmd.Run()
	o := c12Obs{Spec: sp, Exit: -1}
	if cmd.ProcessState != nil {
		o.Exit = cmd.ProcessState.ExitCode()
	}
	if ctx.Err() != nil {
		o.TimedOut = true
	}
	_ = err
	o.Stderr = stderr.String()
	if len(o.Stderr) > 600 {
		o.Stderr = o.Stderr[:600]
	}
	jb, _ := os.ReadFile(filepath.Join(sp.Dir, "journal"))
	for _, l := range strings.Split(strings.TrimRight(string(jb), "\n"), "\n") {
		if l != "" {
			o.Journal = append(o.Journal, l)
		}
	}
	o.Ended = "exit"
	if o.Exit < 0 || o.TimedOut {
		o.Ended = "killed"
	}
	for _, l := range o.Journal {
		f := strings.Fields(l)
		switch f[0] {
		case "ready":
			o.Ready = true
			for _, kv := range f[1:] {
				k, v, _ := strings.Cut(kv, "=")
				switch k {
				case "intesting":
					o.InTesting = v == "true"
				case "flags":
					o.Flags, _ = strconv.ParseInt(v, 10, 64)
				case "debug":
					o.Debug = v == "true"
				}
			}
		case "returned":
			o.Ended = "returned"
		case "recovered":
			o.Ended = "recovered"
			for _, kv := range f[1:] {
				k, v, _ := strings.Cut(kv, "=")
				switch k {
				case "type":
					o.PanicType = v
				case "value":
					b, _ := hex.DecodeString(v)
					o.PanicValue = string(b)
				case "sizes":
					for _, s := range strings.Split(v, ",") {
						n, _ := strconv.ParseInt(s, 10, 64)
						o.AtRecover = append(o.AtRecover, n)
					}
				}
			}
		}
	}
	for i := 0; i < sp.Dests; i++ {
		b, _ := os.ReadFile(filepath.Join(sp.Dir, fmt.Sprintf("dest%d", i)))
		o.Records = append(o.Records, string(b))
		if c12Complete(sp, b) == "" {
			o.Complete++
		}
	}
	return o
}

// c12Complete says why the content of a destination is not exactly one complete record ("" = it is).
func c12Complete(sp c12Spec, b []byte) string {
	if len(b) == 0 {
		return "nothing was written"
	}
	if b[len(b)-1] != '\n' {
		return "the record does not end with a newline"
	}
	if !bytes.Contains(b, []byte(sp.Msg)) {
		return "the record does not contain the message"
	}
	body := bytes.TrimRight(b, "\n")
	switch sp.Format {
	case "json":
		if bytes.Contains(body, []byte("\n")) {
			return "more than one line in JSON mode"
		}
		var m map[string]any
		if err := json.Unmarshal(body, &m); err != nil {
			return "the JSON record does not decode: " + err.Error()
		}
		if m["msg"] != sp.Msg {
			return fmt.Sprintf("the JSON record's msg is %v", m["msg"])
		}
		if _, ok := m["k"]; !ok && sp.Kind != "printf" {
			return "the JSON record lacks the attribute k"
		}
	case "logfmt":
		if bytes.Contains(body, []byte("\n")) {
			return "more than one line in logfmt mode"
		}
		if !bytes.Contains(body, []byte(`msg="`+sp.Msg+`"`)) {
			return "the logfmt record lacks msg=\"<message>\""
		}
		if !bytes.Contains(body, []byte("k=1")) && sp.Kind != "printf" {
			return "the logfmt record lacks the attribute k=1"
		}
	default:
		if !bytes.Contains(body, []byte("k")) && sp.Kind != "printf" {
			return "the coloured record lacks the attribute k"
		}
	}
	return ""
}

func c12SpecAdmits(sp c12Spec, dbg bool) bool {
	as := treatedAs() // the parent's registry is the pristine one of the source
	if sp.Custom != nil && sp.Custom.Treat >= 0 {
		as[sp.Custom.V] = sp.Custom.Treat
	}
	return specAdmits(as, dbg, sp.Level, sp.Sev)
}

// the direct oracle: the statement of the property on one observed cell
func c12Oracle(r *Run, o c12Obs) {
	sp := o.Spec
	fail := func(key, desc string) { r.Fail(key, fmt.Sprintf("%s [%s]", desc, sp.canon()), sp) }
	if !o.Ready {
		fail("C12/child-not-ready", fmt.Sprintf("the child process did not reach the call (exit %d, timed out %v): %s", o.Exit, o.TimedOut, o.Stderr))
		return
	}
	if o.InTesting != (sp.Mode == "testing") {
		fail("C12/mode-detection", fmt.Sprintf("the %s process believes inTesting=%v", sp.Mode, o.InTesting))
	}
	admitted := c12SpecAdmits(sp, o.Debug)
	terminal := sp.Sev == 0 || sp.Sev == 1
	interrupt := !sp.NoInt && (sp.Mode != "testing" || sp.IntAlways)
	// --- the record: complete, once per destination, iff admitted (a silenced logger delivers nothing: skipped)
	for i, rec := range o.Records {
		if sp.Silenced {
			break
		}
		why := c12Complete(sp, []byte(rec))
		switch {
		case admitted && rec == "":
			fail("C12/record-missing", fmt.Sprintf("admitted call (ended: %s, exit %d) left destination %d empty", o.Ended, o.Exit, i))
		case admitted && why != "":
			fail("C12/record-incomplete", fmt.Sprintf("destination %d: %s: %q", i, why, rec))
		case !admitted && rec != "":
			fail("C12/record-unexpected", fmt.Sprintf("a call that is not admitted wrote %q to destination %d", rec, i))
		}
	}
	nw := 0
	for _, l := range o.Journal {
		if strings.HasPrefix(l, "write ") {
			nw++
		}
	}
	if admitted && nw != sp.Dests && !sp.Silenced {
		fail("C12/write-count", fmt.Sprintf("%d Write calls for %d destinations", nw, sp.Dests))
	}
	// --- written BEFORE the termination: for a panic the journal and the file sizes at recovery show it;
	//     for an exit nothing runs after os.Exit, so what the files hold was written before
	if o.Ended == "recovered" {
		last := o.Journal[len(o.Journal)-1]
		if !strings.HasPrefix(last, "recovered") {
			fail("C12/write-after-termination", "journal lines follow the recovered panic: "+strings.Join(o.Journal, " | "))
		}
		for i, rec := range o.Records {
			if i < len(o.AtRecover) && o.AtRecover[i] != int64(len(rec)) {
				fail("C12/write-after-termination", fmt.Sprintf("destination %d held %d bytes when the panic was recovered and %d at the end", i, o.AtRecover[i], len(rec)))
			}
		}
	}
	// --- the termination
	switch {
	case o.Ended == "killed":
		fail("C12/child-killed", fmt.Sprintf("the child was killed (timed out %v, exit %d): %s", o.TimedOut, o.Exit, o.Stderr))
	case admitted && terminal && interrupt && sp.Sev == 0:
		switch o.Ended {
		case "recovered":
			if o.PanicType != "string" || o.PanicValue != sp.Msg {
				fail("C12/panic-value", fmt.Sprintf("panic value is (%s) %q, the message is %q", o.PanicType, o.PanicValue, sp.Msg))
			}
		case "returned":
			fail("C12/not-terminated", "an admitted Panic call returned normally")
		default:
			fail("C12/wrong-termination", fmt.Sprintf("an admitted Panic call ended the process with status %d instead of panicking", o.Exit))
		}
	case admitted && terminal && interrupt && sp.Sev == 1:
		switch o.Ended {
		case "exit":
			if o.Exit != 253 {
				fail("C12/exit-status", fmt.Sprintf("an admitted Fatal call exited with status %d, documented is 253 (-3)", o.Exit))
			}
		case "returned":
			fail("C12/not-terminated", "an admitted Fatal call returned normally")
		default:
			fail("C12/wrong-termination", fmt.Sprintf("an admitted Fatal call panicked with (%s) %q instead of exiting", o.PanicType, o.PanicValue))
		}
	default:
		if o.Ended != "returned" {
			what := fmt.Sprintf("exit status %d", o.Exit)
			if o.Ended == "recovered" {
				what = fmt.Sprintf("panic (%s) %q", o.PanicType, o.PanicValue)
			}
			why := "severity is neither Panic nor Fatal"
			switch {
			case !admitted:
				why = "the call is not admitted"
			case terminal && sp.NoInt:
				why = "the no-interrupt flag is set"
			case terminal:
				why = "under go test without the interrupt-always flag"
			}
			fail("C12/terminated-unexpectedly", fmt.Sprintf("%s although %s", what, why))
		}
	}
}

func c12Term(o c12Obs) string {
	switch o.Ended {
	case "returned":
		return "Continue"
	case "recovered":
		v := o.PanicValue
		if o.PanicType != "string" {
			v = "(" + o.PanicType + ") " + v
		}
		return "(DoPanic " + cStr(v) + ")"
	case "exit":
		return "(DoExit " + cZ(int64(o.Exit)) + ")"
	}
	return "(DoExit (-1))"
}

func c12AddCase(r *Run, o c12Obs) {
	sp := o.Spec
	reg := "[]"
	if sp.Custom != nil && sp.Custom.Treat >= 0 {
		reg = fmt.Sprintf("[(%s, %s)]", cZ(int64(sp.Custom.V)), cZ(int64(sp.Custom.Treat)))
	}
	term := fmt.Sprintf("Cell %s %s %s %s %s %s %s %s %s %s", cBool(o.InTesting), cZ(o.Flags), reg, cBool(o.Debug),
		cZ(int64(sp.Level)), cZ(int64(sp.Sev)), cStr(sp.Msg), cNat(sp.Dests), cZ(int64(o.Complete)), c12Term(o))
	admitted := c12SpecAdmits(sp, o.Debug)
	nontrivial := admitted && (sp.Sev == 0 || sp.Sev == 1)
	sp.Dir = ""
	o.Spec = sp
	r.AddCase(term, o, nontrivial, sp.canon())
	r.Dist["mode="+sp.Mode]++
	r.Dist["ended="+o.Ended]++
	r.Dist["format="+sp.Format]++
	r.Dist["ep="+sp.Recv+"."+sp.Kind]++
	if nontrivial {
		r.Dist["admitted-panic-fatal"]++
	}
}

// ---------------------------------------------------------------- the matrix

type c12EP struct {
	entryPoint
	sevs []int // severities it can carry in this check
}

func c12EntryPoints(r *Run, negSevs []int) (term, other []c12EP) {
	eps := append(entryMethods(), pkgEntryPoints()...)
	snap := slog.VerifSnapshot()
	for i := range eps {
		if eps[i].Sev == sevUnknown { // a verb this harness does not know: learn what it issues (never terminating)
			resetProcess(snap)
			slog.AddFlags(slog.LnoInterrupt)
			eps[i].Sev = learnSeverity(eps[i])
			r.Dist["learned-severity"]++
		}
	}
	resetProcess(snap)
	for _, ep := range eps {
		switch {
		case ep.Sev == sevNever:
		case ep.Sev == sevParam && ep.Kind == "level":
			term = append(term, c12EP{ep, []int{0, 1}})
			other = append(other, c12EP{ep, negSevs})
		case ep.Sev == sevParam && ep.Kind == "sloglevel":
			term = append(term, c12EP{ep, []int{0, 1}})
			other = append(other, c12EP{ep, []int{2, 3, 4, 5, 6}})
		case ep.Sev == 0 || ep.Sev == 1:
			term = append(term, c12EP{ep, []int{ep.Sev}})
		default:
			other = append(other, c12EP{ep, []int{ep.Sev}})
		}
	}
	return
}

func runC12(r *Run) {
	r.Coq("Require Import Verif.Model.Base Verif.Model.Terminate Verif.Corr.C12.", "case", "ok")
	r.Rule = "one child process per cell: {entry point that can carry Panic/Fatal (Entry methods by reflection, LogAttrs/Logit/Log with both severities, package functions)} x {no-interrupt} x {interrupt-always} x {logger level} x {json, logfmt, colour} x {production = harness binary, testing = go test -c binary}; negative cells: every other severity incl. registered ones (among them levels treated as Panic and as Fatal, and negative values) through every entry point that carries it; quick = seeded sample, thorough = full matrix; every third cell after one, every third after two Panic calls on the same logger that the program recovered from; observed: exit status, recovered panic value, journal order, destination files; non-trivial = admitted Panic/Fatal; distinct by cell"
	bins := c12FindBins()
	// registered severities: treated as Info, not treated, negative, and treated as Panic / as Fatal (for admission
	// only: they are not Panic or Fatal and never terminate)
	// (16, 17, 32, 33, -16, -15: values that agree with Panic (0) and Fatal (1) in their low bits)
	custom := []*c12Custom{{13, 4}, {12, -1}, {-5, -1}, {14, 0}, {15, 1}, {-7, 1}, {16, -1}, {17, -1}, {32, -1}, {33, -1}, {-16, -1}, {-15, -1}}
	negSevs := []int{2, 3, 4, 5, 6, 7, 8, 9, 10, 11, 13, 12, -5, 14, 15, -7, 16, 17, 32, 33, -16, -15}
	termEPs, otherEPs := c12EntryPoints(r, negSevs)
	r.Extra["entry_points_carrying_panic_fatal"] = len(termEPs)
	r.Extra["entry_points_other"] = len(otherEPs)
	formats := []string{"json", "logfmt", "color"}
	modes := []string{"production", "testing"}
	customOf := func(sev int) *c12Custom {
		for _, c := range custom {
			if c.V == sev {
				return c
			}
		}
		return nil
	}
	var cells []c12Spec
	mk := func(ep c12EP, sev, L int, ni, ia bool, format, mode string) c12Spec {
		return c12Spec{Recv: ep.Recv, Name: ep.Name, Kind: ep.Kind, Sev: sev, Level: L, NoInt: ni, IntAlways: ia, Format: format,
			Mode: mode, Custom: customOf(sev)}
	}
	// positive matrix
	var matrix []c12Spec
	for _, ep := range termEPs {
		for _, sev := range ep.sevs {
			for _, ni := range []bool{false, true} {
				for _, ia := range []bool{false, true} {
					for L := 0; L < 12; L++ {
						for _, f := range formats {
							for _, m := range modes {
								matrix = append(matrix, mk(ep, sev, L, ni, ia, f, m))
							}
						}
					}
				}
			}
		}
	}
	// negative cells: the flags that would let a Panic/Fatal terminate
	var negatives []c12Spec
	for _, ep := range otherEPs {
		for _, sev := range ep.sevs {
			for _, m := range modes {
				for _, ia := range []bool{false, true} {
					for _, L := range []int{6, 8} {
						negatives = append(negatives, mk(ep, sev, L, false, ia, "", m))
					}
				}
			}
		}
	}
	r.Extra["matrix_cells"] = len(matrix)
	r.Extra["negative_cells"] = len(negatives)
	if r.Thorough() {
		cells = append(cells, matrix...)
		cells = append(cells, negatives...)
		r.Exhaust = true
		r.Extra["exhaustive_space"] = "the full matrix of the rule, all 12 built-in logger levels; negative cells with both values of interrupt-always on Trace and Always loggers"
	} else {
		// seeded sample; every entry point/severity, both modes and all flag combinations are hit first
		want := r.N(260, 0)
		seen := map[int]bool{}
		k := 0
		for _, ep := range termEPs {
			for _, sev := range ep.sevs {
				for _, m := range modes {
					// one admitted, interrupting cell per (entry point, severity, mode), so each can show its termination
					L := []int{6, 8, 5, 4, 3, 2, 1}[r.R.Intn(7)]
					c := mk(ep, sev, L, false, m == "testing", formats[k%3], m)
					k++
					cells = append(cells, c)
				}
			}
		}
		for len(cells) < want {
			i := r.R.Intn(len(matrix))
			if seen[i] {
				continue
			}
			seen[i] = true
			c := matrix[i]
			if r.R.Chance(60) { // favour admitted cells: most logger levels admit Panic anyway, fewer admit Fatal
				c.Level = []int{6, 8, 7, 0, 1, 5}[r.R.Intn(6)]
			}
			cells = append(cells, c)
		}
		for n := r.N(90, 0); n > 0; n-- {
			cells = append(cells, negatives[r.R.Intn(len(negatives))])
		}
		// always in: the registered severities treated as Panic / Fatal and the negative ones, armed (production, and
		// go test with interrupt-always), on an Always logger
		for _, c := range negatives {
			if cu := customOf(c.Sev); cu != nil && (cu.Treat == 0 || cu.Treat == 1 || cu.V < 0 || cu.V >= 16) && c.Level == 8 && (c.Mode == "production" || c.IntAlways) {
				cells = append(cells, c)
			}
		}
	}
	for i := range cells {
		if cells[i].Format == "" {
			cells[i].Format = formats[r.R.Intn(3)]
		}
		cells[i].Dests = 1 + r.R.Intn(2)
		cells[i].Prior = i % 3
		cells[i].ViaScope = i%3 == 1
		cells[i].Silenced = i%7 == 3
		cells[i].FlipInW = i%4 == 2 && !cells[i].ViaScope
		if i%5 == 2 { // a call with more attributes than the pooled slices hold
			cells[i].NArgs = []int{1100, 130, 2100}[i/5%3]
		}
		if cells[i].Mode == "production" && i%4 == 1 { // the application's own flags are not go test's
			cells[i].Argv = []string{"-bench=none", "-benchmark-mode", "-testing", "-test"}[i/4%4]
		}
		cells[i].Msg = fmt.Sprintf("c12 message %d of the cell", i)
		cells[i].Dir = filepath.Join(r.Out, "cells", strconv.Itoa(i))
	}
	obs := c12RunAll(bins, cells)
	for _, o := range obs {
		c12Oracle(r, o)
		if o.Spec.Silenced { // (the model counts the records delivered: a silenced logger is judged by the direct oracle alone)
			r.Count(true, "silenced "+o.Spec.canon())
			r.Dist["silenced_cells"]++
			continue
		}
		if o.Spec.FlipInW { // (the model is given the flags observed before the call: these cells change them during it)
			r.Count(true, "flip-in-write "+o.Spec.canon())
			r.Dist["flags_set_inside_write_cells"]++
			continue
		}
		c12AddCase(r, o)
	}
	os.RemoveAll(filepath.Join(r.Out, "cells"))
	r.Extra["processes"] = len(cells)
}

func c12RunAll(bins c12Bins, cells []c12Spec) []c12Obs {
	obs := make([]c12Obs, len(cells))
	var wg sync.WaitGroup
	sem := make(chan struct{}, 16)
	for i := range cells {
		wg.Add(1)
		sem <- struct{}{}
		go func(i int) {
			defer wg.Done()
			defer func() { <-sem }()
			obs[i] = c12RunCell(bins, cells[i])
		}(i)
	}
	wg.Wait()
	return obs
}

func replayC12(r *Run, file string) {
	var sp c12Spec
	loadReplay(file, &sp)
	r.Coq("Require Import Verif.Model.Base Verif.Model.Terminate Verif.Corr.C12.", "case", "ok")
	bins := c12FindBins()
	sp.Dir = filepath.Join(r.Out, "cells", "replay")
	if sp.Msg == "" {
		sp.Msg = "c12 replay"
	}
	if sp.Dests == 0 {
		sp.Dests = 1
	}
	o := c12RunCell(bins, sp)
	b, _ := json.MarshalIndent(o, "", " ")
	fmt.Println(string(b))
	c12Oracle(r, o)
	c12AddCase(r, o)
	finishReplay(r)
}
