package main

import (
	"encoding/json"
	"fmt"
	"os"

	"github.com/hedzr/logg/slog"
)

type replayFile struct {
	Property string          `json:"property"`
	Kind     string          `json:"kind"`
	Input    json.RawMessage `json:"input"`
}

func loadReplay(file string, into any) {
	b, err := os.ReadFile(file)
	must(err)
	var rf replayFile
	must(json.Unmarshal(b, &rf))
	if len(rf.Input) == 0 {
		fmt.Println("replay file carries no input (proof-level break)")
		os.Exit(0)
	}
	var probe struct {
		Kind  string `json:"kind"`
		Rerun string `json:"rerun"`
	}
	if json.Unmarshal(rf.Input, &probe) == nil && probe.Kind == "panic-in-library" {
		fmt.Println("REPLAY: the library panicked inside a generated run; the generator is deterministic, re-run it: " + probe.Rerun)
		os.Exit(0)
	}
	must(json.Unmarshal(rf.Input, into))
}

// finishReplay prints what the direct oracle says about the replayed case.
func finishReplay(r *Run) {
	if len(r.Failures) == 0 {
		fmt.Println("REPLAY: the direct oracle is satisfied on the current tree")
		r.Finish()
		os.Exit(0)
	}
	for _, f := range r.Failures {
		fmt.Printf("REPLAY: still failing: %s: %s\n", f.Key, f.Desc)
	}
	r.Finish()
	os.Exit(1)
}

func replayTree(id string) func(r *Run, file string) {
	return func(r *Run, file string) {
		var in c11Replay
		loadReplay(file, &in)
		snap := slog.VerifSnapshot()
		switch id {
		case "C11":
			r.Coq("Require Import Verif.Model.Base Verif.Model.Mode Verif.Model.Writers Verif.Model.Tree Verif.Corr.C11.", "case", "ok")
			c11One(r, snap, in.Ops, "replay")
		}
		finishReplay(r)
	}
}
