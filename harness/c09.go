package main

// C09: history independence - a record's bytes depend only on that call, never on
// which records were formatted before it, by which logger or goroutine, or on how
// the pooled formatting context and the pooled attribute slice were recycled.

import (
	"bytes"
	"context"
	"encoding/base64"
	"encoding/gob"
	"encoding/json"
	"fmt"
	"io"
	"os"
	"os/exec"
	"runtime"
	"runtime/debug"
	"strconv"
	"strings"
	"sync"
	"time"

	"github.com/hedzr/logg/slog"
)

func init() {
	drivers["C09"] = runC09
	replayers["C09"] = replayC09
	childModes["C09-fresh"] = c09FreshChild
}

// ---- one emission ----
// Path "thru": Entry.WriteThru with the explicit instant fixedTime (the default layout).
// Path "api": Entry.LogAttrs -> logContext (pooled attribute slice, time.Now()); the logger's
// time layout is the constant "@", so the output is comparable byte for byte.
type c09Step struct {
	Path string `json:"path"`
	Rec  EncRec `json:"record"`
	NoPC bool   `json:"no_pc,omitempty"` // thru path, caller flag on, but no program counter is handed over (0): an adapter that has none
	// thru path: the logger never chose a UTC mode and the instant is in a zone 8 h east of UTC (direct oracle only, like NoPC)
	UTCUnset bool `json:"utc_unset,omitempty"`
}

const c09ConstLayout = "@"

type c09Sink struct {
	mu sync.Mutex
	n  int
}

func (s *c09Sink) Write(p []byte) (int, error) {
	s.mu.Lock()
	s.n += len(p)
	s.mu.Unlock()
	return len(p), nil
}

var c09Discard = &c09Sink{}

func c09Globals(c EncCfg) {
	if c.Caller {
		slog.AddFlags(slog.Lcaller)
	} else {
		slog.RemoveFlags(slog.Lcaller)
	}
	slog.SetLevelOutputWidth(c.TagWidth)
	slog.SetMessageMinimalWidth(c.MinWidth)
}

func c09Logger(st c09Step, w io.Writer) *slog.Entry {
	c := st.Rec.Cfg
	var l *slog.Entry
	if c.Name == "" {
		l = slog.VerifEntryOf(slog.New())
	} else {
		l = slog.VerifEntryOf(slog.New(c.Name))
	}
	switch c.Mode {
	case "json":
		l.SetJSONMode(true)
	case "logfmt":
		l.SetColorMode(false)
	default:
		l.SetColorMode(true)
	}
	l.SetWriter(w).SetErrorWriter(w)
	if !st.UTCUnset {
		l.SetUTCMode(true)
	}
	if st.Path == "api" {
		l.SetLevel(slog.AlwaysLevel) // admits every severity
		l.SetTimeFormat(c09ConstLayout)
	}
	return l
}

var c09APICaller callerInfo

// c09Mark records the program counter of its call site: it is evaluated inside the statement
// that calls LogAttrs, so file, line and function are those of the record's caller
//
//go:noinline
func c09Mark(args []any) []any {
	var pcs [1]uintptr
	runtime.Callers(2, pcs[:])
	fr, _ := runtime.CallersFrames(pcs[:]).Next()
	c09APICaller = callerInfo{pcs[0], slog.Safety(fr.File), fr.Line, fr.Function, fr.File}
	return args
}

// the one call site of the api path
//
//go:noinline
func c09CallAPI(l *slog.Entry, lvl slog.Level, msg string, args []any) {
	l.LogAttrs(context.Background(), lvl, msg, c09Mark(args)...)
}

func c09Fire(st c09Step, l *slog.Entry) {
	rec := st.Rec
	if st.Path == "api" {
		var args []any
		for _, a := range attrsGo(rec.Attrs) {
			if a != nil { // a nil Attr argument is not an attribute (argsToAttrs takes it for a key)
				args = append(args, a)
			}
		}
		c09CallAPI(l, slog.Level(rec.Cfg.Level), rec.Msg, args)
		return
	}
	pc := uintptr(0)
	if rec.Cfg.Caller && !st.NoPC {
		pc = encCaller.PC
	}
	ts := fixedTime
	if st.UTCUnset {
		ts = fixedTime.In(time.FixedZone("E8", 8*3600))
	}
	l.WriteThru(nil, slog.Level(rec.Cfg.Level), ts, pc, rec.Msg, attrsGo(rec.Attrs))
}

// emit on the calling goroutine into the recording writer; returns the payloads
func c09Emit(st c09Step) [][]byte {
	c09Globals(st.Rec.Cfg)
	l := c09Logger(st, pool[1])
	events = nil
	c09Fire(st, l)
	var out [][]byte
	for _, ev := range events {
		if ev.Kind == "write" {
			out = append(out, ev.Payload)
		}
	}
	events = nil
	return out
}

func c09One(p [][]byte) []byte {
	if len(p) == 1 {
		return p[0]
	}
	var b []byte
	for i, x := range p {
		b = append(b, []byte(fmt.Sprintf("<payload %d of %d>", i+1, len(p)))...)
		b = append(b, x...)
	}
	return b
}

// api steps drop nil attributes before the call; the model sees what was passed
func c09ModelRec(st c09Step) EncRec {
	rec := st.Rec
	if st.Path == "api" {
		var as []GAttr
		for _, a := range rec.Attrs {
			if !a.Nil {
				as = append(as, a)
			}
		}
		rec.Attrs = as
	}
	return rec
}

func c09Coq(st c09Step, observed []byte) string {
	rec := c09ModelRec(st)
	c := rec.Cfg
	mode := map[string]string{"json": "ShJSON", "logfmt": "ShLogfmt", "color": "ShColor"}[c.Mode]
	caller, ts := "None", tsText
	if st.Path == "api" {
		ts = c09ConstLayout
		if c.Caller {
			caller = fmt.Sprintf("(Some (%s, %s, %s))", cStr(c09APICaller.File), cZ(int64(c09APICaller.Line)), cStr(c09APICaller.Func))
		}
	} else if c.Caller {
		caller = fmt.Sprintf("(Some (%s, %s, %s))", cStr(encCaller.File), cZ(int64(encCaller.Line)), cStr(encCaller.Func))
	}
	return fmt.Sprintf("mkenc %s %s %s %s %s %s %s %s %s %s", mode, cStr(c.Name), cZ(int64(c.Level)), caller, cZ(int64(c.TagWidth)), cZ(int64(c.MinWidth)),
		cStr(ts), cStr(rec.Msg), attrsCoq(rec.Attrs), cBytes(observed))
}

// ---- the pooled context ----
func c09Peek() (*slog.PrintCtx, map[string]string) {
	pc := slog.VerifPoolGet()
	d := slog.VerifPCDump(pc)
	slog.VerifPoolPut(pc)
	return pc, d
}

var c09FreshDump map[string]string
var c09Snap *slog.VerifRegistry // the registry of a fresh process (no custom level)

func c09Used(d map[string]string) bool { // the context has formatted something before
	for k, v := range d {
		if c09FreshDump[k] != v {
			return true
		}
	}
	return false
}

func c09FreshState() { slog.VerifPoolsFresh() }

// ---- histories ----
// strings of generated records hold arbitrary bytes, which JSON does not carry: the exact
// probe and history travel as base64(gob) next to the readable form
type c09Exact struct {
	Probe   c09Step
	History []c09Step
}

func c09Pack(p c09Step, h []c09Step) string {
	var b bytes.Buffer
	must(gob.NewEncoder(&b).Encode(c09Exact{p, h}))
	return base64.StdEncoding.EncodeToString(b.Bytes())
}

func c09Unpack(s string) (c09Exact, bool) {
	var x c09Exact
	raw, err := base64.StdEncoding.DecodeString(s)
	if err != nil || len(raw) == 0 {
		return x, false
	}
	if err := gob.NewDecoder(bytes.NewReader(raw)).Decode(&x); err != nil {
		return x, false
	}
	return x, true
}

type c09Case struct {
	Exact      string    `json:"exact_gob_base64,omitempty"`
	Kind       string    `json:"kind"` // fresh | same-goroutine | other-goroutine | parallel | poison | late-registration
	Probe      c09Step   `json:"probe"`
	History    []c09Step `json:"history,omitempty"`
	Goroutines int       `json:"goroutines,omitempty"`
	Poison     string    `json:"poison,omitempty"` // "*" = every field
	Fresh      string    `json:"fresh_bytes,omitempty"`
	Observed   string    `json:"observed,omitempty"`
	SameObject bool      `json:"same_pooled_object"`
	Why        string    `json:"why,omitempty"`
}

func c09RunHistorySeq(h []c09Step) {
	for _, st := range h {
		c09Globals(st.Rec.Cfg)
		c09Fire(st, c09Logger(st, c09Discard))
	}
}

// the history on `g` other goroutines, one after the other (on one P the next call gets the
// object the previous goroutine put back)
func c09RunHistoryOther(h []c09Step, g int) {
	if g < 1 {
		g = 1
	}
	for i := 0; i < g; i++ {
		lo, hi := i*len(h)/g, (i+1)*len(h)/g
		done := make(chan struct{})
		go func(part []c09Step) {
			c09RunHistorySeq(part)
			close(done)
		}(h[lo:hi])
		<-done
	}
}

// the history on g goroutines at the same time (loggers made beforehand; the process-wide
// settings are not touched by the goroutines)
func c09RunHistoryParallel(h []c09Step, g int) {
	if g < 1 {
		g = 1
	}
	ls := make([]*slog.Entry, len(h))
	for i, st := range h {
		ls[i] = c09Logger(st, c09Discard)
	}
	var wg sync.WaitGroup
	for i := 0; i < g; i++ {
		wg.Add(1)
		go func(i int) {
			defer wg.Done()
			for rep := 0; rep < 3; rep++ {
				for j := i; j < len(h); j += g {
					c09Fire(h[j], ls[j])
				}
			}
		}(i)
	}
	wg.Wait()
}

// runs one case on the implementation; returns the probe's bytes and whether the probe was
// formatted on a pooled context that had been used before (checked through the overlay)
func c09Run(c *c09Case) []byte {
	c09FreshState()
	switch c.Kind {
	case "late-registration":
		// the history runs while the custom levels are not registered yet (its records at 13..16 print
		// as L#13..L#16); the registrations follow, then the probe
		slog.VerifRestore(c09Snap)
		slog.AddFlags(slog.LnoInterrupt)
		c09RunHistorySeq(c.History)
		encRegister()
	case "same-goroutine":
		c09RunHistorySeq(c.History)
	case "other-goroutine":
		c09RunHistoryOther(c.History, c.Goroutines)
	case "parallel":
		old := runtime.GOMAXPROCS(4)
		c09RunHistoryParallel(c.History, c.Goroutines)
		runtime.GOMAXPROCS(old)
	case "poison":
		c09RunHistorySeq(c.History)
		pc := slog.VerifPoolGet()
		f := c.Poison
		if f == "*" {
			f = ""
		}
		slog.VerifPCPoison(pc, f)
		slog.VerifPoolPut(pc)
	}
	p1, d1 := c09Peek()
	out := c09One(c09Emit(c.Probe))
	p2, _ := c09Peek()
	c.SameObject = c.Kind != "fresh" && p1 == p2 && c09Used(d1)
	return out
}

// ---- generators ----
func c09Profile(mode string) EncProfile {
	switch mode {
	case "json":
		return EncProfile{KeyClass: 2, TextClass: 2, MaxDepth: 3, MaxAttrs: 6}
	}
	return EncProfile{KeyClass: 1, TextClass: 2, MaxDepth: 3, MaxAttrs: 6, LegalKeys: true}
}

var c09Modes = []string{"json", "logfmt", "color"}

func c09GenStep(r *Rng) c09Step {
	mode := c09Modes[r.Intn(3)]
	rec := genEncRec(r, mode, c09Profile(mode))
	if mode != "color" && r.Chance(30) {
		rec.Msg = genMsg(r, 1, true) // multi-line messages in every format
	}
	path := "thru"
	if r.Chance(35) {
		path = "api"
		if rec.Cfg.Level == 7 { // Off is never admitted
			rec.Cfg.Level = 4
		}
	}
	return c09Step{Path: path, Rec: rec}
}

func c09Corpus() []c09Step {
	var out []c09Step
	g := GVal{Kind: "group", Items: []GAttr{{Key: "x", Val: GVal{Kind: "int", I: 1}}, {Key: "y", Val: GVal{Kind: "group", Items: []GAttr{{Key: "z", Val: GVal{Kind: "string", S: "s"}}}}}}}
	attrs := []GAttr{{Key: "a", Val: GVal{Kind: "int", I: 1}}, {Key: "g", Val: g}, {Key: "err", Val: GVal{Kind: "error", S: "boom"}}, {Key: "z", Val: GVal{Kind: "string", S: "last"}}}
	for _, mode := range c09Modes {
		for _, lvl := range []int{2, 4, 8, customLevel, unregLevel, fgOnlyLevel, fgBgLevel, lateLevel} {
			for _, path := range []string{"thru", "api"} {
				cfg := EncCfg{Mode: mode, Level: lvl, TagWidth: 3, MinWidth: 36, Caller: lvl == unregLevel || lvl == 2}
				if lvl == 4 {
					cfg.Name = "svc"
				}
				out = append(out, c09Step{Path: path, Rec: EncRec{cfg, "first line\nsecond line\n", attrs}})
				out = append(out, c09Step{Path: path, Rec: EncRec{cfg, "m", nil}})
			}
		}
		out = append(out, c09Step{Path: "thru", Rec: EncRec{EncCfg{Mode: mode, Level: 8, TagWidth: 3, MinWidth: 36}, " \n", nil}}) // blank Print
		out = append(out, c09Step{Path: "thru", UTCUnset: true, Rec: EncRec{EncCfg{Mode: mode, Level: 4, TagWidth: 3, MinWidth: 36}, "no UTC mode chosen", attrs[:1]}})
		out = append(out, c09Step{Path: "thru", NoPC: true, Rec: EncRec{EncCfg{Mode: mode, Level: 4, TagWidth: 3, MinWidth: 36, Caller: true}, "no program counter", attrs[:1]}})
	}
	return out
}

// a history that is known to leave traces in the context: coloured levels, groups, errors,
// multi-line messages, long records
func c09GenHistory(r *Rng, n int) []c09Step {
	var h []c09Step
	for i := 0; i < n; i++ {
		st := c09GenStep(r)
		if r.Chance(25) {
			st.Rec.Cfg.Mode, st.Rec.Cfg.Level = "color", []int{0, 1, 2, 3, 9, 10, 11, 5, 6, 8, fgBgLevel, fgOnlyLevel}[r.Intn(12)]
			st.Rec.Msg = "coloured\nrecord\n"
		}
		if r.Chance(10) {
			st.Rec.Msg = strings.Repeat("long message ", 150) // makes the buffer grow
		}
		if r.Chance(20) { // an error value that carries its own stack: the formatter resolves that frame on the pooled context
			st.Rec.Attrs = append(st.Rec.Attrs, GAttr{Key: "stackerr", Val: GVal{Kind: "stackerr", S: "boom with a stack"}})
			st.Rec.Cfg.Caller = true
		}
		h = append(h, st)
	}
	return h
}

// ---- the driver ----
func c09Fail(r *Run, key string, c c09Case, fresh, got []byte) {
	c.Fresh, c.Observed = strconv.Quote(string(fresh)), strconv.Quote(string(got))
	c.Exact = c09Pack(c.Probe, c.History)
	c.Why = fmt.Sprintf("%s: the bytes of the probe differ from its bytes on a fresh context: fresh %q, observed %q", key, fresh, got)
	r.Fail(key, c.Why, c)
}

// greedy deletion of history steps while the difference persists
func c09Shrink(c c09Case, fresh []byte) c09Case {
	differs := func(x c09Case) bool { return !bytes.Equal(c09Run(&x), fresh) }
	for changed := true; changed; {
		changed = false
		for i := range c.History {
			x := c
			x.History = append(append([]c09Step{}, c.History[:i]...), c.History[i+1:]...)
			if differs(x) {
				c, changed = x, true
				break
			}
		}
	}
	return c
}

func c09Probe(r *Run, probe c09Step, kind string, runeSet map[rune]bool, fields []string) []byte {
	modelRec := c09ModelRec(probe)
	modelRec.runes(runeSet)
	canonP := fmt.Sprintf("%+v", probe)
	add := func(c c09Case, obs []byte, ctor string) {
		collectRunes(runeSet, string(obs))
		c.Observed = strconv.Quote(string(obs))
		canon, _ := json.Marshal(c)
		if probe.NoPC || probe.UTCUnset { // what is printed for "no caller" / for another zone is not in the encoder model: direct oracle only
			r.Count(c.SameObject, string(canon))
			return
		}
		r.AddCase("("+ctor+" ("+c09Coq(probe, obs)+"))", c, c.SameObject, string(canon))
	}
	// (a) fresh state, twice
	fc := c09Case{Kind: "fresh", Probe: probe}
	fresh := c09Run(&fc)
	if again := c09Run(&fc); !bytes.Equal(again, fresh) {
		c09Fail(r, "C09/nondeterministic", fc, fresh, again)
	}
	add(fc, fresh, "CProbe")
	r.Dist["probe:"+kind+":"+probe.Path+":"+probe.Rec.Cfg.Mode]++
	r.Dist[fmt.Sprintf("probe:level=%d", probe.Rec.Cfg.Level)]++

	// (b) (c) histories
	type plan struct {
		kind string
		n, g int
	}
	plans := []plan{{"same-goroutine", 1 + r.R.Intn(3), 0}, {"same-goroutine", r.R.Intn(21), 0}, {"other-goroutine", 1 + r.R.Intn(12), 1 + r.R.Intn(3)},
		{"late-registration", 1 + r.R.Intn(6), 0}}
	if r.R.Chance(40) {
		plans = append(plans, plan{"parallel", 4 + r.R.Intn(12), 2 + r.R.Intn(3)})
	}
	if r.Thorough() {
		plans = append(plans, plan{"same-goroutine", 20, 0})
	}
	for _, pl := range plans {
		c := c09Case{Kind: pl.kind, Probe: probe, History: c09GenHistory(r.R, pl.n), Goroutines: pl.g}
		if pl.kind == "late-registration" { // the history uses the probe's severity (in another format too) before it is registered
			for i := range c.History {
				if i == 0 || r.R.Chance(50) {
					c.History[i].Rec.Cfg.Level = probe.Rec.Cfg.Level
					if probe.Rec.Cfg.Level < 13 || r.R.Chance(50) {
						c.History[i].Rec.Cfg.Level = encCustomLevels[r.R.Intn(len(encCustomLevels))]
					}
					if r.R.Chance(60) {
						c.History[i].Rec.Cfg.Mode, c.History[i].Rec.Cfg.TagWidth = "color", probe.Rec.Cfg.TagWidth
					}
				}
			}
		}
		got := c09Run(&c)
		r.Dist["history:"+pl.kind]++
		r.Dist[fmt.Sprintf("history-len=%d", len(c.History)/5*5)]++
		if c.SameObject {
			r.Dist["same-pooled-object:"+pl.kind]++
		}
		if !bytes.Equal(got, fresh) {
			small := c09Shrink(c, fresh)
			small.Probe.Rec = shrinkRec(small.Probe.Rec, func(x EncRec) bool { // then the probe's attributes
				p := small
				p.Probe.Rec = x
				f := c09Case{Kind: "fresh", Probe: p.Probe}
				fr := c09Run(&f)
				return !bytes.Equal(c09Run(&p), fr)
			})
			f := c09Case{Kind: "fresh", Probe: small.Probe}
			c09Fail(r, "C09/after-history", small, c09Run(&f), c09Run(&small))
		}
		add(c, got, "CProbe")
	}
	// (d) poison: every field at once, then one field at a time (no history, so that the key names the cause)
	pc := c09Case{Kind: "poison", Probe: probe, Poison: "*"}
	got := c09Run(&pc)
	r.Dist["poison:*"]++
	if !bytes.Equal(got, fresh) {
		c09Fail(r, "C09/after-poison:*", pc, fresh, got)
	}
	add(pc, got, "CPoison")
	for _, f := range fields {
		if !slog.VerifPCPoisonable(f) {
			continue
		}
		c := c09Case{Kind: "poison", Probe: probe, Poison: f}
		got := c09Run(&c)
		r.Dist["poison:"+f]++
		if !bytes.Equal(got, fresh) {
			c09Fail(r, "C09/after-poison:"+f, c, fresh, got)
			add(c, got, "CProbe")
		} else {
			canon, _ := json.Marshal(c)
			r.Count(c.SameObject, canonP+string(canon))
		}
	}
	runtime.GC() // collections are off while a case runs; collect between probes (every case starts on fresh pools)
	return fresh
}

// what set leaves untouched on a context in which every field was poisoned
func c09SetCase(r *Run) {
	c09FreshState()
	l := slog.VerifEntryOf(slog.New())
	l.SetColorMode(true)
	pc := slog.VerifPoolGet()
	slog.VerifPCSet(pc, l, slog.InfoLevel, fixedTime, 0, "probe", nil)
	poisoned := slog.VerifPCPoison(pc, "")
	d1 := slog.VerifPCDump(pc)
	slog.VerifPCSet(pc, l, slog.InfoLevel, fixedTime, 0, "probe", nil)
	d2 := slog.VerifPCDump(pc)
	slog.VerifPoolPut(pc)
	isP := map[string]bool{}
	for _, f := range poisoned {
		isP[f] = true
	}
	var unchanged, it []string
	for _, f := range slog.VerifPCFields() {
		if isP[f] && d1[f] == d2[f] {
			unchanged = append(unchanged, f)
			it = append(it, cStr(f))
		}
	}
	r.Extra["fields"] = slog.VerifPCFields()
	r.Extra["poisoned_fields"] = poisoned
	r.Extra["fields_set_leaves_untouched"] = unchanged
	r.AddCase("(CSet "+cList(it)+")", map[string]any{"kind": "set", "unchanged": unchanged}, true, "set:"+strings.Join(unchanged, ","))
	c09FreshState()
}

// a really fresh process per probe: its first record must be the in-process fresh bytes
func c09FreshChildren(r *Run, probes []c09Step, fresh [][]byte) {
	exe, err := os.Executable()
	if err != nil {
		return
	}
	type job struct {
		i   int
		out []byte
		err error
	}
	res := make([]job, len(probes))
	sem := make(chan struct{}, 8)
	var wg sync.WaitGroup
	for i := range probes {
		wg.Add(1)
		sem <- struct{}{}
		go func(i int) {
			defer wg.Done()
			defer func() { <-sem }()
			cmd := exec.Command(exe, "C09-fresh")
			cmd.Stdin = strings.NewReader(c09Pack(probes[i], nil))
			var so bytes.Buffer
			cmd.Stdout = &so
			t := time.AfterFunc(20*time.Second, func() { _ = cmd.Process.Kill() })
			err := cmd.Run()
			t.Stop()
			res[i] = job{i, so.Bytes(), err}
		}(i)
	}
	wg.Wait()
	for i, j := range res {
		r.Dist["fresh-child-process"]++
		c := c09Case{Kind: "fresh-child", Probe: probes[i]}
		if j.err != nil {
			c09Fail(r, "C09/fresh-child-failed", c, fresh[i], []byte(fmt.Sprint(j.err)))
			continue
		}
		if !bytes.Equal(j.out, fresh[i]) {
			c09Fail(r, "C09/fresh-process", c, fresh[i], j.out)
		}
		r.Count(false, "")
	}
}

func c09FreshChild(args []string) {
	b, err := io.ReadAll(os.Stdin)
	must(err)
	x, ok := c09Unpack(string(b))
	if !ok {
		fmt.Fprintln(os.Stderr, "C09-fresh: bad input")
		os.Exit(3)
	}
	st := x.Probe
	slog.AddFlags(slog.LnoInterrupt)
	encRegister()
	os.Stdout.Write(c09One(c09Emit(st)))
}

const c09Header = "Require Import Verif.Model.Base Verif.Model.Mode Verif.Model.Attrs Verif.Corr.Enc Verif.Corr.C09."

func c09Begin() (snap *slog.VerifRegistry, restore func()) {
	snap = slog.VerifSnapshot()
	c09Snap = snap
	encSetup(snap)
	oldGC := debug.SetGCPercent(-1) // a collection empties sync.Pool: keep the contexts where the calls left them
	oldP := runtime.GOMAXPROCS(1)   // one P = one private pool slot: the next Get returns the last Put
	c09FreshState()
	_, c09FreshDump = c09Peek()
	c09FreshState()
	return snap, func() {
		runtime.GOMAXPROCS(oldP)
		debug.SetGCPercent(oldGC)
		resetProcess(snap)
	}
}

func runC09(r *Run) {
	r.Rule = "probes = corpus (3 formats x severities Error/Info/Always/registered custom 13, 14 (foreground colour only), 15 (both colours, own tags), 16/unregistered 42 x {WriteThru with explicit instant, LogAttrs->logContext with a constant time layout} x {multi-line message + nested groups + error + name/caller, bare message} + blank Print) + random records of the C04-C06 generators (all value kinds, groups, multi-line, caller); each probe: (a) on fresh pools (twice) and as the first record of a fresh child process, (b) after 1-3 and 0-20 (thorough also 20) random earlier records of random loggers/formats/paths on the same goroutine, (b') after 1-6 earlier records formatted BEFORE the custom levels 13-16 are registered (several at the probe's own severity), the registrations, then the probe, (c) after histories run on 1-3 other goroutines one after the other and on 2-4 goroutines in parallel, (d) after poisoning the pooled context through the overlay (every field at once, then each field alone; reflection, so unknown fields are poisoned by kind); GC off and GOMAXPROCS(1) so that the pool returns the last context put back; DIRECT ORACLE: bytes == bytes on fresh pools; model: Encode.encode of the probe alone (and, for the all-fields poison, Model/PrintCtx.v's set + field-reading encoder on a hostile context) must give the observed bytes; non-trivial = the probe was formatted on a pooled context that had been used or poisoned before (same object, checked through the overlay accessor); distinct by (probe, kind, history/poison)"
	_, restore := c09Begin()
	defer restore()
	r.ShardSize = 120
	fields := slog.VerifPCFields()
	runeSet := map[rune]bool{}
	c09SetCase(r)
	var probes []c09Step
	for _, st := range c09Corpus() {
		probes = append(probes, st)
	}
	nc := len(probes)
	for i := r.N(45, 900); i > 0; i-- {
		probes = append(probes, c09GenStep(r.R))
	}
	var fresh [][]byte
	for i, st := range probes {
		kind := "random"
		if i < nc {
			kind = "corpus"
		}
		fresh = append(fresh, c09Probe(r, st, kind, runeSet, fields))
	}
	nchild := len(probes)
	if !r.Thorough() && nchild > 60 {
		nchild = 60
	}
	c09PointerHistory(r)
	runtime.GOMAXPROCS(8)
	c09FreshChildren(r, probes[:nchild], fresh[:nchild])
	runtime.GOMAXPROCS(1)
	r.Extra["probes"] = len(probes)
	r.Coq(c09Header, "c09case", "(ok isp)")
	r.Prelude(isprintPrelude(runeSet))
}

func replayC09(r *Run, file string) {
	var c c09Case
	loadReplay(file, &c)
	if c.Kind == "pointer-history" {
		_, restore := c09Begin()
		c09PointerHistory(r)
		restore()
		finishReplay(r)
		return
	}
	if x, ok := c09Unpack(c.Exact); ok {
		c.Probe, c.History = x.Probe, x.History
	}
	_, restore := c09Begin()
	runeSet := map[rune]bool{}
	if c.Kind == "" || c.Kind == "set" {
		c09SetCase(r)
	} else {
		c09ModelRec(c.Probe).runes(runeSet)
		fc := c09Case{Kind: "fresh", Probe: c.Probe}
		fresh := c09Run(&fc)
		var got []byte
		key := "C09/after-history"
		switch c.Kind {
		case "fresh-child":
			c09FreshChildren(r, []c09Step{c.Probe}, [][]byte{fresh})
			got = fresh
		case "poison":
			key = "C09/after-poison:" + c.Poison
			got = c09Run(&c)
		case "fresh":
			key = "C09/nondeterministic"
			got = c09Run(&c)
		default:
			got = c09Run(&c)
		}
		fmt.Printf("REPLAY: kind=%s history=%d poison=%q same_pooled_object=%v\n  fresh:    %q\n  observed: %q\n", c.Kind, len(c.History), c.Poison, c.SameObject, fresh, got)
		if !bytes.Equal(got, fresh) {
			c09Fail(r, key, c, fresh, got)
		}
		collectRunes(runeSet, string(got))
		r.AddCase("(CProbe ("+c09Coq(c.Probe, got)+"))", c, c.SameObject, fmt.Sprintf("%+v", c))
	}
	r.Coq(c09Header, "c09case", "(ok isp)")
	r.Prelude(isprintPrelude(runeSet))
	restore()
	finishReplay(r)
}
