package main

// C06: coloured console mode - faithful layout and no colour bleeding out of a record.

import (
	"bytes"
	"encoding/base64"
	"encoding/gob"
	"fmt"
	"github.com/hedzr/is/term/color"
	"strconv"
	"strings"
	"time"

	"github.com/hedzr/logg/slog"
)

func init() {
	drivers["C06"] = runC06
	replayers["C06"] = func(r *Run, file string) {
		var probe struct {
			Testing string `json:"testing_bytes"`
			Exact   string `json:"exact_gob_base64"`
		}
		loadReplay(file, &probe)
		if probe.Exact != "" { // a case of the testing-mode dump check
			var rec EncRec
			raw, _ := base64.StdEncoding.DecodeString(probe.Exact)
			must(gob.NewDecoder(bytes.NewReader(raw)).Decode(&rec))
			snap := slog.VerifSnapshot()
			encSetup(snap)
			c06Testing(r, []EncRec{rec})
			r.Coq("Require Import Verif.Model.Base Verif.Model.Mode Verif.Model.Attrs Verif.Corr.Enc Verif.Corr.C06.", "Enc.ecase", "(ok isp)")
			r.Prelude(isprintPrelude(map[rune]bool{}))
			finishReplay(r)
			return
		}
		replayEnc("C06")(r, file)
	}
}

// sgrScan walks the payload: returns the text with SGR sequences removed and a
// hygiene verdict ("" = every colour switched on is off again at each LF and at the end)
func sgrScan(b []byte) (plain string, verdict string) {
	var sb strings.Builder
	on := false
	i := 0
	for i < len(b) {
		c := b[i]
		if c == 0x1b {
			j := i + 1
			if j < len(b) && b[j] == '[' {
				j++
				ds := j
				// ('-': a level configured without a foreground colour makes the encoder write its "no colour" value, ESC[-1m)
				for j < len(b) && (b[j] >= '0' && b[j] <= '9' || b[j] == ';' || b[j] == '-') {
					j++
				}
				if j < len(b) && b[j] == 'm' && j > ds {
					on = string(b[ds:j]) != "0"
					i = j + 1
					continue
				}
			}
			if verdict == "" {
				verdict = fmt.Sprintf("raw escape byte at offset %d that is not a colour sequence of the encoder", i)
			}
			sb.WriteByte(c)
			i++
			continue
		}
		if c == '\n' && on && verdict == "" {
			verdict = fmt.Sprintf("a colour is still on at the line break at offset %d", i)
		}
		sb.WriteByte(c)
		i++
	}
	if on && verdict == "" {
		verdict = "a colour is still on at the end of the record"
	}
	return sb.String(), verdict
}

// hygieneClass names the cause of a hygiene failure as narrowly as the input allows.  A first
// line with markup characters goes through the HTML translator (hedzr/is term/color): the cause is
// attributed by re-running the record with the suspected bytes replaced.
func hygieneClass(rec EncRec) string {
	first, _, _ := splitMsg(rec.Msg)
	if !strings.ContainsAny(first, "<&") {
		return "hygiene"
	}
	passes := func(msg string) bool {
		r2 := rec
		r2.Msg = msg
		p := r2.emit()
		if len(p) != 1 {
			return false
		}
		_, v := sgrScan(p[0])
		return v == ""
	}
	noCR := strings.ReplaceAll(rec.Msg, "\r", "?")
	noRef := strings.ReplaceAll(rec.Msg, "&#", "&_")
	switch {
	case noCR != rec.Msg && passes(noCR):
		return "hygiene/markup+cr"
	case noRef != rec.Msg && passes(noRef):
		return "hygiene/markup+charref"
	case noCR != rec.Msg && noRef != rec.Msg && passes(strings.ReplaceAll(noCR, "&#", "&_")):
		return "hygiene/markup+cr+charref"
	}
	return "hygiene/markup"
}

func isCtl(c byte) bool { return c < 0x20 || c == 0x7f }

// ctlProfile: the raw control bytes of a payload (ESC included), as a sorted histogram
func ctlProfile(b []byte) string {
	var n [256]int
	for _, c := range b {
		if isCtl(c) {
			n[c]++
		}
	}
	var sb strings.Builder
	for c, k := range n {
		if k > 0 {
			fmt.Fprintf(&sb, "%02x*%d ", c, k)
		}
	}
	return "[" + strings.TrimSpace(sb.String()) + "]"
}

// sanitizeValues replaces every control byte inside attribute VALUES (not keys) by '?'
func sanitizeValues(as []GAttr) ([]GAttr, bool) {
	changed := false
	fix := func(x string) string {
		bs := []byte(x)
		for i, c := range bs {
			if isCtl(c) {
				bs[i] = '?'
				changed = true
			}
		}
		return string(bs)
	}
	out := make([]GAttr, len(as))
	for i, a := range as {
		out[i] = a
		if a.Nil {
			continue
		}
		v := a.Val
		v.S = fix(v.S)
		if v.Strs != nil {
			ss := make([]string, len(v.Strs))
			for j, x := range v.Strs {
				ss[j] = fix(x)
			}
			v.Strs = ss
		}
		if v.Kind == "group" {
			sub, ch := sanitizeValues(v.Items)
			v.Items = sub
			changed = changed || ch
		}
		out[i].Val = v
	}
	return out, changed
}

func msgInLayoutDomain(m string) bool {
	for i := 0; i < len(m); i++ {
		c := m[i]
		if c == '<' || c == '>' || c == '&' || (c < 0x20 && c != '\n') || c == 0x7f {
			return false
		}
	}
	return true
}

func splitMsg(m string) (first, rest string, eol bool) {
	if m == "" {
		return
	}
	eol = m[len(m)-1] == '\n'
	if eol {
		m = strings.TrimRight(m, "\n\r")
	}
	if ix := strings.IndexByte(m, '\n'); ix >= 0 {
		return m[:ix], m[ix+1:], eol
	}
	return m, "", eol
}

// colour-mode value check: like logfmt, except times are bare
func matchColorLeaf(v GVal, raw string) string {
	switch v.Kind {
	case "time":
		if raw != fixedTime.Add(time.Duration(v.I)).Format(time.RFC3339Nano) {
			return fmt.Sprintf("kind time: printed %q", raw)
		}
		return ""
	case "times":
		el, ok := splitList(raw)
		t := v.times()
		if !ok || len(el) != len(t) {
			return fmt.Sprintf("kind times: printed %q", raw)
		}
		for i := range el {
			if el[i] != t[i].Format(time.RFC3339Nano) {
				return fmt.Sprintf("kind times: element %d printed %q", i, el[i])
			}
		}
		return ""
	case "struct", "map", "nilptr":
		want := fmt.Sprintf("{{%v}}", v.Go())
		if raw == strconv.Quote(want) { // quoted in colour mode too since /repo 0c009c6
			return ""
		}
		return fmt.Sprintf("kind %s: printed %q", v.Kind, raw)
	}
	return matchLogfmtLeaf(v, raw)
}

// tokenizer for the attribute segment in colour mode ({{...}} is one token)
func tokenizeColorAttrs(seg string) ([]lfPair, error) {
	// protect {{...}} by replacing inner blanks
	var sb strings.Builder
	for i := 0; i < len(seg); {
		if strings.HasPrefix(seg[i:], "={{") {
			j := strings.Index(seg[i:], "}}")
			for j >= 0 && i+j+2 < len(seg) && seg[i+j+2] == '}' {
				j++
			}
			if j >= 0 {
				sb.WriteString(strings.ReplaceAll(seg[i:i+j+2], " ", "\x00"))
				i += j + 2
				continue
			}
		}
		sb.WriteByte(seg[i])
		i++
	}
	ps, err := tokenizeLogfmt(sb.String())
	for i := range ps {
		ps[i].Raw = strings.ReplaceAll(ps[i].Raw, "\x00", " ")
	}
	return ps, err
}

func oracleColor(rec EncRec, payloads [][]byte) string {
	if len(payloads) != 1 {
		return fmt.Sprintf("%d payloads for one record", len(payloads))
	}
	if rec.Cfg.Level == 8 && strings.Trim(rec.Msg, "\n\r \t") == "" { // blank Print: exactly one newline (property C02)
		if string(payloads[0]) != "\n" {
			return "blank Print is not delivered as one newline byte"
		}
		return ""
	}
	b := payloads[0]
	plain, hyg := sgrScan(b)
	// attribute values never contribute raw escape or control bytes: the raw control bytes of the
	// payload must not depend on the control bytes inside the values (differential, model-free)
	if san, changed := sanitizeValues(rec.Attrs); changed {
		r2 := rec
		r2.Attrs = san
		if p2 := r2.emit(); len(p2) == 1 {
			if a, b2 := ctlProfile(b), ctlProfile(p2[0]); a != b2 {
				return fmt.Sprintf("values: an attribute value contributes raw control bytes to the record (control bytes %s, with the values' control bytes replaced %s)", a, b2)
			}
		}
	}
	if !strings.Contains(rec.Msg, "\x1b") && hyg != "" {
		return hygieneClass(rec) + ": " + hyg
	}
	if !strings.HasSuffix(plain, "\n") {
		return "framing: the record does not end with a newline"
	}
	if !msgInLayoutDomain(rec.Msg) {
		return ""
	}
	// control bytes may only come from the message's own line breaks
	for i := 0; i < len(plain); i++ {
		if c := plain[i]; (c < 0x20 && c != '\n') || c == 0x7f {
			return fmt.Sprintf("values: raw control byte 0x%02x in the output", c)
		}
	}
	first, rest, eol := splitMsg(rec.Msg)
	lines := strings.Split(strings.TrimSuffix(plain, "\n"), "\n")
	head := lines[0]
	pre := tsText + "| "
	if rec.Cfg.Name != "" {
		pre += rec.Cfg.Name + " "
	}
	if !strings.HasPrefix(head, pre+"[") {
		return fmt.Sprintf("layout: the line does not start with timestamp and logger name: %q", head)
	}
	head = head[len(pre):]
	w := rec.Cfg.TagWidth
	if len(head) < w+3 || head[0] != '[' || head[w+1] != ']' || head[w+2] != ' ' {
		return fmt.Sprintf("layout: level tag is not %d characters in brackets: %q", w, head)
	}
	tag := head[1 : w+1]
	if want := slog.Level(rec.Cfg.Level).ShortTag(w); tag != want {
		return fmt.Sprintf("layout: level tag %q, expected %q", tag, want)
	}
	head = head[w+3:]
	padded := first
	for len(padded) < rec.Cfg.MinWidth {
		padded += " "
	}
	if !strings.HasPrefix(head, padded) {
		return fmt.Sprintf("layout: first message line (padded to %d) not found: got %q", rec.Cfg.MinWidth, head)
	}
	seg := head[len(padded):]
	if rec.Cfg.Caller {
		fn := encCaller.Func
		if p := strings.LastIndex(fn, "/"); p >= 0 {
			fn = fn[p+1:]
		}
		suffix := fmt.Sprintf(" %s:%d %s", encCaller.File, encCaller.Line, fn)
		if !strings.HasSuffix(seg, suffix) {
			return fmt.Sprintf("layout: caller %q not at the end of the first line: %q", suffix, seg)
		}
		seg = seg[:len(seg)-len(suffix)]
	}
	pairs, err := tokenizeColorAttrs(seg)
	if err != nil {
		return "attributes: do not tokenize: " + err.Error()
	}
	var exp []lfExpect
	flattenLogfmt("", rec.Attrs, &exp)
	if len(pairs) != len(exp) {
		return fmt.Sprintf("attributes: %d pairs printed, %d leaf attributes logged", len(pairs), len(exp))
	}
	for i, e := range exp {
		if pairs[i].Key != e.Key {
			return fmt.Sprintf("attributes: pair %d has key %q, expected %q", i, pairs[i].Key, e.Key)
		}
		if why := matchColorLeaf(e.Val, pairs[i].Raw); why != "" {
			return fmt.Sprintf("attributes: key %q: %s", e.Key, why)
		}
	}
	// remaining message lines, each indented by four blanks
	var wantRest []string
	if rest != "" {
		for _, l := range strings.Split(rest, "\n") {
			wantRest = append(wantRest, "    "+l)
		}
		if eol {
			wantRest = append(wantRest, "")
		}
	}
	got := lines[1:]
	if strings.Join(got, "\n") != strings.Join(wantRest, "\n") {
		return fmt.Sprintf("layout: remaining lines %q, expected %q", got, wantRest)
	}
	return ""
}

// records the shared corpus does not have: markup with CR / character references / leading
// blanks, and control bytes inside every kind of value that carries text
func c06Corpus() []EncRec {
	cfg := EncCfg{Mode: "color", Level: 4, TagWidth: 3, MinWidth: 36}
	var out []EncRec
	for _, m := range []string{"<b>bold</b>\rnext", "a & b\rc", "x &amp; y\r\nsecond line", "  lead <b>bold</b>", "   & blanks",
		"a&#10;b", "a&#13;b", "a&#27;[2Jb", "a&#27;[31mb", "<u>under\nline</u>", "<font color=\"red\">r</font> tail", "<kbd>k</kbd>",
		"first\n<b>rest is not translated</b>\r&#10;", "cr only\rno markup", "tab\tno markup"} {
		out = append(out, EncRec{cfg, m, nil})
	}
	esc := "\x1b[31m"
	for _, payload := range []string{esc, "\x1b[2J", "\x1b]0;title\a", "a\nb", "bell\a", "del\x7f"} {
		for _, k := range []string{"string", "stringer", "tostring", "error", "bytes", "struct", "map", "strs"} {
			v := GVal{Kind: k, S: payload, I: 7}
			if k == "strs" {
				v = GVal{Kind: k, Strs: []string{"ok", payload}}
			}
			out = append(out, EncRec{cfg, "value with control bytes", []GAttr{{Key: "k", Val: v}}})
		}
		out = append(out, EncRec{cfg, "in a group", []GAttr{{Key: "g", Val: GVal{Kind: "group", Items: []GAttr{
			{Key: "s", Val: GVal{Kind: "string", S: payload}}, {Key: "t", Val: GVal{Kind: "struct", S: payload, I: 1}}}}}}})
		out = append(out, EncRec{cfg, "in a group", []GAttr{{Key: "g", Val: GVal{Kind: "group", Items: []GAttr{
			{Key: "e", Val: GVal{Kind: "error", S: payload}}, {Key: "m", Val: GVal{Kind: "map", S: payload, I: 1}}}}}}})
	}
	return out
}

func runC06(r *Run) {
	r.Rule = "corpus (shared encoder corpus + markup with CR / character references / leading blanks + control bytes inside every text-carrying value kind) + random records in colour mode: all severities incl. registered and unregistered, tag widths 1..5, minimal widths 16/36/50, single/multi-line messages with and without trailing newline, all value kinds incl. errors and groups; byte-exact comparison with the model, and on every record in the domain of the theorems their conclusions are evaluated on the OBSERVED bytes (hygienic, strip_sgr = layout_of); direct oracle = SGR state simulator (all colours off at every LF and at the end, no foreign escape), a differential test that the raw control bytes of the payload do not depend on the control bytes inside attribute values, and the layout of the statement parsed from the text with SGR removed (layout only for messages without <,>,& and control characters other than LF); non-trivial = a byte needing escape, a group or a multi-line message; distinct by record; AND, in a go test -c binary of the harness (is.InTesting() true), the records that carry an error value (corpus of plain / multi-line / escape-carrying / stack-carrying errors + those of the random stream, colour and logfmt): one Write ending in LF, the production record is a prefix, all colours off at the end, no foreign escape, the error text contributes no raw control bytes (differential)"
	// note (outside the quantifier: widths 1..5): SetLevelOutputWidth(0) is accepted, then every coloured record panics
	func() {
		snap := slog.VerifSnapshot()
		defer resetProcess(snap)
		defer func() {
			if e := recover(); e != nil {
				r.Extra["note_tag_width_0"] = fmt.Sprintf("SetLevelOutputWidth(0) is accepted, then a coloured record panics: %v", e)
			}
			slog.SetLevelOutputWidth(3)
		}()
		encSetup(snap)
		p := EncRec{EncCfg{Mode: "color", Level: 4, TagWidth: 0, MinWidth: 36}, "m", nil}.emit()
		r.Extra["note_tag_width_0"] = fmt.Sprintf("SetLevelOutputWidth(0): no panic, payload %q", p)
	}()
	prof := EncProfile{KeyClass: 1, TextClass: 2, MaxDepth: 4, MaxAttrs: 8, LegalKeys: true}
	// same procedure as the shared runEncoder, with the extra corpus in front
	snap := slog.VerifSnapshot()
	encSetup(snap)
	r.ShardSize = 150
	runeSet := map[rune]bool{}
	nHyg, nLay := 0, 0
	var withErr []EncRec // records with an error value: formatted again under go test (the error dump)
	one := func(rec EncRec, kind string) {
		if hasErrorAttr(rec.Attrs) && len(withErr) < r.N(150, 2500) {
			withErr = append(withErr, rec)
			if len(withErr)%2 == 0 { // the dump follows logfmt records too
				lf := rec
				lf.Cfg.Mode = "logfmt"
				withErr = append(withErr, lf)
			}
		}
		encOne(r, "C06", rec, oracleColor, kind, runeSet)
		if !strings.Contains(rec.Msg, "\x1b") {
			nHyg++
		}
		if msgInLayoutDomain(rec.Msg) {
			nLay++
		}
	}
	for _, rec := range c06Corpus() {
		one(rec, "corpus")
	}
	// level colours set with SetLevelColors (outside the model's registry: direct oracle only): a style and no
	// foreground colour, a foreground colour and no background, both - on messages of one to four lines
	for li, cols := range [][2]color.Color{{color.NoColor, color.Color(4)}, {color.Color(35), color.NoColor}, {color.Color(33), color.Color(44)}, {color.NoColor, color.NoColor}} {
		lvl := 44 + li
		slog.SetLevelColors(slog.Level(lvl), cols[0], cols[1])
		for _, m := range []string{"one line", "first\nsecond", "first\nsecond\nthird", "first\nsecond\nthird\nfourth\n", "first\n\nthird\n"} {
			for _, as := range [][]GAttr{nil, {{Key: "k", Val: GVal{Kind: "int", I: 1}}, {Key: "err", Val: GVal{Kind: "error", S: "boom"}}}} {
				rec := EncRec{EncCfg{Mode: "color", Level: lvl, TagWidth: 3, MinWidth: 36}, m, as}
				payloads := rec.emit()
				if why := oracleColor(rec, payloads); why != "" {
					var so []byte
					if len(payloads) > 0 {
						so = payloads[0]
					}
					r.Fail("C06/level-colours-set/"+strings.Fields(why + " x")[0], fmt.Sprintf("level %d with SetLevelColors(%d, %d): %s", lvl, cols[0], cols[1], why), encCase{fmt.Sprintf("corpus-setlevelcolors:%d:%d", cols[0], cols[1]), rec, strconv.Quote(string(so)), why})
				}
				r.Count(true, fmt.Sprintf("setlevelcolors %d %+v", li, rec))
				r.Dist["setlevelcolors"]++
			}
		}
	}
	// encoding.TextMarshaler values: printed as the marshalled text, quoted like a string (model: VStr)
	for _, rec := range textMarshalerCorpus("color") {
		one(rec, "corpus-textmarshaler")
		r.Dist["kind=textm"]++
	}
	for _, rec := range encCorpus("color", prof) {
		one(rec, "corpus")
	}
	withNastyPathMapping(func() {
		for i, rec := range encCorpus("color", prof) {
			if i%7 == 0 {
				rec.Cfg.Caller = true
				one(rec, "corpus-caller-path")
			}
		}
	})
	for i := r.N(500, 10000); i > 0; i-- {
		pp := prof
		if r.Thorough() && r.R.Chance(30) {
			pp.MaxDepth = 8
		}
		one(genEncRec(r.R, "color", pp), "random")
	}
	c06Testing(r, append(c06TestingCorpus(), withErr...))
	c06DebugEnv(r, "C06", append(c06TestingCorpus(), withErr...))
	r.Extra["records_without_escape_in_message"] = nHyg
	r.Extra["records_in_layout_domain"] = nLay
	r.Coq("Require Import Verif.Model.Base Verif.Model.Mode Verif.Model.Attrs Verif.Corr.Enc Verif.Corr.C06.", "Enc.ecase", "(ok isp)")
	r.Prelude(isprintPrelude(runeSet))
	resetProcess(snap)
}
