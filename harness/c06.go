package main

// C06: coloured console mode - faithful layout and no colour bleeding out of a record.

import (
	"fmt"
	"strconv"
	"strings"
	"time"

	"github.com/hedzr/logg/slog"
)

func init() { drivers["C06"] = runC06; replayers["C06"] = replayEnc("C06") }

// sgrScan walks the payload: returns the text with SGR sequences removed and a
// hygiene verdict ("" = every colour switched on is off again at each LF and at the end)
func sgrScan(b []byte) (plain string, verdict string) {
	var sb strings.Builder
	on := false
	i := 0
	for i < len(b) {
		c := b[i]
		if c == 0x1b {
			j := i + 1
			if j < len(b) && b[j] == '[' {
				j++
				ds := j
				for j < len(b) && (b[j] >= '0' && b[j] <= '9' || b[j] == ';') {
					j++
				}
				if j < len(b) && b[j] == 'm' && j > ds {
					on = string(b[ds:j]) != "0"
					i = j + 1
					continue
				}
			}
			if verdict == "" {
				verdict = fmt.Sprintf("raw escape byte at offset %d that is not a colour sequence of the encoder", i)
			}
			sb.WriteByte(c)
			i++
			continue
		}
		if c == '\n' && on && verdict == "" {
			verdict = fmt.Sprintf("a colour is still on at the line break at offset %d", i)
		}
		sb.WriteByte(c)
		i++
	}
	if on && verdict == "" {
		verdict = "a colour is still on at the end of the record"
	}
	return sb.String(), verdict
}

func msgInLayoutDomain(m string) bool {
	for i := 0; i < len(m); i++ {
		c := m[i]
		if c == '<' || c == '>' || c == '&' || (c < 0x20 && c != '\n') || c == 0x7f {
			return false
		}
	}
	return true
}

func splitMsg(m string) (first, rest string, eol bool) {
	if m == "" {
		return
	}
	eol = m[len(m)-1] == '\n'
	if eol {
		m = strings.TrimRight(m, "\n\r")
	}
	if ix := strings.IndexByte(m, '\n'); ix >= 0 {
		return m[:ix], m[ix+1:], eol
	}
	return m, "", eol
}

// colour-mode value check: like logfmt, except times and the %v fallback are bare
func matchColorLeaf(v GVal, raw string) string {
	switch v.Kind {
	case "time":
		if raw != fixedTime.Add(time.Duration(v.I)).Format(time.RFC3339Nano) {
			return fmt.Sprintf("kind time: printed %q", raw)
		}
		return ""
	case "times":
		el, ok := splitList(raw)
		t := v.times()
		if !ok || len(el) != len(t) {
			return fmt.Sprintf("kind times: printed %q", raw)
		}
		for i := range el {
			if el[i] != t[i].Format(time.RFC3339Nano) {
				return fmt.Sprintf("kind times: element %d printed %q", i, el[i])
			}
		}
		return ""
	case "struct", "map":
		want := fmt.Sprintf("{{%v}}", v.Go())
		if raw == want || raw == strconv.Quote(want) {
			return ""
		}
		return fmt.Sprintf("kind %s: printed %q", v.Kind, raw)
	}
	return matchLogfmtLeaf(v, raw)
}

// tokenizer for the attribute segment in colour mode ({{...}} is one token)
func tokenizeColorAttrs(seg string) ([]lfPair, error) {
	// protect {{...}} by replacing inner blanks
	var sb strings.Builder
	for i := 0; i < len(seg); {
		if strings.HasPrefix(seg[i:], "={{") {
			j := strings.Index(seg[i:], "}}")
			for j >= 0 && i+j+2 < len(seg) && seg[i+j+2] == '}' {
				j++
			}
			if j >= 0 {
				sb.WriteString(strings.ReplaceAll(seg[i:i+j+2], " ", "\x00"))
				i += j + 2
				continue
			}
		}
		sb.WriteByte(seg[i])
		i++
	}
	ps, err := tokenizeLogfmt(sb.String())
	for i := range ps {
		ps[i].Raw = strings.ReplaceAll(ps[i].Raw, "\x00", " ")
	}
	return ps, err
}

func oracleColor(rec EncRec, payloads [][]byte) string {
	if len(payloads) != 1 {
		return fmt.Sprintf("%d payloads for one record", len(payloads))
	}
	if rec.Cfg.Level == 8 && strings.Trim(rec.Msg, "\n\r \t") == "" { // blank Print: exactly one newline (property C02)
		if string(payloads[0]) != "\n" {
			return "blank Print is not delivered as one newline byte"
		}
		return ""
	}
	b := payloads[0]
	plain, hyg := sgrScan(b)
	if !strings.Contains(rec.Msg, "\x1b") && hyg != "" {
		return "hygiene: " + hyg
	}
	if !strings.HasSuffix(plain, "\n") {
		return "framing: the record does not end with a newline"
	}
	if !msgInLayoutDomain(rec.Msg) {
		return ""
	}
	// control bytes may only come from the message's own line breaks
	for i := 0; i < len(plain); i++ {
		if c := plain[i]; (c < 0x20 && c != '\n') || c == 0x7f {
			return fmt.Sprintf("values: raw control byte 0x%02x in the output", c)
		}
	}
	first, rest, eol := splitMsg(rec.Msg)
	lines := strings.Split(strings.TrimSuffix(plain, "\n"), "\n")
	head := lines[0]
	pre := tsText + "| "
	if rec.Cfg.Name != "" {
		pre += rec.Cfg.Name + " "
	}
	if !strings.HasPrefix(head, pre+"[") {
		return fmt.Sprintf("layout: the line does not start with timestamp and logger name: %q", head)
	}
	head = head[len(pre):]
	w := rec.Cfg.TagWidth
	if len(head) < w+3 || head[0] != '[' || head[w+1] != ']' || head[w+2] != ' ' {
		return fmt.Sprintf("layout: level tag is not %d characters in brackets: %q", w, head)
	}
	tag := head[1 : w+1]
	if want := slog.Level(rec.Cfg.Level).ShortTag(w); tag != want {
		return fmt.Sprintf("layout: level tag %q, expected %q", tag, want)
	}
	head = head[w+3:]
	padded := first
	for len(padded) < rec.Cfg.MinWidth {
		padded += " "
	}
	if !strings.HasPrefix(head, padded) {
		return fmt.Sprintf("layout: first message line (padded to %d) not found: got %q", rec.Cfg.MinWidth, head)
	}
	seg := head[len(padded):]
	if rec.Cfg.Caller {
		fn := encCaller.Func
		if p := strings.LastIndex(fn, "/"); p >= 0 {
			fn = fn[p+1:]
		}
		suffix := fmt.Sprintf(" %s:%d %s", encCaller.File, encCaller.Line, fn)
		if !strings.HasSuffix(seg, suffix) {
			return fmt.Sprintf("layout: caller %q not at the end of the first line: %q", suffix, seg)
		}
		seg = seg[:len(seg)-len(suffix)]
	}
	pairs, err := tokenizeColorAttrs(seg)
	if err != nil {
		return "attributes: do not tokenize: " + err.Error()
	}
	var exp []lfExpect
	flattenLogfmt("", rec.Attrs, &exp)
	if len(pairs) != len(exp) {
		return fmt.Sprintf("attributes: %d pairs printed, %d leaf attributes logged", len(pairs), len(exp))
	}
	for i, e := range exp {
		if pairs[i].Key != e.Key {
			return fmt.Sprintf("attributes: pair %d has key %q, expected %q", i, pairs[i].Key, e.Key)
		}
		if why := matchColorLeaf(e.Val, pairs[i].Raw); why != "" {
			return fmt.Sprintf("attributes: key %q: %s", e.Key, why)
		}
	}
	// remaining message lines, each indented by four blanks
	var wantRest []string
	if rest != "" {
		for _, l := range strings.Split(rest, "\n") {
			wantRest = append(wantRest, "    "+l)
		}
		if eol {
			wantRest = append(wantRest, "")
		}
	}
	got := lines[1:]
	if strings.Join(got, "\n") != strings.Join(wantRest, "\n") {
		return fmt.Sprintf("layout: remaining lines %q, expected %q", got, wantRest)
	}
	return ""
}

func runC06(r *Run) {
	r.Rule = "corpus + random records in colour mode: all severities incl. registered and unregistered, tag widths 1..5, minimal widths 16/36/50, single/multi-line messages with and without trailing newline, all value kinds incl. errors and groups; byte-exact comparison with the model; direct oracle = SGR state simulator (all colours off at every LF and at the end, no foreign escape/control byte) and the layout of the statement parsed from the text with SGR removed (layout only for messages without <,>,& and control characters other than LF); non-trivial = a byte needing escape, a group or a multi-line message; distinct by record"
	runEncoder(r, "C06", "color", "Verif.Corr.C06", EncProfile{KeyClass: 1, TextClass: 2, MaxDepth: 4, MaxAttrs: 8, LegalKeys: true}, oracleColor, 500, 10000)
}
