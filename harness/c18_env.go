package main

// C18 and the process environment.  Two things no sequence of API calls in this process can vary are tried in
// child processes of their own:
//
//   - HOME: the built-in mapping home -> "~" follows the home directory of the process (os.UserHomeDir, i.e.
//     $HOME), also when that is not the home the user database names;
//   - a working directory that no longer exists (os.Getwd fails): there is nothing to relate a path to, the
//     prefix of a mapped path is replaced all the same - also where the replacement is itself absolute.

import (
	"bytes"
	"encoding/json"
	"fmt"
	"os"
	"os/exec"
	"path/filepath"
	"strings"
	"time"

	"github.com/hedzr/logg/slog"
)

func init() { childModes["C18-env"] = c18EnvChild }

type c18EnvObs struct {
	Scenario string `json:"scenario"`
	Home     string `json:"home,omitempty"`
	Path     string `json:"path"`
	API      string `json:"api"`
	Out      string `json:"out"`
	Panic    string `json:"panic,omitempty"`
	Prefix   string `json:"protected_prefix,omitempty"` // must not be reported
	Want     string `json:"want,omitempty"`             // exact expectation where there is one
}

func c18EnvChild(args []string) {
	scenario := args[0]
	slog.AddFlags(slog.Lprivacypath)
	slog.RemoveFlags(slog.Lprivacypathregexp)
	var obs []c18EnvObs
	ask := func(p, prefix, want string) {
		for _, api := range []string{"Safety", "SafetyFiles"} {
			o := c18EnvObs{Scenario: scenario, Path: p, API: api, Prefix: prefix, Want: want}
			func() {
				defer func() {
					if e := recover(); e != nil {
						o.Panic = fmt.Sprint(e)
					}
				}()
				if api == "Safety" {
					o.Out = slog.Safety(p)
				} else if r := slog.SafetyFiles([]string{p}); len(r) == 1 {
					o.Out = r[0]
				}
			}()
			obs = append(obs, o)
		}
	}
	switch scenario {
	case "home":
		home, err := os.UserHomeDir()
		must(err)
		for _, rest := range []string{"/p/f.go", "/go/src/x/y.go", "/.cache/z"} {
			ask(home+rest, home, "~"+rest)
		}
		for i := range obs {
			obs[i].Home = home
		}
	case "gone-cwd":
		slog.AddKnownPathMapping("/srv/build/acme-secret-project", "/src")
		slog.AddKnownPathMapping("/opt/vendor-tree", "VT")
		d, err := os.MkdirTemp("", "c18-gone")
		must(err)
		must(os.Chdir(d))
		must(os.Remove(d))
		if _, err := os.Getwd(); err == nil {
			obs = append(obs, c18EnvObs{Scenario: scenario, API: "setup", Out: "os.Getwd still succeeds after the directory was removed: scenario not applicable here"})
			break
		}
		ask("/srv/build/acme-secret-project/cmd/main.go", "/srv/build/acme-secret-project", "/src/cmd/main.go")
		ask("/opt/vendor-tree/lib/a.go", "/opt/vendor-tree", "VT/lib/a.go")
		ask("/usr/lib/go/src/fmt/print.go", "", "/usr/lib/go/src/fmt/print.go")
	}
	b, _ := json.Marshal(obs)
	os.Stdout.Write(append([]byte("RESULT "), b...))
}

func c18EnvCheck(r *Run) {
	exe, err := os.Executable()
	must(err)
	// (outside the working directory of the run and outside every mapping: one prefix rule applies to the paths below it)
	base, err := os.MkdirTemp("", "c18-home")
	must(err)
	defer os.RemoveAll(base)
	fakeHome := filepath.Join(base, "someone")
	must(os.MkdirAll(fakeHome, 0o755))
	for _, sc := range []string{"home", "gone-cwd"} {
		cmd := exec.Command(exe, "C18-env", sc)
		cmd.Env = os.Environ()
		if sc == "home" {
			var env []string
			for _, kv := range cmd.Env {
				if !strings.HasPrefix(kv, "HOME=") {
					env = append(env, kv)
				}
			}
			cmd.Env = append(env, "HOME="+fakeHome)
		}
		var so, se bytes.Buffer
		cmd.Stdout, cmd.Stderr = &so, &se
		t := time.AfterFunc(60*time.Second, func() { _ = cmd.Process.Kill() })
		runErr := cmd.Run()
		t.Stop()
		var obs []c18EnvObs
		i := strings.LastIndex(so.String(), "RESULT ")
		if runErr != nil || i < 0 || json.Unmarshal([]byte(so.String()[i+7:]), &obs) != nil {
			r.Fail("C18/env/crash", fmt.Sprintf("the %s process died: %v: %s", sc, runErr, c08clip(se.String(), 400)), map[string]any{"kind": "env", "env_scenario": sc})
			continue
		}
		for _, o := range obs {
			r.Count(true, fmt.Sprintf("env %+v", o))
			r.Dist["env:"+sc]++
			rep := map[string]any{"kind": "env", "env_scenario": sc, "observation": o}
			switch {
			case o.API == "setup":
				r.Extra["env_"+sc] = o.Out
			case o.Panic != "":
				r.Fail("C18/env/panic", fmt.Sprintf("%s(%q) panicked (%s): %s", o.API, o.Path, sc, o.Panic), rep)
			case o.Prefix != "" && strings.HasPrefix(o.Out, o.Prefix):
				r.Fail("C18/env/prefix-reported", fmt.Sprintf("%s: %s(%q) = %q still carries the protected prefix %q (expected %q)", sc, o.API, o.Path, o.Out, o.Prefix, o.Want), rep)
			case o.Want != "" && o.Out != o.Want:
				r.Fail("C18/env/result", fmt.Sprintf("%s: %s(%q) = %q, expected %q", sc, o.API, o.Path, o.Out, o.Want), rep)
			}
		}
	}
}
