package main

// C03: severity routing and writer-set configuration.

import (
	"bytes"
	"fmt"
	"sort"

	"github.com/hedzr/logg/slog"
)

func init() { drivers["C03"] = runC03; replayers["C03"] = replayC03 }

// ---- the documented model, written out independently (direct oracle) ----
type wconf struct {
	normal, errw []int
	leveled      map[int][]int
}

func confDefault() *wconf {
	return &wconf{normal: []int{-1}, errw: []int{-2}, leveled: map[int][]int{}}
}

func delFirst(l []int, w int) []int {
	for i, x := range l {
		if x == w {
			return append(append([]int{}, l[:i]...), l[i+1:]...)
		}
	}
	return l
}

func (c *wconf) apply(o WOp) {
	switch o.Kind {
	case "SetW":
		c.normal = []int{o.W}
	case "AddW":
		c.normal = append(append([]int{}, c.normal...), o.W)
	case "RemW":
		c.normal = delFirst(c.normal, o.W)
	case "SetE":
		c.errw = []int{o.W}
	case "AddE":
		c.errw = append(append([]int{}, c.errw...), o.W)
	case "RemE":
		c.errw = delFirst(c.errw, o.W)
	case "AddL":
		c.leveled[o.L] = append(append([]int{}, c.leveled[o.L]...), o.W)
	case "RemL":
		c.leveled[o.L] = delFirst(c.leveled[o.L], o.W)
	case "ResetL":
		delete(c.leveled, o.L)
	case "ResetLs":
		c.leveled = map[int][]int{}
	case "ResetWs":
		*c = *confDefault()
	}
}

func (c *wconf) route(errdev map[int]bool, lvl int) []int {
	if l := c.leveled[lvl]; len(l) > 0 {
		return l
	}
	if errdev[lvl] {
		return c.errw
	}
	return c.normal
}

// stdout/stderr are observed through the redirected file descriptors, so their
// position among the destinations is not observable: both sides list them last.
func stdLast(l []int) []int {
	out := []int{}
	for _, x := range l {
		if x >= 0 {
			out = append(out, x)
		}
	}
	for _, x := range l {
		if x < 0 {
			out = append(out, x)
		}
	}
	return out
}

var levelSettable = map[int]bool{5: true, 6: true}

type c03Probe struct {
	Lvl   int     `json:"lvl"`
	Dest  []int   `json:"dest"` // writers written to, in order (stdout=-1, stderr=-2)
	Told  []int   `json:"told"` // writers told the level right before their write
	Exp   []int   `json:"expected_dest"`
	Panic string  `json:"panic,omitempty"`
	Evs   []event `json:"-"`
}

type c03Case struct {
	Kind   string     `json:"kind"` // method | option
	Ops    []WOp      `json:"ops"`
	ErrDev []int      `json:"errdev"`
	Probes []c03Probe `json:"probes"`
	Panic  string     `json:"panic_in_ops,omitempty"`
}

const customErrLevel = 13   // registered with RegWithPrintToErrorDevice
const customPlainLevel = 14 // registered without
const customAsInfoErr = 15  // treated as Info AND registered for the error device: error class
const customAsErrPlain = 16 // treated as Error, not registered for the error device: normal class
const customNegPlain = -2   // a negative value, not registered for the error device: normal class
const customNegErr = -5     // a negative value registered for the error device

func c03Probe1(e *slog.Entry, lvl int) (p c03Probe) { return c03ProbeMsg(e, lvl, "probe") }

// c03ProbeMsg: one record with the given message ("" at the Always severity is the blank line of Println())
func c03ProbeMsg(e *slog.Entry, lvl int, msg string) (p c03Probe) {
	p.Lvl = lvl
	events = nil
	stdDelta()
	func() {
		defer func() {
			if r := recover(); r != nil {
				p.Panic = fmt.Sprint(r)
			}
		}()
		e.LogAttrs(nil, slog.Level(lvl), msg, "k", 1)
	}()
	out, errb := stdDelta()
	var payload []byte
	p.Dest, p.Told = []int{}, []int{}
	for i, ev := range events {
		if ev.Kind == "write" {
			p.Dest = append(p.Dest, ev.W)
			payload = ev.Payload
			if i > 0 && events[i-1].Kind == "set" && events[i-1].W == ev.W && events[i-1].Lvl == lvl {
				p.Told = append(p.Told, ev.W)
			}
		}
	}
	p.Evs = events
	isRecord := func(b []byte) bool {
		if msg == "" {
			return string(b) == "\n"
		}
		return bytes.Count(b, []byte("probe")) == 1 && bytes.HasSuffix(b, []byte("\n")) && (payload == nil || bytes.Equal(payload, b))
	}
	// package defaults: os.Stdout / os.Stderr (their position among the members is taken from the configuration view)
	if len(out) > 0 {
		if isRecord(out) {
			p.Dest = append(p.Dest, -1)
		} else {
			p.Dest = append(p.Dest, -11) // something else than exactly one record
		}
	}
	if len(errb) > 0 {
		if isRecord(errb) {
			p.Dest = append(p.Dest, -2)
		} else {
			p.Dest = append(p.Dest, -12)
		}
	}
	return
}

func c03One(r *Run, snap *slog.VerifRegistry, ops []WOp, asOptions bool, kind string) {
	resetProcess(snap)
	slog.AddFlags(slog.LnoInterrupt)
	_ = slog.RegisterLevel(slog.Level(customErrLevel), "c03err", slog.RegWithPrintToErrorDevice(true))
	_ = slog.RegisterLevel(slog.Level(customPlainLevel), "c03plain", slog.RegWithPrintToErrorDevice(false))
	_ = slog.RegisterLevel(slog.Level(customAsInfoErr), "c03infoerr", slog.RegWithTreatedAsLevel(slog.InfoLevel), slog.RegWithPrintToErrorDevice(true))
	_ = slog.RegisterLevel(slog.Level(customAsErrPlain), "c03errplain", slog.RegWithTreatedAsLevel(slog.ErrorLevel))
	_ = slog.RegisterLevel(slog.Level(customNegPlain), "c03negplain")
	_ = slog.RegisterLevel(slog.Level(customNegErr), "c03negerr", slog.RegWithPrintToErrorDevice(true))
	// the error class per the statement: Panic, Fatal, Error, Warn, Fail and the custom levels
	// REGISTERED for the error device (not whatever the implementation's table says)
	errdev := map[int]bool{0: true, 1: true, 2: true, 3: true, 11: true, customErrLevel: true, customAsInfoErr: true, customNegErr: true}
	var errdevList []int
	for l := range errdev {
		errdevList = append(errdevList, l)
	}
	sort.Ints(errdevList)
	c := c03Case{Kind: kind, Ops: ops, ErrDev: errdevList}
	var e *slog.Entry
	func() {
		defer func() {
			if rec := recover(); rec != nil {
				c.Panic = fmt.Sprint(rec)
			}
		}()
		if asOptions {
			args := []any{"c03"}
			for _, o := range ops {
				args = append(args, wopOpt(o))
			}
			e = slog.VerifEntryOf(slog.New(args...))
		} else {
			e = slog.VerifEntryOf(slog.New("c03"))
			for _, o := range ops {
				applyWop(e, o)
			}
		}
	}()
	spec := confDefault()
	for _, o := range ops {
		spec.apply(o)
	}
	if c.Panic != "" {
		r.Fail("C03/panic-in-config-op", fmt.Sprintf("a writer configuration call panicked: %s", c.Panic), c)
		r.Count(true, fmt.Sprint(ops))
		return
	}
	e.SetLevel(slog.AlwaysLevel).SetColorMode(false)
	var probes []string
	for _, lvl := range []int{4, 2, 3, 5, 9, 11, 0, customErrLevel, customPlainLevel, customAsInfoErr, customAsErrPlain, customNegPlain, customNegErr, 7} {
		p := c03Probe1(e, lvl)
		exp := spec.route(errdev, lvl)
		if lvl == 7 {
			exp = nil
		}
		p.Exp = exp
		c.Probes = append(c.Probes, p)
		if p.Panic != "" {
			r.Fail("C03/panic-in-log-call", fmt.Sprintf("severity %d: %s", lvl, p.Panic), c)
			continue
		}
		exp = stdLast(exp)
		p.Exp = exp
		if fmt.Sprint(p.Dest) != fmt.Sprint(append([]int{}, exp...)) {
			key := "C03/routing"
			for _, o := range ops {
				if o.Kind == "RemW" || o.Kind == "RemE" || o.Kind == "RemL" {
					key = "C03/remove"
				}
			}
			r.Fail(key, fmt.Sprintf("severity %d: written to %v, the configuration denotes %v", lvl, p.Dest, exp), c)
		} else {
			var want []int
			for _, w := range exp {
				if levelSettable[w] {
					want = append(want, w)
				}
			}
			if fmt.Sprint(p.Told) != fmt.Sprint(append([]int{}, want...)) {
				r.Fail("C03/level-not-told", fmt.Sprintf("severity %d: destinations %v, told the level right before the write: %v, expected %v", lvl, p.Dest, p.Told, want), c)
			}
		}
		probes = append(probes, fmt.Sprintf("(%s, %s, %s)", cZ(int64(lvl)), cInts(p.Dest), cInts(p.Told)))
	}
	// the blank line (Println() / an empty Always message) is a write like any other: same destinations as an
	// Always record, level-settable destinations told first (direct oracle only)
	if bp := c03ProbeMsg(e, 8, ""); bp.Panic != "" {
		r.Fail("C03/panic-in-log-call", "blank line: "+bp.Panic, c)
	} else {
		exp := stdLast(spec.route(errdev, 8))
		var want []int
		for _, w := range exp {
			if levelSettable[w] {
				want = append(want, w)
			}
		}
		if fmt.Sprint(bp.Dest) != fmt.Sprint(append([]int{}, exp...)) {
			r.Fail("C03/routing-blank-line", fmt.Sprintf("blank line at the Always severity: written to %v, the configuration denotes %v", bp.Dest, exp), c)
		} else if fmt.Sprint(bp.Told) != fmt.Sprint(append([]int{}, want...)) {
			r.Fail("C03/level-not-told", fmt.Sprintf("blank line at the Always severity: destinations %v, told the level right before the write: %v, expected %v", bp.Dest, bp.Told, want), c)
		}
	}
	// the package-level Reset (level and flags back to the factory settings) is no writer operation: a default logger
	// that was given writers keeps them (every fourth case; direct oracle)
	if len(ops)%4 == 1 {
		def := slog.VerifEntryOf(slog.Default())
		def.SetWriter(pool[5]).SetErrorWriter(pool[6])
		slog.AddFlags(slog.Ldate)
		slog.Reset()
		slog.AddFlags(slog.LnoInterrupt)
		def.SetLevel(slog.AlwaysLevel).SetColorMode(false)
		for _, pr := range []struct {
			f    func(string, ...any)
			want int
		}{{slog.Info, 5}, {slog.Error, 6}} {
			events = nil
			pr.f("c03 default logger after Reset")
			var dests []int
			for _, ev := range events {
				if ev.Kind == "write" {
					dests = append(dests, ev.W)
				}
			}
			if fmt.Sprint(dests) != fmt.Sprint([]int{pr.want}) {
				r.Fail("C03/package-reset-touched-writers", fmt.Sprintf("the default logger was given writers 5 (normal) and 6 (error); after slog.Reset() a record of it was written to %v, expected [%d]", dests, pr.want), c)
			}
		}
		events = nil
	}
	var oc []string
	nt := false
	seenAdd := false
	for _, o := range ops {
		oc = append(oc, o.Coq())
		if o.Kind[:3] == "Add" || o.Kind[:3] == "Set" {
			seenAdd = true
		}
		if seenAdd && (o.Kind[:3] == "Rem" || o.Kind[:3] == "Res") {
			nt = true
		}
		r.Dist["op="+o.Kind]++
	}
	term := fmt.Sprintf("mk %s %s %s", cInts(errdevList), cList(oc), cList(probes))
	r.AddCase(term, c, nt, kind+cList(oc))
	r.Dist[fmt.Sprintf("len=%d", len(ops))]++
	r.Dist["form="+kind]++
}

func runC03(r *Run) {
	snap := slog.VerifSnapshot()
	captureStd(r.Out)
	r.Coq("Require Import Verif.Model.Base Verif.Model.Writers Verif.Corr.C03.", "case", "ok")
	r.Rule = "random sequences (length 0..12) of the 11 writer operations over a pool of 7 writers (plain, with Close, level-settable, both, a slog.NewLogWriter handle), a corpus that adds and removes every writer in every class,, as methods and as New(...) options, each followed by a probe record at 10 severities (normal, error class, leveled, registered error-device level, registered plain level, a level treated as Info but registered for the error device, a level treated as Error but not registered for it, Off) and by a blank line (empty Always message; direct oracle only); thorough adds every sequence of length <= 3 over 11 ops x 3 writers; non-trivial = a remove/reset after an add/set; distinct by op list"
	// corpus: every kind of writer (plain, with Close, level-settable, both, a NewLogWriter handle) is added to and
	// removed from every class, alone and next to another writer
	for w := 1; w <= 7; w++ {
		o := 1 + w%7
		for _, seq := range [][]WOp{
			{{Kind: "AddW", W: w}, {Kind: "RemW", W: w}},
			{{Kind: "SetW", W: w}, {Kind: "AddW", W: o}, {Kind: "RemW", W: w}},
			{{Kind: "SetW", W: o}, {Kind: "AddW", W: w}, {Kind: "RemW", W: w}, {Kind: "AddW", W: w}},
			{{Kind: "AddE", W: w}, {Kind: "RemE", W: w}},
			{{Kind: "SetE", W: w}, {Kind: "AddE", W: o}, {Kind: "RemE", W: w}},
			{{Kind: "AddL", L: 4, W: w}, {Kind: "RemL", L: 4, W: w}},
			{{Kind: "AddL", L: 2, W: o}, {Kind: "AddL", L: 2, W: w}, {Kind: "RemL", L: 2, W: w}},
		} {
			c03One(r, snap, seq, false, "corpus")
		}
	}
	for i := r.N(300, 6000); i > 0; i-- {
		n := r.R.Intn(13)
		asOpt := r.R.Chance(30)
		var ops []WOp
		for len(ops) < n {
			ops = append(ops, genWop(r.R, asOpt))
		}
		k := "method"
		if asOpt {
			k = "option"
		}
		c03One(r, snap, ops, asOpt, k)
	}
	if r.Thorough() {
		var alpha []WOp
		for _, k := range []string{"SetW", "AddW", "RemW", "SetE", "AddE", "RemE"} {
			for _, w := range []int{1, 3, 5} {
				alpha = append(alpha, WOp{Kind: k, W: w})
			}
		}
		for _, k := range []string{"AddL", "RemL"} {
			for _, w := range []int{1, 3, 5} {
				alpha = append(alpha, WOp{Kind: k, L: 4, W: w})
			}
		}
		alpha = append(alpha, WOp{Kind: "ResetL", L: 4}, WOp{Kind: "ResetLs"}, WOp{Kind: "ResetWs"})
		var rec func(prefix []WOp, d int)
		rec = func(prefix []WOp, d int) {
			c03One(r, snap, prefix, false, "exhaustive")
			if d == 3 {
				return
			}
			for _, a := range alpha {
				rec(append(append([]WOp{}, prefix...), a), d+1)
			}
		}
		rec(nil, 0)
		r.Exhaust = true
		r.Extra["exhaustive_space"] = fmt.Sprintf("all sequences of length <= 3 over %d operations", len(alpha))
	}
	resetProcess(snap)
}

func replayC03(r *Run, file string) {
	var c c03Case
	loadReplay(file, &c)
	snap := slog.VerifSnapshot()
	captureStd(r.Out)
	r.Coq("Require Import Verif.Model.Base Verif.Model.Writers Verif.Corr.C03.", "case", "ok")
	c03One(r, snap, c.Ops, c.Kind == "option", c.Kind)
	finishReplay(r)
}
