package main

// C04: JSON mode - each record is one line of valid JSON decoding to what was logged.

import (
	"bytes"
	"encoding/json"
	"fmt"
	"github.com/hedzr/is/term/color"
	"io"
	"strconv"
	"strings"
	"time"

	"github.com/hedzr/logg/slog"
)

func init() { drivers["C04"] = runC04; replayers["C04"] = replayEnc("C04") }

// ---- order-preserving JSON tree ----
type jnode struct {
	Kind    string // object array string number bool null
	S       string
	B       bool
	Members []jmember
	Elems   []jnode
}
type jmember struct {
	Key string
	Val jnode
}

func parseJSONTree(line []byte) (jnode, error) {
	dec := json.NewDecoder(bytes.NewReader(line))
	dec.UseNumber()
	n, err := parseJNode(dec)
	if err != nil {
		return n, err
	}
	if _, err := dec.Token(); err != io.EOF {
		return n, fmt.Errorf("trailing data after the JSON value")
	}
	return n, nil
}

func parseJNode(dec *json.Decoder) (jnode, error) {
	t, err := dec.Token()
	if err != nil {
		return jnode{}, err
	}
	switch x := t.(type) {
	case json.Delim:
		switch x {
		case '{':
			n := jnode{Kind: "object"}
			for dec.More() {
				kt, err := dec.Token()
				if err != nil {
					return n, err
				}
				k, ok := kt.(string)
				if !ok {
					return n, fmt.Errorf("non-string member name")
				}
				v, err := parseJNode(dec)
				if err != nil {
					return n, err
				}
				n.Members = append(n.Members, jmember{k, v})
			}
			_, err := dec.Token()
			return n, err
		case '[':
			n := jnode{Kind: "array"}
			for dec.More() {
				v, err := parseJNode(dec)
				if err != nil {
					return n, err
				}
				n.Elems = append(n.Elems, v)
			}
			_, err := dec.Token()
			return n, err
		}
		return jnode{}, fmt.Errorf("unexpected delimiter %v", x)
	case string:
		return jnode{Kind: "string", S: x}, nil
	case json.Number:
		return jnode{Kind: "number", S: x.String()}, nil
	case bool:
		return jnode{Kind: "bool", B: x}, nil
	case nil:
		return jnode{Kind: "null"}, nil
	}
	return jnode{}, fmt.Errorf("unexpected token %T", t)
}

func isStr(n jnode, want string) bool { return n.Kind == "string" && n.S == want }

// a number with its exact value: either a JSON number with that text or a string holding it
func isExactNum(n jnode, text string) bool {
	return (n.Kind == "number" || n.Kind == "string") && n.S == text
}

func matchJSONValue(v GVal, n jnode) string {
	bad := func(what string) string { return fmt.Sprintf("kind %s: %s (got %s %q)", v.Kind, what, n.Kind, n.S) }
	arr := func(k int, f func(i int, e jnode) bool) string {
		if n.Kind != "array" || len(n.Elems) != k {
			return bad("not an array of the right length")
		}
		for i, e := range n.Elems {
			if !f(i, e) {
				return bad(fmt.Sprintf("element %d differs", i))
			}
		}
		return ""
	}
	switch v.Kind {
	case "nil":
		if n.Kind == "null" || isStr(n, "<nil>") {
			return ""
		}
		return bad("nil is neither null nor a fixed placeholder string")
	case "string", "stringer", "tostring", "bytes":
		if !isStr(n, fixUTF8(v.S)) {
			return bad("string differs")
		}
	case "level":
		if !isStr(n, levelName(v.I)) {
			return bad("level name differs")
		}
	case "stackerr": // an errors.v3 error that carries its stack: {"message":text,"trace":{"file":..,"line":..,"func":..}}
		if n.Kind != "object" || len(n.Members) < 1 || n.Members[0].Key != "message" || !isStr(n.Members[0].Val, fixUTF8(v.S)) {
			return bad("error message differs")
		}
		for _, m := range n.Members[1:] {
			if m.Key != "trace" || m.Val.Kind != "object" {
				return bad("unexpected member " + m.Key + " in the error object")
			}
			for _, t := range m.Val.Members {
				switch {
				case t.Key == "file" && t.Val.Kind == "string", t.Key == "func" && t.Val.Kind == "string", t.Key == "line" && t.Val.Kind == "number":
				default:
					return bad("unexpected member " + t.Key + " in the trace object")
				}
			}
		}
	case "error":
		if n.Kind == "object" && len(n.Members) >= 1 && n.Members[0].Key == "message" && isStr(n.Members[0].Val, fixUTF8(v.S)) {
			return ""
		}
		if isStr(n, fixUTF8(v.S)) {
			return ""
		}
		return bad("error message differs")
	case "bool":
		if n.Kind != "bool" || n.B != v.B {
			return bad("bool differs")
		}
	case "int", "int8", "int16", "int32", "int64":
		if n.Kind != "number" || n.S != strconv.FormatInt(v.Go2Int(), 10) {
			return bad("integer differs")
		}
	case "uint", "uint8", "uint16", "uint32", "uint64":
		if !isExactNum(n, strconv.FormatUint(v.Go2Uint(), 10)) {
			return bad("unsigned differs")
		}
	case "float32":
		if !isExactNum(n, ftxt(float64(float32(v.F)))) {
			return bad("float differs")
		}
	case "float64":
		if !isExactNum(n, ftxt(v.F)) {
			return bad("float differs")
		}
	case "complex64":
		if !isStr(n, strconv.FormatComplex(complex128(complex64(complex(v.C[0], v.C[1]))), 'f', -1, 128)) {
			return bad("complex differs")
		}
	case "complex128":
		if !isStr(n, strconv.FormatComplex(complex(v.C[0], v.C[1]), 'f', -1, 128)) {
			return bad("complex differs")
		}
	case "duration":
		if !isStr(n, time.Duration(v.I).String()) {
			return bad("duration differs")
		}
	case "time":
		if !isStr(n, fixedTime.Add(time.Duration(v.I)).Format(time.RFC3339Nano)) {
			return bad("time differs")
		}
	case "struct", "map", "nilptr":
		if !isStr(n, fixUTF8(fmt.Sprintf("{{%v}}", v.Go()))) {
			return bad("fallback text differs")
		}
	case "strs":
		return arr(len(v.Strs), func(i int, e jnode) bool { return isStr(e, fixUTF8(v.Strs[i])) })
	case "bools":
		return arr(len(v.Bools), func(i int, e jnode) bool { return e.Kind == "bool" && e.B == v.Bools[i] })
	case "ints", "int64s", "int8s", "int16s", "int32s":
		return arr(len(v.Ints), func(i int, e jnode) bool { return e.Kind == "number" && e.S == strconv.FormatInt(v.Ints[i], 10) })
	case "uint64s", "uint16s", "uints", "uint32s":
		return arr(len(v.Uints), func(i int, e jnode) bool {
			u := v.Uints[i]
			if v.Kind == "uint16s" {
				u = uint64(uint16(u))
			}
			return isExactNum(e, strconv.FormatUint(u, 10))
		})
	case "float64s":
		return arr(len(v.Fs), func(i int, e jnode) bool { return isExactNum(e, ftxt(v.Fs[i])) })
	case "durs":
		d := v.durs()
		return arr(len(d), func(i int, e jnode) bool { return isStr(e, d[i].String()) })
	case "times":
		t := v.times()
		return arr(len(t), func(i int, e jnode) bool { return isStr(e, t[i].Format(time.RFC3339Nano)) })
	case "group", "attrsval":
		if n.Kind != "object" {
			return bad("group is not an object")
		}
		return matchJSONMembers(sortDedupe(v.Items), n.Members, "group")
	case "groupval": // "k", Group("g", ...): the value of k is an object with one member, the group g
		if n.Kind != "object" || len(n.Members) != 1 || n.Members[0].Key != fixUTF8(v.S) || n.Members[0].Val.Kind != "object" {
			return bad("a group given as a value is not an object with one member, the group")
		}
		return matchJSONMembers(sortDedupe(v.Items), n.Members[0].Val.Members, "group")
	}
	return ""
}

func matchJSONMembers(as []GAttr, ms []jmember, where string) string {
	if len(as) != len(ms) {
		return fmt.Sprintf("%s: %d members, expected %d attributes", where, len(ms), len(as))
	}
	for i, a := range as {
		if ms[i].Key != fixUTF8(a.Key) {
			return fmt.Sprintf("%s: member %d is %q, expected key %q", where, i, ms[i].Key, a.Key)
		}
		if why := matchJSONValue(a.Val, ms[i].Val); why != "" {
			return fmt.Sprintf("%s: key %q: %s", where, a.Key, why)
		}
	}
	return ""
}

// the direct oracle of C04; "" = holds
func oracleJSON(rec EncRec, payloads [][]byte) string {
	if len(payloads) != 1 {
		return fmt.Sprintf("%d payloads for one record", len(payloads))
	}
	if rec.Cfg.Level == 8 && strings.Trim(rec.Msg, "\n\r \t") == "" { // blank Print: exactly one newline (property C02)
		if string(payloads[0]) != "\n" {
			return "blank Print is not delivered as one newline byte"
		}
		return ""
	}
	line := payloads[0]
	if bytes.Count(line, []byte("\n")) != 1 || !bytes.HasSuffix(line, []byte("\n")) {
		return "framing: the record is not exactly one line"
	}
	for _, c := range line[:len(line)-1] {
		if c < 0x20 {
			return "framing: raw control byte inside the line"
		}
	}
	n, err := parseJSONTree(line[:len(line)-1])
	if err != nil {
		return "invalid JSON: " + err.Error()
	}
	if n.Kind != "object" {
		return "the record is not a JSON object"
	}
	ms := n.Members
	next := func(key string) (jnode, bool) {
		if len(ms) == 0 || ms[0].Key != key {
			return jnode{}, false
		}
		v := ms[0].Val
		ms = ms[1:]
		return v, true
	}
	if v, ok := next("time"); !ok || !isStr(v, tsText) {
		return "time member missing or wrong"
	}
	if rec.Cfg.Name != "" {
		if v, ok := next("logger"); !ok || !isStr(v, fixUTF8(rec.Cfg.Name)) {
			return "logger member missing or wrong"
		}
	}
	if v, ok := next("level"); !ok || !isStr(v, levelName(int64(rec.Cfg.Level))) {
		return "level member missing or wrong"
	}
	if v, ok := next("msg"); !ok || !isStr(v, fixUTF8(rec.Msg)) {
		return "msg member missing or wrong"
	}
	exp := sortDedupe(rec.Attrs)
	var callerNode *jnode
	if rec.Cfg.Caller {
		if len(ms) == 0 || ms[len(ms)-1].Key != "caller" {
			return "caller member missing"
		}
		callerNode = &ms[len(ms)-1].Val
		ms = ms[:len(ms)-1]
	}
	if why := matchJSONMembers(exp, ms, "record"); why != "" {
		return why
	}
	if callerNode != nil && rec.Cfg.NoPC {
		if callerNode.Kind != "object" {
			return "caller member of a record without a frame is not an object"
		}
		callerNode = nil
	}
	if callerNode != nil {
		c := *callerNode
		if c.Kind != "object" || len(c.Members) != 3 || !isStr(c.Members[0].Val, encCaller.File) ||
			c.Members[1].Val.S != strconv.Itoa(encCaller.Line) || !isStr(c.Members[2].Val, encCaller.Func) {
			return "caller member wrong"
		}
	}
	return ""
}

func classifyEnc(id string, why string, rec EncRec) string {
	cls := why
	if i := strings.Index(cls, ":"); i > 0 && i < 30 {
		cls = cls[:i]
	}
	cls = strings.ReplaceAll(strings.Fields(cls + " x")[0], ":", "")
	key := fmt.Sprintf("%s/%s/kinds=%s", id, cls, kindKey(rec))
	if len(rec.Attrs) == 0 {
		key = fmt.Sprintf("%s/%s/message", id, cls)
	}
	return key
}

type encCase struct {
	Kind     string `json:"kind"`
	Rec      EncRec `json:"record"`
	Observed string `json:"observed,omitempty"`
	Why      string `json:"why,omitempty"`
}

// one record through the real encoder, the direct oracle, and into the Coq cases
func encOne(r *Run, id string, rec EncRec, oracle func(EncRec, [][]byte) string, kind string, runeSet map[rune]bool) {
	payloads := rec.emit()
	var obs []byte
	if len(payloads) > 0 {
		obs = payloads[0]
	}
	if why := oracle(rec, payloads); why != "" {
		small := shrinkRec(rec, func(x EncRec) bool { return oracle(x, x.emit()) != "" })
		sp := small.emit()
		var so []byte
		if len(sp) > 0 {
			so = sp[0]
		}
		w2 := oracle(small, sp)
		r.Fail(classifyEnc(id, w2, small), w2, encCase{kind, small, strconv.Quote(string(so)), w2})
	}
	rec.runes(runeSet)
	collectRunes(runeSet, string(obs))
	r.AddCase(rec.Coq(obs), encCase{Kind: kind, Rec: rec, Observed: strconv.Quote(string(obs))}, recNontrivial(rec), fmt.Sprintf("%+v", rec))
	ks := map[string]bool{}
	kindsOf(rec.Attrs, ks)
	for k := range ks {
		r.Dist["kind="+k]++
	}
	r.Dist[fmt.Sprintf("attrs=%d", len(rec.Attrs))]++
}

// corpus: each value kind alone, nasty messages, groups at each position
func encCorpus(mode string, p EncProfile) []EncRec {
	var out []EncRec
	cfg := EncCfg{Mode: mode, Level: 4, TagWidth: 3, MinWidth: 36}
	rg := &Rng{12345}
	for _, k := range leafKinds {
		for i := 0; i < 2; i++ {
			out = append(out, EncRec{cfg, "m", []GAttr{{Key: "k", Val: genLeaf(rg, p, k)}}})
		}
	}
	for _, m := range []string{"", "plain", "quote\" back\\slash", "line1\nline2", "cr\rlf\n", "tab\tbell\a nul\x00", "café   \U0001f600", "bad\xff\xc3utf8", "<b>bold</b> &amp;", "  leading blanks", "esc\x1b[31mred"} {
		out = append(out, EncRec{cfg, m, nil})
	}
	g := GVal{Kind: "group", Items: []GAttr{{Key: "x", Val: GVal{Kind: "int", I: 1}}, {Key: "y", Val: GVal{Kind: "string", S: "s"}}}}
	out = append(out,
		EncRec{cfg, "m", []GAttr{{Key: "g", Val: g}}},
		EncRec{cfg, "m", []GAttr{{Key: "a", Val: GVal{Kind: "int", I: 1}}, {Key: "g", Val: g}}},
		EncRec{cfg, "m", []GAttr{{Key: "g", Val: g}, {Key: "z", Val: GVal{Kind: "int", I: 2}}}},
		EncRec{cfg, "m", []GAttr{{Key: "g", Val: GVal{Kind: "group"}}}},
		EncRec{cfg, "m", []GAttr{{Key: "g", Val: GVal{Kind: "group", Items: []GAttr{{Key: "h", Val: g}, {Key: "z", Val: GVal{Kind: "bool", B: true}}}}}, {Key: "zz", Val: GVal{Kind: "nil"}}}},
		EncRec{cfg, "m", []GAttr{{Key: "d", Val: GVal{Kind: "int", I: 1}}, {Key: "d", Val: GVal{Kind: "int", I: 2}}, {Nil: true}, {Key: "c", Val: GVal{Kind: "int", I: 3}}}},
	)
	c2 := cfg
	c2.Name, c2.Caller, c2.Level = "svc", true, 2
	out = append(out, EncRec{c2, "with name and caller", []GAttr{{Key: "k", Val: GVal{Kind: "int", I: 1}}}})
	c3 := cfg
	c3.Level = unregLevel
	out = append(out, EncRec{c3, "unregistered level", nil})
	c4 := cfg
	c4.Level = customLevel
	out = append(out, EncRec{c4, "registered custom level", nil})
	// Always severity: only a message of line breaks, blanks and tabs is the "empty line"; any other white space is a message
	c5 := cfg
	c5.Level = 8
	for _, m := range []string{"\u00a0", "\u2003\u3000", "\v\f", " \u0085 ", "\u2028", "\ufeff", " \t\n", ""} {
		out = append(out, EncRec{c5, m, nil}, EncRec{c5, m, []GAttr{{Key: "k", Val: GVal{Kind: "int", I: 1}}}})
	}
	return out
}

// attribute lists and group attributes given as the VALUE of a key ("k", Attrs{...} / "k", Group("g", ...)): JSON only,
// direct oracle only (in the text formats such a value prints "k=" followed by the dotted members)
func valueGroupCorpus() []EncRec {
	var out []EncRec
	iv := func(k string, i int64) GAttr { return GAttr{Key: k, Val: GVal{Kind: "int", I: i}} }
	items := []GAttr{iv("y", 2), iv("x", 1), {Key: "s", Val: GVal{Kind: "string", S: "quote\" here"}}}
	inner := GAttr{Key: "in", Val: GVal{Kind: "group", Items: []GAttr{iv("b", 2), iv("a", 1)}}}
	for _, caller := range []bool{false, true} {
		cfg := EncCfg{Mode: "json", Level: 3, TagWidth: 3, MinWidth: 36, Caller: caller}
		out = append(out,
			EncRec{cfg, "m", []GAttr{{Key: "k", Val: GVal{Kind: "attrsval", Items: items}}, iv("z", 9)}},
			EncRec{cfg, "m", []GAttr{iv("a", 0), {Key: "k", Val: GVal{Kind: "groupval", S: "g", Items: items}}, iv("z", 9)}},
			EncRec{cfg, "m", []GAttr{{Key: "k", Val: GVal{Kind: "groupval", S: "g", Items: nil}}}},
			EncRec{cfg, "m", []GAttr{{Key: "k", Val: GVal{Kind: "groupval", S: "g\"q", Items: append([]GAttr{inner}, items...)}}, iv("z", 9)}},
			EncRec{cfg, "m", []GAttr{{Key: "outer", Val: GVal{Kind: "group", Items: []GAttr{{Key: "k", Val: GVal{Kind: "groupval", S: "g", Items: items}}, iv("w", 1)}}}}},
		)
	}
	return out
}

// values that implement only encoding.TextMarshaler, with benign text and with text that would split the line, forge a pair
// or recolour the terminal if it were written raw; alone, between other attributes and inside a group
func textMarshalerCorpus(mode string) []EncRec {
	var out []EncRec
	tm := func(t string) GVal { return GVal{Kind: "textm", S: t} }
	cfg := EncCfg{Mode: mode, Level: 4, TagWidth: 3, MinWidth: 36}
	for _, t := range []string{"10.0.0.1", "", "two words", "a\nforged=1", "q\"uote", "back\\slash", "\x1b[2J", "\x1b[31mred", "bell\a del\x7f", "cr\rlf\n", "\xff\xfe"} {
		out = append(out,
			EncRec{cfg, "m", []GAttr{{Key: "v", Val: tm(t)}}},
			EncRec{cfg, "m", []GAttr{{Key: "a", Val: GVal{Kind: "int", I: 1}}, {Key: "v", Val: tm(t)}, {Key: "z", Val: GVal{Kind: "string", S: "last"}}}},
			EncRec{cfg, "two\nlines", []GAttr{{Key: "g", Val: GVal{Kind: "group", Items: []GAttr{{Key: "t", Val: tm(t)}, {Key: "k", Val: GVal{Kind: "bool", B: true}}}}}}},
		)
	}
	return out
}

func stackErrCorpus(mode string) []EncRec {
	var out []EncRec
	se := func(t string) GVal { return GVal{Kind: "stackerr", S: t} }
	for _, caller := range []bool{false, true} {
		for _, lvl := range []int{2, 4, 5} {
			cfg := EncCfg{Mode: mode, Level: lvl, TagWidth: 3, MinWidth: 36, Caller: caller}
			out = append(out,
				EncRec{cfg, "m", []GAttr{{Key: "err", Val: se("boom")}}},
				EncRec{cfg, "m", []GAttr{{Key: "a", Val: GVal{Kind: "int", I: 1}}, {Key: "err", Val: se("quote\" and\nbreak")}, {Key: "z", Val: GVal{Kind: "string", S: "last"}}}},
				EncRec{cfg, "two\nlines", []GAttr{{Key: "g", Val: GVal{Kind: "group", Items: []GAttr{{Key: "e1", Val: se("inner")}, {Key: "k", Val: GVal{Kind: "bool", B: true}}}}}, {Key: "e2", Val: se("")}}},
			)
		}
	}
	return out
}

func genEncRec(r *Rng, mode string, p EncProfile) EncRec {
	cfg := EncCfg{Mode: mode, Level: []int{0, 1, 2, 3, 4, 5, 6, 8, 9, 10, 11, customLevel, unregLevel, fgOnlyLevel, fgBgLevel, lateLevel}[r.Intn(16)],
		Caller: r.Chance(30), TagWidth: 3, MinWidth: 36}
	if r.Chance(30) {
		cfg.Name = []string{"svc", "a.b", "Name-1"}[r.Intn(3)]
	}
	cfg.SameLayout = r.Chance(25)
	if mode == "color" {
		cfg.TagWidth = 1 + r.Intn(5)
		cfg.MinWidth = []int{36, 36, 16, 50, 200, 165}[r.Intn(6)]
		if r.Chance(8) { // out-of-range settings arrive after the valid ones and are ignored
			cfg.WidthAfter = []int{6, 7, 64, -1, -100}[r.Intn(5)]
		}
		if r.Chance(5) {
			cfg.MinAfter = []int{15, 1, -4}[r.Intn(3)]
		}
	}
	cls := p.TextClass
	if r.Chance(30) {
		cls = 0
	}
	return EncRec{cfg, genMsg(r, cls, mode == "color"), genAttrs(r, p, 0)}
}

func runEncoder(r *Run, id, mode, corr string, p EncProfile, oracle func(EncRec, [][]byte) string, quick, thorough int) {
	snap := slog.VerifSnapshot()
	encSetup(snap)
	r.ShardSize = 150
	runeSet := map[rune]bool{}
	for _, rec := range encCorpus(mode, p) {
		encOne(r, id, rec, oracle, "corpus", runeSet)
	}
	withNastyPathMapping(func() { // the caller field under a path mapping whose replacement needs escaping
		for i, rec := range encCorpus(mode, p) {
			if i%7 == 0 {
				rec.Cfg.Caller = true
				encOne(r, id, rec, oracle, "corpus-caller-path", runeSet)
			}
		}
	})
	if mode != "json" {
		// encoding.TextMarshaler values: the text formats print the marshalled text, quoted like a string (model: VStr)
		for _, rec := range textMarshalerCorpus(mode) {
			encOne(r, id, rec, oracle, "corpus-textmarshaler", runeSet)
			r.Dist["kind=textm"]++
		}
	}
	if mode != "color" {
		// values outside the model, direct oracle only: errors that carry their stack, with and without the caller field
		direct := stackErrCorpus(mode)
		if mode == "json" { // the caller flag on, no frame: still one JSON object
			for _, as := range [][]GAttr{nil, {{Key: "a", Val: GVal{Kind: "int", I: 3}}}, {{Key: "g", Val: GVal{Kind: "group", Items: []GAttr{{Key: "x", Val: GVal{Kind: "int", I: 1}}}}}}} {
				direct = append(direct, EncRec{EncCfg{Mode: "json", Level: 4, TagWidth: 3, MinWidth: 36, Caller: true, NoPC: true}, "no frame", as})
			}
		}
		for _, rec := range valueGroupCorpus() {
			rec.Cfg.Mode = mode
			if mode == "logfmt" && strings.Contains(fmt.Sprint(rec.Attrs), "g\"q") {
				continue // (a group name that needs quoting is outside what logfmt keys allow)
			}
			direct = append(direct, rec)
		}
		for i, rec := range direct {
			payloads := rec.emit()
			if why := oracle(rec, payloads); why != "" {
				var so []byte
				if len(payloads) > 0 {
					so = payloads[0]
				}
				r.Fail(classifyEnc(id, why, rec), why, encCase{"corpus-stackerr", rec, strconv.Quote(string(so)), why})
			}
			r.Count(true, fmt.Sprintf("stackerr %d %+v", i, rec))
			r.Dist["kind=stackerr"]++
		}
	}
	for i := r.N(quick, thorough); i > 0; i-- {
		pp := p
		if r.Thorough() && r.R.Chance(30) {
			pp.MaxDepth = 8
		}
		encOne(r, id, genEncRec(r.R, mode, pp), oracle, "random", runeSet)
	}
	r.Coq("Require Import Verif.Model.Base Verif.Model.Mode Verif.Model.Attrs Verif.Corr.Enc "+corr+".", "Enc.ecase", "(ok isp)")
	r.Prelude(isprintPrelude(runeSet))
	resetProcess(snap)
}

func runC04(r *Run) {
	r.Rule = "corpus (every value kind alone, nasty messages, groups at every position, duplicates, nil attrs, name+caller, custom and unregistered levels) + random records: messages and keys over all byte values (mostly valid UTF-8 with quotes, backslashes, CR/LF, controls, U+2028/9, invalid sequences), every value kind, groups nested <= 4 (thorough <= 8), caller on/off; byte-exact comparison with the model; direct oracle = encoding/json token stream (order preserving) against the expected tree + one-line framing; every observed line is also read by the Coq RFC 8259 parser and must give json_of (records are checked to lie in the theorems' domain) and the very tree encoding/json read; non-trivial = a byte needing escape or a group; distinct by record"
	runEncoder(r, "C04", "json", "Verif.Corr.C04", EncProfile{KeyClass: 2, TextClass: 2, MaxDepth: 4, MaxAttrs: 8}, oracleJSON, 500, 12000)
	attachGoTrees(r)
}

// The specification side of the theorems is the Coq parser parse_json.  To tie IT to a reference
// reader, every case gets the ordered tree encoding/json read from the observed line (None when
// encoding/json rejects it); Corr/C04.okj demands that parse_json accepts exactly then and
// delivers the same tree (and, for records in the domain, that this tree is json_of).
func attachGoTrees(r *Run) {
	accepted, rejected := 0, 0
	for i := range r.cases {
		ec, ok := r.replays[i].(encCase)
		if !ok {
			continue
		}
		obs, err := strconv.Unquote(ec.Observed)
		if err != nil {
			obs = ""
		}
		body := []byte(obs)
		if len(body) > 0 {
			body = body[:len(body)-1] // Coq: removelast
		}
		tree := "None"
		if n, err := parseJSONTree(body); err == nil {
			tree = cSome(jnodeCoq(n))
			accepted++
		} else {
			rejected++
		}
		r.cases[i] = "(" + r.cases[i] + ", " + tree + ")"
	}
	r.Extra["encoding_json_accepted_lines"] = accepted
	r.Extra["encoding_json_rejected_lines"] = rejected // the blank Print records (one bare newline)
	r.Coq("Require Import Verif.Model.Base Verif.Model.Mode Verif.Model.Attrs Verif.Model.Json Verif.Corr.Enc Verif.Corr.C04.",
		"(Enc.ecase * option Json.json)%type", "(okj isp)")
}

func jnodeCoq(n jnode) string {
	switch n.Kind {
	case "null":
		return "JNull"
	case "bool":
		return "(JBool " + cBool(n.B) + ")"
	case "number":
		return "(JNum " + cStr(n.S) + ")"
	case "string":
		return "(JStr " + cStr(n.S) + ")"
	case "array":
		it := make([]string, 0, len(n.Elems))
		for _, e := range n.Elems {
			it = append(it, jnodeCoq(e))
		}
		return "(JArr " + cList(it) + ")"
	case "object":
		it := make([]string, 0, len(n.Members))
		for _, m := range n.Members {
			it = append(it, "("+cStr(m.Key)+", "+jnodeCoq(m.Val)+")")
		}
		return "(JObj " + cList(it) + ")"
	}
	return "JNull"
}

func replayEnc(id string) func(r *Run, file string) {
	return func(r *Run, file string) {
		var c encCase
		loadReplay(file, &c)
		snap := slog.VerifSnapshot()
		encSetup(snap)
		oracle := map[string]func(EncRec, [][]byte) string{"C04": oracleJSON, "C05": oracleLogfmt, "C06": oracleColor}[id]
		runeSet := map[rune]bool{}
		if strings.HasPrefix(c.Kind, "corpus-setlevelcolors:") { // the level's colours were set with SetLevelColors
			var fg, bg int
			fmt.Sscanf(c.Kind, "corpus-setlevelcolors:%d:%d", &fg, &bg)
			slog.SetLevelColors(slog.Level(c.Rec.Cfg.Level), color.Color(fg), color.Color(bg))
			c.Kind = "corpus-stackerr"
		}
		if c.Kind == "corpus-stackerr" { // outside the model: direct oracle only
			payloads := c.Rec.emit()
			if why := oracle(c.Rec, payloads); why != "" {
				r.Fail(classifyEnc(id, why, c.Rec), why, c)
			}
			r.Count(true, "replay")
			finishReplay(r)
			return
		}
		encOne(r, id, c.Rec, oracle, "replay", runeSet)
		r.Coq("Require Import Verif.Model.Base Verif.Model.Mode Verif.Model.Attrs Verif.Corr.Enc Verif.Corr."+id+".", "Enc.ecase", "(ok isp)")
		r.Prelude(isprintPrelude(runeSet))
		finishReplay(r)
	}
}
