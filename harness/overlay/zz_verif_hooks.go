//go:build verif

// Added to package slog by `go build -tags verif -overlay` (never committed to
// the repository): read-only accessors and snapshot/restore of package state
// that the public API does not reach.  Add-only: no existing line is changed.
package slog

import (
	"fmt"
	"sort"
	"strings"
	"time"

	"github.com/hedzr/logg/slog/internal/times"
)

// VerifEntryOf returns the *Entry behind a Logger made by New / Default.
func VerifEntryOf(l Logger) *Entry {
	switch z := l.(type) {
	case *logimp:
		return z.Entry
	case *Entry:
		return z
	}
	return nil
}

func VerifQuote(s string) []byte { return appendQuotedWith(nil, s, '"', false, false) }

func VerifCheckpath(file string) string { return checkpath(file) }

func VerifShortDur(d time.Duration, frac bool) string { return times.SmartDurationStringEx(d, frac) }
func VerifParseDuration(s string) (time.Duration, error) { return times.ParseDuration(s) }

func VerifInTesting() bool { return inTesting }

// VerifKnownPaths returns a copy of the known-path table.
func VerifKnownPaths() map[string]string {
	m := map[string]string{}
	for k, v := range knownPathMap {
		m[k] = v
	}
	return m
}

// VerifKnownPathRegexps returns the regexp mapping table as (expr, repl) pairs, in order.
func VerifKnownPathRegexps() [][2]string {
	out := make([][2]string, 0, len(knownPathRegexpMap))
	for _, r := range knownPathRegexpMap {
		out = append(out, [2]string{r.expr.String(), r.repl})
	}
	return out
}

// VerifRegistry is a snapshot of the level registry tables.
type VerifRegistry struct {
	all      []Level
	l2s      map[Level]string
	s2l      map[string]Level
	tags     map[int]map[Level]string
	as       map[Level]Level
	errdev   map[Level]bool
	colors   map[Level][]int
	flags    Flags
	lvl      Level
	minw     int
	loutw    int
	paths    map[string]string
	regexps  []regRepl
	deflevel Level
}

func VerifSnapshot() *VerifRegistry {
	r := &VerifRegistry{}
	r.all = append([]Level(nil), allLevels...)
	r.l2s = map[Level]string{}
	for k, v := range levelToString {
		r.l2s[k] = v
	}
	r.s2l = map[string]Level{}
	for k, v := range stringToLevel {
		r.s2l[k] = v
	}
	r.tags = map[int]map[Level]string{}
	for n, m := range shortTagMap {
		mm := map[Level]string{}
		for k, v := range m {
			mm[k] = v
		}
		r.tags[n] = mm
	}
	r.as = map[Level]Level{}
	for k, v := range mLevelIsEnabledAs {
		r.as[k] = v
	}
	r.errdev = map[Level]bool{}
	for k, v := range mLevelUseErrorDevice {
		r.errdev[k] = v
	}
	r.colors = map[Level][]int{}
	for k, v := range mLevelColors {
		var c []int
		for _, x := range v {
			c = append(c, int(x))
		}
		r.colors[k] = c
	}
	r.flags = flags
	r.lvl = lvlCurrent
	r.minw = minimalMessageWidth
	r.loutw = levelOutputWidth
	r.paths = VerifKnownPaths()
	r.regexps = append([]regRepl(nil), knownPathRegexpMap...)
	return r
}

func VerifRestore(r *VerifRegistry) {
	allLevels = append([]Level(nil), r.all...)
	for k := range levelToString {
		delete(levelToString, k)
	}
	for k, v := range r.l2s {
		levelToString[k] = v
	}
	for k := range stringToLevel {
		delete(stringToLevel, k)
	}
	for k, v := range r.s2l {
		stringToLevel[k] = v
	}
	for n := range shortTagMap {
		for k := range shortTagMap[n] {
			delete(shortTagMap[n], k)
		}
		for k, v := range r.tags[n] {
			shortTagMap[n][k] = v
		}
	}
	for k := range mLevelIsEnabledAs {
		delete(mLevelIsEnabledAs, k)
	}
	for k, v := range r.as {
		mLevelIsEnabledAs[k] = v
	}
	for k := range mLevelUseErrorDevice {
		delete(mLevelUseErrorDevice, k)
	}
	for k, v := range r.errdev {
		mLevelUseErrorDevice[k] = v
	}
	for k := range mLevelColors {
		if _, ok := r.colors[k]; !ok {
			delete(mLevelColors, k)
		}
	}
	flags = r.flags
	lvlCurrent = r.lvl
	minimalMessageWidth = r.minw
	levelOutputWidth = r.loutw
	for k := range knownPathMap {
		delete(knownPathMap, k)
	}
	for k, v := range r.paths {
		knownPathMap[k] = v
	}
	knownPathRegexpMap = append([]regRepl(nil), r.regexps...)
}

// VerifTables exposes the registry tables for comparison with the model.
func VerifTreatedAs() map[Level]Level {
	m := map[Level]Level{}
	for k, v := range mLevelIsEnabledAs {
		m[k] = v
	}
	return m
}
func VerifErrDev() []Level {
	var out []Level
	for k := range mLevelUseErrorDevice {
		out = append(out, k)
	}
	return out
}
func VerifHasColors(l Level) bool { _, ok := mLevelColors[l]; return ok }

// VerifResetDefault replaces the default logger by a fresh detached one at the
// current default level (as init does), so that histories start alike.
func VerifResetDefault() { defaultLog = newDetachedLogger() }

// VerifView is a read-only projection of an Entry's configuration.
type VerifView struct {
	Name     string
	Owner    *Entry
	JSON     bool
	Color    bool
	Layout   string
	UTC      int
	Level    Level
	AttrKeys []string
	Skip     int
	CtxKeys  []any
	HasW     bool
	Normal   []any // io.Writer as registered (the *logwr cell looked through)
	Error    []any
	Leveled  map[Level][]any
	Wrapped  map[string][]bool // per list: whether the member is a *logwr cell
}

func verifUnwrap(ws LWs) (out []any, wrapped []bool) {
	for _, w := range ws {
		switch z := w.(type) {
		case *logwr:
			out = append(out, z.Writer)
			wrapped = append(wrapped, true)
		case *filewr:
			out = append(out, z.File)
			wrapped = append(wrapped, false)
		default:
			out = append(out, w)
			wrapped = append(wrapped, false)
		}
	}
	return
}

func VerifViewOf(e *Entry) VerifView {
	v := VerifView{Name: e.name, Owner: e.owner, JSON: e.useJSON, Color: e.useColor, Layout: e.timeLayout,
		UTC: e.modeUTC, Level: e.level, Skip: e.extraFrames, CtxKeys: append([]any(nil), e.contextKeys...)}
	for _, a := range e.attrs {
		if a == nil {
			v.AttrKeys = append(v.AttrKeys, "<nil>")
		} else {
			v.AttrKeys = append(v.AttrKeys, a.Key())
		}
	}
	if e.writer != nil {
		v.HasW = true
		v.Wrapped = map[string][]bool{}
		v.Normal, v.Wrapped["normal"] = verifUnwrap(e.writer.Normal)
		v.Error, v.Wrapped["error"] = verifUnwrap(e.writer.Error)
		v.Leveled = map[Level][]any{}
		for k, ws := range e.writer.leveled {
			v.Leveled[k], _ = verifUnwrap(ws)
		}
	}
	return v
}

// VerifChildren returns the direct children registered in the name index.
func VerifChildren(e *Entry) map[string]*Entry {
	m := map[string]*Entry{}
	for k, v := range e.items {
		m[k] = v
	}
	return m
}

// VerifRegistryDump renders the seven level tables canonically (for "unchanged" comparisons).
func VerifRegistryDump() string {
	var sb strings.Builder
	fmt.Fprintf(&sb, "all=%v\n", allLevels)
	dumpMap := func(name string, keys []string, get func(string) string) {
		sort.Strings(keys)
		fmt.Fprintf(&sb, "%s:", name)
		for _, k := range keys {
			fmt.Fprintf(&sb, " %s=%s", k, get(k))
		}
		sb.WriteByte('\n')
	}
	{
		var ks []string
		m := map[string]string{}
		for k, v := range levelToString {
			s := fmt.Sprint(int(k))
			ks = append(ks, s)
			m[s] = fmt.Sprintf("%q", v)
		}
		dumpMap("l2s", ks, func(k string) string { return m[k] })
	}
	{
		var ks []string
		m := map[string]string{}
		for k, v := range stringToLevel {
			s := fmt.Sprintf("%q", k)
			ks = append(ks, s)
			m[s] = fmt.Sprint(int(v))
		}
		dumpMap("s2l", ks, func(k string) string { return m[k] })
	}
	for n := 0; n < MaxLengthShortTag; n++ {
		var ks []string
		m := map[string]string{}
		for k, v := range shortTagMap[n] {
			s := fmt.Sprint(int(k))
			ks = append(ks, s)
			m[s] = fmt.Sprintf("%q", v)
		}
		dumpMap(fmt.Sprintf("tags%d", n), ks, func(k string) string { return m[k] })
	}
	{
		var ks []string
		m := map[string]string{}
		for k, v := range mLevelIsEnabledAs {
			s := fmt.Sprint(int(k))
			ks = append(ks, s)
			m[s] = fmt.Sprint(int(v))
		}
		dumpMap("as", ks, func(k string) string { return m[k] })
	}
	{
		var ks []string
		m := map[string]string{}
		for k, v := range mLevelUseErrorDevice {
			s := fmt.Sprint(int(k))
			ks = append(ks, s)
			m[s] = fmt.Sprint(v)
		}
		dumpMap("errdev", ks, func(k string) string { return m[k] })
	}
	{
		var ks []string
		m := map[string]string{}
		for k, v := range mLevelColors {
			s := fmt.Sprint(int(k))
			ks = append(ks, s)
			m[s] = fmt.Sprint(v)
		}
		dumpMap("colors", ks, func(k string) string { return m[k] })
	}
	return sb.String()
}

// VerifAttrsOf returns the logger's own attribute slice itself (not a copy): C08
// snapshots it before and after a log call to see whether the call wrote to it.
func VerifAttrsOf(e *Entry) Attrs { return e.attrs }

// VerifWidths / VerifSetWidths: the two process-wide width settings (no getter in the public API)
func VerifWidths() (tagw, minw int) { return levelOutputWidth, minimalMessageWidth }
func VerifSetWidths(tagw, minw int) { levelOutputWidth, minimalMessageWidth = tagw, minw }
