//go:build verif

// C15 hooks, added to package slog by the overlay (never committed to the
// repository): the unexported conversion functions of the log/slog adapter.
package slog

import logslog "log/slog"

// VerifConvertAttr is convertAttrToField: one log/slog attribute -> one logg attribute.
func VerifConvertAttr(a logslog.Attr) Attr { return convertAttrToField(a) }

// VerifConvertLogSlogLevel is the level conversion of the handler path (Handle).
func VerifConvertLogSlogLevel(l logslog.Level) Level { return convertLogSlogLevel(l) }

// VerifLogSlogLevel2Level is the level conversion of Entry.Log.
func VerifLogSlogLevel2Level(l logslog.Level) Level { return logsloglevel2Level(l) }

// VerifConvertLevelToLogSlog is the reverse conversion (Level -> log/slog level).
func VerifConvertLevelToLogSlog(l Level) logslog.Level { return convertLevelToLogSlog(l) }
