//go:build verif

// C09 hooks, added to package slog by the overlay (never committed to the
// repository): direct access to the pooled formatting contexts.  The field
// access is by reflection, so a field added to PrintCtx later is dumped and
// poisoned too, without this file knowing its name.
package slog

import (
	"fmt"
	"io"
	"reflect"
	"sync"
	"sync/atomic"
	"time"
	"unsafe"
)

// VerifPoolGet / VerifPoolPut: sync.Pool access as Entry.print does it.
func VerifPoolGet() *PrintCtx   { return poolPrintCtx.Get().(*PrintCtx) }
func VerifPoolPut(pc *PrintCtx) { poolPrintCtx.Put(pc) }

// VerifPoolsFresh replaces both pools by empty ones with the same New functions:
// the next Get returns what a new process would get.
func VerifPoolsFresh() {
	poolPrintCtx = sync.Pool{New: poolPrintCtx.New}
	poolAttrs = sync.Pool{New: poolAttrs.New}
	atomic.StoreInt32(&fixedSize, verifFixedSize0) // the warm-up size of the attribute slices, as at process start
}

var verifFixedSize0 = atomic.LoadInt32(&fixedSize)

// VerifPoolAttrsPeek returns length and capacity of the slice the next logContext will get.
func VerifPoolAttrsPeek() (int, int) {
	a := poolAttrs.Get().(Attrs)
	n, c := len(a), cap(a)
	poolAttrs.Put(a)
	return n, c
}

// VerifPCSet is PrintCtx.set.
func VerifPCSet(pc *PrintCtx, e *Entry, lvl Level, ts time.Time, frame uintptr, msg string, kvps Attrs) {
	pc.set(e, lvl, ts, frame, msg, kvps)
}

func verifPCFieldByName(pc *PrintCtx, name string) (int, reflect.Value, bool) {
	t := reflect.TypeOf(PrintCtx{})
	for i := 0; i < t.NumField(); i++ {
		if t.Field(i).Name == name {
			_, w := verifPCField(pc, i)
			return i, w, true
		}
	}
	return -1, reflect.Value{}, false
}

func verifPCField(pc *PrintCtx, i int) (string, reflect.Value) {
	v := reflect.ValueOf(pc).Elem()
	f := v.Field(i)
	return v.Type().Field(i).Name, reflect.NewAt(f.Type(), unsafe.Pointer(f.UnsafeAddr())).Elem()
}

// VerifPCFields lists the fields of the struct in declaration order.
func VerifPCFields() []string {
	t := reflect.TypeOf(PrintCtx{})
	var out []string
	for i := 0; i < t.NumField(); i++ {
		out = append(out, t.Field(i).Name)
	}
	return out
}

// VerifPCDump renders every field.
func VerifPCDump(pc *PrintCtx) map[string]string {
	out := map[string]string{}
	n := reflect.TypeOf(PrintCtx{}).NumField()
	for i := 0; i < n; i++ {
		name, w := verifPCField(pc, i)
		switch name {
		case "kvps":
			as, isAttrs := w.Interface().(Attrs)
			if !isAttrs {
				out[name] = fmt.Sprintf("%#v", w.Interface())
				break
			}
			s := ""
			for _, a := range as {
				if a == nil {
					s += "<nil>;"
				} else {
					s += fmt.Sprintf("%s=%v;", a.Key(), a.Value())
				}
			}
			out[name] = fmt.Sprintf("len=%d %s", len(as), s)
		case "buf":
			out[name] = fmt.Sprintf("%q", w.Interface())
		default:
			out[name] = fmt.Sprintf("%#v", w.Interface())
		}
	}
	return out
}

type verifHostileStringer struct{ w io.Writer }

func (h *verifHostileStringer) SetWriter(w io.Writer) { h.w = w }
func (h *verifHostileStringer) WriteValue(value any)  {}

var verifHostile = &verifHostileStringer{}

// VerifPCPoisonable tells whether the harness may put a hostile value into the field.
// dedupeAttrs is the one exception: it is true from newPrintCtx and no statement of the
// package ever assigns it, so a pooled context cannot hold anything else.
func VerifPCPoisonable(field string) bool { return field != "dedupeAttrs" }

func verifPoisonGeneric(w reflect.Value) bool {
	switch w.Kind() {
	case reflect.Bool:
		w.SetBool(!w.Bool())
	case reflect.Int, reflect.Int8, reflect.Int16, reflect.Int32, reflect.Int64:
		w.SetInt(3)
	case reflect.Uint, reflect.Uint8, reflect.Uint16, reflect.Uint32, reflect.Uint64, reflect.Uintptr:
		w.SetUint(3)
	case reflect.Float32, reflect.Float64:
		w.SetFloat(3.5)
	case reflect.String:
		w.SetString("zz")
	case reflect.Slice:
		if w.Type().Elem().Kind() == reflect.Uint8 {
			w.SetBytes(append(make([]byte, 0, 64), "junk"...))
			return true
		}
		if w.Len() > 0 {
			return false
		}
		w.Set(reflect.MakeSlice(w.Type(), 2, 4)) // two zero elements
	case reflect.Struct:
		ok := false
		for i := 0; i < w.NumField(); i++ {
			f := w.Field(i)
			if verifPoisonGeneric(reflect.NewAt(f.Type(), unsafe.Pointer(f.UnsafeAddr())).Elem()) {
				ok = true
			}
		}
		return ok
	default:
		return false // interfaces, pointers, maps, funcs, channels: nothing generic to put
	}
	return true
}

// VerifPCPoison puts a hostile value into one field ("" = into every poisonable field)
// and returns the names of the fields it changed.
func VerifPCPoison(pc *PrintCtx, field string) []string {
	var done []string
	n := reflect.TypeOf(PrintCtx{}).NumField()
	for i := 0; i < n; i++ {
		name, w := verifPCField(pc, i)
		if (field != "" && field != name) || !VerifPCPoisonable(name) {
			continue
		}
		ok := true
		// (every field is written through reflection, never by name: a field that is renamed, retyped or removed in
		// the source must not stop this file from compiling - it is then poisoned by kind, see the default branch)
		set := func(v any) {
			defer func() {
				if recover() != nil {
					ok = verifPoisonGeneric(w)
				}
			}()
			w.Set(reflect.ValueOf(v).Convert(w.Type()))
		}
		junk := func() {
			if _, bw, found := verifPCFieldByName(pc, "buf"); found {
				func() {
					defer func() { _ = recover() }()
					bw.Set(reflect.ValueOf([]byte("JUNK-FROM-AN-EARLIER-RECORD\n")).Convert(bw.Type()))
				}()
			}
		}
		switch name {
		case "buf":
			junk()
		case "off":
			set(3)
			if _, bw, found := verifPCFieldByName(pc, "buf"); found && bw.Kind() == reflect.Slice && bw.Len() < 3 { // a read offset is never beyond the contents
				junk()
			}
		case "lastRead":
			set(opReadRune3)
		case "noQuoted", "jsonMode", "noColor":
			if w.Kind() == reflect.Bool {
				w.SetBool(!w.Bool())
			} else {
				ok = verifPoisonGeneric(w)
			}
		case "layout":
			set("Mon Jan _2 2006")
		case "utcTime":
			set(1)
		case "lvl":
			set(ErrorLevel)
		case "msg":
			set("old message\nsecond line\n")
		case "firstLine":
			set("x")
		case "restLines":
			set("junk\nlines")
		case "eol":
			set(true)
		case "kvps":
			set(Attrs{NewAttr("poison", 1), NewAttr("zz", "old")})
		case "clr":
			set(31)
		case "bg":
			set(44)
		case "now":
			set(time.Unix(1, 0))
		case "stackFrame":
			set(reflect.ValueOf(VerifPoolGet).Pointer() + 1)
		case "cachedSource":
			set(Source{Function: "junk/pkg.junkFn", File: "/junk/file.go", Line: 99})
		case "prefix":
			set("zz")
		case "inGroupedMode":
			set(true)
		case "skipFirstSep":
			set(true)
		case "valueStringer":
			set(verifHostile)
		default:
			ok = verifPoisonGeneric(w) // a field this file does not know: by kind
		}
		if ok {
			done = append(done, name)
		}
	}
	return done
}
