package main

// Logger-tree histories shared by C10 and C11: generator, executor on the real
// loggers, Gallina printer (Model/Tree.v constructors) and observation.

import (
	"fmt"
	"io"
	"io/fs"
	"os"
	"sort"
	"strings"
	"time"

	"github.com/hedzr/is"
	"github.com/hedzr/logg/slog"
)

// ---- recording writers (pool ids 1..6) ----
type event struct {
	W       int    `json:"w"`
	Kind    string `json:"kind"` // "set" | "write"
	Lvl     int    `json:"lvl,omitempty"`
	Payload []byte `json:"payload,omitempty"`
}

var events []event
var failPlan func(w int, attempt int) bool // C13: nil = never fail
var attempts int
var faultFlavour = -1 // C13: -1 = the kind of failure rotates with attempt and writer; 0..3 = always that kind

// sliceErr: an error whose dynamic type cannot be compared with == (as go/scanner.ErrorList)
type sliceErr []string

func (e sliceErr) Error() string { return strings.Join(e, " ") }

type recW struct{ id int }

// writeHook, when set, runs at the start of every Write of a recording writer, before the payload is
// looked at (C02: a destination that itself logs through another logger while it is being written to)
var writeHook func()

func (w *recW) Write(p []byte) (int, error) {
	if writeHook != nil {
		h := writeHook
		writeHook = nil // not re-entrant
		h()
		writeHook = h
	}
	attempts++
	events = append(events, event{W: w.id, Kind: "write", Payload: append([]byte(nil), p...)})
	if failPlan != nil && failPlan(w.id, attempts-1) {
		// the ways a Write fails: nothing written; part written and io.ErrShortWrite; part written and another error;
		// an error of an uncomparable dynamic type (a slice).  faultFlavour >= 0: every failure of the run is of that kind
		kind := (attempts - 1 + w.id) % 3
		if faultFlavour >= 0 {
			kind = faultFlavour
		}
		switch kind {
		case 1:
			return len(p) / 2, io.ErrShortWrite
		case 2:
			return len(p) / 2, fmt.Errorf("injected failure on writer %d after %d bytes", w.id, len(p)/2)
		case 3:
			return 0, sliceErr{fmt.Sprintf("injected failure on writer %d", w.id), "of an uncomparable error type"}
		case 4: // what a file that its owner has closed (log rotation) reports; it may be reopened any time
			return 0, &fs.PathError{Op: "write", Path: fmt.Sprintf("/var/log/writer%d.log", w.id), Err: os.ErrClosed}
		}
		return 0, fmt.Errorf("injected failure on writer %d", w.id)
	}
	if successSkew != nil { // a destination that takes the whole record and reports another count, with no error
		return len(p) + successSkew(w.id, len(p)), nil
	}
	return len(p), nil
}

// successSkew, when set: what a successful Write of writer w adds to the count it reports (a wrapping writer that returns
// its inner count, a line sink that does not count the line feed).  The record was taken whole; logg has no reason to
// write again, to stop, or to report anything
var successSkew func(w int, n int) int

type recLW struct{ recW }

func (w *recLW) Close() error { return nil }

type recLS struct{ recW }

func (w *recLS) SetLevel(l slog.Level) {
	events = append(events, event{W: w.id, Kind: "set", Lvl: int(l)})
}

type recLWLS struct{ recW }

func (w *recLWLS) Close() error { return nil }
func (w *recLWLS) SetLevel(l slog.Level) {
	events = append(events, event{W: w.id, Kind: "set", Lvl: int(l)})
}

var pool = map[int]io.Writer{
	1: &recW{1}, 2: &recW{2}, 3: &recLW{recW{3}}, 4: &recLW{recW{4}}, 5: &recLS{recW{5}}, 6: &recLWLS{recW{6}},
	7: slog.NewLogWriter(&recW{7}), // a handle made by the library's own wrapper: a LogWriter, added and removed as such
}

const poolPrelude = "Definition is_lw (w : Z) : bool := (w =? 3) || (w =? 4) || (w =? 6) || (w =? 7).\nDefinition is_ls (w : Z) : bool := (w =? 5) || (w =? 6)."

func widOf(w any) int {
	switch z := w.(type) {
	case *recW:
		return z.id
	case *recLW:
		return z.id
	case *recLS:
		return z.id
	case *recLWLS:
		return z.id
	case *os.File:
		if z == os.Stdout {
			return -1
		}
		if z == os.Stderr {
			return -2
		}
	}
	return -99
}

// ---- ops ----
type WOp struct {
	Kind string `json:"kind"` // SetW AddW RemW SetE AddE RemE AddL RemL ResetL ResetLs ResetWs
	L    int    `json:"l,omitempty"`
	W    int    `json:"w,omitempty"`
}

func (o WOp) Coq() string {
	switch o.Kind {
	case "AddL", "RemL":
		return fmt.Sprintf("(%s %s %s)", o.Kind, cZ(int64(o.L)), cZ(int64(o.W)))
	case "ResetL":
		return fmt.Sprintf("(ResetL %s)", cZ(int64(o.L)))
	case "ResetLs", "ResetWs":
		return o.Kind
	}
	return fmt.Sprintf("(%s %s)", o.Kind, cZ(int64(o.W)))
}

type SetOp struct {
	Kind  string  `json:"kind"` // SLevel SJSON SColor SUTC STimeFmt SAttrs SCtxKeys SWriter
	L     int     `json:"l,omitempty"`
	B     []bool  `json:"b,omitempty"`
	Zs    []int64 `json:"zs,omitempty"`
	W     *WOp    `json:"wop,omitempty"`
	Style int     `json:"style,omitempty"` // which of the equivalent API forms is used
}

func (s SetOp) Coq() string {
	switch s.Kind {
	case "SLevel":
		return fmt.Sprintf("(SLevel %s)", cZ(int64(s.L)))
	case "SJSON", "SColor", "SUTC":
		return fmt.Sprintf("(%s %s)", s.Kind, cBools(s.B))
	case "STimeFmt", "SAttrs", "SCtxKeys":
		return fmt.Sprintf("(%s %s)", s.Kind, cZs(s.Zs))
	case "SWriter":
		return fmt.Sprintf("(SWriter %s)", s.W.Coq())
	}
	panic("bad setop " + s.Kind)
}

type Op struct {
	Kind string  `json:"kind"` // ONewPkg ONew OWith OWithSkip OSet OSetSkip OResetCtxKeys OPkgSetLevel
	P    int     `json:"p"`
	Name *int    `json:"name,omitempty"`
	Opts []SetOp `json:"opts,omitempty"`
	S    *SetOp  `json:"s,omitempty"`
	N    int     `json:"n,omitempty"`
}

func (o Op) Coq() string {
	name := "None"
	if o.Name != nil && *o.Name != 0 { // name code 0 = the explicit empty string New(""): an anonymous child, as without a name
		name = cSome(cZ(int64(*o.Name)))
	}
	opts := func() string {
		var it []string
		for _, s := range o.Opts {
			it = append(it, s.Coq())
		}
		return cList(it)
	}
	switch o.Kind {
	case "ONewPkg":
		return fmt.Sprintf("ONewPkg %s %s", name, opts())
	case "ONew":
		return fmt.Sprintf("ONew %s %s %s", cNat(o.P), name, opts())
	case "OWith":
		return fmt.Sprintf("OWith %s %s", cNat(o.P), o.S.Coq())
	case "OWithSkip":
		return fmt.Sprintf("OWithSkip %s %s", cNat(o.P), cZ(int64(o.N)))
	case "OSet":
		return fmt.Sprintf("OSet %s %s", cNat(o.P), o.S.Coq())
	case "OSetSkip":
		return fmt.Sprintf("OSetSkip %s %s", cNat(o.P), cZ(int64(o.N)))
	case "OResetCtxKeys":
		return fmt.Sprintf("OResetCtxKeys %s", cNat(o.P))
	case "OPkgSetLevel":
		return fmt.Sprintf("OPkgSetLevel %s", cZ(int64(o.N)))
	}
	panic("bad op " + o.Kind)
}

func opsCoq(ops []Op) string {
	var it []string
	for _, o := range ops {
		it = append(it, o.Coq())
	}
	return cList(it)
}

// ---- layouts, attrs, context keys ----
var layouts = []string{"", time.RFC3339Nano, "15:04:05", "2006-01-02 15:04:05.000", time.Kitchen, time.RFC1123Z}

func layoutID(s string) int {
	for i, l := range layouts {
		if l == s {
			return i
		}
	}
	return -1
}

type ctxKeyT int

func (k ctxKeyT) String() string { return fmt.Sprintf("sk%d", int(k)) }

func ctxKey(id int64) any {
	if id%2 == 0 {
		return fmt.Sprintf("k%d", id)
	}
	return ctxKeyT(id)
}
func ctxKeyID(k any) int64 {
	switch z := k.(type) {
	case string:
		var n int64
		fmt.Sscanf(z, "k%d", &n)
		return n
	case ctxKeyT:
		return int64(z)
	}
	return -1
}
func attrOf(id int64) slog.Attr { return slog.Int(fmt.Sprintf("a%d", id), int(id)) }
func attrID(key string) int64 {
	var n int64 = -1
	fmt.Sscanf(key, "a%d", &n)
	return n
}

// ---- executor ----
type TreeExec struct {
	loggers []*slog.Entry
	idx     map[*slog.Entry]int
	snap    *slog.VerifRegistry
}

// resetProcess brings the package state back to what a fresh process has.
func resetProcess(snap *slog.VerifRegistry) {
	slog.VerifRestore(snap)
	is.SetDebugMode(false)
	is.SetTraceMode(false)
	slog.VerifResetDefault()
	events = nil
	attempts = 0
	failPlan = nil
	faultFlavour = -1
	writeHook = nil
	sharedAttrsCache = map[string]slog.Attrs{}
}

func NewTreeExec(snap *slog.VerifRegistry) *TreeExec {
	resetProcess(snap)
	t := &TreeExec{idx: map[*slog.Entry]int{}, snap: snap}
	t.add(slog.VerifEntryOf(slog.Default()))
	return t
}

func (t *TreeExec) add(e *slog.Entry) int {
	if i, ok := t.idx[e]; ok {
		return i
	}
	t.loggers = append(t.loggers, e)
	t.idx[e] = len(t.loggers) - 1
	return len(t.loggers) - 1
}

func wopOpt(o WOp) slog.Opt {
	w := pool[o.W]
	switch o.Kind {
	case "SetW":
		return slog.WithWriter(w)
	case "AddW":
		return slog.AddWriter(w)
	case "SetE":
		return slog.WithErrorWriter(w)
	case "AddE":
		return slog.AddErrorWriter(w)
	case "AddL":
		return slog.AddLevelWriter(slog.Level(o.L), w)
	case "RemL":
		return slog.RemoveLevelWriter(slog.Level(o.L), w)
	case "ResetL":
		return slog.ResetLevelWriter(slog.Level(o.L))
	case "ResetLs":
		return slog.ResetLevelWriters()
	case "ResetWs":
		return slog.ResetWriters()
	}
	return nil // RemW / RemE have no Opt form
}

func applyWop(e *slog.Entry, o WOp) {
	w := pool[o.W]
	switch o.Kind {
	case "SetW":
		e.SetWriter(w)
	case "AddW":
		e.AddWriter(w)
	case "RemW":
		e.RemoveWriter(w)
	case "SetE":
		e.SetErrorWriter(w)
	case "AddE":
		e.AddErrorWriter(w)
	case "RemE":
		e.RemoveErrorWriter(w)
	case "AddL":
		e.AddLevelWriter(slog.Level(o.L), w)
	case "RemL":
		e.RemoveLevelWriter(slog.Level(o.L), w)
	case "ResetL":
		e.ResetLevelWriter(slog.Level(o.L))
	case "ResetLs":
		e.ResetLevelWriters()
	case "ResetWs":
		e.ResetWriters()
	}
}

func layoutStrs(zs []int64) []string {
	var out []string
	for _, z := range zs {
		out = append(out, layouts[z])
	}
	return out
}
func attrsOf(zs []int64) []slog.Attr {
	var out []slog.Attr
	for _, z := range zs {
		out = append(out, attrOf(z))
	}
	return out
}

// sharedAttrs hands out THE SAME slog.Attrs value (with spare capacity) every
// time the same id list is asked for: two loggers given one Attrs value must not end up sharing memory.
var sharedAttrsCache = map[string]slog.Attrs{}

func sharedAttrs(zs []int64) slog.Attrs {
	key := fmt.Sprint(zs)
	if v, ok := sharedAttrsCache[key]; ok {
		return v
	}
	v := make(slog.Attrs, 0, len(zs)+4) // spare capacity, as append-built slices usually have
	v = append(v, attrsOf(zs)...)
	sharedAttrsCache[key] = v
	return v
}
func keysOf(zs []int64) []any {
	var out []any
	for _, z := range zs {
		out = append(out, ctxKey(z))
	}
	return out
}

func setOpt(s SetOp) slog.Opt {
	switch s.Kind {
	case "SLevel":
		return slog.WithLevel(slog.Level(s.L))
	case "SJSON":
		return slog.WithJSONMode(s.B...)
	case "SColor":
		return slog.WithColorMode(s.B...)
	case "SUTC":
		return slog.WithUTCMode(s.B...)
	case "STimeFmt":
		return slog.WithTimeFormat(layoutStrs(s.Zs)...)
	case "SAttrs":
		switch s.Style % 3 {
		case 0:
			return slog.WithAttrs(attrsOf(s.Zs)...)
		case 1:
			return slog.WithAttrs1(sharedAttrs(s.Zs))
		default:
			var args []any
			for _, a := range attrsOf(s.Zs) {
				args = append(args, a)
			}
			return slog.With(args...)
		}
	case "SWriter":
		return wopOpt(*s.W)
	}
	return nil
}

func applySet(e *slog.Entry, s SetOp) *slog.Entry {
	switch s.Kind {
	case "SLevel":
		return e.SetLevel(slog.Level(s.L))
	case "SJSON":
		return e.SetJSONMode(s.B...)
	case "SColor":
		return e.SetColorMode(s.B...)
	case "SUTC":
		return e.SetUTCMode(s.B...)
	case "STimeFmt":
		return e.SetTimeFormat(layoutStrs(s.Zs)...)
	case "SAttrs":
		switch s.Style % 3 {
		case 0:
			return e.SetAttrs(attrsOf(s.Zs)...)
		case 1:
			return e.SetAttrs1(sharedAttrs(s.Zs))
		default:
			var args []any
			for _, a := range attrsOf(s.Zs) {
				args = append(args, a)
			}
			return e.Set(args...)
		}
	case "SCtxKeys":
		return e.SetContextKeys(keysOf(s.Zs)...)
	case "SWriter":
		applyWop(e, *s.W)
		return e
	}
	return nil
}

func applyWith(e *slog.Entry, s SetOp) *slog.Entry {
	switch s.Kind {
	case "SLevel":
		return e.WithLevel(slog.Level(s.L))
	case "SJSON":
		return e.WithJSONMode(s.B...)
	case "SColor":
		return e.WithColorMode(s.B...)
	case "SUTC":
		return e.WithUTCMode(s.B...)
	case "STimeFmt":
		return e.WithTimeFormat(layoutStrs(s.Zs)...)
	case "SAttrs":
		switch s.Style % 3 {
		case 0:
			return e.WithAttrs(attrsOf(s.Zs)...)
		case 1:
			return e.WithAttrs1(sharedAttrs(s.Zs))
		default:
			var args []any
			for _, a := range attrsOf(s.Zs) {
				args = append(args, a)
			}
			return e.With(args...)
		}
	case "SCtxKeys":
		return e.WithContextKeys(keysOf(s.Zs)...)
	case "SWriter":
		if s.W.Kind == "SetW" {
			return e.WithWriter(pool[s.W.W])
		}
		return e.WithErrorWriter(pool[s.W.W])
	}
	return nil
}

// treeName: the name of code k.  Names are plain data to the library: some end in a per cent sign or hold what
// looks like a formatting verb (a logger named after a metric: "cpu%", "load %-5")
func treeName(k int) string {
	if k%5 == 4 { // a name that is not empty and holds only blanks (k of them: distinct codes stay distinct names)
		return strings.Repeat(" ", k)
	}
	switch k % 3 {
	case 1:
		return fmt.Sprintf("n%d%%", k)
	case 2:
		return fmt.Sprintf("n%d %%-5", k)
	}
	return fmt.Sprintf("n%d", k)
}

// Exec runs one op and returns the index of the logger it returned (-1: none).
func (t *TreeExec) Exec(o Op) int {
	newArgs := func() []any {
		var args []any
		if o.Name != nil && *o.Name == 0 {
			args = append(args, "")
		} else if o.Name != nil {
			args = append(args, treeName(*o.Name))
		}
		for _, s := range o.Opts {
			args = append(args, setOpt(s))
		}
		return args
	}
	switch o.Kind {
	case "ONewPkg":
		l := slog.New(newArgs()...)
		return t.add(slog.VerifEntryOf(l))
	case "ONew":
		return t.add(t.loggers[o.P].New(newArgs()...))
	case "OWith":
		return t.add(applyWith(t.loggers[o.P], *o.S))
	case "OWithSkip":
		return t.add(t.loggers[o.P].WithSkip(o.N))
	case "OSet":
		return t.add(applySet(t.loggers[o.P], *o.S))
	case "OSetSkip":
		t.loggers[o.P].SetSkip(o.N)
		return o.P
	case "OResetCtxKeys":
		return t.add(t.loggers[o.P].ResetContextKeys())
	case "OPkgSetLevel":
		slog.SetLevel(slog.Level(o.N))
		return 0
	}
	return -1
}

// ---- generator ----
type TreeProfile struct {
	ModeOnly bool // C11: only JSON/colour mode calls
	MaxOps   int
}

func genBools(r *Rng) []bool {
	n := []int{0, 0, 1, 1, 1, 2, 3}[r.Intn(7)]
	var b []bool
	for i := 0; i < n; i++ {
		b = append(b, r.Bool())
	}
	return b
}

func genWop(r *Rng, optForm bool) WOp {
	kinds := []string{"SetW", "AddW", "RemW", "SetE", "AddE", "RemE", "AddL", "RemL", "ResetL", "ResetLs", "ResetWs"}
	for {
		k := kinds[r.Intn(len(kinds))]
		if optForm && (k == "RemW" || k == "RemE") {
			continue
		}
		return WOp{Kind: k, L: []int{2, 3, 4, 5, 9, 11}[r.Intn(6)], W: 1 + r.Intn(7)}
	}
}

func genSet(r *Rng, p TreeProfile, form string) SetOp { // form: "set" | "with" | "opt"
	if p.ModeOnly {
		if r.Bool() {
			return SetOp{Kind: "SJSON", B: genBools(r)}
		}
		return SetOp{Kind: "SColor", B: genBools(r)}
	}
	for {
		switch r.Intn(10) {
		case 0:
			return SetOp{Kind: "SLevel", L: r.Intn(12)}
		case 1:
			return SetOp{Kind: "SJSON", B: genBools(r)}
		case 2:
			return SetOp{Kind: "SColor", B: genBools(r)}
		case 3:
			return SetOp{Kind: "SUTC", B: genBools(r)}
		case 4:
			n := r.Intn(3)
			var zs []int64
			for i := 0; i < n; i++ {
				zs = append(zs, int64(r.Intn(len(layouts))))
			}
			return SetOp{Kind: "STimeFmt", Zs: zs}
		case 5, 6:
			n := r.Intn(4)
			var zs []int64
			for i := 0; i < n; i++ {
				zs = append(zs, int64(1+r.Intn(9)))
			}
			return SetOp{Kind: "SAttrs", Zs: zs, Style: r.Intn(3)}
		case 7:
			if form == "opt" {
				continue
			}
			n := 1 + r.Intn(2)
			var zs []int64
			for i := 0; i < n; i++ {
				zs = append(zs, int64(1+r.Intn(6)))
			}
			return SetOp{Kind: "SCtxKeys", Zs: zs}
		default:
			w := genWop(r, form == "opt")
			if form == "with" && w.Kind != "SetW" && w.Kind != "SetE" {
				continue
			}
			return SetOp{Kind: "SWriter", W: &w}
		}
	}
}

func genTreeOps(r *Rng, p TreeProfile) []Op {
	n := 1 + r.Intn(p.MaxOps)
	nlog := 1
	var ops []Op
	for i := 0; i < n; i++ {
		tgt := r.Intn(nlog)
		if nlog > 1 && r.Chance(40) {
			tgt = nlog - 1 - r.Intn(min(3, nlog)) // favour recent loggers
		}
		var o Op
		switch c := r.Intn(20); {
		case c < 2:
			o = Op{Kind: "ONewPkg"}
			if r.Bool() {
				k := 1 + r.Intn(4)
				o.Name = &k
			}
			for j := r.Intn(3); j > 0; j-- {
				o.Opts = append(o.Opts, genSet(r, p, "opt"))
			}
			nlog++
		case c < 6:
			o = Op{Kind: "ONew", P: tgt}
			if r.Chance(75) {
				k := 1 + r.Intn(4)
				if r.Chance(15) {
					k = 0 // New("", ...)
				}
				o.Name = &k
			}
			for j := r.Intn(3); j > 0; j-- {
				o.Opts = append(o.Opts, genSet(r, p, "opt"))
			}
			nlog++ // upper bound; an existing child may be returned
		case c < 10:
			s := genSet(r, p, "with")
			o = Op{Kind: "OWith", P: tgt, S: &s}
			nlog++
		case c < 12 && !p.ModeOnly:
			o = Op{Kind: "OWithSkip", P: tgt, N: r.Intn(3)}
			nlog++
		case c < 13 && !p.ModeOnly:
			o = Op{Kind: "OSetSkip", P: tgt, N: r.Intn(5)}
		case c < 14 && !p.ModeOnly:
			o = Op{Kind: "OResetCtxKeys", P: tgt}
		case c < 15 && !p.ModeOnly:
			o = Op{Kind: "OPkgSetLevel", N: r.Intn(12)}
		default:
			s := genSet(r, p, "set")
			o = Op{Kind: "OSet", P: tgt, S: &s}
		}
		ops = append(ops, o)
	}
	return ops
}

// fixTargets runs the ops on the real tree while clamping targets to existing
// loggers (the generator only knows an upper bound of the logger count).
func (t *TreeExec) RunOps(ops []Op) (rets []int) {
	for i := range ops {
		if ops[i].P >= len(t.loggers) {
			ops[i].P = ops[i].P % len(t.loggers)
		}
		rets = append(rets, t.Exec(ops[i]))
	}
	return
}

// ---- observation ----
type LoggerObs struct {
	Name    string  `json:"name"`
	Parent  int     `json:"parent"`
	Root    int     `json:"root"`
	JSON    bool    `json:"json"`
	Color   bool    `json:"color"`
	Level   int     `json:"level"`
	Skip    int     `json:"skip"`
	Layout  int     `json:"layout"`
	UTC     int     `json:"utc"`
	Attrs   []int64 `json:"attrs"`
	CtxKeys []int64 `json:"ctxkeys"`
	HasW    bool    `json:"hasw"`
	Normal  []int   `json:"normal"`
	Error   []int   `json:"error"`
	Leveled [][]int `json:"leveled"` // [lvl, w1, w2 ...] sorted by lvl, empty lists dropped
	Each    [][]int `json:"each"`    // sorted (index, depth)
}

func widsOf(ws []any) []int {
	out := []int{}
	for _, w := range ws {
		out = append(out, widOf(w))
	}
	return out
}

func (t *TreeExec) Observe(i int) LoggerObs {
	e := t.loggers[i]
	v := slog.VerifViewOf(e)
	o := LoggerObs{Name: e.Name(), Parent: -1, JSON: e.JSONMode(), Color: e.ColorMode(), Level: int(e.Level()),
		Skip: e.Skip(), Layout: layoutID(v.Layout), UTC: v.UTC, HasW: v.HasW}
	if p := e.Parent(); p != nil {
		o.Parent = t.idx[p]
	}
	o.Root = t.idx[e.Root()]
	o.Attrs = []int64{}
	for _, k := range v.AttrKeys {
		o.Attrs = append(o.Attrs, attrID(k))
	}
	o.CtxKeys = []int64{}
	for _, k := range v.CtxKeys {
		o.CtxKeys = append(o.CtxKeys, ctxKeyID(k))
	}
	if v.HasW {
		o.Normal, o.Error = widsOf(v.Normal), widsOf(v.Error)
		var lv []int
		for k, ws := range v.Leveled {
			if len(ws) > 0 {
				lv = append(lv, int(k))
			}
		}
		sort.Ints(lv)
		for _, k := range lv {
			o.Leveled = append(o.Leveled, append([]int{k}, widsOf(v.Leveled[slog.Level(k)])...))
		}
	}
	e.Each(func(l *slog.Entry, depth int) { o.Each = append(o.Each, []int{t.idx[l], depth}) })
	sort.Slice(o.Each, func(a, b int) bool { return o.Each[a][0] < o.Each[b][0] })
	return o
}

func cInts(xs []int) string {
	var it []string
	for _, x := range xs {
		it = append(it, cZ(int64(x)))
	}
	return cList(it)
}

// classify the first bytes of an emitted record
func shapeOf(b []byte) string {
	s := string(b)
	oneLine := strings.HasSuffix(s, "\n") && strings.Count(s, "\n") == 1
	switch {
	case strings.HasPrefix(s, "{"):
		if oneLine && strings.HasSuffix(s, "}\n") && !strings.Contains(s, "\x1b") {
			return "ShJSON"
		}
		return "?" // starts like a JSON record but is not one object on one line without colours
	case strings.HasPrefix(s, "time="):
		if oneLine && !strings.Contains(s, "\x1b") {
			return "ShLogfmt"
		}
		return "?"
	case strings.Contains(s, "\x1b["):
		return "ShColor"
	}
	return "?"
}
