package main

// C08 - concurrent logging: race-free, no torn or lost record (partial).
//
// (i)   FRAME TEST (deterministic, public API): every shared input of a log call -
//       the logger's own attribute slice, []Attr / Attrs slices passed as arguments,
//       the items of group attributes and Attrs values at any depth - is snapshot
//       before and after SINGLE calls in the three formats; any change is a write to
//       memory the call does not own.  Every call is also a Coq case: Model/Conc.v
//       predicts what the call leaves there (variant Conc.fix_copy_nested).
// (ii)  STRESS: rounds of G goroutines x N calls over 1..8 loggers (parent/child,
//       mixed formats, several destinations), per-call attributes, logger attributes,
//       shared attribute values and groups, multi-line messages, error values.  The
//       destinations are mutex-protected recording writers.  Oracle: every payload is
//       a complete record (shape per format), carries the markers of exactly one call,
//       equals (time masked) what an identically built twin logger tree produced for
//       that call SEQUENTIALLY, and per destination the multiset of payloads equals
//       the twin's; admitted calls (Enabled) deliver at least once.
// (iii) RACE DETECTOR: the same rounds in run/bin/harness-race (go build -race) as a
//       child process; every "WARNING: DATA RACE" report is classified by the logg
//       frames of its two stacks.

import (
	"bytes"
	"context"
	"encoding/json"
	"fmt"
	"os"
	"os/exec"
	"path/filepath"
	"regexp"
	"sort"
	"strings"
	"sync"
	"time"

	"github.com/hedzr/logg/slog"
)

func init() {
	drivers["C08"] = runC08
	replayers["C08"] = replayC08
	childModes["C08-race-child"] = c08RaceChild
}

// ---- mutex-protected recording destination ----
type c08W struct {
	id   int
	mu   sync.Mutex
	recs [][]byte
}

func (w *c08W) Write(p []byte) (int, error) {
	cp := append([]byte(nil), p...)
	w.mu.Lock()
	w.recs = append(w.recs, cp)
	w.mu.Unlock()
	if w.id > 0 && w.id%3 == 2 { // every third destination of a stress run takes the record whole and reports one byte less (a line sink that does not count the line feed)
		return len(p) - 1, nil
	}
	return len(p), nil
}

// ---- building real attributes from their description ----
func c08Anys(as []slog.Attr) []any {
	var out []any
	for _, a := range as {
		if a != nil {
			out = append(out, a)
		}
	}
	return out
}

// group constructors: 0 NewGroupedAttr(key, items...) (the caller's slice becomes the group's),
// 1 Group(key, args...), 2 NewAttr(key, Attrs(items)), 3 NewAttr(key, <group attr>), 4 NewGroupedAttrEasy
func c08Build(as []GAttr) []slog.Attr {
	out := make([]slog.Attr, 0, len(as))
	for _, a := range as {
		if a.Nil {
			out = append(out, nil)
			continue
		}
		if a.Val.Kind == "group" {
			items := c08Build(a.Val.Items)
			switch a.Val.Ctor % 5 {
			case 0:
				out = append(out, slog.NewGroupedAttr(a.Key, items...))
			case 1:
				out = append(out, slog.Group(a.Key, c08Anys(items)...))
			case 2:
				out = append(out, slog.NewAttr(a.Key, slog.Attrs(items)))
			case 3:
				out = append(out, slog.NewAttr(a.Key, slog.NewGroupedAttr(a.Key+"i", items...)))
			default:
				out = append(out, slog.NewGroupedAttrEasy(a.Key, c08Anys(items)...))
			}
			continue
		}
		out = append(out, slog.NewAttr(a.Key, a.Val.Go()))
	}
	return out
}

var c08Keys = []string{"a", "b", "c", "d", "k1", "m", "z", "user", "id"}
var c08LeafKinds = []string{"string", "int", "bool", "error", "float64", "duration", "strs", "nil", "uint8", "time", "ints"}

// small key alphabet: duplicates at every level are common
func c08GenAttrs(r *Rng, depth, maxDepth, maxN int, nils bool, groupPct int) []GAttr {
	n := r.Intn(maxN + 1)
	var out []GAttr
	for i := 0; i < n; i++ {
		if nils && r.Chance(6) {
			out = append(out, GAttr{Nil: true})
			continue
		}
		a := GAttr{Key: c08Keys[r.Intn(len(c08Keys))]}
		if depth < maxDepth && r.Chance(groupPct) {
			a.Val = GVal{Kind: "group", Items: c08GenAttrs(r, depth+1, maxDepth, maxN+1, true, groupPct), Ctor: r.Intn(5)}
		} else {
			a.Val = genLeaf(r, EncProfile{TextClass: 0}, c08LeafKinds[r.Intn(len(c08LeafKinds))])
		}
		out = append(out, a)
	}
	return out
}

// ---- snapshots of attribute values ----
type c08Node struct {
	Nil   bool      `json:"nil,omitempty"`
	Key   string    `json:"key,omitempty"`
	Leaf  string    `json:"leaf,omitempty"`
	Group bool      `json:"group,omitempty"`
	Items []c08Node `json:"items,omitempty"`
}

func c08SnapAttr(a slog.Attr) c08Node {
	if a == nil {
		return c08Node{Nil: true}
	}
	switch z := a.Value().(type) {
	case slog.Attrs:
		return c08Node{Key: a.Key(), Group: true, Items: c08Snap(z)}
	case []slog.Attr:
		return c08Node{Key: a.Key(), Group: true, Items: c08Snap(z)}
	case slog.Attr:
		in := c08SnapAttr(z)
		if in.Group {
			return c08Node{Key: a.Key(), Group: true, Items: in.Items}
		}
		return c08Node{Key: a.Key(), Leaf: "attr|" + in.Key + "=" + in.Leaf}
	default:
		return c08Node{Key: a.Key(), Leaf: fmt.Sprintf("%T|%v", z, z)}
	}
}

func c08Snap(as []slog.Attr) []c08Node {
	out := make([]c08Node, 0, len(as))
	for _, a := range as {
		out = append(out, c08SnapAttr(a))
	}
	return out
}

func (n c08Node) Coq() string {
	if n.Nil {
		return "ANil"
	}
	if n.Group {
		return fmt.Sprintf("A %s (VGroup %s)", cStr(n.Key), c08NodesCoq(n.Items))
	}
	return fmt.Sprintf("A %s (VStr %s)", cStr(n.Key), cStr(n.Leaf))
}
func c08NodesCoq(ns []c08Node) string {
	it := make([]string, 0, len(ns))
	for _, n := range ns {
		it = append(it, n.Coq())
	}
	return cList(it)
}

func (n c08Node) text() string {
	if n.Nil {
		return "<nil>"
	}
	if n.Group {
		return n.Key + "={" + c08NodesText(n.Items) + "}"
	}
	return n.Key + "=" + n.Leaf
}
func c08NodesText(ns []c08Node) string {
	it := make([]string, 0, len(ns))
	for _, n := range ns {
		it = append(it, n.text())
	}
	return strings.Join(it, " ")
}

// first difference between two snapshots: depth 0 = the top-level list itself
func c08Diff(b, a []c08Node, depth int) (bool, int, string) {
	if len(b) != len(a) {
		return true, depth, fmt.Sprintf("length %d -> %d: [%s] -> [%s]", len(b), len(a), c08NodesText(b), c08NodesText(a))
	}
	for i := range b {
		x, y := b[i], a[i]
		if x.Nil != y.Nil || x.Key != y.Key || x.Leaf != y.Leaf || x.Group != y.Group {
			return true, depth, fmt.Sprintf("element %d: [%s] -> [%s]", i, c08NodesText(b), c08NodesText(a))
		}
	}
	for i := range b {
		if b[i].Group {
			if d, dep, s := c08Diff(b[i].Items, a[i].Items, depth+1); d {
				return true, dep, "items of " + b[i].Key + ": " + s
			}
		}
	}
	return false, 0, ""
}

func c08HasSortableGroup(ns []c08Node) bool {
	for _, n := range ns {
		if n.Group && (len(n.Items) >= 2 || c08HasSortableGroup(n.Items)) {
			return true
		}
	}
	return false
}

// ---- one log call through the public API ----
var c08EPs = []string{"Info", "Warn", "Error", "Debug", "Trace", "Print", "OK", "Success", "Fail", "InfoContext", "WarnContext", "ErrorContext"}

// the Context entry points hand over a context that carries a value of the call under the key the round's loggers have
// registered (SetContextKeys): the record of a call shows the value of ITS context
const c08CtxKey = "c08ctx"

func c08Ctx(msg string) context.Context {
	v := "cv-none"
	if m := c08MsgRx.FindStringSubmatch(msg); m != nil {
		v = "cv" + m[1]
	}
	return context.WithValue(context.Background(), c08CtxKey, v) //nolint:staticcheck // a string key is what SetContextKeys takes
}

// the frame test also goes through the two entry points that hand NO attribute list to the formatter: the
// std-log bridge and WriteThru with nil attributes (their records carry the logger's attributes only)
var c08FrameEPs = append(append([]string{}, c08EPs...), "Bridge", "ThruNil")

func c08Level(ep string) slog.Level {
	switch ep {
	case "Warn", "WarnContext":
		return slog.WarnLevel
	case "Error", "ErrorContext":
		return slog.ErrorLevel
	case "Debug":
		return slog.DebugLevel
	case "Trace":
		return slog.TraceLevel
	case "Print":
		return slog.AlwaysLevel
	case "OK":
		return slog.OKLevel
	case "Success":
		return slog.SuccessLevel
	case "Fail":
		return slog.FailLevel
	}
	return slog.InfoLevel
}

// the same statement serves the sequential twin and the concurrent run (same caller frame)
func c08Call(e *slog.Entry, ep string, msg string, args []any) {
	switch ep {
	case "SlogNoAttrs":
		c08SlogMu.Lock()
		sl := c08Slog[e]
		c08SlogMu.Unlock()
		sl.Info(msg)
	case "Bridge":
		slog.NewLogLogger(e, slog.InfoLevel).Print(msg)
	case "ThruNil":
		e.WriteThru(context.Background(), slog.InfoLevel, time.Now(), 0, msg, nil)
	case "InfoContext":
		e.InfoContext(c08Ctx(msg), msg, args...)
	case "WarnContext":
		e.WarnContext(c08Ctx(msg), msg, args...)
	case "ErrorContext":
		e.ErrorContext(c08Ctx(msg), msg, args...)
	case "Warn":
		e.Warn(msg, args...)
	case "Error":
		e.Error(msg, args...)
	case "Debug":
		e.Debug(msg, args...)
	case "Trace":
		e.Trace(msg, args...)
	case "Print":
		e.Print(msg, args...)
	case "OK":
		e.OK(msg, args...)
	case "Success":
		e.Success(msg, args...)
	case "Fail":
		e.Fail(msg, args...)
	default:
		e.Info(msg, args...)
	}
}

func c08SetMode(e *slog.Entry, mode string) {
	switch mode {
	case "json":
		e.SetJSONMode(true)
	case "logfmt":
		e.SetJSONMode(false)
		e.SetColorMode(false)
	default:
		e.SetJSONMode(false)
		e.SetColorMode(true)
	}
}

// argument forms: 0 every Attr its own argument, 1 one []Attr, 2 one Attrs,
// 3 key/value pairs for the leaves and Attr arguments for the groups
func c08Args(desc []GAttr, attrs []slog.Attr, form int) []any {
	switch form % 4 {
	case 1:
		return []any{attrs}
	case 2:
		return []any{slog.Attrs(attrs)}
	case 3:
		var out []any
		for i, a := range attrs {
			if a == nil {
				continue
			}
			if desc[i].Val.Kind == "group" {
				out = append(out, a)
			} else {
				out = append(out, desc[i].Key, a.Value())
			}
		}
		return out
	}
	return c08Anys(attrs)
}

func c08DropNils(as []GAttr) []GAttr {
	var out []GAttr
	for _, a := range as {
		if !a.Nil {
			out = append(out, a)
		}
	}
	return out
}

// ---- (i) the frame test ----
type c08FrameCase struct {
	Mode   string   `json:"mode"` // frame
	LAttrs []GAttr  `json:"lattrs"`
	Args   []GAttr  `json:"args"`
	Form   int      `json:"form"`
	EP     string   `json:"ep"`
	Order  []string `json:"order"`
	Caller bool     `json:"caller"`
}

var c08FrameDefect bool // the frame test saw a shared input change in this run

func c08GenFrame(r *Rng) c08FrameCase {
	fc := c08FrameCase{Mode: "frame", Form: r.Intn(4), EP: c08FrameEPs[r.Intn(len(c08FrameEPs))], Caller: r.Chance(30)}
	if r.Chance(60) {
		fc.LAttrs = c08DropNils(c08GenAttrs(r, 0, 2, 3, false, 35))
	}
	fc.Args = c08GenAttrs(r, 0, 2, 4, true, 40)
	if fc.Form%4 == 0 || fc.Form%4 == 3 {
		fc.Args = c08DropNils(fc.Args)
	}
	modes := []string{"json", "logfmt", "color"}
	for i := 2; i > 0; i-- {
		j := r.Intn(i + 1)
		modes[i], modes[j] = modes[j], modes[i]
	}
	fc.Order = modes
	return fc
}

// privacy: the two path-rewriting flags a released program runs with (init() takes Lprivacypathregexp off under
// go test and in debug builds); the caller field of every record then goes through the known-path and regexp rules
func c08Flags(caller, attrsR, privacy bool) {
	slog.AddFlags(slog.LnoInterrupt)
	if privacy {
		slog.AddFlags(slog.Lprivacypath | slog.Lprivacypathregexp)
	} else {
		slog.RemoveFlags(slog.Lprivacypathregexp)
	}
	if caller {
		slog.AddFlags(slog.Lcaller)
	} else {
		slog.RemoveFlags(slog.Lcaller)
	}
	if attrsR {
		slog.AddFlags(slog.LattrsR)
	} else {
		slog.RemoveFlags(slog.LattrsR)
	}
}

// a group object reachable twice (the stale tail of an earlier in-place de-duplication
// repeats pointers): the tree-valued model has no notion of identity, such a state is
// not sent to it
func c08Aliased(lists ...[]slog.Attr) bool {
	seen := map[slog.Attr]bool{}
	var walk func(as []slog.Attr) bool
	walk = func(as []slog.Attr) bool {
		for _, a := range as {
			if a == nil {
				continue
			}
			var items []slog.Attr
			switch z := a.Value().(type) {
			case slog.Attrs:
				items = z
			case []slog.Attr:
				items = z
			case slog.Attr:
				if in, ok := z.Value().(slog.Attrs); ok {
					items = in
				} else {
					continue
				}
			default:
				continue
			}
			if seen[a] {
				return true
			}
			seen[a] = true
			if walk(items) {
				return true
			}
		}
		return false
	}
	for _, l := range lists {
		if walk(l) {
			return true
		}
	}
	return false
}

func c08FrameOne(r *Run, fc c08FrameCase, fixTerm string) {
	c08Flags(fc.Caller, false, false)
	var w *c08W
	var e *slog.Entry
	var args, argsCopy []slog.Attr
	var callArgs []any
	fresh := func() {
		w = &c08W{id: 1}
		e = slog.VerifEntryOf(slog.New("c08f"))
		e.SetLevel(slog.TraceLevel)
		e.SetWriter(w).SetErrorWriter(w)
		if la := c08Build(fc.LAttrs); len(la) > 0 {
			e.SetAttrs(la...)
		}
		args = c08Build(fc.Args)
		callArgs = c08Args(fc.Args, args, fc.Form)
		argsCopy = append([]slog.Attr(nil), args...)
	}
	fresh()
	for ci, mode := range fc.Order {
		if ci > 0 && c08Aliased(slog.VerifAttrsOf(e), args) {
			r.Dist["frame:rebuilt (aliased after an earlier call)"]++
			fresh() // the later calls otherwise run on what the earlier ones left
		}
		c08SetMode(e, mode)
		own := slog.VerifAttrsOf(e)
		ownCopy := append([]slog.Attr(nil), own...)
		bl, ba := c08Snap(own), c08Snap(args)
		nw := len(w.recs)
		c08Call(e, fc.EP, "frame "+mode, callArgs)
		own2 := slog.VerifAttrsOf(e)
		al, aa := c08Snap(own2), c08Snap(args)
		rp := map[string]any{"mode": "frame", "case": fc, "call": ci, "format": mode}
		if len(w.recs) != nw+1 {
			r.Fail("C08/frame-call-not-delivered", fmt.Sprintf("a single %s call on a Trace-level logger delivered %d payloads", fc.EP, len(w.recs)-nw), rp)
		}
		// the top-level slices: same elements, same order
		same := len(own) == len(own2)
		for i := 0; same && i < len(own); i++ {
			same = own2[i] == ownCopy[i]
		}
		if !same {
			r.Fail("C08/logger-attrs-mutated", "the logger's own attribute slice changed during a log call: ["+c08NodesText(bl)+"] -> ["+c08NodesText(al)+"]", rp)
		}
		for i := range args {
			if args[i] != argsCopy[i] {
				r.Fail("C08/arg-slice-mutated", "the caller's attribute slice changed during a log call: ["+c08NodesText(ba)+"] -> ["+c08NodesText(aa)+"]", rp)
				break
			}
		}
		before := append(append([]c08Node{}, bl...), ba...)
		after := append(append([]c08Node{}, al...), aa...)
		if d, depth, what := c08Diff(before, after, 0); d && depth > 0 {
			c08FrameDefect = true
			r.Dist["frame:shared input changed"]++
			r.Fail("C08/shared-group-mutated", fmt.Sprintf("a single %s call (%s) changed the items of an attribute value it was given: %s", fc.EP, mode, what), rp)
		}
		nontrivial := c08HasSortableGroup(before)
		js, _ := json.Marshal(fc)
		r.AddCase(fmt.Sprintf("KFrame %s %s %s", fixTerm, c08NodesCoq(before), c08NodesCoq(after)), rp, nontrivial, string(js)+mode+fmt.Sprint(ci))
		r.Dist["frame:"+mode]++
		r.Dist[fmt.Sprintf("frame:form%d", fc.Form%4)]++
		if nontrivial {
			r.Dist["frame:with sortable group"]++
		}
	}
}

// corpus: the minimal witnesses (duplicate keys, nesting, logger-level group, every constructor)
func c08FrameCorpus() []c08FrameCase {
	leaf := func(k string, i int64) GAttr { return GAttr{Key: k, Val: GVal{Kind: "int", I: i}} }
	grp := func(k string, ctor int, items ...GAttr) GAttr {
		return GAttr{Key: k, Val: GVal{Kind: "group", Ctor: ctor, Items: items}}
	}
	order := []string{"json", "logfmt", "color"}
	var out []c08FrameCase
	for ctor := 0; ctor < 5; ctor++ {
		out = append(out,
			c08FrameCase{Mode: "frame", Args: []GAttr{grp("g", ctor, leaf("z", 1), leaf("a", 2), leaf("m", 3), leaf("a", 4))}, Form: ctor % 4, EP: "Info", Order: order},
			c08FrameCase{Mode: "frame", LAttrs: []GAttr{grp("lg", ctor, leaf("b", 1), leaf("a", 2))}, Args: []GAttr{leaf("x", 1)}, Form: 3, EP: "Warn", Order: order},
			c08FrameCase{Mode: "frame", Args: []GAttr{grp("g", ctor, leaf("c", 1), grp("n", ctor, leaf("y", 1), leaf("x", 2), leaf("y", 3)), leaf("b", 2))}, Form: 1, EP: "Error", Order: order},
			// an earlier duplicate of a group is never printed: its items must stay in both variants
			c08FrameCase{Mode: "frame", Args: []GAttr{grp("g", ctor, leaf("z", 1), leaf("a", 2)), grp("g", ctor, leaf("q", 1), leaf("p", 2))}, Form: 2, EP: "Info", Order: order},
			c08FrameCase{Mode: "frame", Args: []GAttr{grp("g", ctor, leaf("c", 1), leaf("c", 2), leaf("b", 3), leaf("b", 4), leaf("a", 5), leaf("a", 6), leaf("d", 7))}, Form: 0, EP: "Print", Order: order},
		)
	}
	// large groups (more members than any small fixed-size scratch array holds), unsorted, one key twice
	for ctor := 0; ctor < 5; ctor++ {
		for _, n := range []int{6, 10, 17, 24, 40} {
			var items []GAttr
			for i := 0; i < n; i++ {
				items = append(items, leaf(fmt.Sprintf("k%02d", (i*7+3)%n), int64(i)))
			}
			items = append(items, leaf("k01", -1))
			out = append(out,
				c08FrameCase{Mode: "frame", Args: []GAttr{leaf("x", 1), grp("big", ctor, items...)}, Form: ctor % 4, EP: "Info", Order: order},
				c08FrameCase{Mode: "frame", LAttrs: []GAttr{grp("lbig", ctor, items...)}, Args: []GAttr{leaf("x", 1)}, Form: 3, EP: "Warn", Order: order})
		}
	}
	// the entry points that pass no attribute list: the logger's own (unsorted, duplicated) attributes must stay as they are
	for _, ep := range []string{"Bridge", "ThruNil"} {
		out = append(out,
			c08FrameCase{Mode: "frame", LAttrs: []GAttr{leaf("z", 1), leaf("a", 2), leaf("m", 3), leaf("a", 4)}, EP: ep, Order: order},
			c08FrameCase{Mode: "frame", LAttrs: []GAttr{leaf("b", 1), grp("lg", 0, leaf("y", 1), leaf("x", 2)), leaf("a", 2)}, EP: ep, Order: order, Caller: true},
		)
	}
	return out
}

// ---- (iii) race detector ----
type c08RaceOut struct {
	Failures []Failure `json:"failures"`
	Stats    c08Stats  `json:"stats"`
	Race     bool      `json:"race_build"`
}

// child: harness-race C08-race-child <seed> <tier> <sharedsafe> <rounds> [<only round>]
func c08RaceChild(args []string) {
	if len(args) < 4 {
		fmt.Fprintln(os.Stderr, "usage: C08-race-child seed tier sharedsafe rounds [round]")
		os.Exit(2)
	}
	var seed uint64
	fmt.Sscan(args[0], &seed)
	tier := args[1]
	safe := args[2] == "1"
	var rounds int
	fmt.Sscan(args[3], &rounds)
	only := -1
	if len(args) > 4 {
		fmt.Sscan(args[4], &only)
	}
	r := NewRun("C08", tier, seed, os.TempDir())
	var st c08Stats
	for i := 0; i < rounds; i++ {
		if only >= 0 && i != only {
			continue
		}
		rd := c08GenRound(seed+1000003, tier, i, safe)
		c08RunRound(r, rd, &st)
	}
	out := c08RaceOut{Failures: r.Failures, Stats: st, Race: c08RaceEnabled}
	js, _ := json.Marshal(out)
	os.Stdout.Write(js)
}

var c08FrameRx = regexp.MustCompile(`^  (\S.*)\(\)$`)

// short name of a logg frame: slog.(*PrintCtx).appendValue -> PrintCtx.appendValue
func c08ShortFrame(f string) string {
	f = strings.TrimPrefix(f, "github.com/hedzr/logg/slog.")
	if i := strings.Index(f, "["); i >= 0 {
		f = f[:i]
	}
	f = strings.NewReplacer("(*", "", ")", "").Replace(f)
	return f
}

// the access site of one stack of a race report: the innermost frame inside logg
func c08Site(frames []string) string {
	inner := ""
	nser := 0
	nested := false
	for _, f := range frames {
		if strings.HasPrefix(f, "github.com/hedzr/logg/slog.") {
			s := c08ShortFrame(f)
			if inner == "" {
				inner = s
			}
			if s == "serializeAttrs" {
				nser++
			}
			if strings.HasSuffix(s, "SerializeValueTo") {
				nested = true
			}
		}
	}
	if inner == "" {
		for _, f := range frames {
			if strings.HasPrefix(f, "main.") {
				return "harness:" + f
			}
		}
		if len(frames) > 0 {
			return "other:" + frames[0]
		}
		return "unknown"
	}
	if inner == "serializeAttrs" || inner == "dedupeSlice" || strings.HasPrefix(inner, "serializeAttrs.func") {
		if nested || nser >= 2 {
			return "serializeAttrs/nested"
		}
		return "serializeAttrs/top"
	}
	return inner
}

type c08Report struct {
	Key  string `json:"key"`
	Text string `json:"text"`
}

func c08ParseRaces(stderr string) []c08Report {
	var out []c08Report
	parts := strings.Split(stderr, "==================")
	for _, p := range parts {
		if !strings.Contains(p, "WARNING: DATA RACE") {
			continue
		}
		// the stacks of the two accesses: the blocks before the first "Goroutine ... created at"
		var stacks [][]string
		var cur []string
		inAccess := false
		for _, line := range strings.Split(p, "\n") {
			t := strings.TrimSpace(line)
			switch {
			case strings.HasPrefix(t, "Read at"), strings.HasPrefix(t, "Write at"), strings.HasPrefix(t, "Previous read at"),
				strings.HasPrefix(t, "Previous write at"), strings.HasPrefix(t, "Atomic"), strings.HasPrefix(t, "Previous atomic"):
				if inAccess {
					stacks = append(stacks, cur)
				}
				cur, inAccess = nil, true
			case strings.HasPrefix(t, "Goroutine "):
				if inAccess {
					stacks = append(stacks, cur)
				}
				cur, inAccess = nil, false
			default:
				if inAccess {
					if m := c08FrameRx.FindStringSubmatch(line); m != nil {
						cur = append(cur, m[1])
					}
				}
			}
		}
		if inAccess {
			stacks = append(stacks, cur)
		}
		sites := map[string]bool{}
		for i, s := range stacks {
			if i < 2 {
				sites[c08Site(s)] = true
			}
		}
		var names []string
		for s := range sites {
			names = append(names, s)
		}
		sort.Strings(names)
		out = append(out, c08Report{Key: "C08/data-race:" + strings.Join(names, "+"), Text: strings.TrimSpace(p)})
	}
	return out
}

func c08SpawnRace(seed uint64, tier string, safe bool, rounds, only int, timeout time.Duration) (*c08RaceOut, []c08Report, string) {
	return c08SpawnChild(true, seed, tier, safe, rounds, only, timeout)
}

// the stress rounds in a child process: of the race-detector build, or of this binary
// (a memory-corrupting race can kill the process; the parent then still reports)
func c08SpawnChild(race bool, seed uint64, tier string, safe bool, rounds, only int, timeout time.Duration) (*c08RaceOut, []c08Report, string) {
	exe, err := os.Executable()
	must(err)
	bin := exe
	if race {
		bin = filepath.Join(filepath.Dir(exe), "harness-race")
		if _, err := os.Stat(bin); err != nil {
			fmt.Fprintln(os.Stderr, "harness: the race-detector build run/bin/harness-race is missing:", err)
			os.Exit(3)
		}
	}
	s := "0"
	if safe {
		s = "1"
	}
	argv := []string{"C08-race-child", fmt.Sprint(seed), tier, s, fmt.Sprint(rounds)}
	if only >= 0 {
		argv = append(argv, fmt.Sprint(only))
	}
	cmd := exec.Command(bin, argv...)
	cmd.Env = append(os.Environ(), "GORACE=halt_on_error=0 exitcode=0")
	var so, se bytes.Buffer
	cmd.Stdout, cmd.Stderr = &so, &se
	must(cmd.Start())
	done := make(chan error, 1)
	go func() { done <- cmd.Wait() }()
	select {
	case err = <-done:
	case <-time.After(timeout):
		cmd.Process.Kill()
		<-done
		return nil, c08ParseRaces(se.String()), fmt.Sprintf("no result within %v (killed)", timeout)
	}
	reports := c08ParseRaces(se.String())
	if err != nil {
		return nil, reports, "the race-detector child died: " + err.Error() + ": " + c08clip(se.String(), 600)
	}
	var o c08RaceOut
	if e := json.Unmarshal(so.Bytes(), &o); e != nil {
		return nil, reports, "the race-detector child produced no result: " + e.Error()
	}
	return &o, reports, ""
}

// ---- the driver ----
func runC08(r *Run) {
	r.Coq("Require Import Verif.Model.Base Verif.Model.Attrs Verif.Model.Conc Verif.Corr.C08.", "case", "ok")
	r.ShardSize = 60
	r.Rule = "frame case: the call's collected attributes contain a group / Attrs value with >= 2 items (an in-place sort can show); stress round: >= 2 goroutines log concurrently and share a value (the same logger, a shared attribute value or a shared group), one call in eight goes through a log/slog logger derived with With(...) from the round's logger and carries no attributes of its own; half of the rounds after 1-3 blank-line calls (Println() / Print(\"\")) on one more logger; distinct by the full configuration (loggers, formats, destinations, attributes, calls)"
	snap := slog.VerifSnapshot()
	resetProcess(snap)
	defer resetProcess(snap)

	// (i) frame test: corpus first, then generated
	for _, fc := range c08FrameCorpus() {
		c08FrameOne(r, fc, "fix_copy_nested")
	}
	for i, n := 0, r.N(120, 3000); i < n; i++ {
		c08FrameOne(r, c08GenFrame(r.R), "fix_copy_nested")
	}
	safe := c08FrameDefect // today shared groups are sorted in place: share only values that the sort rewrites with themselves
	if safe {
		r.Extra["shared_groups_in_stress"] = "normalised (sorted, one attribute per key): the frame test found that a log call writes to the group items it is given, so arbitrary shared groups would also reorder under concurrency; that defect is reported by the frame test and the race detector"
	} else {
		r.Extra["shared_groups_in_stress"] = "arbitrary (unsorted, duplicate keys, nil entries, every constructor)"
	}

	// (ii) stress: first in a child process of this same binary
	var st c08Stats
	rounds := r.N(60, 1000)
	crp := map[string]any{"mode": "child", "seed": r.Seed, "tier": r.Tier, "shared_safe": safe, "rounds": rounds}
	cout, _, cerr := c08SpawnChild(false, r.Seed-1000003, r.Tier, safe, rounds, -1, time.Duration(r.N(120, 900))*time.Second)
	if cerr != "" {
		r.Fail("C08/crash-under-concurrency", "the process died while goroutines were logging concurrently: "+cerr, crp)
		rounds = 0 // the same rounds would kill this process too
	} else {
		for _, f := range cout.Failures {
			r.Fail(f.Key, "(child process) "+f.Desc, f.Replay)
		}
		r.Dist["stress:child rounds"] = cout.Stats.Rounds
		r.Dist["stress:child payloads checked"] = cout.Stats.Payloads
	}
	for i := 0; i < rounds; i++ {
		rd := c08GenRound(r.Seed, r.Tier, i, safe)
		obs, admitted, dests := c08RunRound(r, rd, &st)
		nt, kind := rd.sharing()
		r.Dist["stress:share "+kind]++
		r.Dist[fmt.Sprintf("stress:goroutines<=%d", []int{4, 8, 16, 32, 64}[c08Bucket(rd.G)])]++
		r.Dist[fmt.Sprintf("stress:loggers=%d", len(rd.Loggers))]++
		for _, ld := range rd.Loggers {
			r.Dist["stress:format "+ld.Mode]++
		}
		if rd.G*rd.N <= 160 {
			sched := c08Schedule(r.R, rd, admitted)
			r.AddCase(c08RunCoq(rd, admitted, dests, sched, obs),
				map[string]any{"mode": "stress", "seed": r.Seed, "tier": r.Tier, "round": rd.Idx, "shared_safe": safe, "g": rd.G, "n": rd.N}, nt, rd.canon())
		} else {
			r.Count(nt, rd.canon())
		}
	}
	r.Dist["stress:rounds"] = st.Rounds
	r.Dist["stress:goroutines"] = st.Goroutines
	r.Dist["stress:calls"] = st.Calls
	r.Dist["stress:admitted calls"] = st.Admitted
	r.Dist["stress:payloads checked"] = st.Payloads

	// (iii) the same under the race detector
	rrounds := r.N(40, 600)
	out, reports, errs := c08SpawnRace(r.Seed, r.Tier, safe, rrounds, -1, time.Duration(r.N(120, 900))*time.Second)
	rrp := map[string]any{"mode": "race", "seed": r.Seed, "tier": r.Tier, "shared_safe": safe, "rounds": rrounds}
	if errs != "" {
		r.Fail("C08/race-child-died", errs, rrp)
	}
	if out != nil {
		if !out.Race {
			r.Fail("C08/race-child-died", "run/bin/harness-race was not built with the race detector", rrp)
		}
		for _, f := range out.Failures {
			r.Fail(f.Key, "(under the race detector) "+f.Desc, f.Replay)
		}
		r.Dist["race:rounds"] = out.Stats.Rounds
		r.Dist["race:goroutines"] = out.Stats.Goroutines
		r.Dist["race:calls"] = out.Stats.Calls
		r.Dist["race:payloads checked"] = out.Stats.Payloads
		r.Evals += out.Stats.Rounds
		r.DistinctExtra += out.Stats.Rounds
	}
	r.Dist["race:reports"] = len(reports)
	perKey := map[string]int{}
	for _, rep := range reports {
		perKey[rep.Key]++
		if len(perKey) > 6 && perKey[rep.Key] == 1 {
			r.Dist["race:further distinct sites (not reported one by one)"]++
		}
		if len(perKey) > 6 {
			if _, seen := r.Dist["oracle_fail:"+rep.Key]; !seen {
				continue // at most six distinct sites become violations of their own
			}
		}
		x := map[string]any{}
		for k, v := range rrp {
			x[k] = v
		}
		x["key"] = rep.Key
		x["report"] = c08clip(rep.Text, 6000)
		r.Fail(rep.Key, "the race detector reports a data race while goroutines log concurrently:\n"+c08clip(rep.Text, 1500), x)
	}
	r.Extra["race_reports_per_site"] = perKey
}

func c08Bucket(g int) int {
	switch {
	case g <= 4:
		return 0
	case g <= 8:
		return 1
	case g <= 16:
		return 2
	case g <= 32:
		return 3
	}
	return 4
}

// ---- replay ----
type c08Replay struct {
	Mode       string       `json:"mode"`
	Case       c08FrameCase `json:"case"`
	Seed       uint64       `json:"seed"`
	Tier       string       `json:"tier"`
	Round      int          `json:"round"`
	SharedSafe bool         `json:"shared_safe"`
	Rounds     int          `json:"rounds"`
	Key        string       `json:"key"`
}

func replayC08(r *Run, file string) {
	var in c08Replay
	loadReplay(file, &in)
	r.Coq("Require Import Verif.Model.Base Verif.Model.Attrs Verif.Model.Conc Verif.Corr.C08.", "case", "ok")
	snap := slog.VerifSnapshot()
	resetProcess(snap)
	switch in.Mode {
	case "frame":
		c08FrameOne(r, in.Case, "fix_copy_nested")
	case "stress":
		var st c08Stats
		for rep := 0; rep < 20 && len(r.Failures) == 0; rep++ { // a schedule cannot be replayed: repeat the round
			c08RunRound(r, c08GenRound(in.Seed, in.Tier, in.Round, in.SharedSafe), &st)
		}
	case "child":
		_, _, errs := c08SpawnChild(false, in.Seed-1000003, in.Tier, in.SharedSafe, in.Rounds, -1, 900*time.Second)
		if errs != "" {
			r.Fail("C08/crash-under-concurrency", errs, nil)
		}
	case "race":
		for rep := 0; rep < 3 && len(r.Failures) == 0; rep++ {
			_, reports, errs := c08SpawnRace(in.Seed, in.Tier, in.SharedSafe, in.Rounds, -1, 900*time.Second)
			if errs != "" {
				r.Fail("C08/race-child-died", errs, nil)
			}
			for _, rp := range reports {
				if in.Key == "" || rp.Key == in.Key {
					r.Fail(rp.Key, c08clip(rp.Text, 1500), nil)
				}
			}
		}
	}
	resetProcess(snap)
	finishReplay(r)
}
